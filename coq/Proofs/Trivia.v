(* Proofs about the trivia index model (Model/Trivia.v). *)
From Coq Require Import List NArith Bool Arith Lia Permutation Sorted.
From PV Require Import Model.Trivia.
Import ListNotations.
Open Scope N_scope.

(* ---- smallest witnesses for the code as it is ---- *)
(* [x ]: the space before the closer is in no list of the index *)
Definition wit_drop : list tok :=
  [Fused 1 4 BBrackets [91] [93] [Leaf 2 COther [120]; Leaf 3 CSpace [32]]].

(* ; (a): after the push-back the fused token is registered under its close id, the open paren has no entry *)
Definition wit_cv : list tok :=
  [Leaf 1 CSemi [59]; Leaf 2 CSpace [32]; Fused 3 5 BParens [40] [41] [Leaf 4 COther [97]]].

(* x without a final newline *)
Definition wit_nonl : list tok := [Leaf 1 COther [120]].

(* x;  (newline) y;  -- the two spaces after the first declaration are lost by Print *)
Definition wit_decl : list tok :=
  [Leaf 1 COther [120]; Leaf 2 CSemi [59]; Leaf 3 CSpace [32; 32]; Leaf 4 CNewline [10];
   Leaf 5 COther [121]; Leaf 6 CSemi [59]; Leaf 7 CNewline [10]].

(* ---- statements (shared by the theorems below and by Props/C30.v) ---- *)
(* token ids are unique and non-zero (0 is the key of the file scope) *)
Fixpoint all_ids_tok (t : tok) : list N :=
  match t with
  | Leaf i _ _ => [i]
  | Fused io ic _ _ _ ch =>
    io :: (fix go (l : list tok) := match l with [] => [] | x :: r => all_ids_tok x ++ go r end) ch ++ [ic]
  end.
Fixpoint all_ids (l : list tok) : list N :=
  match l with [] => [] | x :: r => all_ids_tok x ++ all_ids r end.
Definition wf_toks (l : list tok) : Prop := NoDup (all_ids l) /\ ~ In 0 (all_ids l).

(* the skippable tokens found in the lists of the index that belong to the tokens and scopes of
   the tree, in the order in which the tree is traversed *)
Definition att_of (ix : index) (i : N) : list tok * list tok :=
  match alookup i (i_att ix) with Some a => (a_lead a, a_trail a) | None => ([], []) end.

(* partition: reading the index along the tree (slot before each declaration start, leading,
   trailing, the remaining slots before the closer) yields every skippable token of the source
   exactly once, in stream order *)
Definition tree_trivia (ix : index) (toks : list tok) : list (N * list N) :=
  filter (fun p => existsb (fun t => (open_id t =? fst p)) (trivia_of toks)) (emit_roundtrip ix toks).

Lemma partition_refuted_asis :
  exists toks ix, wf_toks toks /\ build cfg_asis toks = Some ix /\
                  ~ Permutation (index_trivia ix) (trivia_of toks).
Proof.
  exists wit_drop. eexists. split; [|split].
  - split; vm_compute.
    + repeat constructor; intros H; repeat (destruct H as [H|H]; try discriminate H); exact H.
    + intros H; repeat (destruct H as [H|H]; try discriminate H); exact H.
  - vm_compute. reflexivity.
  - vm_compute. intros H. apply Permutation_length in H. discriminate H.
Qed.

Lemma roundtrip_refuted_asis :
  exists toks ix, wf_toks toks /\ build cfg_asis toks = Some ix /\
                  emit_roundtrip ix toks <> flatten toks.
Proof.
  exists wit_cv. eexists. split; [|split].
  - split; vm_compute.
    + repeat constructor; intros H; repeat (destruct H as [H|H]; try discriminate H); exact H.
    + intros H; repeat (destruct H as [H|H]; try discriminate H); exact H.
  - vm_compute. reflexivity.
  - vm_compute. discriminate.
Qed.

Lemma print_file_refuted_asis :
  exists toks, wf_toks toks /\ print_file_rt cfg_asis toks <> Some (source_text toks).
Proof.
  exists wit_nonl. split.
  - split; vm_compute.
    + repeat constructor; intros H; repeat (destruct H as [H|H]; try discriminate H); exact H.
    + intros H; repeat (destruct H as [H|H]; try discriminate H); exact H.
  - vm_compute. discriminate.
Qed.

Lemma per_decl_refuted_asis :
  exists toks ds tail, wf_toks toks /\ print_decls cfg_asis toks = Some (ds, tail) /\
                       concat ds ++ tail <> source_text toks.
Proof.
  exists wit_decl. eexists. eexists. split; [|split].
  - split; vm_compute.
    + repeat constructor; intros H; repeat (destruct H as [H|H]; try discriminate H); exact H.
    + intros H; repeat (destruct H as [H|H]; try discriminate H); exact H.
  - vm_compute. reflexivity.
  - vm_compute. discriminate.
Qed.

(* ---- fuel: build never runs out ---- *)
Lemma tok_size_fused io ic b ox cx ch :
  tok_size (Fused io ic b ox cx ch) = (3 + toks_size ch)%nat.
Proof.
  cbn [tok_size]. induction ch as [|x r IH]; cbn [toks_size]; [reflexivity|lia].
Qed.

Lemma tok_size_pos t : (1 <= tok_size t)%nat.
Proof. destruct t; [cbn; lia|rewrite tok_size_fused; lia]. Qed.

Lemma gather_app l : fst (gather l) ++ snd (gather l) = l.
Proof.
  induction l as [|t r IH]; cbn [gather]; [reflexivity|].
  destruct (skippable t); [|reflexivity].
  destruct (gather r) as [a b]; cbn [fst snd app] in *. now rewrite IH.
Qed.

Lemma toks_size_app a b : toks_size (a ++ b) = (toks_size a + toks_size b)%nat.
Proof. induction a as [|x r IH]; cbn [toks_size app]; [reflexivity|rewrite IH; lia]. Qed.

Lemma gather_size l : (toks_size (snd (gather l)) <= toks_size l)%nat.
Proof. rewrite <- (gather_app l) at 2. rewrite toks_size_app. lia. Qed.

Definition stop_rest (s : tstop) : list tok :=
  match s with TEnd => [] | TStopInline r => r | TStopAfterNl r => r end.

Lemma trail_loop_size rest an acc :
  (toks_size (stop_rest (snd (trail_loop rest an acc))) <= toks_size rest)%nat.
Proof.
  revert an acc. induction rest as [|t r IH]; intros an acc; cbn [trail_loop]; [cbn; lia|].
  destruct (negb an && negb (is_cls CNewline t) && negb (is_cls CSpace t) && negb (is_comment t)); [cbn; lia|].
  destruct (an && negb (is_cls CNewline t) && negb (is_cls CSpace t)); [cbn; lia|].
  specialize (IH (an || is_cls CNewline t) (acc ++ [t])). cbn [toks_size]. pose proof (tok_size_pos t). lia.
Qed.

Lemma decl_finish_size cf ix e es p rest :
  (toks_size (r_rest (decl_finish cf ix e es p rest)) <= toks_size rest)%nat.
Proof.
  unfold decl_finish. pose proof (trail_loop_size rest false []) as H.
  destruct (trail_loop rest false []) as [[tr an] st]. cbn [snd] in H.
  destruct st; cbn [stop_rest] in H.
  - repeat match goal with |- context [if ?c then _ else _] => destruct c end; cbn; lia.
  - cbn. exact H.
  - destruct (split_detached _). cbn. exact H.
Qed.

Lemma fuel_mutual : forall f,
  (forall cf scope mode pending rest cv slots bbs starts hb ix,
      (toks_size rest < f)%nat ->
      walk_scope f cf scope mode pending rest cv slots bbs starts hb ix <> None)
  /\ (forall cf mode first t rest pending sa e ix,
      (tok_size t + toks_size rest <= f)%nat ->
      exists res, decl_loop f cf mode first t rest pending sa e ix = Some res
                  /\ (toks_size (r_rest res) <= toks_size rest)%nat)
  /\ (forall cf t sa ix, is_fused t = true -> (tok_size t <= S f)%nat -> walk_fused f cf t sa ix <> None).
Proof.
  induction f as [|f IH].
  - split; [|split].
    + intros. lia.
    + intros. pose proof (tok_size_pos t). lia.
    + intros cf t sa ix Hfu H. destruct t; [discriminate Hfu|rewrite tok_size_fused in H; lia].
  - destruct IH as [IHs [IHd IHf]]. split; [|split].
    + intros cf scope mode pending rest cv slots bbs starts hb ix Hsz.
      cbn [walk_scope]. pose proof (gather_size rest) as Hg.
      destruct (gather rest) as [sk rest1]. cbn [snd] in Hg.
      destruct rest1 as [|t r]; [discriminate|].
      cbn [toks_size] in Hg.
      match goal with |- context [split_detached ?p] => destruct (split_detached p) as [d a] end.
      match goal with |- context [decl_loop f ?a1 ?a2 ?a3 ?a4 ?a5 ?a6 ?a7 ?a8 ?a9] =>
        destruct (IHd a1 a2 a3 a4 a5 a6 a7 a8 a9) as [res [Hres Hle]]; [lia|rewrite Hres] end.
      apply IHs. pose proof (tok_size_pos t). lia.
    + intros cf mode first t rest pending sa e ix Hsz.
      cbn [decl_loop].
      match goal with |- context [if is_fused t then walk_fused f cf t ?s ?i else Some ?j] =>
        assert (Hwf : exists ix', (if is_fused t then walk_fused f cf t s i else Some j) = Some ix') end.
      { destruct (is_fused t) eqn:Hfu.
        - match goal with |- exists _, walk_fused f cf t ?s ?i = _ =>
            destruct (walk_fused f cf t s i) eqn:Hw; [eexists; reflexivity|] end.
          exfalso. revert Hw. apply IHf; [exact Hfu|lia].
        - eexists; reflexivity. }
      destruct Hwf as [ix' Hwf]. rewrite Hwf.
      match goal with |- context [if ?c then Some (decl_finish _ _ _ _ [] rest) else _] => destruct c end.
      * eexists. split; [reflexivity|apply decl_finish_size].
      * pose proof (gather_size rest) as Hg. destruct (gather rest) as [sk rest1]. cbn [snd] in Hg.
        destruct rest1 as [|t' r'].
        -- eexists. split; [reflexivity|]. etransitivity; [apply decl_finish_size|cbn; lia].
        -- cbn [toks_size] in Hg. pose proof (tok_size_pos t).
           destruct (IHd cf mode false t' r' sk (sa || is_cls CAssign t) (close_id t) ix') as [res [Hres Hle]]; [lia|].
           exists res. split; [exact Hres|lia].
    + intros cf t sa ix Hfu Hsz. cbn [walk_fused]. destruct t as [|io ic b ox cx ch]; [discriminate|].
      rewrite tok_size_fused in Hsz.
      match goal with |- context [walk_scope f ?a1 ?a2 ?a3 ?a4 ?a5 ?a6 ?a7 ?a8 ?a9 ?a10 ?a11] =>
        destruct (walk_scope f a1 a2 a3 a4 a5 a6 a7 a8 a9 a10 a11) eqn:Hw end.
      * destruct (split_detached _). discriminate.
      * exfalso. revert Hw. apply IHs. lia.
Qed.

Lemma build_total_lemma : forall cf toks, build cf toks <> None.
Proof. intros cf toks. unfold build. apply (proj1 (fuel_mutual _)). lia. Qed.

(* ---- an induction principle for token trees ---- *)
Section tok_induction.
  Variable Q : tok -> Prop.
  Hypothesis Hleaf : forall i c x, Q (Leaf i c x).
  Hypothesis Hfused : forall io ic b ox cx ch, Forall Q ch -> Q (Fused io ic b ox cx ch).
  Fixpoint tok_ind2 (t : tok) : Q t :=
    match t with
    | Leaf i c x => Hleaf i c x
    | Fused io ic b ox cx ch =>
      Hfused io ic b ox cx ch
             ((fix go (l : list tok) : Forall Q l :=
                 match l with
                 | [] => Forall_nil Q
                 | x :: r => Forall_cons x (tok_ind2 x) (go r)
                 end) ch)
    end.
End tok_induction.

(* ---- the emission without the pending buffer ---- *)
Definition lead (ix : index) (i : N) : list tok := fst (att_of ix i).
Definition trail (ix : index) (i : N) : list tok := snd (att_of ix i).
Definition has_att (ix : index) (i : N) : Prop := alookup i (i_att ix) <> None.

Definition E_seq (f : tok -> list (N * list N)) :=
  fix go (l : list tok) (slots : list (list tok)) (starts : list N) {struct l} : list (N * list N) :=
  match l with
  | [] => pieces (concat slots)
  | t :: r =>
    if skippable t then go r slots starts
    else
      match starts, slots with
      | s :: starts', sl :: slots' =>
        if (s =? open_id t) || (s =? close_id t)
        then pieces sl ++ f t ++ go r slots' starts'
        else f t ++ go r slots starts
      | _, _ => f t ++ go r slots starts
      end
  end.

Fixpoint E_tok (ix : index) (t : tok) : list (N * list N) :=
  match t with
  | Leaf i _ x => pieces (lead ix i) ++ [(i, x)] ++ pieces (trail ix i)
  | Fused io ic _ ox cx ch =>
    let d := get_det io ix in
    pieces (lead ix io) ++ [(io, ox)] ++ pieces (trail ix io)
    ++ E_seq (E_tok ix) ch (d_slots d) (d_starts d)
    ++ pieces (lead ix ic) ++ [(ic, cx)] ++ pieces (trail ix ic)
  end.

(* every non-skippable token of the tree has an entry in the attached map *)
Fixpoint covered_tok (ix : index) (t : tok) : Prop :=
  match t with
  | Leaf i _ _ => skippable t = true \/ has_att ix i
  | Fused io ic _ _ _ ch =>
    has_att ix io /\ has_att ix ic /\
    (fix go (l : list tok) : Prop := match l with [] => True | x :: r => covered_tok ix x /\ go r end) ch
  end.
Fixpoint covered (ix : index) (l : list tok) : Prop :=
  match l with [] => True | x :: r => covered_tok ix x /\ covered ix r end.

Lemma covered_fused ix io ic b ox cx ch :
  covered_tok ix (Fused io ic b ox cx ch) <-> has_att ix io /\ has_att ix ic /\ covered ix ch.
Proof.
  cbn [covered_tok]. assert (H : forall l, (fix go (l : list tok) : Prop :=
     match l with [] => True | x :: r => covered_tok ix x /\ go r end) l <-> covered ix l).
  { induction l as [|x r IH]; cbn [covered]; [tauto|rewrite IH; tauto]. }
  rewrite H. tauto.
Qed.

Lemma pieces_app a b : pieces (a ++ b) = pieces a ++ pieces b.
Proof. unfold pieces. apply map_app. Qed.

Lemma ext2 {A} (o p y d : list A) : o ++ p = y -> o ++ p ++ d = y ++ d.
Proof. intros <-. now rewrite app_assoc. Qed.

Lemma print_token_E ix i x pend out :
  has_att ix i ->
  let '(p', o') := print_token ix i x (pend, out) in
  o' ++ pieces p' = out ++ pieces pend ++ pieces (lead ix i) ++ [(i, x)] ++ pieces (trail ix i).
Proof.
  intros H. unfold print_token, lead, trail, att_of. unfold has_att in H.
  destruct (alookup i (i_att ix)) as [a|]; [|congruence]. cbn [fst snd].
  rewrite pieces_app. repeat rewrite <- app_assoc. reflexivity.
Qed.

Lemma emit_E_tok ix t :
  covered_tok ix t -> skippable t = false ->
  forall pend out,
    let '(p', o') := emit_tok ix t (pend, out) in
    o' ++ pieces p' = out ++ pieces pend ++ E_tok ix t.
Proof.
  induction t as [i c x|io ic b ox cx ch IH] using tok_ind2; intros Hc Hs pend out.
  - cbn [emit_tok E_tok]. cbn [covered_tok] in Hc. destruct Hc as [Hc|Hc]; [congruence|].
    apply (print_token_E ix i x pend out Hc).
  - apply covered_fused in Hc. destruct Hc as [Ho [Hcl Hch]].
    cbn [emit_tok E_tok].
    pose proof (print_token_E ix io ox pend out Ho) as H1.
    destruct (print_token ix io ox (pend, out)) as [p1 o1].
    set (d := get_det io ix).
    assert (Hseq : forall l slots starts p o, Forall (fun t => covered_tok ix t -> skippable t = false ->
                forall pend out, let '(p', o') := emit_tok ix t (pend, out) in
                                 o' ++ pieces p' = out ++ pieces pend ++ E_tok ix t) l ->
              covered ix l ->
              let '(p', o') := emit_seq (emit_tok ix) l slots starts (p, o) in
              o' ++ pieces p' = o ++ pieces p ++ E_seq (E_tok ix) l slots starts).
    { clear. induction l as [|t r IHl]; intros slots starts p o HF Hcov.
      - cbn [emit_seq E_seq fst snd]. rewrite pieces_app. reflexivity.
      - inversion HF as [|? ? Ht Hr]; subst. cbn [covered] in Hcov. destruct Hcov as [Hct Hcr].
        cbn [emit_seq E_seq]. destruct (skippable t) eqn:Hsk; [apply IHl; assumption|].
        assert (Hstep : forall p o sl st,
                   let '(p', o') := emit_seq (emit_tok ix) r sl st (emit_tok ix t (p, o)) in
                   o' ++ pieces p' = o ++ pieces p ++ E_tok ix t ++ E_seq (E_tok ix) r sl st).
        { intros p0 o0 sl st. specialize (Ht Hct eq_refl p0 o0). destruct (emit_tok ix t (p0, o0)) as [p1 o1].
          specialize (IHl sl st p1 o1 Hr Hcr). destruct (emit_seq (emit_tok ix) r sl st (p1, o1)) as [p2 o2].
          rewrite IHl. rewrite (ext2 _ _ _ _ Ht). repeat rewrite <- app_assoc. reflexivity. }
        destruct starts as [|s starts']; [apply Hstep|]. destruct slots as [|sl slots']; [apply Hstep|].
        destruct ((s =? open_id t) || (s =? close_id t)); [|apply Hstep].
        cbn [fst snd]. specialize (Hstep (p ++ sl) o slots' starts').
        destruct (emit_seq (emit_tok ix) r slots' starts' (emit_tok ix t (p ++ sl, o))) as [p2 o2].
        rewrite Hstep. rewrite pieces_app. repeat rewrite <- app_assoc. reflexivity. }
    specialize (Hseq ch (d_slots d) (d_starts d) p1 o1 IH Hch).
    destruct (emit_seq (emit_tok ix) ch (d_slots d) (d_starts d) (p1, o1)) as [p2 o2].
    pose proof (print_token_E ix ic cx p2 o2 Hcl) as H3.
    destruct (print_token ix ic cx (p2, o2)) as [p3 o3].
    rewrite H3. rewrite (ext2 _ _ _ _ Hseq). repeat rewrite <- app_assoc.
    rewrite (ext2 _ _ _ _ H1). repeat rewrite <- app_assoc. reflexivity.
Qed.

Lemma emit_E_seq ix l : forall slots starts p o,
  covered ix l ->
  let '(p', o') := emit_seq (emit_tok ix) l slots starts (p, o) in
  o' ++ pieces p' = o ++ pieces p ++ E_seq (E_tok ix) l slots starts.
Proof.
  induction l as [|t r IHl]; intros slots starts p o Hcov.
  - cbn [emit_seq E_seq fst snd]. rewrite pieces_app. reflexivity.
  - cbn [covered] in Hcov. destruct Hcov as [Hct Hcr].
    cbn [emit_seq E_seq]. destruct (skippable t) eqn:Hsk; [apply IHl; assumption|].
    assert (Hstep : forall p o sl st,
               let '(p', o') := emit_seq (emit_tok ix) r sl st (emit_tok ix t (p, o)) in
               o' ++ pieces p' = o ++ pieces p ++ E_tok ix t ++ E_seq (E_tok ix) r sl st).
    { intros p0 o0 sl st. pose proof (emit_E_tok ix t Hct Hsk p0 o0) as Ht.
      destruct (emit_tok ix t (p0, o0)) as [p1 o1].
      specialize (IHl sl st p1 o1 Hcr). destruct (emit_seq (emit_tok ix) r sl st (p1, o1)) as [p2 o2].
      rewrite IHl. rewrite (ext2 _ _ _ _ Ht). repeat rewrite <- app_assoc. reflexivity. }
    destruct starts as [|s starts']; [apply Hstep|]. destruct slots as [|sl slots']; [apply Hstep|].
    destruct ((s =? open_id t) || (s =? close_id t)); [|apply Hstep].
    cbn [fst snd]. specialize (Hstep (p ++ sl) o slots' starts').
    destruct (emit_seq (emit_tok ix) r slots' starts' (emit_tok ix t (p ++ sl, o))) as [p2 o2].
    rewrite Hstep. rewrite pieces_app. repeat rewrite <- app_assoc. reflexivity.
Qed.

Lemma emit_roundtrip_E ix toks :
  covered ix toks ->
  emit_roundtrip ix toks = E_seq (E_tok ix) toks (d_slots (get_det 0 ix)) (d_starts (get_det 0 ix)).
Proof.
  intros Hc. unfold emit_roundtrip, emit_file.
  pose proof (emit_E_seq ix toks (d_slots (get_det 0 ix)) (d_starts (get_det 0 ix)) [] [] Hc) as H.
  destruct (emit_seq _ _ _ _ _) as [p o]. exact H.
Qed.

(* ---- association lists ---- *)
Lemma alookup_aset_eq {A} k (v : A) m : alookup k (aset k v m) = Some v.
Proof.
  induction m as [|[k' v'] r IH]; cbn [aset alookup].
  - now rewrite N.eqb_refl.
  - destruct (k =? k') eqn:E; cbn [alookup]; [now rewrite N.eqb_refl|now rewrite E].
Qed.

Lemma alookup_aset_neq {A} k k' (v : A) m : k <> k' -> alookup k (aset k' v m) = alookup k m.
Proof.
  intros Hne. induction m as [|[k2 v2] r IH]; cbn [aset alookup].
  - destruct (k =? k') eqn:E; [apply N.eqb_eq in E; congruence|reflexivity].
  - destruct (k' =? k2) eqn:E2; cbn [alookup].
    + apply N.eqb_eq in E2. subst k2. destruct (k =? k') eqn:E; [apply N.eqb_eq in E; congruence|reflexivity].
    + destruct (k =? k2); [reflexivity|exact IH].
Qed.

Definition same_at (ix ix' : index) (k : N) : Prop :=
  alookup k (i_att ix) = alookup k (i_att ix') /\ alookup k (i_det ix) = alookup k (i_det ix').
Definition agree (K : list N) (ix ix' : index) : Prop := forall k, In k K -> same_at ix ix' k.

Lemma same_at_refl ix k : same_at ix ix k. Proof. split; reflexivity. Qed.
Lemma same_at_trans a b c k : same_at a b k -> same_at b c k -> same_at a c k.
Proof. intros [H1 H2] [H3 H4]. split; congruence. Qed.
Lemma same_at_sym a b k : same_at a b k -> same_at b a k.
Proof. intros [H1 H2]. split; congruence. Qed.

Lemma set_leading_other id l ix k : k <> id -> same_at ix (set_leading id l ix) k.
Proof. intros H. split; cbn; [symmetry; now apply alookup_aset_neq|reflexivity]. Qed.
Lemma set_trailing_other id l ix k : k <> id -> same_at ix (set_trailing id l ix) k.
Proof. intros H. split; cbn; [symmetry; now apply alookup_aset_neq|reflexivity]. Qed.
Lemma set_trailing_if_other id l ix k : k <> id -> same_at ix (set_trailing_if id l ix) k.
Proof. intros H. unfold set_trailing_if. destruct (nonempty l); [now apply set_trailing_other|apply same_at_refl]. Qed.
Lemma set_det_att id d ix k : alookup k (i_att (set_det id d ix)) = alookup k (i_att ix).
Proof. reflexivity. Qed.
Lemma set_det_other id d ix k : k <> id -> same_at ix (set_det id d ix) k.
Proof. intros H. split; cbn; [reflexivity|symmetry; now apply alookup_aset_neq]. Qed.

Lemma set_leading_get id l ix : alookup id (i_att (set_leading id l ix)) = Some (mkAtt l []).
Proof. cbn. apply alookup_aset_eq. Qed.
Lemma set_trailing_get id tr ix l :
  alookup id (i_att ix) = Some (mkAtt l []) ->
  alookup id (i_att (set_trailing id tr ix)) = Some (mkAtt l tr).
Proof. intros H. cbn. rewrite H. cbn. apply alookup_aset_eq. Qed.
Lemma set_trailing_if_get id tr ix l :
  alookup id (i_att ix) = Some (mkAtt l []) ->
  alookup id (i_att (set_trailing_if id tr ix)) = Some (mkAtt l tr).
Proof.
  intros H. unfold set_trailing_if. destruct tr as [|x r]; cbn [nonempty]; [exact H|now apply set_trailing_get].
Qed.
Lemma set_leading_det id l ix k : alookup k (i_det (set_leading id l ix)) = alookup k (i_det ix).
Proof. reflexivity. Qed.
Lemma set_trailing_det id l ix k : alookup k (i_det (set_trailing id l ix)) = alookup k (i_det ix).
Proof. reflexivity. Qed.
Lemma set_trailing_if_det id l ix k : alookup k (i_det (set_trailing_if id l ix)) = alookup k (i_det ix).
Proof. unfold set_trailing_if. destruct (nonempty l); reflexivity. Qed.

(* ---- list facts about the helpers ---- *)
Lemma split_detached_app l : fst (split_detached l) ++ snd (split_detached l) = l.
Proof.
  unfold split_detached. destruct (sd_scan _ _ _); cbn [fst snd]; [apply firstn_skipn|reflexivity].
Qed.

Lemma split_detached_eq l d a : split_detached l = (d, a) -> d ++ a = l.
Proof. intros H. pose proof (split_detached_app l) as H2. rewrite H in H2. exact H2. Qed.

Lemma firstn_skipn_app3 {A} (n : nat) (l d a : list A) :
  d ++ a = skipn n l -> firstn (n + length d) l = firstn n l ++ d.
Proof.
  revert l. induction n as [|n IH]; intros l H.
  - cbn [skipn firstn plus app] in *. rewrite <- H. rewrite firstn_app, firstn_all, Nat.sub_diag. cbn. now rewrite app_nil_r.
  - destruct l as [|x r].
    + cbn in H. destruct d; [|discriminate]. reflexivity.
    + cbn [skipn] in H. cbn [plus firstn app]. f_equal. now apply IH.
Qed.

Lemma trail_loop_spec rest : forall an acc tr an' st,
  trail_loop rest an acc = (tr, an', st) ->
  exists C, tr = acc ++ C /\ rest = C ++ stop_rest st /\ forallb skippable C = true
            /\ (st = TEnd -> stop_rest st = [])
            /\ (an' = false -> forallb (fun t => negb (has_nl t)) C = true)
            /\ (an = true -> an' = true).
Proof.
  induction rest as [|t r IH]; intros an acc tr an' st H; cbn [trail_loop] in H.
  - inversion H; subst. exists []. rewrite app_nil_r. repeat split; auto.
  - destruct (negb an && negb (is_cls CNewline t) && negb (is_cls CSpace t) && negb (is_comment t)) eqn:E1.
    { inversion H; subst. exists []. rewrite app_nil_r. repeat split; auto; discriminate. }
    destruct (an && negb (is_cls CNewline t) && negb (is_cls CSpace t)) eqn:E2.
    { inversion H; subst. exists []. rewrite app_nil_r. repeat split; auto; discriminate. }
    destruct (IH _ _ _ _ _ H) as [C [H1 [H2 [H3 [H4 [H5 H6]]]]]].
    exists (t :: C). rewrite H1. rewrite <- app_assoc. cbn [app].
    assert (Hsk : skippable t = true).
    { unfold skippable, is_comment in *. destruct an; cbn in E1, E2;
        destruct (is_cls CNewline t), (is_cls CSpace t), (is_cls CLine t), (is_cls CBlock t); cbn in *; try reflexivity; try discriminate. }
    repeat split; auto.
    + now rewrite H2.
    + cbn [forallb]. now rewrite Hsk, H3.
    + intros Han'. cbn [forallb]. rewrite (H5 Han'). unfold has_nl.
      destruct (is_cls CNewline t) eqn:En; [|reflexivity].
      exfalso. rewrite orb_true_r in H6. specialize (H6 eq_refl). congruence.
    + intros Han. apply H6. now rewrite Han.
Qed.

(* ---- guards for the code as it is ---- *)
(* trivia between the last token of a scope and its closer survives iff each of its two parts
   (before / from the first newline) is empty or holds a comment *)
Definition tail_ok (p : list tok) : bool :=
  let fn := first_newline_index p in
  (Nat.eqb fn 0 || slice_has_comment (firstn fn p))
  && (negb (nonempty (skipn fn p)) || slice_has_comment (skipn fn p)).

(* after this position, is the next token on the same line a fused one *)
Definition cv_after (rest : list tok) : bool :=
  match trail_loop rest false [] with
  | (_, _, TStopInline r) => head_is_fused r
  | _ => false
  end.

Lemma decl_finish_cv cf ix e es p rest : r_cv (decl_finish cf ix e es p rest) = cv_after rest.
Proof.
  unfold decl_finish, cv_after. destruct (trail_loop rest false []) as [[tr an] st].
  destruct st; [|reflexivity|destruct (split_detached _); reflexivity].
  repeat match goal with |- context [if ?c then _ else _] => destruct c end; reflexivity.
Qed.

Lemma decl_finish_spec cf ix endId endSemi pending rest l0 :
  (pending = [] \/ rest = []) ->
  (fix_keep_ws cf = true \/ tail_ok pending = true) ->
  alookup endId (i_att ix) = Some (mkAtt l0 []) ->
  exists C TR,
    rest = C ++ r_rest (decl_finish cf ix endId endSemi pending rest)
    /\ forallb skippable C = true
    /\ r_idx (decl_finish cf ix endId endSemi pending rest) = set_trailing_if endId TR ix
    /\ TR ++ r_pushed (decl_finish cf ix endId endSemi pending rest) = pending ++ C.
Proof.
  intros Hpr Hg Hatt. unfold decl_finish.
  destruct (trail_loop rest false []) as [[tr an] st] eqn:Htl.
  destruct (trail_loop_spec _ _ _ _ _ _ Htl) as [C [Htr [Hrest [Hsk [Hend [Hnl _]]]]]].
  cbn [app] in Htr. subst tr.
  assert (Hpend : st <> TEnd -> pending = []).
  { intros Hst. destruct Hpr as [Hp|Hr]; [exact Hp|]. subst rest.
    cbn in Htl. inversion Htl. subst. congruence. }
  destruct st as [|rest'|rest']; cbn [stop_rest] in Hrest.
  - (* TEnd *)
    rewrite app_nil_r in Hrest. subst C.
    destruct (nonempty pending && negb (nonempty rest)) eqn:Hc1.
    + apply andb_true_iff in Hc1. destruct Hc1 as [Hp Hr]. destruct rest as [|x r]; [|discriminate Hr].
      exists [], (if slice_has_comment (firstn (first_newline_index pending) pending)
                  then firstn (first_newline_index pending) pending else []).
      cbn [r_rest r_idx r_pushed].
      split; [reflexivity|split; [reflexivity|split; [reflexivity|]]]. rewrite (app_nil_r pending).
      set (fn := first_newline_index pending) in *.
      destruct (slice_has_comment (firstn fn pending)) eqn:HC.
      * rewrite andb_false_r. cbn [negb].
        destruct Hg as [Hk|Ht].
        -- rewrite Hk. cbn [orb]. apply firstn_skipn.
        -- unfold tail_ok in Ht. fold fn in Ht. apply andb_true_iff in Ht. destruct Ht as [_ Ht].
           destruct (fix_keep_ws cf); cbn [orb]; [apply firstn_skipn|].
           destruct (slice_has_comment (skipn fn pending)) eqn:HC2; [apply firstn_skipn|].
           rewrite orb_false_r in Ht. destruct (skipn fn pending) eqn:Hs; [|discriminate Ht].
           rewrite <- (firstn_skipn fn pending) at 2. now rewrite Hs.
      * rewrite andb_true_r. cbn [app].
        destruct Hg as [Hk|Ht].
        -- rewrite Hk. cbn [negb orb skipn]. reflexivity.
        -- unfold tail_ok in Ht. fold fn in Ht. rewrite HC in Ht. rewrite orb_false_r in Ht.
           apply andb_true_iff in Ht. destruct Ht as [Hfn Ht]. apply Nat.eqb_eq in Hfn.
           destruct (fix_keep_ws cf); cbn [negb orb skipn]; [reflexivity|].
           rewrite Hfn in *. cbn [skipn] in *.
           destruct (slice_has_comment pending); [reflexivity|].
           rewrite orb_false_r in Ht. destruct pending; [reflexivity|discriminate Ht].
    + assert (Hp : pending = [] \/ rest <> []).
      { destruct pending; [now left|]. cbn in Hc1. destruct rest; [discriminate|right; discriminate]. }
      assert (Hp0 : pending = []).
      { destruct Hp as [Hp|Hr]; [exact Hp|]. destruct Hpr as [Hp|Hr2]; [exact Hp|contradiction]. }
      subst pending. cbn [app].
      destruct (negb an && nonempty rest && endSemi && existsb (is_cls CBlock) rest).
      * exists rest, []. cbn [r_rest r_idx r_pushed set_trailing_if nonempty]. rewrite app_nil_r. repeat split; auto.
      * destruct an.
        -- exists rest, (firstn (first_newline_index rest) rest).
           cbn [r_rest r_idx r_pushed]. rewrite app_nil_r. repeat split; auto. apply firstn_skipn.
        -- exists rest, rest. cbn [r_rest r_idx r_pushed]. rewrite !app_nil_r. repeat split; auto.
  - (* inline stop *)
    rewrite (Hpend ltac:(discriminate)). exists C, C. cbn [r_rest r_idx r_pushed app]. rewrite app_nil_r. repeat split; auto.
  - (* stop after a newline *)
    rewrite (Hpend ltac:(discriminate)).
    destruct (split_detached (skipn (first_newline_index C) C)) as [d a] eqn:Hsd.
    exists C, (firstn (first_newline_index C + length d) C).
    cbn [r_rest r_idx r_pushed app]. repeat split; auto.
    pose proof (split_detached_eq _ _ _ Hsd) as Hda.
    rewrite (firstn_skipn_app3 _ _ _ _ Hda). rewrite <- app_assoc. rewrite Hda. apply firstn_skipn.
Qed.

(* ---- facts about E, flatten and ids ---- *)
Definition EP (ix : index) (l : list tok) : list (N * list N) := E_seq (E_tok ix) l [] [].

Definition Etail (ix : index) (t : tok) : list (N * list N) :=
  match t with
  | Leaf i _ x => [(i, x)] ++ pieces (trail ix i)
  | Fused io ic _ ox cx ch =>
    let d := get_det io ix in
    [(io, ox)] ++ pieces (trail ix io) ++ E_seq (E_tok ix) ch (d_slots d) (d_starts d)
    ++ pieces (lead ix ic) ++ [(ic, cx)] ++ pieces (trail ix ic)
  end.

Lemma E_tok_Etail ix t : E_tok ix t = pieces (lead ix (open_id t)) ++ Etail ix t.
Proof. destruct t; reflexivity. Qed.

Lemma E_seq_skip f t r sl st : skippable t = true -> E_seq f (t :: r) sl st = E_seq f r sl st.
Proof. intros H. cbn [E_seq]. now rewrite H. Qed.

Lemma EP_cons ix t r : skippable t = false -> EP ix (t :: r) = E_tok ix t ++ EP ix r.
Proof. intros H. unfold EP. cbn [E_seq]. now rewrite H. Qed.

Lemma EP_skippable ix C : forallb skippable C = true -> EP ix C = [].
Proof.
  induction C as [|t r IH]; intros H; [reflexivity|].
  cbn [forallb] in H. apply andb_true_iff in H. destruct H as [H1 H2].
  unfold EP. rewrite E_seq_skip by exact H1. now apply IH.
Qed.

Definition nomatch (starts : list N) (C : list tok) : Prop :=
  match starts with
  | [] => True
  | s :: _ => forall t, In t C -> skippable t = false -> s <> open_id t /\ s <> close_id t
  end.

Lemma E_seq_nomatch ix C : forall R slots starts,
  nomatch starts C ->
  E_seq (E_tok ix) (C ++ R) slots starts = EP ix C ++ E_seq (E_tok ix) R slots starts.
Proof.
  induction C as [|t r IH]; intros R slots starts Hn; [reflexivity|].
  cbn [app]. destruct (skippable t) eqn:Hs.
  - rewrite E_seq_skip by exact Hs. unfold EP. rewrite E_seq_skip by exact Hs. apply IH.
    destruct starts; [exact I|]. intros u Hu. apply Hn. now right.
  - rewrite EP_cons by exact Hs. rewrite <- app_assoc. cbn [E_seq]. rewrite Hs.
    assert (Hr : nomatch starts r).
    { destruct starts; [exact I|]. intros u Hu. apply Hn. now right. }
    destruct starts as [|s st]; [now rewrite IH|]. destruct slots as [|sl slots]; [now rewrite IH|].
    destruct (Hn t (or_introl eq_refl) Hs) as [H1 H2].
    apply N.eqb_neq in H1. apply N.eqb_neq in H2. rewrite H1, H2. cbn [orb]. now rewrite IH.
Qed.

Lemma E_seq_match ix t r sl slots s starts :
  skippable t = false -> s = open_id t ->
  E_seq (E_tok ix) (t :: r) (sl :: slots) (s :: starts)
  = pieces sl ++ E_tok ix t ++ E_seq (E_tok ix) r slots starts.
Proof. intros Hs ->. cbn [E_seq]. rewrite Hs. now rewrite N.eqb_refl. Qed.

Lemma E_seq_cons_nostart f t r slots :
  skippable t = false -> E_seq f (t :: r) slots [] = f t ++ E_seq f r slots [].
Proof. intros H. cbn [E_seq]. now rewrite H. Qed.

Lemma E_seq_cons_cons f t r sl slots s starts :
  skippable t = false ->
  E_seq f (t :: r) (sl :: slots) (s :: starts)
  = if (s =? open_id t) || (s =? close_id t)
    then pieces sl ++ f t ++ E_seq f r slots starts
    else f t ++ E_seq f r (sl :: slots) (s :: starts).
Proof. intros H. cbn [E_seq]. now rewrite H. Qed.

Lemma E_seq_last_slot ix l : forall S1 ST d a,
  (length ST <= length S1)%nat ->
  E_seq (E_tok ix) l (S1 ++ [d ++ a]) ST = E_seq (E_tok ix) l (S1 ++ [d]) ST ++ pieces a.
Proof.
  induction l as [|t r IH]; intros S1 ST d a Hlen.
  - cbn [E_seq]. rewrite !concat_app. cbn [concat]. rewrite !app_nil_r. rewrite !pieces_app.
    now rewrite <- !app_assoc.
  - destruct (skippable t) eqn:Hs.
    + rewrite !E_seq_skip by exact Hs. now apply IH.
    + destruct ST as [|s ST].
      * rewrite !E_seq_cons_nostart by exact Hs. rewrite IH by (cbn; lia). now rewrite <- app_assoc.
      * destruct S1 as [|sl S1]; [cbn in Hlen; lia|]. cbn [app].
        cbn [length] in Hlen. rewrite !E_seq_cons_cons by exact Hs.
        destruct ((s =? open_id t) || (s =? close_id t)).
        -- rewrite IH by lia. now rewrite <- !app_assoc.
        -- pose proof (IH (sl :: S1) (s :: ST) d a ltac:(cbn; lia)) as H. cbn [app] in H. rewrite H.
           now rewrite <- app_assoc.
Qed.

Lemma flatten_app a b : flatten (a ++ b) = flatten a ++ flatten b.
Proof. induction a as [|x r IH]; cbn [flatten app]; [reflexivity|now rewrite IH, app_assoc]. Qed.

Lemma flatten_fused io ic b ox cx ch :
  flatten_tok (Fused io ic b ox cx ch) = (io, ox) :: flatten ch ++ [(ic, cx)].
Proof.
  cbn [flatten_tok].
  match goal with |- _ :: ?g ch ++ _ = _ => assert (H : forall l, g l = flatten l) end.
  { induction l as [|x r IH]; [reflexivity|]. cbn [flatten]. now rewrite <- IH. }
  now rewrite H.
Qed.

Lemma flatten_skippable C : forallb skippable C = true -> flatten C = pieces C.
Proof.
  induction C as [|t r IH]; intros H; [reflexivity|].
  cbn [forallb] in H. apply andb_true_iff in H. destruct H as [H1 H2].
  cbn [flatten pieces map]. rewrite (IH H2). destruct t; [reflexivity|discriminate H1].
Qed.

Lemma all_ids_app a b : all_ids (a ++ b) = all_ids a ++ all_ids b.
Proof. induction a as [|x r IH]; cbn [all_ids app]; [reflexivity|now rewrite IH, app_assoc]. Qed.

Lemma all_ids_fused io ic b ox cx ch :
  all_ids_tok (Fused io ic b ox cx ch) = io :: all_ids ch ++ [ic].
Proof.
  cbn [all_ids_tok].
  match goal with |- _ :: ?g ch ++ _ = _ => assert (H : forall l, g l = all_ids l) end.
  { induction l as [|x r IH]; [reflexivity|]. cbn [all_ids]. now rewrite <- IH. }
  now rewrite H.
Qed.

Lemma open_id_in t : In (open_id t) (all_ids_tok t).
Proof. destruct t; [now left|rewrite all_ids_fused; now left]. Qed.
Lemma close_id_in t : In (close_id t) (all_ids_tok t).
Proof. destruct t; [now left|rewrite all_ids_fused; right; apply in_or_app; right; now left]. Qed.

Lemma in_all_ids t l : In t l -> forall k, In k (all_ids_tok t) -> In k (all_ids l).
Proof.
  induction l as [|x r IH]; intros H k Hk; [contradiction|].
  cbn [all_ids]. apply in_or_app. destruct H as [->|H]; [now left|right; now apply IH].
Qed.

Lemma gather_spec l sk r : gather l = (sk, r) ->
  l = sk ++ r /\ forallb skippable sk = true /\ (match r with t :: _ => skippable t = false | [] => True end).
Proof.
  revert sk r. induction l as [|t l IH]; intros sk r H; cbn [gather] in H.
  - inversion H; subst. repeat split.
  - destruct (skippable t) eqn:Hs.
    + destruct (gather l) as [a b]. inversion H; subst. destruct (IH _ _ eq_refl) as [H1 [H2 H3]].
      repeat split; [cbn; now rewrite <- H1|cbn; now rewrite Hs, H2|exact H3].
    + inversion H; subst. repeat split. exact Hs.
Qed.

(* ---- guards, stated per position of a scope's token list ---- *)
Definition bclass (t : tok) : bool := is_cls CSemi t || is_cls CComma t || is_braces t.

Definition local_ok (cf : cfg) (x : tok) (r : list tok) : Prop :=
  skippable x = false ->
  (fix_cv cf = true \/ (bclass x = true -> cv_after r = false))
  /\ (fix_keep_ws cf = true
      \/ (forallb skippable r = true -> (is_cls CSemi x || is_braces x) = true \/ tail_ok r = true)).

Fixpoint guard_tok (cf : cfg) (t : tok) : Prop :=
  match t with
  | Leaf _ _ _ => True
  | Fused _ _ _ _ _ ch =>
    (fix go (l : list tok) : Prop :=
       match l with
       | [] => True
       | x :: r => local_ok cf x r /\ guard_tok cf x /\ go r
       end) ch
  end.
Fixpoint guard (cf : cfg) (l : list tok) : Prop :=
  match l with
  | [] => True
  | x :: r => local_ok cf x r /\ guard_tok cf x /\ guard cf r
  end.

Lemma guard_fused cf io ic b ox cx ch : guard_tok cf (Fused io ic b ox cx ch) <-> guard cf ch.
Proof.
  cbn [guard_tok].
  match goal with |- ?g ch <-> _ => assert (H : forall l, g l <-> guard cf l) end.
  { induction l as [|x r IH]; cbn [guard]; [tauto|rewrite IH; tauto]. }
  apply H.
Qed.

Lemma guard_suffix cf C R : guard cf (C ++ R) -> guard cf R.
Proof. induction C as [|x r IH]; cbn [app guard]; [tauto|]. intros [_ [_ H]]. now apply IH. Qed.

Lemma guard_tok_fixed cf t : fix_keep_ws cf = true -> fix_cv cf = true -> guard_tok cf t.
Proof.
  intros H1 H2. induction t as [|io ic b ox cx ch IH] using tok_ind2; [exact I|].
  apply guard_fused. induction ch as [|x r IHr]; cbn [guard]; [exact I|].
  inversion IH; subst. split; [|split; [assumption|now apply IHr]]. intros _. split; now left.
Qed.

Lemma guard_fixed cf l : fix_keep_ws cf = true -> fix_cv cf = true -> guard cf l.
Proof.
  intros H1 H2. induction l as [|x r IH]; cbn [guard]; [exact I|].
  split; [|split; [now apply guard_tok_fixed|exact IH]]. intros _. split; now left.
Qed.

Lemma tail_ok_nil : tail_ok [] = true. Proof. reflexivity. Qed.

Definition Ebody (ix : index) (t : tok) : list (N * list N) :=
  match t with
  | Leaf i _ x => [(i, x)]
  | Fused io ic _ ox cx ch =>
    let d := get_det io ix in
    [(io, ox)] ++ pieces (trail ix io) ++ E_seq (E_tok ix) ch (d_slots d) (d_starts d)
    ++ pieces (lead ix ic) ++ [(ic, cx)]
  end.

Lemma Etail_Ebody ix t : Etail ix t = Ebody ix t ++ pieces (trail ix (close_id t)).
Proof. destruct t; cbn [Etail Ebody close_id]; [reflexivity|]. now repeat rewrite <- app_assoc. Qed.

Lemma lead_of ix i l tr : alookup i (i_att ix) = Some (mkAtt l tr) -> lead ix i = l /\ trail ix i = tr.
Proof. intros H. unfold lead, trail, att_of. rewrite H. split; reflexivity. Qed.

Lemma has_att_of ix i a : alookup i (i_att ix) = Some a -> has_att ix i.
Proof. unfold has_att. congruence. Qed.

Lemma NoDup_app_l {A} (a b : list A) : NoDup (a ++ b) -> NoDup a.
Proof. induction a as [|x r IH]; intros H; [constructor|]. inversion H; subst. constructor; [|now apply IH].
       intros Hin. apply H2. apply in_or_app. now left. Qed.
Lemma NoDup_app_r {A} (a b : list A) : NoDup (a ++ b) -> NoDup b.
Proof. induction a as [|x r IH]; intros H; [exact H|]. inversion H; subst. now apply IH. Qed.
Lemma NoDup_app_disj {A} (a b : list A) x : NoDup (a ++ b) -> In x a -> In x b -> False.
Proof.
  induction a as [|y r IH]; intros H Ha Hb; [contradiction|]. inversion H; subst.
  destruct Ha as [->|Ha]; [apply H2; apply in_or_app; now right|now apply IH].
Qed.

(* ---- what each walker function establishes ---- *)
Definition is_nil {A} (l : list A) : bool := match l with [] => true | _ => false end.

(* the first declaration the walker records starts at the first non-skippable token *)
Definition head_start (rest : list tok) (STn : list N) : Prop :=
  match snd (gather rest) with
  | [] => STn = []
  | t :: _ => exists STn', STn = open_id t :: STn'
  end.

Definition S_scope (f : nat) : Prop :=
  forall cf scope mode Pd rest cv slots bbs starts hb ix ix' l0,
  walk_scope f cf scope mode Pd rest cv slots bbs starts hb ix = Some ix' ->
  NoDup (all_ids rest) -> ~ In 0 (all_ids rest) -> ~ In scope (all_ids rest) ->
  (cv = true -> fix_cv cf = true) ->
  guard cf rest ->
  (slots = [] -> scope <> 0 -> alookup scope (i_att ix) = Some (mkAtt l0 [])) ->
  exists SLn STn,
    d_slots (get_det scope ix') = slots ++ SLn /\ d_starts (get_det scope ix') = starts ++ STn
    /\ length SLn = S (length STn)
    /\ head_start rest STn
    /\ (forall s, In s STn -> In s (all_ids rest))
    /\ (forall k, ~ In k (all_ids rest) -> k <> scope -> same_at ix ix' k)
    /\ (slots <> [] -> alookup scope (i_att ix') = alookup scope (i_att ix))
    /\ (slots = [] -> scope <> 0 -> exists X, alookup scope (i_att ix') = Some (mkAtt l0 X))
    /\ forall ixF, agree (all_ids rest) ix' ixF ->
         (slots = [] -> scope <> 0 -> alookup scope (i_att ix') = alookup scope (i_att ixF)) ->
         covered ixF rest
         /\ (if is_nil slots && negb (scope =? 0) then pieces (trail ixF scope) else [])
            ++ E_seq (E_tok ixF) rest SLn STn = pieces Pd ++ flatten rest.

Definition S_decl (f : nat) : Prop :=
  forall cf mode first t rest Pd sa endId ix res l0,
  decl_loop f cf mode first t rest Pd sa endId ix = Some res ->
  skippable t = false ->
  NoDup (all_ids (t :: rest)) -> ~ In 0 (all_ids (t :: rest)) ->
  local_ok cf t rest -> guard_tok cf t -> guard cf rest ->
  (if first then Pd = [] /\ alookup (open_id t) (i_att ix) = Some (mkAtt l0 [])
   else ~ In endId (all_ids (t :: rest)) /\ alookup endId (i_att ix) = Some (mkAtt l0 [])) ->
  exists C,
    rest = C ++ r_rest res
    /\ (r_cv res = true -> fix_cv cf = true)
    /\ (forall k, ~ In k (all_ids (t :: C)) -> (first = true \/ k <> endId) -> same_at ix (r_idx res) k)
    /\ (exists tr, alookup (if first then open_id t else endId) (i_att (r_idx res)) = Some (mkAtt l0 tr))
    /\ forall ixF, agree (all_ids (t :: C)) (r_idx res) ixF ->
         (first = false -> alookup endId (i_att (r_idx res)) = alookup endId (i_att ixF)) ->
         covered ixF (t :: C)
         /\ (if first then [] else pieces (trail ixF endId) ++ pieces (lead ixF (open_id t)))
            ++ Etail ixF t ++ EP ixF C ++ pieces (r_pushed res) = pieces Pd ++ flatten (t :: C).

Definition S_fused (f : nat) : Prop :=
  forall cf io ic b ox cx ch sa ix ix' l0,
  walk_fused f cf (Fused io ic b ox cx ch) sa ix = Some ix' ->
  NoDup (io :: all_ids ch ++ [ic]) -> ~ In 0 (io :: all_ids ch ++ [ic]) ->
  guard cf ch ->
  alookup io (i_att ix) = Some (mkAtt l0 []) ->
  (forall k, ~ In k (io :: all_ids ch ++ [ic]) -> same_at ix ix' k)
  /\ (exists tr, alookup io (i_att ix') = Some (mkAtt l0 tr))
  /\ exists a, alookup ic (i_att ix') = Some (mkAtt a [])
     /\ forall ixF, agree (io :: all_ids ch) ix' ixF -> lead ixF ic = a ->
          covered ixF ch
          /\ pieces (trail ixF io)
             ++ E_seq (E_tok ixF) ch (d_slots (get_det io ixF)) (d_starts (get_det io ixF))
             ++ pieces (lead ixF ic) = flatten ch.

Lemma replace_last_app {A} (l : list A) x y : replace_last (l ++ [x]) y = l ++ [y].
Proof.
  induction l as [|z r IH]; [reflexivity|]. cbn [app replace_last].
  destruct (r ++ [x]) eqn:E; [destruct r; discriminate|]. now rewrite IH.
Qed.

Lemma last_split_list {A} (l : list A) n : length l = S n -> exists l1 x, l = l1 ++ [x] /\ length l1 = n.
Proof.
  revert n. induction l as [|z r IH]; intros n H; [discriminate|].
  destruct r as [|z2 r2].
  - exists [], z. cbn in H. split; [reflexivity|cbn; lia].
  - destruct n as [|n]; [cbn in H; lia|]. destruct (IH n) as [l1 [x [H1 H2]]]; [cbn in *; lia|].
    exists (z :: l1), x. rewrite H1. split; [reflexivity|cbn; lia].
Qed.

Lemma get_det_set_det id d ix : get_det id (set_det id d ix) = d.
Proof. unfold get_det. cbn. now rewrite alookup_aset_eq. Qed.

Lemma S_fused_step f : S_scope f -> S_fused (S f).
Proof.
  intros IHs cf io ic b ox cx ch sa ix ix' l0 Hw Hnd H0 Hg Hatt.
  cbn [walk_fused] in Hw.
  destruct (walk_scope f cf io (child_mode b sa) [] ch false [] [] [] false ix) as [ix1|] eqn:Hws; [|discriminate].
  inversion Hnd as [|? ? Hio Hnd']; subst.
  assert (Hndch : NoDup (all_ids ch)) by (now apply NoDup_app_l in Hnd').
  assert (Hio_ch : ~ In io (all_ids ch)) by (intros Hin; apply Hio; apply in_or_app; now left).
  assert (Hic_ch : ~ In ic (all_ids ch)).
  { intros Hin. apply (NoDup_app_disj _ _ ic Hnd' Hin). now left. }
  assert (Hio_ic : io <> ic) by (intros ->; apply Hio; apply in_or_app; right; now left).
  assert (Hio0 : io <> 0) by (intros ->; apply H0; now left).
  assert (H0ch : ~ In 0 (all_ids ch)) by (intros Hin; apply H0; right; apply in_or_app; now left).
  destruct (IHs cf io (child_mode b sa) [] ch false [] [] [] false ix ix1 l0 Hws Hndch H0ch Hio_ch
                ltac:(discriminate) Hg ltac:(intros; exact Hatt))
    as [SLn [STn [Hsl [Hst [Hlen [_ [Hin [Hfr [_ [Hopen Heq]]]]]]]]]].
  cbn [app] in Hsl, Hst.
  destruct (Hopen eq_refl Hio0) as [X HX].
  destruct (last_split_list SLn _ Hlen) as [S1 [lst [HS1 HS1len]]].
  rewrite Hsl, HS1, last_last in Hw.
  destruct (split_detached lst) as [d a] eqn:Hsd.
  inversion Hw; subst ix'; clear Hw.
  rewrite replace_last_app.
  set (tr' := mkDet (S1 ++ [d]) (d_bb (get_det io ix1)) (d_bbc (get_det io ix1)) (d_starts (get_det io ix1))).
  split; [|split].
  - intros k Hk. assert (k <> io) by (intros ->; apply Hk; now left).
    assert (k <> ic) by (intros ->; apply Hk; right; apply in_or_app; right; now left).
    assert (~ In k (all_ids ch)) by (intros Hi; apply Hk; right; apply in_or_app; now left).
    eapply same_at_trans; [apply Hfr; assumption|].
    eapply same_at_trans; [apply (set_det_other io tr' ix1 k); assumption|apply set_leading_other; assumption].
  - exists X. cbn. rewrite alookup_aset_neq by exact Hio_ic. exact HX.
  - exists a. split; [apply set_leading_get|].
    intros ixF Hag Hlead.
    assert (Hag1 : agree (all_ids ch) ix1 ixF).
    { intros k Hk. assert (k <> io) by (intros ->; contradiction). assert (k <> ic) by (intros ->; contradiction).
      eapply same_at_trans; [|apply Hag; now right].
      eapply same_at_trans; [apply (set_det_other io tr' ix1 k); assumption|apply set_leading_other; assumption]. }
    assert (Hioatt : alookup io (i_att ix1) = alookup io (i_att ixF)).
    { destruct (Hag io (or_introl eq_refl)) as [Ha _]. rewrite <- Ha. cbn.
      now rewrite alookup_aset_neq by exact Hio_ic. }
    destruct (Heq ixF Hag1 ltac:(intros; exact Hioatt)) as [Hcov Heqn].
    split; [exact Hcov|].
    assert (Hdet : get_det io ixF = tr').
    { destruct (Hag io (or_introl eq_refl)) as [_ Hd]. unfold get_det. rewrite <- Hd. cbn.
      now rewrite alookup_aset_eq. }
    rewrite Hdet. cbn [d_slots d_starts tr']. rewrite Hst.
    cbn [is_nil andb] in Heqn. assert (Hnz : negb (io =? 0) = true) by (apply negb_true_iff; now apply N.eqb_neq).
    rewrite Hnz in Heqn. cbn [pieces map app] in Heqn.
    rewrite HS1 in Heqn. rewrite <- (split_detached_eq _ _ _ Hsd) in Heqn.
    rewrite E_seq_last_slot in Heqn by lia. rewrite Hlead. exact Heqn.
Qed.

Lemma covered_app ix a b : covered ix (a ++ b) <-> covered ix a /\ covered ix b.
Proof. induction a as [|x r IH]; cbn [app covered]; [tauto|rewrite IH; tauto]. Qed.

Lemma covered_skippable ix C : forallb skippable C = true -> covered ix C.
Proof.
  induction C as [|t r IH]; intros H; [exact I|].
  cbn [forallb] in H. apply andb_true_iff in H. destruct H as [H1 H2].
  cbn [covered]. split; [|now apply IH]. destruct t; [now left|discriminate H1].
Qed.

Lemma E_seq_skip_prefix f sk X sl st :
  forallb skippable sk = true -> E_seq f (sk ++ X) sl st = E_seq f X sl st.
Proof.
  induction sk as [|t r IH]; intros H; [reflexivity|].
  cbn [forallb] in H. apply andb_true_iff in H. destruct H as [H1 H2].
  cbn [app]. rewrite E_seq_skip by exact H1. now apply IH.
Qed.

Lemma all_ids_cons t r : all_ids (t :: r) = all_ids_tok t ++ all_ids r.
Proof. reflexivity. Qed.

Lemma nomatch_disjoint STn C R :
  NoDup (all_ids (C ++ R)) -> (forall s, In s STn -> In s (all_ids R)) -> nomatch STn C.
Proof.
  intros Hnd Hin. destruct STn as [|s STn]; [exact I|].
  intros t Ht Hs. rewrite all_ids_app in Hnd.
  assert (HsR : In s (all_ids R)) by (apply Hin; now left).
  split; intros ->.
  - apply (NoDup_app_disj _ _ _ Hnd (in_all_ids t C Ht _ (open_id_in t)) HsR).
  - apply (NoDup_app_disj _ _ _ Hnd (in_all_ids t C Ht _ (close_id_in t)) HsR).
Qed.

Lemma S_scope_step f : S_scope f -> S_decl f -> S_scope (S f).
Proof.
  intros IHs IHd cf scope mode Pd rest cv slots bbs starts hb ix ix' l0 Hw Hnd H0 Hsc Hcv Hg Hopen.
  cbn [walk_scope] in Hw.
  destruct (gather rest) as [sk rest1] eqn:Hga.
  destruct (gather_spec _ _ _ Hga) as [Hrest [Hsk Hhead]].
  destruct rest1 as [|t r].
  - (* the scope is exhausted *)
    rewrite app_nil_r in Hrest. subst rest.
    exists [Pd ++ sk], [].
    match type of Hw with Some (set_det scope ?D ix) = _ => set (D0 := D) in Hw end.
    inversion Hw; subst ix'; clear Hw.
    rewrite get_det_set_det. cbn [d_slots d_starts D0]. rewrite app_nil_r.
    split; [reflexivity|]. split; [reflexivity|]. split; [reflexivity|].
    split; [unfold head_start; now rewrite Hga|]. split; [intros s []|].
    split; [intros k _ Hk; now apply set_det_other|].
    split; [reflexivity|].
    split; [intros Hs Hz; exists []; now apply Hopen|].
    intros ixF Hag Hsca. split; [now apply covered_skippable|].
    rewrite <- (app_nil_r sk) at 1. rewrite E_seq_skip_prefix by exact Hsk. cbn [E_seq concat].
    rewrite app_nil_r. rewrite (flatten_skippable _ Hsk). rewrite pieces_app.
    destruct (is_nil slots && negb (scope =? 0)) eqn:Hc; [|reflexivity].
    apply andb_true_iff in Hc. destruct Hc as [Hn Hz]. destruct slots; [|discriminate Hn].
    apply negb_true_iff in Hz. apply N.eqb_neq in Hz.
    specialize (Hsca eq_refl Hz). cbn in Hsca. rewrite (Hopen eq_refl Hz) in Hsca.
    symmetry in Hsca. destruct (lead_of _ _ _ _ Hsca) as [_ Htr]. now rewrite Htr.
  - (* a declaration starts at t *)
    subst rest.
    assert (Htid : (if cv && negb (fix_cv cf) then close_id t else open_id t) = open_id t).
    { destruct cv; [rewrite (Hcv eq_refl)|]; reflexivity. }
    rewrite Htid in Hw. clear Htid.
    set (pend0 := Pd ++ sk) in *.
    set (fn := first_newline_index pend0) in *.
    set (bo := Nat.eqb (length slots) 0 && negb (scope =? 0) && Nat.ltb fn (length pend0)
               && slice_has_comment (firstn fn pend0)) in *.
    set (ix0 := if bo then set_trailing scope (firstn fn pend0) ix else ix) in *.
    set (pend1 := if bo then skipn fn pend0 else pend0) in *.
    destruct (split_detached pend1) as [d a] eqn:Hsd.
    set (ix1 := set_leading (open_id t) a ix0) in *.
    destruct (decl_loop f cf mode true t r [] false (open_id t) ix1) as [res|] eqn:Hdl; [|discriminate].
    (* id bookkeeping *)
    assert (Hids : all_ids (sk ++ t :: r) = all_ids sk ++ all_ids_tok t ++ all_ids r) by (now rewrite all_ids_app, all_ids_cons).
    rewrite Hids in *. clear Hids.
    assert (Hnd_tr : NoDup (all_ids (t :: r))) by (rewrite all_ids_cons; now apply NoDup_app_r in Hnd).
    assert (H0_tr : ~ In 0 (all_ids (t :: r))).
    { rewrite all_ids_cons. intros Hi. apply H0. apply in_or_app. now right. }
    assert (Hsc_tr : ~ In scope (all_ids (t :: r))).
    { rewrite all_ids_cons. intros Hi. apply Hsc. apply in_or_app. now right. }
    pose proof (guard_suffix _ _ _ Hg) as Hg_tr. cbn [guard] in Hg_tr. destruct Hg_tr as [Hlo [Hgt Hgr]].
    destruct (IHd cf mode true t r [] false (open_id t) ix1 res a Hdl Hhead Hnd_tr H0_tr Hlo Hgt Hgr
                  (conj eq_refl (set_leading_get _ _ _)))
      as [C [Hr [Hcvres [Hfr_d [[trt Hatt_t] Heq_d]]]]].
    assert (Hnd_R : NoDup (all_ids (r_rest res))).
    { rewrite Hr in Hnd_tr. rewrite all_ids_cons, all_ids_app in Hnd_tr.
      apply NoDup_app_r in Hnd_tr. now apply NoDup_app_r in Hnd_tr. }
    assert (Hsub_R : forall k, In k (all_ids (r_rest res)) -> In k (all_ids (t :: r))).
    { intros k Hk. rewrite Hr. rewrite all_ids_cons, all_ids_app. apply in_or_app. right. apply in_or_app. now right. }
    assert (Hsub_tC : forall k, In k (all_ids (t :: C)) -> In k (all_ids (t :: r))).
    { intros k Hk. rewrite Hr. rewrite all_ids_cons, all_ids_app. rewrite all_ids_cons in Hk.
      apply in_app_or in Hk. apply in_or_app. destruct Hk as [Hk|Hk]; [now left|right; apply in_or_app; now left]. }
    assert (Hsub_all : forall k, In k (all_ids (t :: r)) -> In k (all_ids sk ++ all_ids_tok t ++ all_ids r)).
    { intros k Hk. apply in_or_app. right. exact Hk. }
    assert (Hdisj : forall k, In k (all_ids (t :: C)) -> ~ In k (all_ids (r_rest res))).
    { intros k Hk HkR. rewrite Hr in Hnd_tr. rewrite all_ids_cons, all_ids_app, app_assoc in Hnd_tr.
      rewrite all_ids_cons in Hk. apply (NoDup_app_disj _ _ k Hnd_tr Hk HkR). }
    destruct (IHs cf scope mode (r_pushed res) (r_rest res) (r_cv res) (slots ++ [d])
                  (bbs ++ [hb || (Nat.eqb (length bbs) 0 && slice_has_comment d)])
                  (starts ++ [open_id t]) (r_blank res) (r_idx res) ix' l0 Hw Hnd_R
                  ltac:(intros Hi; apply H0_tr; now apply Hsub_R)
                  ltac:(intros Hi; apply Hsc_tr; now apply Hsub_R)
                  Hcvres ltac:(rewrite Hr in Hgr; now apply guard_suffix in Hgr)
                  ltac:(intros He; destruct slots; discriminate He))
      as [SLn' [STn' [Hsl [Hst [Hlen [_ [Hin [Hfr_s [Hsc_s [_ Heq_s]]]]]]]]]].
    exists (d :: SLn'), (open_id t :: STn').
    rewrite <- app_assoc in Hsl, Hst. cbn [app] in Hsl, Hst.
    split; [exact Hsl|]. split; [exact Hst|]. split; [cbn [length]; now rewrite Hlen|].
    split; [unfold head_start; rewrite Hga; cbn [snd]; now exists STn'|].
    assert (Hopen_in : In (open_id t) (all_ids sk ++ all_ids_tok t ++ all_ids r)).
    { apply in_or_app. right. apply in_or_app. left. apply open_id_in. }
    split.
    { intros s [<-|Hs]; [exact Hopen_in|]. apply Hsub_all, Hsub_R, Hin, Hs. }
    assert (Hsc_ne : scope <> open_id t) by (intros ->; now apply Hsc).
    (* the entry of the scope's open bracket *)
    assert (Hbo_false : slots <> [] -> bo = false).
    { intros Hs. unfold bo. destruct slots; [congruence|reflexivity]. }
    assert (Hscope_keep : alookup scope (i_att ix') = alookup scope (i_att ix0)).
    { rewrite (Hsc_s ltac:(intros He; destruct slots; discriminate He)).
      destruct (Hfr_d scope ltac:(intros Hi; apply Hsc_tr; now apply Hsub_tC) (or_introl eq_refl)) as [Ha _].
      rewrite <- Ha. cbn. now rewrite alookup_aset_neq by exact Hsc_ne. }
    split.
    { intros k Hk Hks.
      assert (Hk1 : ~ In k (all_ids (t :: r))) by (intros Hi; apply Hk; now apply Hsub_all).
      assert (S1 : same_at ix ix0 k).
      { unfold ix0. destruct bo; [apply set_trailing_other; exact Hks|apply same_at_refl]. }
      assert (S2 : same_at ix0 ix1 k).
      { apply (set_leading_other (open_id t) a ix0 k). intros ->. now apply Hk. }
      assert (S3 : same_at ix1 (r_idx res) k).
      { apply Hfr_d; [intros Hi; apply Hk1; now apply Hsub_tC|now left]. }
      assert (S4 : same_at (r_idx res) ix' k).
      { apply Hfr_s; [intros Hi; apply Hk1; now apply Hsub_R|exact Hks]. }
      exact (same_at_trans _ _ _ _ (same_at_trans _ _ _ _ (same_at_trans _ _ _ _ S1 S2) S3) S4). }
    split.
    { intros Hs. rewrite Hscope_keep. unfold ix0. now rewrite (Hbo_false Hs). }
    split.
    { intros Hs Hz. rewrite Hscope_keep. unfold ix0. destruct bo.
      - eexists. apply set_trailing_get. now apply Hopen.
      - exists []. now apply Hopen. }
    intros ixF Hag Hsca.
    assert (Hag_d : agree (all_ids (t :: C)) (r_idx res) ixF).
    { intros k Hk. eapply same_at_trans.
      - apply Hfr_s; [now apply Hdisj|]. intros ->. apply Hsc_tr. now apply Hsub_tC.
      - apply Hag. now apply Hsub_all, Hsub_tC. }
    destruct (Heq_d ixF Hag_d ltac:(discriminate)) as [Hcov_d Heqn_d].
    assert (Hag_s : agree (all_ids (r_rest res)) ix' ixF).
    { intros k Hk. apply Hag. now apply Hsub_all, Hsub_R. }
    destruct (Heq_s ixF Hag_s ltac:(intros He; destruct slots; discriminate He)) as [Hcov_s Heqn_s].
    assert (Hnil : is_nil (slots ++ [d]) = false) by (destruct slots; reflexivity).
    rewrite Hnil in Heqn_s. cbn [andb app] in Heqn_s. cbn [app pieces map] in Heqn_d.
    split.
    { apply covered_app. split; [now apply covered_skippable|]. rewrite Hr.
      change (t :: C ++ r_rest res) with ((t :: C) ++ r_rest res). apply covered_app. now split. }
    rewrite E_seq_skip_prefix by exact Hsk. rewrite E_seq_match by (exact Hhead || reflexivity).
    rewrite Hr. rewrite E_seq_nomatch.
    2:{ apply (nomatch_disjoint STn' C (r_rest res)); [|exact Hin].
        rewrite Hr in Hnd_tr. rewrite all_ids_cons in Hnd_tr. now apply NoDup_app_r in Hnd_tr. }
    rewrite Heqn_s. rewrite E_tok_Etail.
    assert (Hlead : lead ixF (open_id t) = a).
    { destruct (Hag_d (open_id t) ltac:(rewrite all_ids_cons; apply in_or_app; left; apply open_id_in)) as [Ha _].
      rewrite Hatt_t in Ha. symmetry in Ha. now destruct (lead_of _ _ _ _ Ha). }
    rewrite Hlead.
    rewrite flatten_app. rewrite (flatten_skippable _ Hsk).
    change (t :: C ++ r_rest res) with ((t :: C) ++ r_rest res). rewrite flatten_app. rewrite <- Heqn_d.
    assert (Hpre : (if is_nil slots && negb (scope =? 0) then pieces (trail ixF scope) else []) ++ pieces d ++ pieces a
                   = pieces Pd ++ pieces sk).
    { rewrite <- !pieces_app. rewrite (split_detached_eq _ _ _ Hsd).
      destruct (is_nil slots && negb (scope =? 0)) eqn:Hc.
      - apply andb_true_iff in Hc. destruct Hc as [Hn Hz]. destruct slots; [|discriminate Hn].
        apply negb_true_iff in Hz. apply N.eqb_neq in Hz.
        specialize (Hsca eq_refl Hz). rewrite Hscope_keep in Hsca. unfold ix0, pend1 in *.
        destruct bo.
        + rewrite (set_trailing_get _ _ _ _ (Hopen eq_refl Hz)) in Hsca. symmetry in Hsca.
          destruct (lead_of _ _ _ _ Hsca) as [_ Htr]. rewrite Htr. rewrite <- pieces_app. now rewrite firstn_skipn.
        + rewrite (Hopen eq_refl Hz) in Hsca. symmetry in Hsca.
          destruct (lead_of _ _ _ _ Hsca) as [_ Htr]. now rewrite Htr.
      - assert (Hb : bo = false).
        { unfold bo. destruct slots; [|reflexivity]. cbn in Hc. cbn. now rewrite Hc. }
        unfold pend1. now rewrite Hb. }
    repeat rewrite <- app_assoc. rewrite (app_assoc _ (pieces d)). rewrite (app_assoc _ (pieces a)).
    rewrite <- (app_assoc _ (pieces d) (pieces a)). rewrite Hpre.
    repeat rewrite <- app_assoc. reflexivity.
Qed.

Lemma EP_app ix a b : EP ix (a ++ b) = EP ix a ++ EP ix b.
Proof. unfold EP. apply E_seq_nomatch. exact I. Qed.

(* what follows the processing of a token inside walkDecl: either the declaration ends here
   (decl_finish) or the loop goes on with the next non-skippable token *)
Lemma cont_spec f : S_decl f ->
  forall cf mode (boundary : bool) endSemi sa' endId' ixB rest res lc,
  (if boundary then Some (decl_finish cf ixB endId' endSemi [] rest)
   else let '(sk, rest1) := gather rest in
        match rest1 with
        | [] => Some (decl_finish cf ixB endId' endSemi sk [])
        | t' :: r' => decl_loop f cf mode false t' r' sk sa' endId' ixB
        end) = Some res ->
  NoDup (all_ids rest) -> ~ In 0 (all_ids rest) -> ~ In endId' (all_ids rest) ->
  guard cf rest ->
  (boundary = true -> fix_cv cf = true \/ cv_after rest = false) ->
  (boundary = false -> forallb skippable rest = true -> fix_keep_ws cf = true \/ tail_ok rest = true) ->
  alookup endId' (i_att ixB) = Some (mkAtt lc []) ->
  exists C,
    rest = C ++ r_rest res
    /\ (r_cv res = true -> fix_cv cf = true)
    /\ (forall k, ~ In k (all_ids C) -> k <> endId' -> same_at ixB (r_idx res) k)
    /\ (exists trc, alookup endId' (i_att (r_idx res)) = Some (mkAtt lc trc))
    /\ forall ixF, agree (all_ids C) (r_idx res) ixF ->
         alookup endId' (i_att (r_idx res)) = alookup endId' (i_att ixF) ->
         covered ixF C
         /\ pieces (trail ixF endId') ++ EP ixF C ++ pieces (r_pushed res) = flatten C.
Proof.
  intros IHd cf mode boundary endSemi sa' endId' ixB rest res lc Hc Hnd H0 Hend Hg Hcvg Hwsg Hatt.
  assert (Hfin : forall pending rest0,
             (pending = [] \/ rest0 = []) ->
             (fix_keep_ws cf = true \/ tail_ok pending = true) ->
             res = decl_finish cf ixB endId' endSemi pending rest0 ->
             exists C0,
               rest0 = C0 ++ r_rest res /\ forallb skippable C0 = true
               /\ (forall k, k <> endId' -> same_at ixB (r_idx res) k)
               /\ (exists trc, alookup endId' (i_att (r_idx res)) = Some (mkAtt lc trc)
                               /\ trc ++ r_pushed res = pending ++ C0)).
  { intros pending rest0 Hpr Hgd ->.
    destruct (decl_finish_spec cf ixB endId' endSemi pending rest0 lc Hpr Hgd Hatt) as [C0 [TR [H1 [H2 [H3 H4]]]]].
    exists C0. split; [exact H1|]. split; [exact H2|]. split.
    - intros k Hk. rewrite H3. now apply set_trailing_if_other.
    - exists TR. split; [|exact H4]. rewrite H3. now apply set_trailing_if_get. }
  destruct boundary.
  - (* the declaration ends at this token *)
    assert (Hres : res = decl_finish cf ixB endId' endSemi [] rest) by (inversion Hc; reflexivity). clear Hc.
    destruct (Hfin [] rest (or_introl eq_refl) (or_intror tail_ok_nil) Hres) as [C0 [H1 [H2 [H3 [trc [H4 H5]]]]]].
    exists C0. split; [exact H1|]. split.
    { intros Hcv. rewrite Hres, decl_finish_cv in Hcv. destruct (Hcvg eq_refl) as [Hf|Hf]; [exact Hf|congruence]. }
    split; [intros k _ Hk; now apply H3|]. split; [now exists trc|].
    intros ixF Hag Hsame. split; [now apply covered_skippable|].
    rewrite H4 in Hsame. symmetry in Hsame. destruct (lead_of _ _ _ _ Hsame) as [_ Htr]. rewrite Htr.
    rewrite (EP_skippable _ _ H2). cbn [app]. rewrite <- pieces_app. rewrite H5. cbn [app].
    now rewrite (flatten_skippable _ H2).
  - destruct (gather rest) as [sk rest1] eqn:Hga.
    destruct (gather_spec _ _ _ Hga) as [Hrest [Hsk Hhead]].
    destruct rest1 as [|t' r'].
    + (* the scope ends inside the declaration *)
      rewrite app_nil_r in Hrest. subst rest.
      assert (Hres : res = decl_finish cf ixB endId' endSemi sk []) by (inversion Hc; reflexivity). clear Hc.
      destruct (Hfin sk [] (or_intror eq_refl) (Hwsg eq_refl Hsk) Hres) as [C0 [H1 [H2 [H3 [trc [H4 H5]]]]]].
      assert (HC0 : C0 = [] /\ r_rest res = []).
      { destruct C0; [split; [reflexivity|]|discriminate H1]. cbn in H1. now symmetry. }
      destruct HC0 as [-> Hrr]. rewrite app_nil_r in H5.
      exists sk. split; [rewrite Hrr; now rewrite app_nil_r|]. split.
      { intros Hcv. rewrite Hres, decl_finish_cv in Hcv. discriminate Hcv. }
      split; [intros k _ Hk; now apply H3|]. split; [now exists trc|].
      intros ixF Hag Hsame. split; [now apply covered_skippable|].
      rewrite H4 in Hsame. symmetry in Hsame. destruct (lead_of _ _ _ _ Hsame) as [_ Htr]. rewrite Htr.
      rewrite (EP_skippable _ _ Hsk). cbn [app]. rewrite <- pieces_app. rewrite H5.
      now rewrite (flatten_skippable _ Hsk).
    + (* the loop goes on at t' *)
      subst rest. rewrite all_ids_app in Hnd, H0, Hend.
      assert (Hnd' : NoDup (all_ids (t' :: r'))) by (now apply NoDup_app_r in Hnd).
      assert (H0' : ~ In 0 (all_ids (t' :: r'))) by (intros Hi; apply H0; apply in_or_app; now right).
      assert (Hend' : ~ In endId' (all_ids (t' :: r'))) by (intros Hi; apply Hend; apply in_or_app; now right).
      pose proof (guard_suffix _ _ _ Hg) as Hg'. cbn [guard] in Hg'. destruct Hg' as [Hlo [Hgt Hgr]].
      destruct (IHd cf mode false t' r' sk sa' endId' ixB res lc Hc Hhead Hnd' H0' Hlo Hgt Hgr (conj Hend' Hatt))
        as [C2 [Hr [Hcv [Hfr [Hkeep Heq]]]]].
      exists (sk ++ t' :: C2). split; [rewrite Hr; now rewrite <- app_assoc|]. split; [exact Hcv|].
      split.
      { intros k Hk Hke. apply Hfr; [|now right]. intros Hi. apply Hk. rewrite all_ids_app. apply in_or_app. now right. }
      split; [exact Hkeep|].
      intros ixF Hag Hsame.
      assert (Hag' : agree (all_ids (t' :: C2)) (r_idx res) ixF).
      { intros k Hk. apply Hag. rewrite all_ids_app. apply in_or_app. now right. }
      destruct (Heq ixF Hag' ltac:(intros _; exact Hsame)) as [Hcov Heqn].
      split; [apply covered_app; split; [now apply covered_skippable|exact Hcov]|].
      rewrite EP_app, (EP_skippable _ _ Hsk). cbn [app]. rewrite EP_cons by exact Hhead.
      rewrite E_tok_Etail. rewrite flatten_app, (flatten_skippable _ Hsk).
      rewrite <- Heqn. repeat rewrite <- app_assoc. reflexivity.
Qed.

(* ---- one iteration of the main loop of walkDecl ---- *)
Definition reg_leading (first : bool) (t : tok) (Pd : list tok) (endId : N) (ix : index) : index :=
  if first then ix
  else
    let fn := first_newline_index Pd in
    if slice_has_comment (firstn fn Pd) && Nat.ltb fn (length Pd)
    then set_leading (open_id t) (skipn fn Pd) (set_trailing endId (firstn fn Pd) ix)
    else set_leading (open_id t) Pd ix.

Definition is_boundary (mode : bool) (t : tok) (sa' : bool) (rest : list tok) : bool :=
  is_cls CSemi t || (is_braces t && (negb sa' || negb (next_nonskip_is_semi rest))) || (mode && is_cls CComma t).

Lemma decl_loop_unfold f cf mode first t rest Pd sa endId ix :
  decl_loop (S f) cf mode first t rest Pd sa endId ix =
  match (if is_fused t then walk_fused f cf t (sa || is_cls CAssign t) (reg_leading first t Pd endId ix)
         else Some (reg_leading first t Pd endId ix)) with
  | None => None
  | Some ixB =>
    if is_boundary mode t (sa || is_cls CAssign t) rest
    then Some (decl_finish cf ixB (close_id t) (is_cls CSemi t) [] rest)
    else let '(sk, rest1) := gather rest in
         match rest1 with
         | [] => Some (decl_finish cf ixB (close_id t) (is_cls CSemi t) sk [])
         | t' :: r' => decl_loop f cf mode false t' r' sk (sa || is_cls CAssign t) (close_id t) ixB
         end
  end.
Proof. reflexivity. Qed.

Lemma reg_leading_spec (first : bool) t Pd endId ix l0 :
  (if first then Pd = [] /\ alookup (open_id t) (i_att ix) = Some (mkAtt l0 [])
   else endId <> open_id t /\ alookup endId (i_att ix) = Some (mkAtt l0 [])) ->
  exists leadt trE,
    alookup (open_id t) (i_att (reg_leading first t Pd endId ix)) = Some (mkAtt leadt [])
    /\ (first = true -> leadt = l0)
    /\ (first = false -> alookup endId (i_att (reg_leading first t Pd endId ix)) = Some (mkAtt l0 trE)
                         /\ pieces trE ++ pieces leadt = pieces Pd)
    /\ (forall k, k <> open_id t -> (first = true \/ k <> endId) -> same_at ix (reg_leading first t Pd endId ix) k).
Proof.
  intros Hpre. unfold reg_leading. destruct first.
  - destruct Hpre as [-> Hl]. exists l0, []. split; [exact Hl|]. split; [reflexivity|].
    split; [discriminate|]. intros k _ _. apply same_at_refl.
  - destruct Hpre as [Hne Hl]. cbn zeta.
    set (fn := first_newline_index Pd).
    destruct (slice_has_comment (firstn fn Pd) && Nat.ltb fn (length Pd)).
    + exists (skipn fn Pd), (firstn fn Pd). split; [apply set_leading_get|]. split; [discriminate|]. split.
      * intros _. split.
        -- cbn [set_leading i_att]. rewrite alookup_aset_neq by exact Hne. now apply set_trailing_get.
        -- rewrite <- pieces_app. now rewrite firstn_skipn.
      * intros k Hk [Hf|Hke]; [discriminate Hf|].
        eapply same_at_trans; [apply set_trailing_other; exact Hke|apply set_leading_other; exact Hk].
    + exists Pd, []. split; [apply set_leading_get|]. split; [discriminate|]. split.
      * intros _. split; [|reflexivity]. cbn [set_leading i_att]. now rewrite alookup_aset_neq by exact Hne.
      * intros k Hk _. apply set_leading_other; exact Hk.
Qed.

Lemma tok_spec f : S_fused f ->
  forall cf t sa' ixA ixB leadt,
  (if is_fused t then walk_fused f cf t sa' ixA else Some ixA) = Some ixB ->
  NoDup (all_ids_tok t) -> ~ In 0 (all_ids_tok t) -> guard_tok cf t ->
  alookup (open_id t) (i_att ixA) = Some (mkAtt leadt []) ->
  (forall k, ~ In k (all_ids_tok t) -> same_at ixA ixB k)
  /\ exists lc,
      alookup (close_id t) (i_att ixB) = Some (mkAtt lc [])
      /\ (exists tro, alookup (open_id t) (i_att ixB) = Some (mkAtt leadt tro))
      /\ (is_fused t = false -> lc = leadt)
      /\ forall ixF,
          (forall k, In k (all_ids_tok t) -> k <> close_id t -> same_at ixB ixF k) ->
          (exists trc, alookup (close_id t) (i_att ixF) = Some (mkAtt lc trc)) ->
          covered_tok ixF t /\ Ebody ixF t = flatten_tok t.
Proof.
  intros IHf cf t sa' ixA ixB leadt Hw Hnd H0 Hg Hatt.
  destruct t as [i c x|io ic b ox cx ch].
  - cbn [is_fused] in Hw. inversion Hw; subst ixB. cbn [open_id close_id] in *.
    split; [intros; apply same_at_refl|]. exists leadt. split; [exact Hatt|]. split; [now exists []|].
    split; [reflexivity|]. intros ixF _ [trc Htrc]. split; [|reflexivity].
    cbn [covered_tok]. right. now apply (has_att_of _ _ _ Htrc).
  - cbn [is_fused] in Hw. cbn [open_id close_id] in *. rewrite all_ids_fused in Hnd, H0.
    apply guard_fused in Hg.
    destruct (IHf cf io ic b ox cx ch sa' ixA ixB leadt Hw Hnd H0 Hg Hatt) as [Hfr [Hio [a [Hic Heq]]]].
    split; [intros k Hk; apply Hfr; now rewrite all_ids_fused in Hk|].
    exists a. split; [exact Hic|]. split; [exact Hio|]. split; [discriminate|].
    intros ixF Hag [trc Htrc].
    assert (Hne : io <> ic).
    { inversion Hnd; subst. intros ->. apply H2. apply in_or_app. right. now left. }
    assert (Hicch : ~ In ic (all_ids ch)).
    { inversion Hnd as [|? ? _ Hnd']; subst. intros Hi. apply (NoDup_app_disj _ _ ic Hnd' Hi). now left. }
    assert (Hag' : agree (io :: all_ids ch) ixB ixF).
    { intros k Hk. apply Hag.
      - rewrite all_ids_fused. destruct Hk as [<-|Hk]; [now left|right; apply in_or_app; now left].
      - destruct Hk as [<-|Hk]; [exact Hne|]. intros ->. contradiction. }
    destruct (lead_of _ _ _ _ Htrc) as [Hl _].
    destruct (Heq ixF Hag' Hl) as [Hcov Heqn].
    split.
    + apply covered_fused. split; [|split; [now apply (has_att_of _ _ _ Htrc)|exact Hcov]].
      destruct Hio as [tro Hio]. destruct (Hag' io (or_introl eq_refl)) as [Ha _]. rewrite Hio in Ha.
      symmetry in Ha. now apply (has_att_of _ _ _ Ha).
    + cbn [Ebody]. rewrite flatten_fused. cbn [app]. f_equal.
      rewrite <- Heqn. repeat rewrite <- app_assoc. reflexivity.
Qed.

Lemma next_semi_skippable rest : forallb skippable rest = true -> next_nonskip_is_semi rest = false.
Proof.
  intros H. unfold next_nonskip_is_semi. destruct (gather rest) as [sk r] eqn:Hg.
  destruct (gather_spec _ _ _ Hg) as [H1 [H2 H3]]. cbn [snd]. destruct r as [|t r]; [reflexivity|].
  subst rest. rewrite forallb_app in H. apply andb_true_iff in H. destruct H as [_ H].
  cbn [forallb] in H. apply andb_true_iff in H. destruct H as [H _]. congruence.
Qed.

Lemma S_decl_step f : S_decl f -> S_fused f -> S_decl (S f).
Proof.
  intros IHd IHf cf mode first t rest Pd sa endId ix res l0 Hd Hskt Hnd H0 Hlo Hgt Hgr Hpre.
  rewrite decl_loop_unfold in Hd.
  set (sa' := sa || is_cls CAssign t) in *.
  set (ixA := reg_leading first t Pd endId ix) in *.
  rewrite all_ids_cons in Hnd, H0.
  assert (Hnd_t : NoDup (all_ids_tok t)) by (now apply NoDup_app_l in Hnd).
  assert (Hnd_r : NoDup (all_ids rest)) by (now apply NoDup_app_r in Hnd).
  assert (H0_t : ~ In 0 (all_ids_tok t)) by (intros Hi; apply H0; apply in_or_app; now left).
  assert (H0_r : ~ In 0 (all_ids rest)) by (intros Hi; apply H0; apply in_or_app; now right).
  assert (Hpre' : if first then Pd = [] /\ alookup (open_id t) (i_att ix) = Some (mkAtt l0 [])
                  else endId <> open_id t /\ alookup endId (i_att ix) = Some (mkAtt l0 [])).
  { destruct first; [exact Hpre|]. destruct Hpre as [Hni Hl]. split; [|exact Hl].
    intros ->. apply Hni. rewrite all_ids_cons. apply in_or_app. left. apply open_id_in. }
  destruct (reg_leading_spec first t Pd endId ix l0 Hpre') as [leadt [trE [HA1 [HA2 [HA3 HA4]]]]].
  fold ixA in HA1, HA3, HA4.
  destruct (if is_fused t then walk_fused f cf t sa' ixA else Some ixA) as [ixB|] eqn:Hw; [|discriminate].
  destruct (tok_spec f IHf cf t sa' ixA ixB leadt Hw Hnd_t H0_t Hgt HA1) as [HB3 [lc [HB1 [[tro HB2] [HBleaf HB4]]]]].
  assert (Hclose_r : ~ In (close_id t) (all_ids rest)).
  { intros Hi. apply (NoDup_app_disj _ _ _ Hnd (close_id_in t) Hi). }
  destruct (Hlo Hskt) as [Hlo_cv Hlo_ws].
  assert (Hcvg : is_boundary mode t sa' rest = true -> fix_cv cf = true \/ cv_after rest = false).
  { intros Hb. destruct Hlo_cv as [Hf|Hf]; [now left|right]. apply Hf.
    unfold is_boundary in Hb. unfold bclass.
    destruct (is_cls CSemi t); [reflexivity|]. destruct (is_braces t); [now rewrite orb_true_r|].
    cbn [andb orb] in Hb. apply andb_true_iff in Hb. destruct Hb as [_ Hb]. now rewrite Hb. }
  assert (Hwsg : is_boundary mode t sa' rest = false -> forallb skippable rest = true ->
                 fix_keep_ws cf = true \/ tail_ok rest = true).
  { intros Hb Hall. destruct Hlo_ws as [Hf|Hf]; [now left|right].
    destruct (Hf Hall) as [Hsb|Htl]; [|exact Htl]. exfalso.
    unfold is_boundary in Hb. rewrite (next_semi_skippable _ Hall) in Hb.
    destruct (is_cls CSemi t); [discriminate Hb|]. cbn [orb] in Hsb. rewrite Hsb in Hb.
    cbn [negb] in Hb. rewrite orb_true_r in Hb. discriminate Hb. }
  destruct (cont_spec f IHd cf mode (is_boundary mode t sa' rest) (is_cls CSemi t) sa' (close_id t) ixB rest res lc
                      Hd Hnd_r H0_r Hclose_r Hgr Hcvg Hwsg HB1)
    as [C [Hrest [Hcv [Hfr_c [[trc Hkeep_c] Heq_c]]]]].
  exists C. split; [exact Hrest|]. split; [exact Hcv|].
  assert (Hnd_tC : NoDup (all_ids_tok t ++ all_ids C)).
  { rewrite Hrest, all_ids_app, app_assoc in Hnd. now apply NoDup_app_l in Hnd. }
  assert (HtC : forall k, In k (all_ids_tok t) -> ~ In k (all_ids C)).
  { intros k Hk Hc. exact (NoDup_app_disj _ _ k Hnd_tC Hk Hc). }
  assert (Hend_notin : first = false -> ~ In endId (all_ids_tok t) /\ ~ In endId (all_ids C)).
  { intros ->. destruct Hpre as [Hni _]. rewrite all_ids_cons, Hrest, all_ids_app in Hni.
    split; intros Hi; apply Hni; apply in_or_app; [now left|right; apply in_or_app; now left]. }
  (* the entry of the open token at the end *)
  assert (Hopen_res : exists tro', alookup (open_id t) (i_att (r_idx res)) = Some (mkAtt leadt tro')).
  { destruct (is_fused t) eqn:Hfu.
    - destruct t as [|io ic b ox cx ch]; [discriminate Hfu|]. cbn [open_id close_id] in *.
      exists tro. destruct (Hfr_c io) as [Ha _].
      + apply HtC. rewrite all_ids_fused. now left.
      + rewrite all_ids_fused in Hnd_t. inversion Hnd_t; subst. intros ->. apply H2. apply in_or_app. right. now left.
      + now rewrite <- Ha.
    - destruct t as [i c x|]; [|discriminate Hfu]. cbn [open_id close_id] in *.
      exists trc. now rewrite <- (HBleaf eq_refl). }
  split.
  { intros k Hk Hke. rewrite all_ids_cons in Hk.
    assert (Hk_t : ~ In k (all_ids_tok t)) by (intros Hi; apply Hk; apply in_or_app; now left).
    assert (Hk_C : ~ In k (all_ids C)) by (intros Hi; apply Hk; apply in_or_app; now right).
    assert (S1 : same_at ix ixA k) by (apply HA4; [intros ->; apply Hk_t; apply open_id_in|exact Hke]).
    assert (S2 : same_at ixA ixB k) by (now apply HB3).
    assert (S3 : same_at ixB (r_idx res) k) by (apply Hfr_c; [exact Hk_C|intros ->; apply Hk_t; apply close_id_in]).
    exact (same_at_trans _ _ _ _ (same_at_trans _ _ _ _ S1 S2) S3). }
  split.
  { destruct first.
    - destruct Hopen_res as [tro' Ho]. exists tro'. now rewrite <- (HA2 eq_refl).
    - destruct (HA3 eq_refl) as [HE _]. destruct (Hend_notin eq_refl) as [He1 He2]. exists trE.
      destruct (HB3 endId He1) as [Ha _]. destruct (Hfr_c endId He2) as [Hb _].
      + intros ->. apply He1. apply close_id_in.
      + now rewrite <- Hb, <- Ha. }
  intros ixF Hag Hsame.
  assert (HagB : forall k, In k (all_ids_tok t) -> k <> close_id t -> same_at ixB ixF k).
  { intros k Hk Hkc. eapply same_at_trans; [apply Hfr_c; [now apply HtC|exact Hkc]|].
    apply Hag. rewrite all_ids_cons. apply in_or_app. now left. }
  assert (Hclose_F : alookup (close_id t) (i_att (r_idx res)) = alookup (close_id t) (i_att ixF)).
  { apply Hag. rewrite all_ids_cons. apply in_or_app. left. apply close_id_in. }
  destruct (HB4 ixF HagB ltac:(exists trc; now rewrite <- Hclose_F)) as [Hcov_t Hbody].
  assert (HagC : agree (all_ids C) (r_idx res) ixF).
  { intros k Hk. apply Hag. rewrite all_ids_cons. apply in_or_app. now right. }
  destruct (Heq_c ixF HagC Hclose_F) as [Hcov_C Heqn].
  split; [cbn [covered]; now split|].
  rewrite Etail_Ebody, Hbody. cbn [flatten]. rewrite <- Heqn.
  assert (Hprefix : (if first then [] else pieces (trail ixF endId) ++ pieces (lead ixF (open_id t))) = pieces Pd).
  { destruct first.
    - destruct Hpre as [-> _]. reflexivity.
    - destruct (HA3 eq_refl) as [HE Hsplit]. destruct (Hend_notin eq_refl) as [He1 He2].
      assert (HEres : alookup endId (i_att (r_idx res)) = Some (mkAtt l0 trE)).
      { destruct (HB3 endId He1) as [Ha _]. destruct (Hfr_c endId He2) as [Hb _].
        - intros ->. apply He1. apply close_id_in.
        - now rewrite <- Hb, <- Ha. }
      rewrite (Hsame eq_refl) in HEres. destruct (lead_of _ _ _ _ HEres) as [_ Htr]. rewrite Htr.
      destruct Hopen_res as [tro' Ho].
      assert (HoF : alookup (open_id t) (i_att ixF) = Some (mkAtt leadt tro')).
      { destruct (Hag (open_id t)) as [Ha _]; [rewrite all_ids_cons; apply in_or_app; left; apply open_id_in|].
        now rewrite <- Ha. }
      destruct (lead_of _ _ _ _ HoF) as [Hl _]. rewrite Hl. exact Hsplit. }
  rewrite Hprefix. repeat rewrite <- app_assoc. reflexivity.
Qed.

Lemma spec_mutual : forall f, S_scope f /\ S_decl f /\ S_fused f.
Proof.
  induction f as [|f [IHs [IHd IHf]]].
  - split; [|split].
    + intros cf scope mode Pd rest cv slots bbs starts hb ix ix' l0 H. discriminate H.
    + intros cf mode first t rest Pd sa endId ix res l0 H. discriminate H.
    + intros cf io ic b ox cx ch sa ix ix' l0 H. discriminate H.
  - split; [|split].
    + now apply S_scope_step.
    + now apply S_decl_step.
    + now apply S_fused_step.
Qed.

(* ---- the theorems ---- *)
Lemma agree_refl K ix : agree K ix ix.
Proof. intros k _. apply same_at_refl. Qed.

Theorem roundtrip_general cf toks ix :
  wf_toks toks -> guard cf toks -> build cf toks = Some ix ->
  covered ix toks /\ emit_roundtrip ix toks = flatten toks.
Proof.
  intros [Hnd H0] Hg Hb. unfold build in Hb.
  destruct (proj1 (spec_mutual (S (toks_size toks))) cf 0 false [] toks false [] [] [] false empty_index ix []
                  Hb Hnd H0 H0 ltac:(discriminate) Hg ltac:(intros _ Hz; now contradiction Hz))
    as [SLn [STn [Hsl [Hst [_ [_ [_ [_ [_ [_ Heq]]]]]]]]]].
  destruct (Heq ix (agree_refl _ _) ltac:(intros; reflexivity)) as [Hcov Heqn].
  split; [exact Hcov|]. rewrite (emit_roundtrip_E _ _ Hcov). rewrite Hsl, Hst. exact Heqn.
Qed.

Lemma emit_roundtrip_id_lemma toks ix :
  wf_toks toks -> build cfg_fixed toks = Some ix -> emit_roundtrip ix toks = flatten toks.
Proof. intros Hwf Hb. apply (roundtrip_general cfg_fixed toks ix Hwf); [now apply guard_fixed|exact Hb]. Qed.

Lemma emit_roundtrip_id_partial_lemma toks ix :
  wf_toks toks -> guard cfg_asis toks -> build cfg_asis toks = Some ix ->
  emit_roundtrip ix toks = flatten toks.
Proof. intros Hwf Hg Hb. now apply (roundtrip_general cfg_asis toks ix Hwf Hg Hb). Qed.

(* partition: the skippable tokens read from the index along the tree *)
Lemma filter_pieces_trivia (sel : N * list N -> bool) l :
  filter sel (pieces l) = pieces (filter (fun t => sel (open_id t, leaf_text t)) l).
Proof. unfold pieces. induction l as [|t r IH]; cbn [map filter]; [reflexivity|]. destruct (sel _); cbn [map]; now rewrite IH. Qed.

Definition is_trivia_id (toks : list tok) (p : N * list N) : bool :=
  existsb (fun t => open_id t =? fst p) (trivia_of toks).

Lemma trivia_partition_general cf toks ix :
  wf_toks toks -> guard cf toks -> build cf toks = Some ix ->
  tree_trivia ix toks = filter (is_trivia_id toks) (flatten toks).
Proof.
  intros Hwf Hg Hb. unfold tree_trivia. destruct (roundtrip_general cf toks ix Hwf Hg Hb) as [_ ->]. reflexivity.
Qed.

(* PrintFile *)
Lemma flat_map_snd_pieces l : flat_map snd (pieces l) = text_of l.
Proof. unfold pieces, text_of. induction l as [|t r IH]; cbn [map flat_map snd]; [reflexivity|now rewrite IH]. Qed.

Lemma print_file_general cf toks :
  wf_toks toks -> guard cf toks ->
  exists ix pend out,
    build cf toks = Some ix /\ emit_file ix toks = (pend, out)
    /\ flat_map snd out ++ text_of pend = source_text toks
    /\ print_file_rt cf toks = Some (finish_file cf (flat_map snd out) (text_of pend)).
Proof.
  intros Hwf Hg. destruct (build cf toks) as [ix|] eqn:Hb; [|now destruct (build_total_lemma cf toks)].
  destruct (roundtrip_general cf toks ix Hwf Hg Hb) as [_ Hrt].
  unfold emit_roundtrip in Hrt. destruct (emit_file ix toks) as [pend out] eqn:He.
  exists ix, pend, out. split; [reflexivity|]. split; [exact He|]. split.
  - unfold source_text. rewrite <- Hrt. rewrite flat_map_app. now rewrite flat_map_snd_pieces.
  - unfold print_file_rt. rewrite Hb, He. reflexivity.
Qed.

Lemma print_file_roundtrip_lemma toks :
  wf_toks toks -> print_file_rt cfg_fixed toks = Some (source_text toks).
Proof.
  intros Hwf. destruct (print_file_general cfg_fixed toks Hwf ltac:(now apply guard_fixed))
    as [ix [pend [out [_ [_ [Hs Hp]]]]]].
  rewrite Hp. unfold finish_file. cbn [fix_eof cfg_fixed]. now rewrite Hs.
Qed.

(* the condition under which the dom layer leaves the last chunk of the file alone *)
Definition eof_ok (body tail : list N) : bool :=
  if all_eq 32 tail || all_eq 10 tail
  then match tail with
       | [] => ends_nl body
       | [10] => negb (ends_nl body)
       | _ => false
       end
  else ends_nl (body ++ tail).

Lemma finish_file_ok cf body tail : eof_ok body tail = true -> finish_file cf body tail = body ++ tail.
Proof.
  unfold eof_ok, finish_file. intros H. destruct (fix_eof cf); [reflexivity|].
  destruct (all_eq 32 tail || all_eq 10 tail).
  - destruct tail as [|c [|c2 r]].
    + rewrite H. now rewrite app_nil_r.
    + destruct c as [|p]; [discriminate H|].
      destruct p as [p|p|]; try discriminate H. destruct p as [p|p|]; try discriminate H.
      destruct p as [p|p|]; try discriminate H. destruct p as [p|p|]; try discriminate H.
      apply negb_true_iff in H. now rewrite H.
    + destruct c as [|p]; [discriminate H|]. repeat (destruct p as [p|p|]; try discriminate H).
  - now rewrite H.
Qed.

Lemma print_file_roundtrip_partial_lemma toks ix pend out :
  wf_toks toks -> guard cfg_asis toks ->
  build cfg_asis toks = Some ix -> emit_file ix toks = (pend, out) ->
  eof_ok (flat_map snd out) (text_of pend) = true ->
  print_file_rt cfg_asis toks = Some (source_text toks).
Proof.
  intros Hwf Hg Hb He Hok.
  destruct (print_file_general cfg_asis toks Hwf Hg) as [ix' [pend' [out' [Hb' [He' [Hs Hp]]]]]].
  rewrite Hb in Hb'. inversion Hb'; subst ix'. rewrite He in He'. inversion He'; subst pend' out'.
  rewrite Hp. rewrite (finish_file_ok _ _ _ Hok). now rewrite Hs.
Qed.

(* ---- partition: the trivia read from the index along the tree are exactly the skippable tokens ---- *)
Fixpoint solid_ids_tok (t : tok) : list N :=
  match t with
  | Leaf i _ _ => if skippable t then [] else [i]
  | Fused io ic _ _ _ ch =>
    io :: (fix go (l : list tok) := match l with [] => [] | x :: r => solid_ids_tok x ++ go r end) ch ++ [ic]
  end.
Fixpoint solid_ids (l : list tok) : list N :=
  match l with [] => [] | x :: r => solid_ids_tok x ++ solid_ids r end.

Lemma solid_ids_fused io ic b ox cx ch :
  solid_ids_tok (Fused io ic b ox cx ch) = io :: solid_ids ch ++ [ic].
Proof.
  cbn [solid_ids_tok].
  match goal with |- _ :: ?g ch ++ _ = _ => assert (H : forall l, g l = solid_ids l) end.
  { induction l as [|x r IH]; [reflexivity|]. cbn [solid_ids]. now rewrite <- IH. }
  now rewrite H.
Qed.

Lemma trivia_fused io ic b ox cx ch : trivia_tok (Fused io ic b ox cx ch) = trivia_of ch.
Proof.
  cbn [trivia_tok].
  match goal with |- ?g ch = _ => assert (H : forall l, g l = trivia_of l) end.
  { induction l as [|x r IH]; [reflexivity|]. cbn [trivia_of]. now rewrite <- IH. }
  apply H.
Qed.

Lemma ids_split_tok t : forall k, In k (all_ids_tok t) <-> In k (solid_ids_tok t) \/ In k (ids_of (trivia_tok t)).
Proof.
  induction t as [i c x|io ic b ox cx ch IH] using tok_ind2; intros k.
  - cbn [all_ids_tok solid_ids_tok trivia_tok]. destruct (skippable (Leaf i c x)); cbn; tauto.
  - rewrite all_ids_fused, solid_ids_fused, trivia_fused.
    assert (Hl : forall k, In k (all_ids ch) <-> In k (solid_ids ch) \/ In k (ids_of (trivia_of ch))).
    { clear k. induction ch as [|y r IHr]; intros k; [cbn; tauto|].
      inversion IH; subst. cbn [all_ids solid_ids trivia_of]. unfold ids_of. rewrite map_app.
      rewrite !in_app_iff. fold (ids_of (trivia_tok y)). fold (ids_of (trivia_of r)).
      rewrite (H1 k), (IHr H2 k). tauto. }
    cbn [In]. rewrite !in_app_iff. rewrite (Hl k). cbn [In]. tauto.
Qed.

Lemma ids_split l : forall k, In k (all_ids l) <-> In k (solid_ids l) \/ In k (ids_of (trivia_of l)).
Proof.
  induction l as [|y r IHr]; intros k; [cbn; tauto|].
  cbn [all_ids solid_ids trivia_of]. unfold ids_of. rewrite map_app. rewrite !in_app_iff.
  fold (ids_of (trivia_tok y)). fold (ids_of (trivia_of r)). rewrite (ids_split_tok y k), (IHr k). tauto.
Qed.

Lemma solid_trivia_disj_tok t : NoDup (all_ids_tok t) ->
  forall k, In k (solid_ids_tok t) -> In k (ids_of (trivia_tok t)) -> False.
Proof.
  induction t as [i c x|io ic b ox cx ch IH] using tok_ind2; intros Hnd k Hs Ht.
  - cbn [solid_ids_tok trivia_tok] in *. destruct (skippable (Leaf i c x)); [contradiction|contradiction].
  - rewrite all_ids_fused in Hnd. rewrite solid_ids_fused in Hs. rewrite trivia_fused in Ht.
    inversion Hnd as [|? ? Hio Hnd']; subst.
    assert (Hch : forall k, In k (solid_ids ch) -> In k (ids_of (trivia_of ch)) -> False).
    { apply NoDup_app_l in Hnd'. clear - IH Hnd'. induction ch as [|y r IHr]; intros k Hs Ht; [contradiction|].
      inversion IH; subst. cbn [all_ids] in Hnd'. cbn [solid_ids trivia_of] in Hs, Ht.
      unfold ids_of in Ht. rewrite map_app in Ht. apply in_app_or in Hs. apply in_app_or in Ht.
      pose proof (NoDup_app_l _ _ Hnd') as Hy. pose proof (NoDup_app_r _ _ Hnd') as Hr.
      destruct Hs as [Hs|Hs], Ht as [Ht|Ht].
      - exact (H1 Hy k Hs Ht).
      - apply (NoDup_app_disj _ _ k Hnd'); [apply ids_split_tok; now left|apply ids_split; now right].
      - apply (NoDup_app_disj _ _ k Hnd'); [apply ids_split_tok; now right|apply ids_split; now left].
      - exact (IHr H2 Hr k Hs Ht). }
    assert (Htin : In k (all_ids ch)) by (apply ids_split; now right).
    destruct Hs as [<-|Hs].
    + apply Hio. apply in_or_app. now left.
    + apply in_app_or in Hs. destruct Hs as [Hs|[<-|[]]]; [exact (Hch k Hs Ht)|].
      apply (NoDup_app_disj _ _ ic Hnd' Htin). now left.
Qed.

Lemma solid_trivia_disj l : NoDup (all_ids l) ->
  forall k, In k (solid_ids l) -> In k (ids_of (trivia_of l)) -> False.
Proof.
  induction l as [|y r IHr]; intros Hnd k Hs Ht; [contradiction|].
  cbn [all_ids] in Hnd. cbn [solid_ids trivia_of] in Hs, Ht.
  unfold ids_of in Ht. rewrite map_app in Ht. apply in_app_or in Hs. apply in_app_or in Ht.
  pose proof (NoDup_app_l _ _ Hnd) as Hy. pose proof (NoDup_app_r _ _ Hnd) as Hr.
  destruct Hs as [Hs|Hs], Ht as [Ht|Ht].
  - exact (solid_trivia_disj_tok y Hy k Hs Ht).
  - apply (NoDup_app_disj _ _ k Hnd); [apply ids_split_tok; now left|apply ids_split; now right].
  - apply (NoDup_app_disj _ _ k Hnd); [apply ids_split_tok; now right|apply ids_split; now left].
  - exact (IHr Hr k Hs Ht).
Qed.

Lemma filter_flatten_tok (sel : N * list N -> bool) t :
  (forall u, In u (trivia_tok t) -> sel (open_id u, leaf_text u) = true) ->
  (forall k x, In k (solid_ids_tok t) -> sel (k, x) = false) ->
  filter sel (flatten_tok t) = pieces (trivia_tok t).
Proof.
  induction t as [i c x|io ic b ox cx ch IH] using tok_ind2; intros H1 H2.
  - cbn [flatten_tok trivia_tok solid_ids_tok] in *. destruct (skippable (Leaf i c x)) eqn:Hs.
    + pose proof (H1 (Leaf i c x) (or_introl eq_refl)) as Hx. cbn [open_id leaf_text] in Hx.
      cbn [filter pieces map open_id leaf_text]. now rewrite Hx.
    + cbn [filter pieces map]. now rewrite (H2 i x (or_introl eq_refl)).
  - rewrite flatten_fused, trivia_fused. rewrite trivia_fused in H1. rewrite solid_ids_fused in H2.
    cbn [filter]. rewrite (H2 io ox (or_introl eq_refl)). rewrite filter_app. cbn [filter].
    rewrite (H2 ic cx) by (right; apply in_or_app; right; now left). rewrite app_nil_r.
    assert (H2' : forall k x, In k (solid_ids ch) -> sel (k, x) = false).
    { intros k x Hk. apply H2. right. apply in_or_app. now left. }
    clear H2. induction ch as [|y r IHr]; [reflexivity|].
    inversion IH as [|? ? Hy Hr]; subst. cbn [flatten trivia_of]. rewrite filter_app, pieces_app.
    rewrite Hy.
    + rewrite IHr; [reflexivity|assumption| |].
      * intros u Hu. apply H1. cbn [trivia_of]. apply in_or_app. now right.
      * intros k x Hk. apply H2'. cbn [solid_ids]. apply in_or_app. now right.
    + intros u Hu. apply H1. cbn [trivia_of]. apply in_or_app. now left.
    + intros k x Hk. apply H2'. cbn [solid_ids]. apply in_or_app. now left.
Qed.

Lemma filter_flatten (sel : N * list N -> bool) l :
  (forall u, In u (trivia_of l) -> sel (open_id u, leaf_text u) = true) ->
  (forall k x, In k (solid_ids l) -> sel (k, x) = false) ->
  filter sel (flatten l) = pieces (trivia_of l).
Proof.
  induction l as [|y r IHr]; intros H1 H2; [reflexivity|].
  cbn [flatten trivia_of]. rewrite filter_app, pieces_app. rewrite filter_flatten_tok.
  - rewrite IHr; [reflexivity| |].
    + intros u Hu. apply H1. cbn [trivia_of]. apply in_or_app. now right.
    + intros k x Hk. apply H2. cbn [solid_ids]. apply in_or_app. now right.
  - intros u Hu. apply H1. cbn [trivia_of]. apply in_or_app. now left.
  - intros k x Hk. apply H2. cbn [solid_ids]. apply in_or_app. now left.
Qed.

Lemma trivia_partition_lemma_general cf toks ix :
  wf_toks toks -> guard cf toks -> build cf toks = Some ix ->
  tree_trivia ix toks = pieces (trivia_of toks).
Proof.
  intros Hwf Hg Hb. rewrite (trivia_partition_general cf toks ix Hwf Hg Hb).
  apply filter_flatten.
  - intros u Hu. unfold is_trivia_id. cbn [fst]. apply existsb_exists. exists u. split; [exact Hu|apply N.eqb_refl].
  - intros k x Hk. unfold is_trivia_id. cbn [fst].
    destruct (existsb (fun t => open_id t =? k) (trivia_of toks)) eqn:He; [|reflexivity].
    apply existsb_exists in He. destruct He as [u [Hu Hek]]. apply N.eqb_eq in Hek.
    exfalso. apply (solid_trivia_disj toks (proj1 Hwf) k Hk). unfold ids_of. rewrite <- Hek. now apply in_map.
Qed.

Lemma trivia_partition_lemma toks ix :
  wf_toks toks -> build cfg_fixed toks = Some ix -> tree_trivia ix toks = pieces (trivia_of toks).
Proof. intros Hwf Hb. apply (trivia_partition_lemma_general cfg_fixed toks ix Hwf); [now apply guard_fixed|exact Hb]. Qed.

Lemma trivia_partition_partial_lemma toks ix :
  wf_toks toks -> guard cfg_asis toks -> build cfg_asis toks = Some ix ->
  tree_trivia ix toks = pieces (trivia_of toks).
Proof. intros Hwf Hg Hb. now apply (trivia_partition_lemma_general cfg_asis toks ix Hwf Hg Hb). Qed.

Lemma tree_partition_refuted_asis :
  exists toks ix, wf_toks toks /\ build cfg_asis toks = Some ix /\
                  tree_trivia ix toks <> pieces (trivia_of toks).
Proof.
  exists wit_drop. eexists. split; [|split].
  - split; vm_compute.
    + repeat constructor; intros H; repeat (destruct H as [H|H]; try discriminate H); exact H.
    + intros H; repeat (destruct H as [H|H]; try discriminate H); exact H.
  - vm_compute. reflexivity.
  - vm_compute. discriminate.
Qed.

(* ---- the tree with the end-of-file repair only (cfg_eof_only) ---- *)
Lemma print_file_roundtrip_eof_general cf toks :
  fix_eof cf = true -> wf_toks toks -> guard cf toks ->
  print_file_rt cf toks = Some (source_text toks).
Proof.
  intros Hf Hwf Hg. destruct (print_file_general cf toks Hwf Hg) as [ix [pend [out [_ [_ [Hs Hp]]]]]].
  rewrite Hp. unfold finish_file. rewrite Hf. now rewrite Hs.
Qed.

Lemma print_file_roundtrip_eof_only_lemma toks :
  wf_toks toks -> guard cfg_eof_only toks -> print_file_rt cfg_eof_only toks = Some (source_text toks).
Proof. now apply print_file_roundtrip_eof_general. Qed.

Lemma emit_roundtrip_id_eof_only_lemma toks ix :
  wf_toks toks -> guard cfg_eof_only toks -> build cfg_eof_only toks = Some ix ->
  emit_roundtrip ix toks = flatten toks.
Proof. intros Hwf Hg Hb. now apply (roundtrip_general cfg_eof_only toks ix Hwf Hg Hb). Qed.

Lemma trivia_partition_eof_only_lemma toks ix :
  wf_toks toks -> guard cfg_eof_only toks -> build cfg_eof_only toks = Some ix ->
  tree_trivia ix toks = pieces (trivia_of toks).
Proof. intros Hwf Hg Hb. now apply (trivia_partition_lemma_general cfg_eof_only toks ix Hwf Hg Hb). Qed.

Lemma eof_only_refuted :
  (exists toks, wf_toks toks /\ print_file_rt cfg_eof_only toks <> Some (source_text toks))
  /\ (exists toks ix, wf_toks toks /\ build cfg_eof_only toks = Some ix /\ emit_roundtrip ix toks <> flatten toks)
  /\ (exists toks ix, wf_toks toks /\ build cfg_eof_only toks = Some ix /\ tree_trivia ix toks <> pieces (trivia_of toks))
  /\ (exists toks ds tail, wf_toks toks /\ print_decls cfg_eof_only toks = Some (ds, tail)
                           /\ concat ds ++ tail <> source_text toks).
Proof.
  assert (Hw : forall l, (forallb (fun k => negb (k =? 0)) (all_ids l) = true) -> NoDup (all_ids l) -> wf_toks l).
  { intros l H1 H2. split; [exact H2|]. intros Hi. rewrite forallb_forall in H1. specialize (H1 0 Hi). discriminate H1. }
  split; [|split; [|split]].
  - exists wit_drop. split; [apply Hw; [reflexivity|]|vm_compute; discriminate].
    vm_compute. repeat constructor; intros H; repeat (destruct H as [H|H]; try discriminate H); exact H.
  - exists wit_cv. eexists. split; [apply Hw; [reflexivity|]|split; [vm_compute; reflexivity|vm_compute; discriminate]].
    vm_compute. repeat constructor; intros H; repeat (destruct H as [H|H]; try discriminate H); exact H.
  - exists wit_drop. eexists. split; [apply Hw; [reflexivity|]|split; [vm_compute; reflexivity|vm_compute; discriminate]].
    vm_compute. repeat constructor; intros H; repeat (destruct H as [H|H]; try discriminate H); exact H.
  - exists wit_decl. eexists. eexists. split; [apply Hw; [reflexivity|]|split; [vm_compute; reflexivity|vm_compute; discriminate]].
    vm_compute. repeat constructor; intros H; repeat (destruct H as [H|H]; try discriminate H); exact H.
Qed.

(* ---- Print on each top-level declaration ---- *)
Lemma cut_decls_acc l : forall starts cur acc,
  cut_decls l starts cur acc = acc ++ cut_decls l starts cur [].
Proof.
  induction l as [|t r IH]; intros starts cur acc; cbn [cut_decls]; [reflexivity|].
  destruct starts as [|s st]; [apply IH|].
  destruct (negb (skippable t) && ((s =? open_id t) || (s =? close_id t))).
  - rewrite (IH st [t] (acc ++ [cur])). rewrite (IH st [t] ([] ++ [cur])). cbn [app]. now rewrite <- app_assoc.
  - apply IH.
Qed.

Definition grp (ix : index) (p : list tok * list tok) : list (N * list N) :=
  pieces (fst p) ++ EP ix (snd p).

Lemma cut_E ix l : forall slots starts cur,
  (length starts < length slots)%nat ->
  exists g0 gs,
    cut_decls l starts cur [] = (cur ++ g0) :: gs
    /\ (length gs <= length starts)%nat
    /\ E_seq (E_tok ix) l slots starts
       = EP ix g0 ++ concat (map (grp ix) (combine (firstn (length gs) slots) gs))
         ++ pieces (concat (skipn (length gs) slots)).
Proof.
  induction l as [|t r IH]; intros slots starts cur Hlen.
  - exists [], []. cbn [cut_decls app]. rewrite app_nil_r. split; [reflexivity|]. split; [cbn; lia|]. reflexivity.
  - cbn [cut_decls].
    assert (Hnomatch : forall slots starts, (length starts < length slots)%nat ->
               (match starts with
                | s :: _ => negb (skippable t) && ((s =? open_id t) || (s =? close_id t))
                | [] => false end) = false ->
               exists g0 gs,
                 cut_decls r starts (cur ++ [t]) [] = (cur ++ g0) :: gs
                 /\ (length gs <= length starts)%nat
                 /\ E_seq (E_tok ix) (t :: r) slots starts
                    = EP ix g0 ++ concat (map (grp ix) (combine (firstn (length gs) slots) gs))
                      ++ pieces (concat (skipn (length gs) slots))).
    { intros sl st Hl Hnm. destruct (IH sl st (cur ++ [t]) Hl) as [g0 [gs [H1 [H2 H3]]]].
      exists (t :: g0), gs. split; [rewrite H1; now rewrite <- app_assoc|]. split; [exact H2|].
      destruct (skippable t) eqn:Hs.
      - rewrite E_seq_skip by exact Hs. unfold EP. rewrite E_seq_skip by exact Hs. exact H3.
      - rewrite EP_cons by exact Hs. rewrite <- app_assoc. rewrite <- H3.
        destruct st as [|s st']; [now apply E_seq_cons_nostart|].
        destruct sl as [|x sl']; [cbn in Hl; lia|].
        rewrite E_seq_cons_cons by exact Hs. cbn [negb andb] in Hnm. now rewrite Hnm. }
    destruct starts as [|s st]; [now apply Hnomatch|].
    destruct (negb (skippable t) && ((s =? open_id t) || (s =? close_id t))) eqn:Hm; [|now apply Hnomatch].
    apply andb_true_iff in Hm. destruct Hm as [Hs Hm]. apply negb_true_iff in Hs.
    destruct slots as [|x slots']; [cbn in Hlen; lia|]. cbn [length] in Hlen.
    destruct (IH slots' st [t] ltac:(lia)) as [g0 [gs [H1 [H2 H3]]]].
    rewrite cut_decls_acc. rewrite H1. exists [], (([t] ++ g0) :: gs). cbn [app]. rewrite app_nil_r.
    split; [reflexivity|]. split; [cbn [length]; lia|].
    rewrite E_seq_cons_cons by exact Hs. rewrite Hm. rewrite H3.
    cbn [length firstn skipn combine map concat]. unfold grp. cbn [fst snd].
    rewrite (EP_cons ix t g0 Hs). change (EP ix []) with (@nil (N * list N)). cbn [app].
    repeat rewrite <- app_assoc. reflexivity.
Qed.

Lemma print_decl_E cf ix slot decl :
  fix_decl_tail cf = true -> covered ix decl ->
  print_decl cf ix slot decl = flat_map snd (grp ix (slot, decl)).
Proof.
  intros Hf Hc. unfold print_decl, grp. cbn [fst snd].
  pose proof (emit_E_seq ix decl [] [] slot [] Hc) as H.
  destruct (emit_seq (emit_tok ix) decl [] [] (slot, [])) as [pend out].
  unfold finish_decl. rewrite Hf. cbn [app] in H.
  rewrite <- flat_map_snd_pieces. rewrite <- flat_map_app. now rewrite H.
Qed.

Lemma covered_in ix l t : covered ix l -> In t l -> covered_tok ix t.
Proof. induction l as [|x r IH]; intros Hc Hi; [contradiction|]. cbn in Hc. destruct Hc as [H1 H2]. destruct Hi as [<-|Hi]; auto. Qed.

Lemma covered_of ix l : (forall t, In t l -> covered_tok ix t) -> covered ix l.
Proof. induction l as [|x r IH]; intros H; [exact I|]. split; [apply H; now left|apply IH; intros t Ht; apply H; now right]. Qed.

(* every group is a sub-list of the tokens *)
Lemma cut_decls_in l : forall starts cur g,
  In g (cut_decls l starts cur []) -> forall t, In t g -> In t cur \/ In t l.
Proof.
  induction l as [|x r IH]; intros starts cur g Hg t Ht; cbn [cut_decls] in Hg.
  - destruct Hg as [<-|[]]. now left.
  - destruct starts as [|s st].
    + destruct (IH [] (cur ++ [x]) g Hg t Ht) as [H|H]; [apply in_app_or in H; destruct H as [H|[<-|[]]]; [now left|right; now left]|right; now right].
    + destruct (negb (skippable x) && ((s =? open_id x) || (s =? close_id x))).
      * rewrite cut_decls_acc in Hg. cbn [app] in Hg. destruct Hg as [<-|Hg]; [now left|].
        destruct (IH st [x] g Hg t Ht) as [[<-|[]]|H]; right; [now left|now right].
      * destruct (IH (s :: st) (cur ++ [x]) g Hg t Ht) as [H|H]; [apply in_app_or in H; destruct H as [H|[<-|[]]]; [now left|right; now left]|right; now right].
Qed.

Lemma cut_head sk : forall t r st cur,
  forallb skippable sk = true -> skippable t = false ->
  exists gs, cut_decls (sk ++ t :: r) (open_id t :: st) cur [] = (cur ++ sk) :: gs.
Proof.
  induction sk as [|x sk IH]; intros t r st cur Hsk Ht.
  - cbn [app cut_decls]. rewrite Ht, N.eqb_refl. cbn [negb andb orb]. rewrite cut_decls_acc. cbn [app].
    rewrite app_nil_r. eexists. reflexivity.
  - cbn [forallb] in Hsk. apply andb_true_iff in Hsk. destruct Hsk as [Hx Hsk].
    cbn [app cut_decls]. rewrite Hx. cbn [negb andb].
    destruct (IH t r st (cur ++ [x]) Hsk Ht) as [gs Hgs]. exists gs. rewrite Hgs. now rewrite <- app_assoc.
Qed.

Lemma per_decl_general cf toks :
  fix_decl_tail cf = true -> wf_toks toks -> guard cf toks ->
  exists ds tail, print_decls cf toks = Some (ds, tail) /\ concat ds ++ tail = source_text toks.
Proof.
  intros Hf [Hnd H0] Hg. unfold print_decls.
  destruct (build cf toks) as [ix|] eqn:Hb; [|now destruct (build_total_lemma cf toks)].
  pose proof Hb as Hb'. unfold build in Hb'.
  destruct (proj1 (spec_mutual (S (toks_size toks))) cf 0 false [] toks false [] [] [] false empty_index ix []
                  Hb' Hnd H0 H0 ltac:(discriminate) Hg ltac:(intros _ Hz; now contradiction Hz))
    as [SLn [STn [Hsl [Hst [Hlen [Hhead [_ [_ [_ [_ Heq]]]]]]]]]].
  destruct (Heq ix (agree_refl _ _) ltac:(intros; reflexivity)) as [Hcov Heqn].
  cbn [app is_nil andb pieces map] in Hsl, Hst, Heqn. change (negb (0 =? 0)) with false in Heqn. cbn [app] in Heqn.
  rewrite Hsl, Hst. clear Hsl Hst.
  assert (Hlt : (length STn < length SLn)%nat) by (rewrite Hlen; apply Nat.lt_succ_diag_r).
  destruct (cut_E ix toks SLn STn [] Hlt) as [g0 [gs [Hcut [Hgl HE]]]].
  cbn [app] in Hcut. rewrite Hcut. cbn [tl].
  eexists. eexists. split; [reflexivity|].
  (* the tokens before the first declaration are skippable *)
  assert (Hg0 : EP ix g0 = []).
  { unfold head_start in Hhead. destruct (gather toks) as [sk rest1] eqn:Hga.
    destruct (gather_spec _ _ _ Hga) as [Htoks [Hsk Hh]]. cbn [snd] in Hhead.
    destruct rest1 as [|t r].
    - subst STn. rewrite app_nil_r in Htoks. subst toks.
      assert (gs = []) by (destruct gs; [reflexivity|exfalso; cbn in Hgl; lia]). subst gs.
      assert (Hall : forall l cur, cut_decls l [] cur [] = [cur ++ l]).
      { induction l as [|x l IHl]; intros cur; cbn [cut_decls]; [now rewrite app_nil_r|]. rewrite IHl. now rewrite <- app_assoc. }
      rewrite Hall in Hcut. cbn [app] in Hcut. inversion Hcut; subst g0. now apply EP_skippable.
    - destruct Hhead as [STn' ->]. subst toks.
      destruct (cut_head sk t r STn' [] Hsk Hh) as [gs' Hgs']. rewrite Hgs' in Hcut. cbn [app] in Hcut.
      inversion Hcut; subst. now apply EP_skippable. }
  rewrite Hg0 in HE. cbn [app] in HE.
  unfold source_text. rewrite <- Heqn. rewrite HE. rewrite flat_map_app. rewrite flat_map_snd_pieces. f_equal.
  (* the groups *)
  assert (Hcovg : forall g, In g gs -> covered ix g).
  { intros g Hin. apply covered_of. intros t Ht.
    destruct (cut_decls_in toks STn [] g ltac:(rewrite Hcut; now right) t Ht) as [[]|Hin2].
    now apply (covered_in ix toks t Hcov). }
  clear - Hf Hcovg. generalize (firstn (length gs) SLn). intros sl. revert sl.
  induction gs as [|g gs IH]; intros sl; destruct sl as [|s sl]; cbn [combine map concat flat_map fst snd]; try reflexivity.
  rewrite flat_map_app. rewrite (print_decl_E cf ix s g Hf (Hcovg g (or_introl eq_refl))). cbn [fst snd]. f_equal.
  apply IH. intros g' Hg'. apply Hcovg. now right.
Qed.

Lemma per_decl_concat_lemma toks :
  wf_toks toks ->
  exists ds tail, print_decls cfg_fixed toks = Some (ds, tail) /\ concat ds ++ tail = source_text toks.
Proof. intros Hwf. apply per_decl_general; [reflexivity|exact Hwf|now apply guard_fixed]. Qed.

(* ======================================================================================
   C31: format mode permutes the top-level declarations by a stable sort on (rank, name) *)
Lemma sinsert_perm x l : Permutation (sinsert x l) (x :: l).
Proof.
  induction l as [|y r IH]; cbn [sinsert]; [apply Permutation_refl|].
  destruct (decl_leb x y); [apply Permutation_refl|].
  eapply Permutation_trans; [apply perm_skip; exact IH|apply perm_swap].
Qed.

Lemma ssort_perm l : Permutation (ssort l) l.
Proof.
  induction l as [|x r IH]; cbn [ssort]; [constructor|].
  eapply Permutation_trans; [apply sinsert_perm|now apply perm_skip].
Qed.

Lemma filter_perm {A} (p : A -> bool) l l' : Permutation l l' -> Permutation (filter p l) (filter p l').
Proof.
  induction 1; cbn [filter].
  - constructor.
  - destruct (p x); [now apply perm_skip|assumption].
  - destruct (p x), (p y); try apply Permutation_refl. apply perm_swap.
  - eapply Permutation_trans; eassumption.
Qed.

Lemma format_preserves_declarations_lemma ds :
  Permutation (format_order ds) (filter (fun d => negb (f_empty d)) ds).
Proof. unfold format_order. apply filter_perm. apply ssort_perm. Qed.

(* declarations that compareDecl does not distinguish keep their relative order; the ranks
   syntax, package and body carry no name, so these blocks are never reordered *)
Definition rank_is (r : N) (d : fdecl) : bool := f_rank d =? r.

Lemma decl_compare_same_rank r x y :
  r <> 2 -> r <> 3 -> f_rank x = r -> f_rank y = r -> decl_compare x y = Eq.
Proof.
  intros H2 H3 Hx Hy. unfold decl_compare. rewrite Hx, Hy, N.compare_refl.
  apply N.eqb_neq in H2. apply N.eqb_neq in H3. now rewrite H2, H3.
Qed.

Lemma sinsert_filter_rank r x l :
  r <> 2 -> r <> 3 ->
  filter (rank_is r) (sinsert x l) = filter (rank_is r) (x :: l).
Proof.
  intros H2 H3. induction l as [|y l IH]; cbn [sinsert]; [reflexivity|].
  destruct (decl_leb x y) eqn:Hle; [reflexivity|].
  cbn [filter] in *. rewrite IH.
  destruct (rank_is r x) eqn:Hx, (rank_is r y) eqn:Hy; try reflexivity.
  exfalso. unfold rank_is in Hx, Hy. apply N.eqb_eq in Hx. apply N.eqb_eq in Hy.
  unfold decl_leb in Hle. now rewrite (decl_compare_same_rank r x y H2 H3 Hx Hy) in Hle.
Qed.

Lemma ssort_filter_rank r l :
  r <> 2 -> r <> 3 -> filter (rank_is r) (ssort l) = filter (rank_is r) l.
Proof.
  intros H2 H3. induction l as [|x l IH]; [reflexivity|].
  cbn [ssort]. rewrite (sinsert_filter_rank r x (ssort l) H2 H3). cbn [filter]. now rewrite IH.
Qed.

Lemma filter_comm {A} (p q : A -> bool) l : filter p (filter q l) = filter q (filter p l).
Proof.
  induction l as [|x l IH]; [reflexivity|]. cbn [filter].
  destruct (p x) eqn:Hp, (q x) eqn:Hq; cbn [filter]; rewrite ?Hp, ?Hq, IH; reflexivity.
Qed.

Lemma format_keeps_block_order_lemma r ds :
  r <> 2 -> r <> 3 ->
  filter (rank_is r) (format_order ds) = filter (rank_is r) (filter (fun d => negb (f_empty d)) ds).
Proof.
  intros H2 H3. unfold format_order. rewrite filter_comm. rewrite (ssort_filter_rank r ds H2 H3).
  apply filter_comm.
Qed.

(* the output is ordered by rank *)
Definition rank_sorted (l : list fdecl) : Prop :=
  StronglySorted (fun a b => f_rank a <= f_rank b) l.

Lemma decl_leb_rank x y : decl_leb x y = true -> f_rank x <= f_rank y.
Proof.
  unfold decl_leb, decl_compare. destruct (N.compare (f_rank x) (f_rank y)) eqn:Hc; intros H.
  - apply N.compare_eq in Hc. rewrite Hc. apply N.le_refl.
  - apply N.compare_lt_iff in Hc. now apply N.lt_le_incl.
  - discriminate H.
Qed.

Lemma decl_gt_rank x y : decl_leb x y = false -> f_rank y <= f_rank x.
Proof.
  unfold decl_leb, decl_compare. destruct (N.compare (f_rank x) (f_rank y)) eqn:Hc; intros H.
  - apply N.compare_eq in Hc. rewrite Hc. apply N.le_refl.
  - discriminate H.
  - apply N.compare_gt_iff in Hc. now apply N.lt_le_incl.
Qed.

Lemma sinsert_rank_sorted x l : rank_sorted l -> rank_sorted (sinsert x l).
Proof.
  unfold rank_sorted. induction l as [|y r IH]; intros Hs; cbn [sinsert].
  - constructor; constructor.
  - inversion Hs as [|? ? Hr Hall]; subst. destruct (decl_leb x y) eqn:Hle.
    + constructor; [exact Hs|]. constructor; [now apply decl_leb_rank|].
      apply decl_leb_rank in Hle. eapply Forall_impl; [|exact Hall]. intros a Ha. cbn in *. eapply N.le_trans; eassumption.
    + constructor; [now apply IH|].
      eapply Permutation_Forall; [apply Permutation_sym, sinsert_perm|].
      constructor; [now apply decl_gt_rank|exact Hall].
Qed.

Lemma ssort_rank_sorted l : rank_sorted (ssort l).
Proof. induction l as [|x r IH]; cbn [ssort]; [constructor|now apply sinsert_rank_sorted]. Qed.

Lemma filter_strongly_sorted {A} (R : A -> A -> Prop) (p : A -> bool) l :
  StronglySorted R l -> StronglySorted R (filter p l).
Proof.
  induction 1 as [|a l Hs IH Hall]; cbn [filter]; [constructor|].
  destruct (p a); [|exact IH]. constructor; [exact IH|].
  rewrite Forall_forall in *. intros x Hx. apply filter_In in Hx. now apply Hall.
Qed.

Lemma format_rank_sorted_lemma ds : rank_sorted (format_order ds).
Proof. unfold format_order. apply filter_strongly_sorted. apply ssort_rank_sorted. Qed.

Lemma format_preserves_token_sequence_lemma ds :
  exists ds',
    format_effect ds = concat (map f_toks ds')
    /\ Permutation ds' (filter (fun d => negb (f_empty d)) ds)
    /\ (forall r, r <> 2 -> r <> 3 ->
                  filter (rank_is r) ds' = filter (rank_is r) (filter (fun d => negb (f_empty d)) ds))
    /\ rank_sorted ds'.
Proof.
  exists (format_order ds). split; [reflexivity|]. split; [apply format_preserves_declarations_lemma|].
  split; [intros r; apply format_keeps_block_order_lemma|apply format_rank_sorted_lemma].
Qed.
