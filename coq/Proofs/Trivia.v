(* Proofs about the trivia index model (Model/Trivia.v). *)
From Coq Require Import List NArith Bool Arith Lia Permutation.
From PV Require Import Model.Trivia.
Import ListNotations.
Open Scope N_scope.

(* ---- smallest witnesses for the code as it is ---- *)
(* [x ]: the space before the closer is in no list of the index *)
Definition wit_drop : list tok :=
  [Fused 1 4 BBrackets [91] [93] [Leaf 2 COther [120]; Leaf 3 CSpace [32]]].

(* ; (a): after the push-back the fused token is registered under its close id, the open paren has no entry *)
Definition wit_cv : list tok :=
  [Leaf 1 CSemi [59]; Leaf 2 CSpace [32]; Fused 3 5 BParens [40] [41] [Leaf 4 COther [97]]].

(* x without a final newline *)
Definition wit_nonl : list tok := [Leaf 1 COther [120]].

(* x;  (newline) y;  -- the two spaces after the first declaration are lost by Print *)
Definition wit_decl : list tok :=
  [Leaf 1 COther [120]; Leaf 2 CSemi [59]; Leaf 3 CSpace [32; 32]; Leaf 4 CNewline [10];
   Leaf 5 COther [121]; Leaf 6 CSemi [59]; Leaf 7 CNewline [10]].

(* ---- statements (shared by the theorems below and by Props/C30.v) ---- *)
(* token ids are unique and non-zero (0 is the key of the file scope) *)
Fixpoint all_ids_tok (t : tok) : list N :=
  match t with
  | Leaf i _ _ => [i]
  | Fused io ic _ _ _ ch =>
    io :: (fix go (l : list tok) := match l with [] => [] | x :: r => all_ids_tok x ++ go r end) ch ++ [ic]
  end.
Fixpoint all_ids (l : list tok) : list N :=
  match l with [] => [] | x :: r => all_ids_tok x ++ all_ids r end.
Definition wf_toks (l : list tok) : Prop := NoDup (all_ids l) /\ ~ In 0 (all_ids l).

(* the skippable tokens found in the lists of the index that belong to the tokens and scopes of
   the tree, in the order in which the tree is traversed *)
Definition att_of (ix : index) (i : N) : list tok * list tok :=
  match alookup i (i_att ix) with Some a => (a_lead a, a_trail a) | None => ([], []) end.

(* partition: reading the index along the tree (slot before each declaration start, leading,
   trailing, the remaining slots before the closer) yields every skippable token of the source
   exactly once, in stream order *)
Definition tree_trivia (ix : index) (toks : list tok) : list (N * list N) :=
  filter (fun p => existsb (fun t => (open_id t =? fst p)) (trivia_of toks)) (emit_roundtrip ix toks).

Lemma partition_refuted_asis :
  exists toks ix, wf_toks toks /\ build cfg_asis toks = Some ix /\
                  ~ Permutation (index_trivia ix) (trivia_of toks).
Proof.
  exists wit_drop. eexists. split; [|split].
  - split; vm_compute.
    + repeat constructor; intros H; repeat (destruct H as [H|H]; try discriminate H); exact H.
    + intros H; repeat (destruct H as [H|H]; try discriminate H); exact H.
  - vm_compute. reflexivity.
  - vm_compute. intros H. apply Permutation_length in H. discriminate H.
Qed.

Lemma roundtrip_refuted_asis :
  exists toks ix, wf_toks toks /\ build cfg_asis toks = Some ix /\
                  emit_roundtrip ix toks <> flatten toks.
Proof.
  exists wit_cv. eexists. split; [|split].
  - split; vm_compute.
    + repeat constructor; intros H; repeat (destruct H as [H|H]; try discriminate H); exact H.
    + intros H; repeat (destruct H as [H|H]; try discriminate H); exact H.
  - vm_compute. reflexivity.
  - vm_compute. discriminate.
Qed.

Lemma print_file_refuted_asis :
  exists toks, wf_toks toks /\ print_file_rt cfg_asis toks <> Some (source_text toks).
Proof.
  exists wit_nonl. split.
  - split; vm_compute.
    + repeat constructor; intros H; repeat (destruct H as [H|H]; try discriminate H); exact H.
    + intros H; repeat (destruct H as [H|H]; try discriminate H); exact H.
  - vm_compute. discriminate.
Qed.

Lemma per_decl_refuted_asis :
  exists toks ds tail, wf_toks toks /\ print_decls cfg_asis toks = Some (ds, tail) /\
                       concat ds ++ tail <> source_text toks.
Proof.
  exists wit_decl. eexists. eexists. split; [|split].
  - split; vm_compute.
    + repeat constructor; intros H; repeat (destruct H as [H|H]; try discriminate H); exact H.
    + intros H; repeat (destruct H as [H|H]; try discriminate H); exact H.
  - vm_compute. reflexivity.
  - vm_compute. discriminate.
Qed.

(* ---- fuel: build never runs out ---- *)
Lemma tok_size_fused io ic b ox cx ch :
  tok_size (Fused io ic b ox cx ch) = (3 + toks_size ch)%nat.
Proof.
  cbn [tok_size]. induction ch as [|x r IH]; cbn [toks_size]; [reflexivity|lia].
Qed.

Lemma tok_size_pos t : (1 <= tok_size t)%nat.
Proof. destruct t; [cbn; lia|rewrite tok_size_fused; lia]. Qed.

Lemma gather_app l : fst (gather l) ++ snd (gather l) = l.
Proof.
  induction l as [|t r IH]; cbn [gather]; [reflexivity|].
  destruct (skippable t); [|reflexivity].
  destruct (gather r) as [a b]; cbn [fst snd app] in *. now rewrite IH.
Qed.

Lemma toks_size_app a b : toks_size (a ++ b) = (toks_size a + toks_size b)%nat.
Proof. induction a as [|x r IH]; cbn [toks_size app]; [reflexivity|rewrite IH; lia]. Qed.

Lemma gather_size l : (toks_size (snd (gather l)) <= toks_size l)%nat.
Proof. rewrite <- (gather_app l) at 2. rewrite toks_size_app. lia. Qed.

Definition stop_rest (s : tstop) : list tok :=
  match s with TEnd => [] | TStopInline r => r | TStopAfterNl r => r end.

Lemma trail_loop_size rest an acc :
  (toks_size (stop_rest (snd (trail_loop rest an acc))) <= toks_size rest)%nat.
Proof.
  revert an acc. induction rest as [|t r IH]; intros an acc; cbn [trail_loop]; [cbn; lia|].
  destruct (negb an && negb (is_cls CNewline t) && negb (is_cls CSpace t) && negb (is_comment t)); [cbn; lia|].
  destruct (an && negb (is_cls CNewline t) && negb (is_cls CSpace t)); [cbn; lia|].
  specialize (IH (an || is_cls CNewline t) (acc ++ [t])). cbn [toks_size]. pose proof (tok_size_pos t). lia.
Qed.

Lemma decl_finish_size cf ix e es p rest :
  (toks_size (r_rest (decl_finish cf ix e es p rest)) <= toks_size rest)%nat.
Proof.
  unfold decl_finish. pose proof (trail_loop_size rest false []) as H.
  destruct (trail_loop rest false []) as [[tr an] st]. cbn [snd] in H.
  destruct st; cbn [stop_rest] in H.
  - repeat match goal with |- context [if ?c then _ else _] => destruct c end; cbn; lia.
  - cbn. exact H.
  - destruct (split_detached _). cbn. exact H.
Qed.

Lemma fuel_mutual : forall f,
  (forall cf scope mode pending rest cv slots bbs starts hb ix,
      (toks_size rest < f)%nat ->
      walk_scope f cf scope mode pending rest cv slots bbs starts hb ix <> None)
  /\ (forall cf mode first t rest pending sa e ix,
      (tok_size t + toks_size rest <= f)%nat ->
      exists res, decl_loop f cf mode first t rest pending sa e ix = Some res
                  /\ (toks_size (r_rest res) <= toks_size rest)%nat)
  /\ (forall cf t sa ix, is_fused t = true -> (tok_size t <= S f)%nat -> walk_fused f cf t sa ix <> None).
Proof.
  induction f as [|f IH].
  - split; [|split].
    + intros. lia.
    + intros. pose proof (tok_size_pos t). lia.
    + intros cf t sa ix Hfu H. destruct t; [discriminate Hfu|rewrite tok_size_fused in H; lia].
  - destruct IH as [IHs [IHd IHf]]. split; [|split].
    + intros cf scope mode pending rest cv slots bbs starts hb ix Hsz.
      cbn [walk_scope]. pose proof (gather_size rest) as Hg.
      destruct (gather rest) as [sk rest1]. cbn [snd] in Hg.
      destruct rest1 as [|t r]; [discriminate|].
      cbn [toks_size] in Hg.
      match goal with |- context [split_detached ?p] => destruct (split_detached p) as [d a] end.
      match goal with |- context [decl_loop f ?a1 ?a2 ?a3 ?a4 ?a5 ?a6 ?a7 ?a8 ?a9] =>
        destruct (IHd a1 a2 a3 a4 a5 a6 a7 a8 a9) as [res [Hres Hle]]; [lia|rewrite Hres] end.
      apply IHs. pose proof (tok_size_pos t). lia.
    + intros cf mode first t rest pending sa e ix Hsz.
      cbn [decl_loop].
      match goal with |- context [if is_fused t then walk_fused f cf t ?s ?i else Some ?j] =>
        assert (Hwf : exists ix', (if is_fused t then walk_fused f cf t s i else Some j) = Some ix') end.
      { destruct (is_fused t) eqn:Hfu.
        - match goal with |- exists _, walk_fused f cf t ?s ?i = _ =>
            destruct (walk_fused f cf t s i) eqn:Hw; [eexists; reflexivity|] end.
          exfalso. revert Hw. apply IHf; [exact Hfu|lia].
        - eexists; reflexivity. }
      destruct Hwf as [ix' Hwf]. rewrite Hwf.
      match goal with |- context [if ?c then Some (decl_finish _ _ _ _ [] rest) else _] => destruct c end.
      * eexists. split; [reflexivity|apply decl_finish_size].
      * pose proof (gather_size rest) as Hg. destruct (gather rest) as [sk rest1]. cbn [snd] in Hg.
        destruct rest1 as [|t' r'].
        -- eexists. split; [reflexivity|]. etransitivity; [apply decl_finish_size|cbn; lia].
        -- cbn [toks_size] in Hg. pose proof (tok_size_pos t).
           destruct (IHd cf mode false t' r' sk (sa || is_cls CAssign t) (close_id t) ix') as [res [Hres Hle]]; [lia|].
           exists res. split; [exact Hres|lia].
    + intros cf t sa ix Hfu Hsz. cbn [walk_fused]. destruct t as [|io ic b ox cx ch]; [discriminate|].
      rewrite tok_size_fused in Hsz.
      match goal with |- context [walk_scope f ?a1 ?a2 ?a3 ?a4 ?a5 ?a6 ?a7 ?a8 ?a9 ?a10 ?a11] =>
        destruct (walk_scope f a1 a2 a3 a4 a5 a6 a7 a8 a9 a10 a11) eqn:Hw end.
      * destruct (split_detached _). discriminate.
      * exfalso. revert Hw. apply IHs. lia.
Qed.

Lemma build_total_lemma : forall cf toks, build cf toks <> None.
Proof. intros cf toks. unfold build. apply (proj1 (fuel_mutual _)). lia. Qed.

(* ---- an induction principle for token trees ---- *)
Section tok_induction.
  Variable Q : tok -> Prop.
  Hypothesis Hleaf : forall i c x, Q (Leaf i c x).
  Hypothesis Hfused : forall io ic b ox cx ch, Forall Q ch -> Q (Fused io ic b ox cx ch).
  Fixpoint tok_ind2 (t : tok) : Q t :=
    match t with
    | Leaf i c x => Hleaf i c x
    | Fused io ic b ox cx ch =>
      Hfused io ic b ox cx ch
             ((fix go (l : list tok) : Forall Q l :=
                 match l with
                 | [] => Forall_nil Q
                 | x :: r => Forall_cons x (tok_ind2 x) (go r)
                 end) ch)
    end.
End tok_induction.

(* ---- the emission without the pending buffer ---- *)
Definition lead (ix : index) (i : N) : list tok := fst (att_of ix i).
Definition trail (ix : index) (i : N) : list tok := snd (att_of ix i).
Definition has_att (ix : index) (i : N) : Prop := alookup i (i_att ix) <> None.

Definition E_seq (f : tok -> list (N * list N)) :=
  fix go (l : list tok) (slots : list (list tok)) (starts : list N) {struct l} : list (N * list N) :=
  match l with
  | [] => pieces (concat slots)
  | t :: r =>
    if skippable t then go r slots starts
    else
      match starts, slots with
      | s :: starts', sl :: slots' =>
        if (s =? open_id t) || (s =? close_id t)
        then pieces sl ++ f t ++ go r slots' starts'
        else f t ++ go r slots starts
      | _, _ => f t ++ go r slots starts
      end
  end.

Fixpoint E_tok (ix : index) (t : tok) : list (N * list N) :=
  match t with
  | Leaf i _ x => pieces (lead ix i) ++ [(i, x)] ++ pieces (trail ix i)
  | Fused io ic _ ox cx ch =>
    let d := get_det io ix in
    pieces (lead ix io) ++ [(io, ox)] ++ pieces (trail ix io)
    ++ E_seq (E_tok ix) ch (d_slots d) (d_starts d)
    ++ pieces (lead ix ic) ++ [(ic, cx)] ++ pieces (trail ix ic)
  end.

(* every non-skippable token of the tree has an entry in the attached map *)
Fixpoint covered_tok (ix : index) (t : tok) : Prop :=
  match t with
  | Leaf i _ _ => skippable t = true \/ has_att ix i
  | Fused io ic _ _ _ ch =>
    has_att ix io /\ has_att ix ic /\
    (fix go (l : list tok) : Prop := match l with [] => True | x :: r => covered_tok ix x /\ go r end) ch
  end.
Fixpoint covered (ix : index) (l : list tok) : Prop :=
  match l with [] => True | x :: r => covered_tok ix x /\ covered ix r end.

Lemma covered_fused ix io ic b ox cx ch :
  covered_tok ix (Fused io ic b ox cx ch) <-> has_att ix io /\ has_att ix ic /\ covered ix ch.
Proof.
  cbn [covered_tok]. assert (H : forall l, (fix go (l : list tok) : Prop :=
     match l with [] => True | x :: r => covered_tok ix x /\ go r end) l <-> covered ix l).
  { induction l as [|x r IH]; cbn [covered]; [tauto|rewrite IH; tauto]. }
  rewrite H. tauto.
Qed.

Lemma pieces_app a b : pieces (a ++ b) = pieces a ++ pieces b.
Proof. unfold pieces. apply map_app. Qed.

Lemma ext2 {A} (o p y d : list A) : o ++ p = y -> o ++ p ++ d = y ++ d.
Proof. intros <-. now rewrite app_assoc. Qed.

Lemma print_token_E ix i x pend out :
  has_att ix i ->
  let '(p', o') := print_token ix i x (pend, out) in
  o' ++ pieces p' = out ++ pieces pend ++ pieces (lead ix i) ++ [(i, x)] ++ pieces (trail ix i).
Proof.
  intros H. unfold print_token, lead, trail, att_of. unfold has_att in H.
  destruct (alookup i (i_att ix)) as [a|]; [|congruence]. cbn [fst snd].
  rewrite pieces_app. repeat rewrite <- app_assoc. reflexivity.
Qed.

Lemma emit_E_tok ix t :
  covered_tok ix t -> skippable t = false ->
  forall pend out,
    let '(p', o') := emit_tok ix t (pend, out) in
    o' ++ pieces p' = out ++ pieces pend ++ E_tok ix t.
Proof.
  induction t as [i c x|io ic b ox cx ch IH] using tok_ind2; intros Hc Hs pend out.
  - cbn [emit_tok E_tok]. cbn [covered_tok] in Hc. destruct Hc as [Hc|Hc]; [congruence|].
    apply (print_token_E ix i x pend out Hc).
  - apply covered_fused in Hc. destruct Hc as [Ho [Hcl Hch]].
    cbn [emit_tok E_tok].
    pose proof (print_token_E ix io ox pend out Ho) as H1.
    destruct (print_token ix io ox (pend, out)) as [p1 o1].
    set (d := get_det io ix).
    assert (Hseq : forall l slots starts p o, Forall (fun t => covered_tok ix t -> skippable t = false ->
                forall pend out, let '(p', o') := emit_tok ix t (pend, out) in
                                 o' ++ pieces p' = out ++ pieces pend ++ E_tok ix t) l ->
              covered ix l ->
              let '(p', o') := emit_seq (emit_tok ix) l slots starts (p, o) in
              o' ++ pieces p' = o ++ pieces p ++ E_seq (E_tok ix) l slots starts).
    { clear. induction l as [|t r IHl]; intros slots starts p o HF Hcov.
      - cbn [emit_seq E_seq fst snd]. rewrite pieces_app. reflexivity.
      - inversion HF as [|? ? Ht Hr]; subst. cbn [covered] in Hcov. destruct Hcov as [Hct Hcr].
        cbn [emit_seq E_seq]. destruct (skippable t) eqn:Hsk; [apply IHl; assumption|].
        assert (Hstep : forall p o sl st,
                   let '(p', o') := emit_seq (emit_tok ix) r sl st (emit_tok ix t (p, o)) in
                   o' ++ pieces p' = o ++ pieces p ++ E_tok ix t ++ E_seq (E_tok ix) r sl st).
        { intros p0 o0 sl st. specialize (Ht Hct eq_refl p0 o0). destruct (emit_tok ix t (p0, o0)) as [p1 o1].
          specialize (IHl sl st p1 o1 Hr Hcr). destruct (emit_seq (emit_tok ix) r sl st (p1, o1)) as [p2 o2].
          rewrite IHl. rewrite (ext2 _ _ _ _ Ht). repeat rewrite <- app_assoc. reflexivity. }
        destruct starts as [|s starts']; [apply Hstep|]. destruct slots as [|sl slots']; [apply Hstep|].
        destruct ((s =? open_id t) || (s =? close_id t)); [|apply Hstep].
        cbn [fst snd]. specialize (Hstep (p ++ sl) o slots' starts').
        destruct (emit_seq (emit_tok ix) r slots' starts' (emit_tok ix t (p ++ sl, o))) as [p2 o2].
        rewrite Hstep. rewrite pieces_app. repeat rewrite <- app_assoc. reflexivity. }
    specialize (Hseq ch (d_slots d) (d_starts d) p1 o1 IH Hch).
    destruct (emit_seq (emit_tok ix) ch (d_slots d) (d_starts d) (p1, o1)) as [p2 o2].
    pose proof (print_token_E ix ic cx p2 o2 Hcl) as H3.
    destruct (print_token ix ic cx (p2, o2)) as [p3 o3].
    rewrite H3. rewrite (ext2 _ _ _ _ Hseq). repeat rewrite <- app_assoc.
    rewrite (ext2 _ _ _ _ H1). repeat rewrite <- app_assoc. reflexivity.
Qed.

Lemma emit_E_seq ix l : forall slots starts p o,
  covered ix l ->
  let '(p', o') := emit_seq (emit_tok ix) l slots starts (p, o) in
  o' ++ pieces p' = o ++ pieces p ++ E_seq (E_tok ix) l slots starts.
Proof.
  induction l as [|t r IHl]; intros slots starts p o Hcov.
  - cbn [emit_seq E_seq fst snd]. rewrite pieces_app. reflexivity.
  - cbn [covered] in Hcov. destruct Hcov as [Hct Hcr].
    cbn [emit_seq E_seq]. destruct (skippable t) eqn:Hsk; [apply IHl; assumption|].
    assert (Hstep : forall p o sl st,
               let '(p', o') := emit_seq (emit_tok ix) r sl st (emit_tok ix t (p, o)) in
               o' ++ pieces p' = o ++ pieces p ++ E_tok ix t ++ E_seq (E_tok ix) r sl st).
    { intros p0 o0 sl st. pose proof (emit_E_tok ix t Hct Hsk p0 o0) as Ht.
      destruct (emit_tok ix t (p0, o0)) as [p1 o1].
      specialize (IHl sl st p1 o1 Hcr). destruct (emit_seq (emit_tok ix) r sl st (p1, o1)) as [p2 o2].
      rewrite IHl. rewrite (ext2 _ _ _ _ Ht). repeat rewrite <- app_assoc. reflexivity. }
    destruct starts as [|s starts']; [apply Hstep|]. destruct slots as [|sl slots']; [apply Hstep|].
    destruct ((s =? open_id t) || (s =? close_id t)); [|apply Hstep].
    cbn [fst snd]. specialize (Hstep (p ++ sl) o slots' starts').
    destruct (emit_seq (emit_tok ix) r slots' starts' (emit_tok ix t (p ++ sl, o))) as [p2 o2].
    rewrite Hstep. rewrite pieces_app. repeat rewrite <- app_assoc. reflexivity.
Qed.

Lemma emit_roundtrip_E ix toks :
  covered ix toks ->
  emit_roundtrip ix toks = E_seq (E_tok ix) toks (d_slots (get_det 0 ix)) (d_starts (get_det 0 ix)).
Proof.
  intros Hc. unfold emit_roundtrip, emit_file.
  pose proof (emit_E_seq ix toks (d_slots (get_det 0 ix)) (d_starts (get_det 0 ix)) [] [] Hc) as H.
  destruct (emit_seq _ _ _ _ _) as [p o]. exact H.
Qed.

(* ---- association lists ---- *)
Lemma alookup_aset_eq {A} k (v : A) m : alookup k (aset k v m) = Some v.
Proof.
  induction m as [|[k' v'] r IH]; cbn [aset alookup].
  - now rewrite N.eqb_refl.
  - destruct (k =? k') eqn:E; cbn [alookup]; [now rewrite N.eqb_refl|now rewrite E].
Qed.

Lemma alookup_aset_neq {A} k k' (v : A) m : k <> k' -> alookup k (aset k' v m) = alookup k m.
Proof.
  intros Hne. induction m as [|[k2 v2] r IH]; cbn [aset alookup].
  - destruct (k =? k') eqn:E; [apply N.eqb_eq in E; congruence|reflexivity].
  - destruct (k' =? k2) eqn:E2; cbn [alookup].
    + apply N.eqb_eq in E2. subst k2. destruct (k =? k') eqn:E; [apply N.eqb_eq in E; congruence|reflexivity].
    + destruct (k =? k2); [reflexivity|exact IH].
Qed.

Definition same_at (ix ix' : index) (k : N) : Prop :=
  alookup k (i_att ix) = alookup k (i_att ix') /\ alookup k (i_det ix) = alookup k (i_det ix').
Definition agree (K : list N) (ix ix' : index) : Prop := forall k, In k K -> same_at ix ix' k.

Lemma same_at_refl ix k : same_at ix ix k. Proof. split; reflexivity. Qed.
Lemma same_at_trans a b c k : same_at a b k -> same_at b c k -> same_at a c k.
Proof. intros [H1 H2] [H3 H4]. split; congruence. Qed.
Lemma same_at_sym a b k : same_at a b k -> same_at b a k.
Proof. intros [H1 H2]. split; congruence. Qed.

Lemma set_leading_other id l ix k : k <> id -> same_at ix (set_leading id l ix) k.
Proof. intros H. split; cbn; [symmetry; now apply alookup_aset_neq|reflexivity]. Qed.
Lemma set_trailing_other id l ix k : k <> id -> same_at ix (set_trailing id l ix) k.
Proof. intros H. split; cbn; [symmetry; now apply alookup_aset_neq|reflexivity]. Qed.
Lemma set_trailing_if_other id l ix k : k <> id -> same_at ix (set_trailing_if id l ix) k.
Proof. intros H. unfold set_trailing_if. destruct (nonempty l); [now apply set_trailing_other|apply same_at_refl]. Qed.
Lemma set_det_att id d ix k : alookup k (i_att (set_det id d ix)) = alookup k (i_att ix).
Proof. reflexivity. Qed.
Lemma set_det_other id d ix k : k <> id -> same_at ix (set_det id d ix) k.
Proof. intros H. split; cbn; [reflexivity|symmetry; now apply alookup_aset_neq]. Qed.

Lemma set_leading_get id l ix : alookup id (i_att (set_leading id l ix)) = Some (mkAtt l []).
Proof. cbn. apply alookup_aset_eq. Qed.
Lemma set_trailing_get id tr ix l :
  alookup id (i_att ix) = Some (mkAtt l []) ->
  alookup id (i_att (set_trailing id tr ix)) = Some (mkAtt l tr).
Proof. intros H. cbn. rewrite H. cbn. apply alookup_aset_eq. Qed.
Lemma set_trailing_if_get id tr ix l :
  alookup id (i_att ix) = Some (mkAtt l []) ->
  alookup id (i_att (set_trailing_if id tr ix)) = Some (mkAtt l tr).
Proof.
  intros H. unfold set_trailing_if. destruct tr as [|x r]; cbn [nonempty]; [exact H|now apply set_trailing_get].
Qed.
Lemma set_leading_det id l ix k : alookup k (i_det (set_leading id l ix)) = alookup k (i_det ix).
Proof. reflexivity. Qed.
Lemma set_trailing_det id l ix k : alookup k (i_det (set_trailing id l ix)) = alookup k (i_det ix).
Proof. reflexivity. Qed.
Lemma set_trailing_if_det id l ix k : alookup k (i_det (set_trailing_if id l ix)) = alookup k (i_det ix).
Proof. unfold set_trailing_if. destruct (nonempty l); reflexivity. Qed.

(* ---- list facts about the helpers ---- *)
Lemma split_detached_app l : fst (split_detached l) ++ snd (split_detached l) = l.
Proof.
  unfold split_detached. destruct (sd_scan _ _ _); cbn [fst snd]; [apply firstn_skipn|reflexivity].
Qed.

Lemma split_detached_eq l d a : split_detached l = (d, a) -> d ++ a = l.
Proof. intros H. pose proof (split_detached_app l) as H2. rewrite H in H2. exact H2. Qed.

Lemma firstn_skipn_app3 {A} (n : nat) (l d a : list A) :
  d ++ a = skipn n l -> firstn (n + length d) l = firstn n l ++ d.
Proof.
  revert l. induction n as [|n IH]; intros l H.
  - cbn [skipn firstn plus app] in *. rewrite <- H. rewrite firstn_app, firstn_all, Nat.sub_diag. cbn. now rewrite app_nil_r.
  - destruct l as [|x r].
    + cbn in H. destruct d; [|discriminate]. reflexivity.
    + cbn [skipn] in H. cbn [plus firstn app]. f_equal. now apply IH.
Qed.

Lemma trail_loop_spec rest : forall an acc tr an' st,
  trail_loop rest an acc = (tr, an', st) ->
  exists C, tr = acc ++ C /\ rest = C ++ stop_rest st /\ forallb skippable C = true
            /\ (st = TEnd -> stop_rest st = [])
            /\ (an' = false -> forallb (fun t => negb (has_nl t)) C = true)
            /\ (an = true -> an' = true).
Proof.
  induction rest as [|t r IH]; intros an acc tr an' st H; cbn [trail_loop] in H.
  - inversion H; subst. exists []. rewrite app_nil_r. repeat split; auto.
  - destruct (negb an && negb (is_cls CNewline t) && negb (is_cls CSpace t) && negb (is_comment t)) eqn:E1.
    { inversion H; subst. exists []. rewrite app_nil_r. repeat split; auto; discriminate. }
    destruct (an && negb (is_cls CNewline t) && negb (is_cls CSpace t)) eqn:E2.
    { inversion H; subst. exists []. rewrite app_nil_r. repeat split; auto; discriminate. }
    destruct (IH _ _ _ _ _ H) as [C [H1 [H2 [H3 [H4 [H5 H6]]]]]].
    exists (t :: C). rewrite H1. rewrite <- app_assoc. cbn [app].
    assert (Hsk : skippable t = true).
    { unfold skippable, is_comment in *. destruct an; cbn in E1, E2;
        destruct (is_cls CNewline t), (is_cls CSpace t), (is_cls CLine t), (is_cls CBlock t); cbn in *; try reflexivity; try discriminate. }
    repeat split; auto.
    + now rewrite H2.
    + cbn [forallb]. now rewrite Hsk, H3.
    + intros Han'. cbn [forallb]. rewrite (H5 Han'). unfold has_nl.
      destruct (is_cls CNewline t) eqn:En; [|reflexivity].
      exfalso. rewrite orb_true_r in H6. specialize (H6 eq_refl). congruence.
    + intros Han. apply H6. now rewrite Han.
Qed.

(* ---- guards for the code as it is ---- *)
(* trivia between the last token of a scope and its closer survives iff each of its two parts
   (before / from the first newline) is empty or holds a comment *)
Definition tail_ok (p : list tok) : bool :=
  let fn := first_newline_index p in
  (Nat.eqb fn 0 || slice_has_comment (firstn fn p))
  && (negb (nonempty (skipn fn p)) || slice_has_comment (skipn fn p)).

(* after this position, is the next token on the same line a fused one *)
Definition cv_after (rest : list tok) : bool :=
  match trail_loop rest false [] with
  | (_, _, TStopInline r) => head_is_fused r
  | _ => false
  end.

Lemma decl_finish_cv cf ix e es p rest : r_cv (decl_finish cf ix e es p rest) = cv_after rest.
Proof.
  unfold decl_finish, cv_after. destruct (trail_loop rest false []) as [[tr an] st].
  destruct st; [|reflexivity|destruct (split_detached _); reflexivity].
  repeat match goal with |- context [if ?c then _ else _] => destruct c end; reflexivity.
Qed.

Lemma decl_finish_spec cf ix endId endSemi pending rest l0 :
  (pending = [] \/ rest = []) ->
  (fix_keep_ws cf = true \/ tail_ok pending = true) ->
  alookup endId (i_att ix) = Some (mkAtt l0 []) ->
  exists C TR,
    rest = C ++ r_rest (decl_finish cf ix endId endSemi pending rest)
    /\ forallb skippable C = true
    /\ r_idx (decl_finish cf ix endId endSemi pending rest) = set_trailing_if endId TR ix
    /\ TR ++ r_pushed (decl_finish cf ix endId endSemi pending rest) = pending ++ C.
Proof.
  intros Hpr Hg Hatt. unfold decl_finish.
  destruct (trail_loop rest false []) as [[tr an] st] eqn:Htl.
  destruct (trail_loop_spec _ _ _ _ _ _ Htl) as [C [Htr [Hrest [Hsk [Hend [Hnl _]]]]]].
  cbn [app] in Htr. subst tr.
  assert (Hpend : st <> TEnd -> pending = []).
  { intros Hst. destruct Hpr as [Hp|Hr]; [exact Hp|]. subst rest.
    cbn in Htl. inversion Htl. subst. congruence. }
  destruct st as [|rest'|rest']; cbn [stop_rest] in Hrest.
  - (* TEnd *)
    rewrite app_nil_r in Hrest. subst C.
    destruct (nonempty pending && negb (nonempty rest)) eqn:Hc1.
    + apply andb_true_iff in Hc1. destruct Hc1 as [Hp Hr]. destruct rest as [|x r]; [|discriminate Hr].
      exists [], (if slice_has_comment (firstn (first_newline_index pending) pending)
                  then firstn (first_newline_index pending) pending else []).
      cbn [r_rest r_idx r_pushed].
      split; [reflexivity|split; [reflexivity|split; [reflexivity|]]]. rewrite (app_nil_r pending).
      set (fn := first_newline_index pending) in *.
      destruct (slice_has_comment (firstn fn pending)) eqn:HC.
      * rewrite andb_false_r. cbn [negb].
        destruct Hg as [Hk|Ht].
        -- rewrite Hk. cbn [orb]. apply firstn_skipn.
        -- unfold tail_ok in Ht. fold fn in Ht. apply andb_true_iff in Ht. destruct Ht as [_ Ht].
           destruct (fix_keep_ws cf); cbn [orb]; [apply firstn_skipn|].
           destruct (slice_has_comment (skipn fn pending)) eqn:HC2; [apply firstn_skipn|].
           rewrite orb_false_r in Ht. destruct (skipn fn pending) eqn:Hs; [|discriminate Ht].
           rewrite <- (firstn_skipn fn pending) at 2. now rewrite Hs.
      * rewrite andb_true_r. cbn [app].
        destruct Hg as [Hk|Ht].
        -- rewrite Hk. cbn [negb orb skipn]. reflexivity.
        -- unfold tail_ok in Ht. fold fn in Ht. rewrite HC in Ht. rewrite orb_false_r in Ht.
           apply andb_true_iff in Ht. destruct Ht as [Hfn Ht]. apply Nat.eqb_eq in Hfn.
           destruct (fix_keep_ws cf); cbn [negb orb skipn]; [reflexivity|].
           rewrite Hfn in *. cbn [skipn] in *.
           destruct (slice_has_comment pending); [reflexivity|].
           rewrite orb_false_r in Ht. destruct pending; [reflexivity|discriminate Ht].
    + assert (Hp : pending = [] \/ rest <> []).
      { destruct pending; [now left|]. cbn in Hc1. destruct rest; [discriminate|right; discriminate]. }
      assert (Hp0 : pending = []).
      { destruct Hp as [Hp|Hr]; [exact Hp|]. destruct Hpr as [Hp|Hr2]; [exact Hp|contradiction]. }
      subst pending. cbn [app].
      destruct (negb an && nonempty rest && endSemi && existsb (is_cls CBlock) rest).
      * exists rest, []. cbn [r_rest r_idx r_pushed set_trailing_if nonempty]. rewrite app_nil_r. repeat split; auto.
      * destruct an.
        -- exists rest, (firstn (first_newline_index rest) rest).
           cbn [r_rest r_idx r_pushed]. rewrite app_nil_r. repeat split; auto. apply firstn_skipn.
        -- exists rest, rest. cbn [r_rest r_idx r_pushed]. rewrite !app_nil_r. repeat split; auto.
  - (* inline stop *)
    rewrite (Hpend ltac:(discriminate)). exists C, C. cbn [r_rest r_idx r_pushed app]. rewrite app_nil_r. repeat split; auto.
  - (* stop after a newline *)
    rewrite (Hpend ltac:(discriminate)).
    destruct (split_detached (skipn (first_newline_index C) C)) as [d a] eqn:Hsd.
    exists C, (firstn (first_newline_index C + length d) C).
    cbn [r_rest r_idx r_pushed app]. repeat split; auto.
    pose proof (split_detached_eq _ _ _ Hsd) as Hda.
    rewrite (firstn_skipn_app3 _ _ _ _ Hda). rewrite <- app_assoc. rewrite Hda. apply firstn_skipn.
Qed.

(* ---- facts about E, flatten and ids ---- *)
Definition EP (ix : index) (l : list tok) : list (N * list N) := E_seq (E_tok ix) l [] [].

Definition Etail (ix : index) (t : tok) : list (N * list N) :=
  match t with
  | Leaf i _ x => [(i, x)] ++ pieces (trail ix i)
  | Fused io ic _ ox cx ch =>
    let d := get_det io ix in
    [(io, ox)] ++ pieces (trail ix io) ++ E_seq (E_tok ix) ch (d_slots d) (d_starts d)
    ++ pieces (lead ix ic) ++ [(ic, cx)] ++ pieces (trail ix ic)
  end.

Lemma E_tok_Etail ix t : E_tok ix t = pieces (lead ix (open_id t)) ++ Etail ix t.
Proof. destruct t; reflexivity. Qed.

Lemma E_seq_skip f t r sl st : skippable t = true -> E_seq f (t :: r) sl st = E_seq f r sl st.
Proof. intros H. cbn [E_seq]. now rewrite H. Qed.

Lemma EP_cons ix t r : skippable t = false -> EP ix (t :: r) = E_tok ix t ++ EP ix r.
Proof. intros H. unfold EP. cbn [E_seq]. now rewrite H. Qed.

Lemma EP_skippable ix C : forallb skippable C = true -> EP ix C = [].
Proof.
  induction C as [|t r IH]; intros H; [reflexivity|].
  cbn [forallb] in H. apply andb_true_iff in H. destruct H as [H1 H2].
  unfold EP. rewrite E_seq_skip by exact H1. now apply IH.
Qed.

Definition nomatch (starts : list N) (C : list tok) : Prop :=
  match starts with
  | [] => True
  | s :: _ => forall t, In t C -> skippable t = false -> s <> open_id t /\ s <> close_id t
  end.

Lemma E_seq_nomatch ix C : forall R slots starts,
  nomatch starts C ->
  E_seq (E_tok ix) (C ++ R) slots starts = EP ix C ++ E_seq (E_tok ix) R slots starts.
Proof.
  induction C as [|t r IH]; intros R slots starts Hn; [reflexivity|].
  cbn [app]. destruct (skippable t) eqn:Hs.
  - rewrite E_seq_skip by exact Hs. unfold EP. rewrite E_seq_skip by exact Hs. apply IH.
    destruct starts; [exact I|]. intros u Hu. apply Hn. now right.
  - rewrite EP_cons by exact Hs. rewrite <- app_assoc. cbn [E_seq]. rewrite Hs.
    assert (Hr : nomatch starts r).
    { destruct starts; [exact I|]. intros u Hu. apply Hn. now right. }
    destruct starts as [|s st]; [now rewrite IH|]. destruct slots as [|sl slots]; [now rewrite IH|].
    destruct (Hn t (or_introl eq_refl) Hs) as [H1 H2].
    apply N.eqb_neq in H1. apply N.eqb_neq in H2. rewrite H1, H2. cbn [orb]. now rewrite IH.
Qed.

Lemma E_seq_match ix t r sl slots s starts :
  skippable t = false -> s = open_id t ->
  E_seq (E_tok ix) (t :: r) (sl :: slots) (s :: starts)
  = pieces sl ++ E_tok ix t ++ E_seq (E_tok ix) r slots starts.
Proof. intros Hs ->. cbn [E_seq]. rewrite Hs. now rewrite N.eqb_refl. Qed.

Lemma E_seq_cons_nostart f t r slots :
  skippable t = false -> E_seq f (t :: r) slots [] = f t ++ E_seq f r slots [].
Proof. intros H. cbn [E_seq]. now rewrite H. Qed.

Lemma E_seq_cons_cons f t r sl slots s starts :
  skippable t = false ->
  E_seq f (t :: r) (sl :: slots) (s :: starts)
  = if (s =? open_id t) || (s =? close_id t)
    then pieces sl ++ f t ++ E_seq f r slots starts
    else f t ++ E_seq f r (sl :: slots) (s :: starts).
Proof. intros H. cbn [E_seq]. now rewrite H. Qed.

Lemma E_seq_last_slot ix l : forall S1 ST d a,
  (length ST <= length S1)%nat ->
  E_seq (E_tok ix) l (S1 ++ [d ++ a]) ST = E_seq (E_tok ix) l (S1 ++ [d]) ST ++ pieces a.
Proof.
  induction l as [|t r IH]; intros S1 ST d a Hlen.
  - cbn [E_seq]. rewrite !concat_app. cbn [concat]. rewrite !app_nil_r. rewrite !pieces_app.
    now rewrite <- !app_assoc.
  - destruct (skippable t) eqn:Hs.
    + rewrite !E_seq_skip by exact Hs. now apply IH.
    + destruct ST as [|s ST].
      * rewrite !E_seq_cons_nostart by exact Hs. rewrite IH by (cbn; lia). now rewrite <- app_assoc.
      * destruct S1 as [|sl S1]; [cbn in Hlen; lia|]. cbn [app].
        cbn [length] in Hlen. rewrite !E_seq_cons_cons by exact Hs.
        destruct ((s =? open_id t) || (s =? close_id t)).
        -- rewrite IH by lia. now rewrite <- !app_assoc.
        -- pose proof (IH (sl :: S1) (s :: ST) d a ltac:(cbn; lia)) as H. cbn [app] in H. rewrite H.
           now rewrite <- app_assoc.
Qed.

Lemma flatten_app a b : flatten (a ++ b) = flatten a ++ flatten b.
Proof. induction a as [|x r IH]; cbn [flatten app]; [reflexivity|now rewrite IH, app_assoc]. Qed.

Lemma flatten_fused io ic b ox cx ch :
  flatten_tok (Fused io ic b ox cx ch) = (io, ox) :: flatten ch ++ [(ic, cx)].
Proof.
  cbn [flatten_tok].
  match goal with |- _ :: ?g ch ++ _ = _ => assert (H : forall l, g l = flatten l) end.
  { induction l as [|x r IH]; [reflexivity|]. cbn [flatten]. now rewrite <- IH. }
  now rewrite H.
Qed.

Lemma flatten_skippable C : forallb skippable C = true -> flatten C = pieces C.
Proof.
  induction C as [|t r IH]; intros H; [reflexivity|].
  cbn [forallb] in H. apply andb_true_iff in H. destruct H as [H1 H2].
  cbn [flatten pieces map]. rewrite (IH H2). destruct t; [reflexivity|discriminate H1].
Qed.

Lemma all_ids_app a b : all_ids (a ++ b) = all_ids a ++ all_ids b.
Proof. induction a as [|x r IH]; cbn [all_ids app]; [reflexivity|now rewrite IH, app_assoc]. Qed.

Lemma all_ids_fused io ic b ox cx ch :
  all_ids_tok (Fused io ic b ox cx ch) = io :: all_ids ch ++ [ic].
Proof.
  cbn [all_ids_tok].
  match goal with |- _ :: ?g ch ++ _ = _ => assert (H : forall l, g l = all_ids l) end.
  { induction l as [|x r IH]; [reflexivity|]. cbn [all_ids]. now rewrite <- IH. }
  now rewrite H.
Qed.

Lemma open_id_in t : In (open_id t) (all_ids_tok t).
Proof. destruct t; [now left|rewrite all_ids_fused; now left]. Qed.
Lemma close_id_in t : In (close_id t) (all_ids_tok t).
Proof. destruct t; [now left|rewrite all_ids_fused; right; apply in_or_app; right; now left]. Qed.

Lemma in_all_ids t l : In t l -> forall k, In k (all_ids_tok t) -> In k (all_ids l).
Proof.
  induction l as [|x r IH]; intros H k Hk; [contradiction|].
  cbn [all_ids]. apply in_or_app. destruct H as [->|H]; [now left|right; now apply IH].
Qed.

Lemma gather_spec l sk r : gather l = (sk, r) ->
  l = sk ++ r /\ forallb skippable sk = true /\ (match r with t :: _ => skippable t = false | [] => True end).
Proof.
  revert sk r. induction l as [|t l IH]; intros sk r H; cbn [gather] in H.
  - inversion H; subst. repeat split.
  - destruct (skippable t) eqn:Hs.
    + destruct (gather l) as [a b]. inversion H; subst. destruct (IH _ _ eq_refl) as [H1 [H2 H3]].
      repeat split; [cbn; now rewrite <- H1|cbn; now rewrite Hs, H2|exact H3].
    + inversion H; subst. repeat split. exact Hs.
Qed.

(* ---- guards, stated per position of a scope's token list ---- *)
Definition bclass (t : tok) : bool := is_cls CSemi t || is_cls CComma t || is_braces t.

Definition local_ok (cf : cfg) (x : tok) (r : list tok) : Prop :=
  skippable x = false ->
  (fix_cv cf = true \/ (bclass x = true -> cv_after r = false))
  /\ (fix_keep_ws cf = true
      \/ (forallb skippable r = true -> (is_cls CSemi x || is_braces x) = true \/ tail_ok r = true)).

Fixpoint guard_tok (cf : cfg) (t : tok) : Prop :=
  match t with
  | Leaf _ _ _ => True
  | Fused _ _ _ _ _ ch =>
    (fix go (l : list tok) : Prop :=
       match l with
       | [] => True
       | x :: r => local_ok cf x r /\ guard_tok cf x /\ go r
       end) ch
  end.
Fixpoint guard (cf : cfg) (l : list tok) : Prop :=
  match l with
  | [] => True
  | x :: r => local_ok cf x r /\ guard_tok cf x /\ guard cf r
  end.

Lemma guard_fused cf io ic b ox cx ch : guard_tok cf (Fused io ic b ox cx ch) <-> guard cf ch.
Proof.
  cbn [guard_tok].
  match goal with |- ?g ch <-> _ => assert (H : forall l, g l <-> guard cf l) end.
  { induction l as [|x r IH]; cbn [guard]; [tauto|rewrite IH; tauto]. }
  apply H.
Qed.

Lemma guard_suffix cf C R : guard cf (C ++ R) -> guard cf R.
Proof. induction C as [|x r IH]; cbn [app guard]; [tauto|]. intros [_ [_ H]]. now apply IH. Qed.

Lemma guard_tok_fixed cf t : fix_keep_ws cf = true -> fix_cv cf = true -> guard_tok cf t.
Proof.
  intros H1 H2. induction t as [|io ic b ox cx ch IH] using tok_ind2; [exact I|].
  apply guard_fused. induction ch as [|x r IHr]; cbn [guard]; [exact I|].
  inversion IH; subst. split; [|split; [assumption|now apply IHr]]. intros _. split; now left.
Qed.

Lemma guard_fixed cf l : fix_keep_ws cf = true -> fix_cv cf = true -> guard cf l.
Proof.
  intros H1 H2. induction l as [|x r IH]; cbn [guard]; [exact I|].
  split; [|split; [now apply guard_tok_fixed|exact IH]]. intros _. split; now left.
Qed.

Lemma tail_ok_nil : tail_ok [] = true. Proof. reflexivity. Qed.

Definition Ebody (ix : index) (t : tok) : list (N * list N) :=
  match t with
  | Leaf i _ x => [(i, x)]
  | Fused io ic _ ox cx ch =>
    let d := get_det io ix in
    [(io, ox)] ++ pieces (trail ix io) ++ E_seq (E_tok ix) ch (d_slots d) (d_starts d)
    ++ pieces (lead ix ic) ++ [(ic, cx)]
  end.

Lemma Etail_Ebody ix t : Etail ix t = Ebody ix t ++ pieces (trail ix (close_id t)).
Proof. destruct t; cbn [Etail Ebody close_id]; [reflexivity|]. now repeat rewrite <- app_assoc. Qed.

Lemma lead_of ix i l tr : alookup i (i_att ix) = Some (mkAtt l tr) -> lead ix i = l /\ trail ix i = tr.
Proof. intros H. unfold lead, trail, att_of. rewrite H. split; reflexivity. Qed.

Lemma has_att_of ix i a : alookup i (i_att ix) = Some a -> has_att ix i.
Proof. unfold has_att. congruence. Qed.

Lemma NoDup_app_l {A} (a b : list A) : NoDup (a ++ b) -> NoDup a.
Proof. induction a as [|x r IH]; intros H; [constructor|]. inversion H; subst. constructor; [|now apply IH].
       intros Hin. apply H2. apply in_or_app. now left. Qed.
Lemma NoDup_app_r {A} (a b : list A) : NoDup (a ++ b) -> NoDup b.
Proof. induction a as [|x r IH]; intros H; [exact H|]. inversion H; subst. now apply IH. Qed.
Lemma NoDup_app_disj {A} (a b : list A) x : NoDup (a ++ b) -> In x a -> In x b -> False.
Proof.
  induction a as [|y r IH]; intros H Ha Hb; [contradiction|]. inversion H; subst.
  destruct Ha as [->|Ha]; [apply H2; apply in_or_app; now right|now apply IH].
Qed.
