(* Proofs about Model/XLexer.v, part D: the lexer state under pushes, and the main loop: with fuel
   length+1 it never runs out, it can only stop with a panic where the as-is model of
   errtoken.InvalidEscape does, and on exit the stream covers the text up to the pending
   unrecognised bytes. *)
From Coq Require Import List NArith ZArith Bool Lia ZifyBool ZifyN ZifyNat.
From PV Require Import Model.XLexer Proofs.XLexerUtf8 Proofs.XLexerScan Proofs.XLexerStep.
Import ListNotations.

Local Open Scope nat_scope.

(* ---------- tokens in stream order ---------- *)
Fixpoint last_end (p : nat) (ts : list tok) : nat :=
  match ts with [] => p | t :: r => last_end (tk_end t) r end.

(* ends ascend from p *)
Fixpoint asc (p : nat) (ts : list tok) : Prop :=
  match ts with [] => True | t :: r => p <= tk_end t /\ asc (tk_end t) r end.

(* a string's recorded sigil fits into the token *)
Fixpoint mok (p : nat) (ts : list tok) : Prop :=
  match ts with
  | [] => True
  | t :: r => (match tk_meta t with Some sg => p + sg <= tk_end t | None => True end) /\ mok (tk_end t) r
  end.

Lemma last_end_app p a b : last_end p (a ++ b) = last_end (last_end p a) b.
Proof. revert p. induction a as [|t a IH]; intros p; cbn [app last_end]; auto. Qed.

Lemma last_end_rev l : last_end 0 (rev l) = match l with [] => 0 | t :: _ => tk_end t end.
Proof. destruct l as [|t l]; [reflexivity|]. cbn [rev]. rewrite last_end_app. reflexivity. Qed.

Lemma asc_app p a b : asc p (a ++ b) <-> asc p a /\ asc (last_end p a) b.
Proof.
  revert p. induction a as [|t a IH]; intros p; cbn [app asc last_end]; [tauto|]. rewrite IH. tauto.
Qed.

Lemma mok_app p a b : mok p (a ++ b) <-> mok p a /\ mok (last_end p a) b.
Proof.
  revert p. induction a as [|t a IH]; intros p; cbn [app mok last_end]; [tauto|]. rewrite IH. tauto.
Qed.

Lemma asc_last_le p ts : asc p ts -> p <= last_end p ts.
Proof. revert p. induction ts as [|t r IH]; intros p; cbn; [lia|]. intros [H1 H2]. specialize (IH _ H2). lia. Qed.

Lemma asc_all_le p ts : asc p ts -> Forall (fun t => tk_end t <= last_end p ts) ts.
Proof.
  revert p. induction ts as [|t r IH]; intros p; cbn [asc last_end]; [constructor|].
  intros [H1 H2]. constructor; [now apply asc_last_le|now apply IH].
Qed.

(* ---------- state invariant that does not mention the cursor ---------- *)
Definition se (st : lstate) : nat := stream_end st.

Lemma se_rev st : se st = last_end 0 (rev (toks st)).
Proof. unfold se, stream_end. now rewrite last_end_rev. Qed.

Record SI (tl : nat) (st : lstate) : Prop := {
  si_asc : asc 0 (rev (toks st));
  si_mok : mok 0 (rev (toks st));
  si_ovf : ovf st = false;
  si_diags : Forall (diag_in tl) (diags st);
  si_braces : Forall (fun b => span_in tl (b_sp b)) (braces st) }.

Lemma diag_within_in lo hi tl d : hi <= tl -> diag_within lo hi d -> diag_in tl d.
Proof.
  intros H. unfold diag_within, diag_in. apply Forall_impl. intros sp (A & B & C0). unfold span_in. lia.
Qed.

Section State.
Variable tl : nat.

(* add_diag touches only the diagnostics *)
Lemma fold_tdiags sp tdiags st :
  let st' := fold_left (fun s '(lv, cl, n) => add_diag (mkd lv cl (repeat sp n)) s) tdiags st in
  toks st' = toks st /\ braces st' = braces st /\ bad st' = bad st /\ ovf st' = ovf st
  /\ (span_in tl sp -> Forall (diag_in tl) (diags st) -> Forall (diag_in tl) (diags st')).
Proof.
  revert st. induction tdiags as [|[[lv cl] n] r IH]; intros st; cbn [fold_left].
  - repeat split; auto.
  - destruct (IH (add_diag (mkd lv cl (repeat sp n)) st)) as (A & B & C0 & D & E).
    cbn [add_diag toks braces bad ovf diags] in *. repeat split; auto.
    intros Hs Hd. apply E; auto. constructor; [|exact Hd].
    unfold diag_in. cbn [d_spans mkd]. apply Forall_forall. intros x Hx. apply repeat_spec in Hx. now subst.
Qed.

(* flush *)
Lemma flush_K st : (Z.of_nat (se (flush tl st)) + bad (flush tl st) = Z.of_nat (se st) + bad st)%Z.
Proof.
  unfold flush. destruct (Z.ltb_spec 0 (bad st)); [|reflexivity].
  unfold se, stream_end. cbn [add_diag raw_push toks bad tk_end]. fold (stream_end st). lia.
Qed.

Lemma flush_mono st : se st <= se (flush tl st).
Proof.
  unfold flush. destruct (Z.ltb_spec 0 (bad st)); [|lia].
  unfold se, stream_end. cbn [add_diag raw_push toks tk_end]. fold (stream_end st). lia.
Qed.

Lemma flush_bad st : (0 <= bad st -> bad (flush tl st) = 0)%Z /\ (bad st <= 0 -> flush tl st = st)%Z.
Proof.
  unfold flush. destruct (Z.ltb_spec 0 (bad st)); split; intros; try lia; auto.
Qed.

Lemma flush_bad_le st : (bad (flush tl st) <= 0 \/ bad (flush tl st) = bad st)%Z /\ (bad st <= 0 -> bad (flush tl st) = bad st)%Z.
Proof.
  unfold flush. destruct (Z.ltb_spec 0 (bad st)); cbn [add_diag bad]; split; intros; lia.
Qed.

Lemma raw_push_SI len kind kw meta st :
  SI tl st -> se st + len <= tl -> (forall sg, meta = Some sg -> sg <= len) ->
  SI tl (raw_push tl len kind kw meta st).
Proof.
  intros [A M O D B] Hle Hm. constructor; cbn [raw_push toks diags braces ovf]; auto.
  - cbn [rev]. apply asc_app. split; [exact A|]. cbn [asc tk_end]. rewrite <- se_rev. unfold se. split; [lia|exact I].
  - cbn [rev]. apply mok_app. split; [exact M|]. cbn [mok tk_end tk_meta]. rewrite <- se_rev. unfold se.
    split; [|exact I]. destruct meta as [sg|]; [|exact I]. specialize (Hm sg eq_refl). lia.
  - rewrite O. cbn [orb]. apply Nat.ltb_ge. unfold se in Hle. lia.
Qed.

Lemma se_flush st : se (flush tl st) = if (0 <? bad st)%Z then se st + Z.to_nat (bad st) else se st.
Proof. unfold flush. destruct (0 <? bad st)%Z; reflexivity. Qed.

Lemma flush_SI st : SI tl st -> se (flush tl st) <= tl -> SI tl (flush tl st).
Proof.
  intros HS Hle. rewrite se_flush in Hle. unfold flush. destruct (Z.ltb_spec 0 (bad st)); [|exact HS].
  set (st1 := raw_push tl (Z.to_nat (bad st)) K_Unrec 0 None st).
  assert (H1 : SI tl st1).
  { apply raw_push_SI; [exact HS|exact Hle|discriminate]. }
  assert (E1 : stream_end st1 = se st + Z.to_nat (bad st)) by reflexivity.
  destruct H1 as [A M O D B]. constructor; cbn [add_diag toks diags braces ovf]; auto.
  constructor; [|exact D]. unfold diag_in. cbn [d_spans mkd]. constructor; [|constructor].
  unfold span_in. cbn [fst snd]. change (stream_end {| toks := toks st1; diags := diags st1; braces := braces st1; bad := 0%Z; ovf := ovf st1 |}) with (stream_end st1).
  rewrite E1. unfold se in *. lia.
Qed.

(* one action *)
Lemma push_proj len kind kw meta isb td st :
  se (apply_act tl (APush len kind kw meta isb td) st) = se (flush tl st) + len
  /\ bad (apply_act tl (APush len kind kw meta isb td) st) = bad (flush tl st).
Proof.
  cbn [apply_act].
  set (st1 := flush tl st). set (st2 := raw_push tl len kind kw meta st1).
  set (sp := (stream_end st1, stream_end st2)).
  set (st3 := if isb then _ else st2).
  destruct (fold_tdiags sp td st3) as (A & _ & C0 & _). cbv zeta in A, C0.
  unfold se, stream_end. rewrite A, C0.
  assert (toks st3 = toks st2 /\ bad st3 = bad st2) as [E1 E2] by (unfold st3; destruct isb; auto).
  rewrite E1, E2. split; reflexivity.
Qed.

Lemma act_K a st :
  (Z.of_nat (se (apply_act tl a st)) + bad (apply_act tl a st) = Z.of_nat (se st) + bad st + act_sum a)%Z.
Proof.
  destruct a as [len kind kw meta isb td|n|d].
  - destruct (push_proj len kind kw meta isb td st) as [E1 E2]. rewrite E1, E2. cbn [act_sum].
    pose proof (flush_K st). lia.
  - cbn [apply_act act_sum]. unfold se, stream_end. cbn [toks bad]. lia.
  - cbn [apply_act act_sum]. unfold se, stream_end. cbn [add_diag toks bad]. lia.
Qed.

Lemma act_mono a st : se st <= se (apply_act tl a st).
Proof.
  destruct a as [len kind kw meta isb td|n|d].
  - destruct (push_proj len kind kw meta isb td st) as [E1 E2]. rewrite E1. pose proof (flush_mono st). lia.
  - cbn [apply_act]. unfold se, stream_end. cbn [toks]. lia.
  - cbn [apply_act]. unfold se, stream_end. cbn [add_diag toks]. lia.
Qed.

Lemma act_bad a st lo hi : act_ok lo hi a -> (0 <= bad st -> 0 <= bad (apply_act tl a st))%Z.
Proof.
  intros Hok Hb. destruct a as [len kind kw meta isb td|n|d].
  - destruct (push_proj len kind kw meta isb td st) as [E1 E2]. rewrite E2.
    destruct (flush_bad st) as [F _]. rewrite F; lia.
  - cbn [apply_act bad]. cbn in Hok. lia.
  - cbn [apply_act add_diag bad]. exact Hb.
Qed.

Lemma push_bad a st : is_push a -> (bad (apply_act tl a st) <= 0 /\ (bad st <= 0 -> bad (apply_act tl a st) = bad st))%Z.
Proof.
  intros Hp. destruct a as [len kind kw meta isb td|n|d]; cbn in Hp; try contradiction.
  destruct (push_proj len kind kw meta isb td st) as [E1 E2]. rewrite E2.
  unfold flush. destruct (Z.ltb_spec 0 (bad st)); cbn [add_diag bad]; lia.
Qed.

Lemma act_SI a st lo hi :
  SI tl st -> act_ok lo hi a -> hi <= tl -> se (apply_act tl a st) <= tl -> SI tl (apply_act tl a st).
Proof.
  intros HS Hok Hhi Hle. destruct a as [len kind kw meta isb td|n|d].
  - cbn [apply_act] in *. cbn [act_ok] in Hok.
    set (st1 := flush tl st) in *. set (st2 := raw_push tl len kind kw meta st1) in *.
    set (sp := (stream_end st1, stream_end st2)) in *.
    set (st3 := if isb then _ else st2) in *.
    destruct (fold_tdiags sp td st3) as (A & B & C0 & D & E). cbv zeta in A, B, C0, D, E.
    assert (T3 : toks st3 = toks st2) by (unfold st3; destruct isb; auto).
    assert (Hse2 : se st2 <= tl).
    { unfold se, stream_end in Hle. rewrite A, T3 in Hle. exact Hle. }
    assert (Hse12 : se st2 = se st1 + len) by (unfold st2, se, stream_end; cbn [raw_push toks tk_end]; reflexivity).
    assert (H1 : SI tl st1) by (apply flush_SI; [exact HS|fold st1; lia]).
    assert (H2 : SI tl st2) by (apply raw_push_SI; [exact H1|lia|exact Hok]).
    assert (Hsp : span_in tl sp) by (unfold span_in, sp; unfold se in *; cbn [fst snd]; lia).
    assert (H3 : SI tl st3).
    { unfold st3. destruct isb; [|exact H2]. destruct H2 as [A2 M2 O2 D2 B2].
      constructor; cbn [toks diags braces ovf]; auto. }
    destruct H3 as [A3 M3 O3 D3 B3]. constructor.
    + now rewrite A.
    + now rewrite A.
    + now rewrite D.
    + now apply E.
    + now rewrite B.
  - destruct HS as [A M O D B]. constructor; cbn [apply_act toks diags braces ovf]; auto.
  - destruct HS as [A M O D B]. constructor; cbn [apply_act add_diag toks diags braces ovf]; auto.
    constructor; [|exact D]. cbn in Hok. now apply (diag_within_in lo hi).
Qed.

(* a list of actions *)
Lemma acts_mono acts st : se st <= se (apply_acts tl acts st).
Proof.
  revert st. induction acts as [|a r IH]; intros st; cbn [apply_acts fold_left]; [lia|].
  fold (apply_acts tl r (apply_act tl a st)). pose proof (act_mono a st). specialize (IH (apply_act tl a st)). lia.
Qed.

Lemma acts_K acts st :
  (Z.of_nat (se (apply_acts tl acts st)) + bad (apply_acts tl acts st) = Z.of_nat (se st) + bad st + acts_sum acts)%Z.
Proof.
  revert st. induction acts as [|a r IH]; intros st; cbn [apply_acts fold_left acts_sum fold_right]; [lia|].
  fold (apply_acts tl r (apply_act tl a st)). fold (acts_sum r). rewrite IH, act_K. lia.
Qed.

Lemma acts_bad acts st lo hi : Forall (act_ok lo hi) acts -> (0 <= bad st -> 0 <= bad (apply_acts tl acts st))%Z.
Proof.
  revert st. induction acts as [|a r IH]; intros st Hok Hb; cbn [apply_acts fold_left]; [exact Hb|].
  fold (apply_acts tl r (apply_act tl a st)). inversion Hok; subst. apply IH; auto. now apply (act_bad a st lo hi).
Qed.

Lemma acts_SI acts st lo hi :
  SI tl st -> Forall (act_ok lo hi) acts -> hi <= tl -> se (apply_acts tl acts st) <= tl -> SI tl (apply_acts tl acts st).
Proof.
  revert st. induction acts as [|a r IH]; intros st HS Hok Hhi Hle; cbn [apply_acts fold_left] in *; [exact HS|].
  fold (apply_acts tl r (apply_act tl a st)) in *. inversion Hok; subst. apply IH; auto.
  apply (act_SI a st lo hi); auto. pose proof (acts_mono r (apply_act tl a st)). lia.
Qed.

Lemma apply_acts_app a b st : apply_acts tl (a ++ b) st = apply_acts tl b (apply_acts tl a st).
Proof. unfold apply_acts. now rewrite fold_left_app. Qed.

End State.

(* ---------- the main loop ---------- *)
Section Loop.
Variable C : cfg.
Variable V : variant.
Hypothesis WF : wf_cfg C.
Variable s : list N.
Let tl := length s.

(* at the head of an iteration *)
Definition HI (cur : nat) (st : lstate) : Prop :=
  SI tl st /\ (Z.of_nat (se st) + bad st = Z.of_nat cur)%Z /\ (0 <= bad st)%Z.

(* when the loop is left normally *)
Definition EI (st : lstate) : Prop :=
  SI tl st /\ (((0 <= bad st)%Z /\ (Z.of_nat (se st) + bad st = Z.of_nat tl)%Z) \/ (bad st = (-1)%Z /\ se st = tl)).

Lemma skipn_nil_len {A} (l : list A) n : skipn n l = [] -> length l <= n.
Proof. intros H. apply (f_equal (@length A)) in H. rewrite skipn_length in H. cbn in H. lia. Qed.

Lemma step_state cur (rest : list N) st acts n :
  HI cur st -> cur + length rest = tl -> n <= length rest ->
  step_shape cur (cur + n) n (match skipn n rest with [] => true | _ => false end) acts ->
  (skipn n rest <> [] -> HI (cur + n) (apply_acts tl acts st))
  /\ (skipn n rest = [] -> EI (apply_acts tl acts st)).
Proof.
  intros (HS & HK & HB) Hlen Hn Hsh.
  destruct Hsh as [acts Hok Hsum|acts0 p Heof Hp Hok Hsum].
  - pose proof (acts_K tl acts st) as K. pose proof (acts_bad tl acts st _ _ Hok HB) as B.
    assert (Hle : se (apply_acts tl acts st) <= tl) by lia.
    pose proof (acts_SI tl acts st _ _ HS Hok ltac:(lia) Hle) as S'.
    split.
    + intros _. split; [exact S'|]. split; lia.
    + intros He. apply skipn_nil_len in He. split; [exact S'|]. left. split; lia.
  - destruct (skipn n rest) eqn:E; [|discriminate]. apply skipn_nil_len in E.
    split; [congruence|]. intros _.
    replace (acts0 ++ [p; ABad (-1)%Z]) with ((acts0 ++ [p]) ++ [ABad (-1)%Z]) by (rewrite <- app_assoc; reflexivity).
    rewrite apply_acts_app. set (st1 := apply_acts tl (acts0 ++ [p]) st).
    pose proof (acts_K tl (acts0 ++ [p]) st) as K. fold st1 in K.
    pose proof (acts_bad tl (acts0 ++ [p]) st _ _ Hok HB) as B. fold st1 in B.
    assert (B0 : bad st1 = 0%Z).
    { unfold st1. rewrite apply_acts_app. cbn [apply_acts fold_left].
      destruct (push_bad tl p (apply_acts tl acts0 st) Hp) as [P1 _].
      unfold st1 in B. rewrite apply_acts_app in B. cbn [apply_acts fold_left] in B. lia. }
    assert (Hle : se st1 <= tl) by lia.
    pose proof (acts_SI tl (acts0 ++ [p]) st _ _ HS Hok ltac:(lia) Hle) as S1. fold st1 in S1.
    cbn [apply_acts fold_left apply_act]. split.
    + destruct S1 as [A M O D Br]. constructor; cbn [toks diags braces ovf]; auto.
    + right. unfold se, stream_end in *. cbn [bad toks]. split; lia.
Qed.

Lemma loop_spec : forall fuel cur rest prev st,
  length rest < fuel -> Valid rest -> rest = skipn cur s -> cur <= tl ->
  (match prev with Some p => p < cur | None => True end) ->
  HI cur st ->
  (exists st', loop C V tl fuel cur rest prev st = LDone st' /\ EI st')
  \/ (exists c st', loop C V tl fuel cur rest prev st = LICE c st' /\ fix_esc V = false
                    /\ last_byte s = Some 92%N /\ SI tl st' /\ c <= tl /\ se st' <= tl).
Proof.
  induction fuel as [|f IH]; intros cur rest prev st Hf Hv Hrest Hcur Hprev HH; [lia|].
  assert (Hlen : cur + length rest = tl) by (rewrite Hrest, skipn_length; unfold tl; lia).
  destruct rest as [|b0 t0].
  - left. exists st. split; [reflexivity|]. destruct HH as (HS & HK & HB). split; [exact HS|].
    left. cbn [length] in Hlen. split; lia.
  - assert (Hne : b0 :: t0 <> []) by discriminate.
    cbn [loop]. remember (b0 :: t0) as rest eqn:Er.
    assert (Hchk : (match prev with Some p => Nat.eqb p cur | None => false end) || ovf st = false).
    { destruct HH as ([_ _ O _ _] & _). rewrite O, orb_false_r. destruct prev as [p|]; [|reflexivity].
      apply Nat.eqb_neq. lia. }
    rewrite Hchk.
    destruct (step_spec C V WF cur rest Hv Hne) as (acts & n & pn & Es & Hn & Hok & Hpanic). rewrite Es.
    destruct pn.
    + (* the panic of the short escape *)
      right. destruct (Hpanic eq_refl) as (F & L & A & Sm).
      exists (cur + n), (apply_acts tl acts st). split; [reflexivity|]. split; [exact F|]. split.
      { rewrite Hrest in L. now apply last_byte_skipn in L. }
      destruct HH as (HS & HK & HB).
      pose proof (acts_K tl acts st) as K. pose proof (acts_bad tl acts st _ _ A HB) as B.
      split; [|lia]. apply (acts_SI tl acts st cur (cur + n)); auto; lia.
    + destruct (Hok eq_refl) as (H1 & H2 & H3).
      destruct (step_state cur rest st acts n HH Hlen Hn H3) as (S1 & S2).
      destruct (skipn n rest) as [|b1 t1] eqn:Esk.
      * left. exists (apply_acts tl acts st). split; [destruct f; reflexivity|].
        now apply S2.
      * rewrite <- Esk in *. apply IH.
        -- rewrite skipn_length. lia.
        -- exact H2.
        -- rewrite Hrest. now rewrite skipn_skipn.
        -- lia.
        -- lia.
        -- apply S1. rewrite Esk. discriminate.
Qed.

End Loop.
