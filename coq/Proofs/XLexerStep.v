(* Proofs about Model/XLexer.v, part C: one iteration of the main loop.  Under a well-formed
   configuration and on valid UTF-8 the iteration consumes at least one byte, stays inside the
   text, leaves the cursor on a rune boundary, and the lengths it pushes add up to what the cursor
   advanced by (the one exception, -1 at the end of the text after whitespace, is made explicit). *)
From Coq Require Import List NArith ZArith Bool Lia ZifyBool ZifyN ZifyNat.
From PV Require Import Model.XLexer Proofs.XLexerUtf8 Proofs.XLexerScan.
Import ListNotations.

Local Open Scope nat_scope.

(* what the theorems need from a configuration *)
Record wf_cfg (C : cfg) : Prop := {
  wf_kw_nonempty : forall k, In k (c_kws C) -> k_brk k = false -> k_str k <> [];
  wf_kw_ascii : forall k, In k (c_kws C) -> ascii (k_str k);
  wf_kw_self : forall k, In k (c_kws C) -> kw_find C (k_id k) = Some k;
  wf_xid : forall r, c_xids C r = true -> c_xidc C r = true;
  wf_neg_digit : c_digit C (-1)%Z = false;
  wf_neg_xids : c_xids C (-1)%Z = false }.

Definition act_sum (a : act) : Z :=
  match a with
  | APush len _ _ _ _ _ => Z.of_nat len
  | ABad n => n
  | ADiag _ => 0%Z
  end.
Definition acts_sum (acts : list act) : Z := fold_right (fun a z => (act_sum a + z)%Z) 0%Z acts.

Definition act_ok (lo hi : nat) (a : act) : Prop :=
  match a with
  | APush len _ _ meta _ _ => forall sg, meta = Some sg -> sg <= len
  | ABad n => (1 <= n)%Z
  | ADiag d => diag_within lo hi d
  end.

Definition is_push (a : act) : Prop := match a with APush _ _ _ _ _ _ => True | _ => False end.

Lemma acts_sum_app a b : acts_sum (a ++ b) = (acts_sum a + acts_sum b)%Z.
Proof. unfold acts_sum. induction a as [|x a IH]; cbn [app fold_right]; [lia|]. rewrite IH. lia. Qed.

Lemma act_ok_mono lo hi lo' hi' a : lo' <= lo -> hi <= hi' -> act_ok lo hi a -> act_ok lo' hi' a.
Proof. intros H1 H2. destruct a; cbn; auto. apply diag_within_mono; auto. Qed.

(* the two shapes of what an iteration does *)
Inductive step_shape (lo hi n : nat) (eof : bool) : list act -> Prop :=
| SS_norm acts : Forall (act_ok lo hi) acts -> acts_sum acts = Z.of_nat n -> step_shape lo hi n eof acts
| SS_eof acts0 p : eof = true -> is_push p -> Forall (act_ok lo hi) (acts0 ++ [p]) ->
    acts_sum (acts0 ++ [p]) = Z.of_nat n -> step_shape lo hi n eof (acts0 ++ [p; ABad (-1)]).

Lemma step_shape_mono lo hi lo' hi' n eof acts :
  lo' <= lo -> hi <= hi' -> step_shape lo hi n eof acts -> step_shape lo' hi' n eof acts.
Proof.
  intros H1 H2 H. destruct H as [acts Ha Hs|acts0 p He Hp Ha Hs].
  - apply SS_norm; auto. eapply Forall_impl; [|exact Ha]. intros a. now apply act_ok_mono.
  - apply SS_eof; auto. eapply Forall_impl; [|exact Ha]. intros a. now apply act_ok_mono.
Qed.

(* ---------- helpers on byte search ---------- *)
Lemma index_of_spec needle hay i : index_of needle hay = Some i ->
  is_prefix needle (skipn i hay) = true /\ i <= length hay.
Proof.
  revert i. induction hay as [|b t IH]; intros i; cbn [index_of].
  - destruct (is_prefix needle []) eqn:E; [|discriminate]. intros H; inversion H; subst. cbn. auto.
  - destruct (is_prefix needle (b :: t)) eqn:E.
    + intros H; inversion H; subst. cbn [skipn length]. split; [exact E|lia].
    + destruct (index_of needle t) as [j|] eqn:Ej; [|discriminate].
      intros H; inversion H; subst. destruct (IH j eq_refl) as [H1 H2]. cbn [skipn length]. split; [exact H1|lia].
Qed.

Lemma Valid_after_needle s needle i : Valid s -> ascii needle -> index_of needle s = Some i ->
  i + length needle <= length s /\ Valid (skipn (i + length needle) s).
Proof.
  intros Hv Ha Hi. destruct (index_of_spec _ _ _ Hi) as [Hp Hle].
  pose proof Hp as Hp'. apply is_prefix_spec in Hp'. destruct Hp' as [_ Hl]. rewrite skipn_length in Hl.
  destruct needle as [|a nd] eqn:En.
  - destruct s; cbn in Hi; inversion Hi; subst; cbn; auto.
  - rewrite <- En in *. assert (Hn : 1 <= length needle) by (subst; cbn; lia).
    split; [lia|]. replace (i + length needle) with (S (i + length needle - 1)) by lia.
    apply Valid_after_ascii; [exact Hv|lia|].
    replace (i + length needle - 1) with (i + (length needle - 1)) by lia.
    rewrite <- nth_skipn. rewrite (is_prefix_nth needle _ _ Hp) by lia.
    unfold ascii in Ha. rewrite Forall_forall in Ha. apply Ha. apply nth_In. lia.
Qed.

Lemma last_byte_skipn s k x : last_byte (skipn k s) = Some x -> last_byte s = Some x.
Proof.
  unfold last_byte. intros H. rewrite <- (firstn_skipn k s), rev_app_distr.
  destruct (rev (skipn k s)); [discriminate|exact H].
Qed.

Lemma last_byte_some s b : last_byte s = Some b -> 1 <= length s.
Proof. unfold last_byte. destruct s; cbn; [discriminate|lia]. Qed.

Section Step.
Variable C : cfg.
Variable V : variant.
Hypothesis WF : wf_cfg C.

(* ---------- keyword selection ---------- *)
Lemma kw_select_some rest k : kw_select C rest = Some k ->
  In k (c_kws C) /\ k_brk k = false /\ is_prefix (k_str k) rest = true.
Proof.
  unfold kw_select.
  assert (G : forall l best,
    (forall b, best = Some b -> In b (c_kws C) /\ k_brk b = false /\ is_prefix (k_str b) rest = true) ->
    (forall x, In x l -> In x (c_kws C)) ->
    fold_left (fun best k =>
      if negb (k_brk k) && is_prefix (k_str k) rest && negb (N.eqb (k_act k) A_Discard)
      then match best with
           | Some b => if Nat.ltb (length (k_str b)) (length (k_str k)) then Some k else best
           | None => Some k
           end
      else best) l best = Some k ->
    In k (c_kws C) /\ k_brk k = false /\ is_prefix (k_str k) rest = true).
  { induction l as [|x l IH]; intros best Hb Hl; cbn [fold_left].
    - intros H. now apply Hb.
    - apply IH; [|intros y Hy; apply Hl; now right].
      intros b. destruct (negb (k_brk x) && is_prefix (k_str x) rest && negb (N.eqb (k_act x) A_Discard)) eqn:E.
      + apply andb_true_iff in E. destruct E as [E _]. apply andb_true_iff in E. destruct E as [E1 E2].
        apply negb_true_iff in E1.
        assert (Hx : In x (c_kws C) /\ k_brk x = false /\ is_prefix (k_str x) rest = true)
          by (repeat split; auto; apply Hl; now left).
        destruct best as [b0|].
        * destruct (Nat.ltb (length (k_str b0)) (length (k_str x))); intros H; inversion H; subst; auto.
        * intros H; inversion H; subst; auto.
      + apply Hb. }
  apply G; [discriminate|auto].
Qed.

Lemma kw_select_nil : kw_select C [] = None.
Proof.
  unfold kw_select.
  assert (G : forall l, (forall x, In x l -> In x (c_kws C)) ->
    fold_left (fun best k =>
      if negb (k_brk k) && is_prefix (k_str k) [] && negb (N.eqb (k_act k) A_Discard)
      then match best with
           | Some b => if Nat.ltb (length (k_str b)) (length (k_str k)) then Some k else best
           | None => Some k
           end
      else best) l None = None).
  { induction l as [|x l IH]; intros Hl; cbn [fold_left]; [reflexivity|].
    assert (E : negb (k_brk x) && is_prefix (k_str x) [] = false).
    { destruct (k_brk x) eqn:Eb; [reflexivity|]. cbn [negb andb].
      pose proof (wf_kw_nonempty C WF x (Hl x (or_introl eq_refl)) Eb) as Hne.
      destruct (k_str x); [congruence|reflexivity]. }
    rewrite E. cbn [andb]. apply IH. intros y Hy. apply Hl. now right. }
  apply G. auto.
Qed.

(* ---------- whitespace chopping ---------- *)
Lemma nl_push_shape : is_push (nl_push C) /\ act_sum (nl_push C) = 1%Z /\ forall lo hi, act_ok lo hi (nl_push C).
Proof. unfold nl_push. destruct (c_emit_newline C); cbn; repeat split; auto; discriminate. Qed.

Lemma chop_spec lo hi ws run :
  Forall (act_ok lo hi) (chop C ws run)
  /\ acts_sum (chop C ws run) = Z.of_nat (length ws + run)
  /\ (1 <= length ws + run -> exists a0 p, chop C ws run = a0 ++ [p] /\ is_push p).
Proof.
  destruct nl_push_shape as (N1 & N2 & N3).
  assert (Hsp : forall r, act_ok lo hi (APush r K_Space 0 None false [])) by (intros r sg; discriminate).
  revert run. induction ws as [|b t IH]; intros run; cbn [chop length].
  - destruct (Nat.eqb_spec run 0) as [->|Hr].
    + split; [constructor|]. split; [reflexivity|lia].
    + split; [constructor; [apply Hsp|constructor]|]. split; [cbn; lia|].
      intros _. exists [], (APush run K_Space 0 None false []). split; [reflexivity|exact I].
  - destruct (N.eqb b 10).
    + destruct (IH 0) as (I1 & I2 & I3).
      set (pre := if Nat.eqb run 0 then [] else [APush run K_Space 0 None false []]).
      assert (Hpre : Forall (act_ok lo hi) pre /\ acts_sum pre = Z.of_nat run).
      { unfold pre. destruct (Nat.eqb_spec run 0) as [->|Hr].
        - split; [constructor|reflexivity].
        - split; [constructor; [apply Hsp|constructor]|cbn; lia]. }
      destruct Hpre as (P1 & P2). split.
      { apply Forall_app. split; [exact P1|]. constructor; [apply N3|exact I1]. }
      split.
      { rewrite acts_sum_app. change (acts_sum (nl_push C :: chop C t 0)) with (act_sum (nl_push C) + acts_sum (chop C t 0))%Z.
        rewrite P2, I2, N2. lia. }
      intros _. destruct (Nat.eq_dec (length t) 0) as [E|E].
      * destruct t; [|cbn in E; lia]. cbn [chop Nat.eqb].
        exists pre, (nl_push C). split; [reflexivity|exact N1].
      * destruct I3 as (a0 & p & E3 & Hp); [lia|]. rewrite E3.
        exists (pre ++ nl_push C :: a0), p.
        split; [|exact Hp]. rewrite <- app_assoc. reflexivity.
    + destruct (IH (S run)) as (I1 & I2 & I3). split; [exact I1|]. split.
      * rewrite I2. lia.
      * intros _. apply I3. lia.
Qed.

(* ---------- the rune part of an iteration ---------- *)
Definition step_post (cur : nat) (rest : list N) (acts : list act) (n : nat) (pn : bool) : Prop :=
  n <= length rest
  /\ (pn = false -> 1 <= n /\ Valid (skipn n rest)
                    /\ Forall (act_ok cur (cur + n)) acts /\ acts_sum acts = Z.of_nat n)
  /\ (pn = true -> fix_esc V = false /\ last_byte rest = Some 92%N
                   /\ Forall (act_ok cur (cur + n)) acts /\ acts_sum acts = 0%Z).

Lemma acts_sum_diags ds : acts_sum (map ADiag ds) = 0%Z.
Proof. induction ds; cbn; auto. Qed.

Lemma act_ok_diags lo hi ds : Forall (diag_within lo hi) ds -> Forall (act_ok lo hi) (map ADiag ds).
Proof. intros H. apply Forall_map. exact H. Qed.

Lemma lex_string_post cur rest sigil :
  Valid rest -> sigil < length rest -> Valid (skipn sigil rest) ->
  (nth sigil rest 0 = 34 \/ nth sigil rest 0 = 39)%N ->
  exists acts n pn, lex_string C V cur rest sigil = Some (acts, n, pn) /\ step_post cur rest acts n pn.
Proof.
  intros Hv Hs Hvs Hq.
  destruct (lex_string_spec C V cur rest sigil Hv Hs Hvs Hq) as (acts & n & pn & E & L1 & L2 & L3 & L4).
  exists acts, n, pn. split; [exact E|]. unfold step_post. split; [exact L2|]. split.
  - intros Hp. destruct (L3 Hp) as (Hvn & ds & meta & td & -> & Hds & Hm).
    split; [lia|]. split; [exact Hvn|]. split.
    + apply Forall_app. split; [now apply act_ok_diags|]. constructor; [exact Hm|constructor].
    + rewrite acts_sum_app, acts_sum_diags. cbn. lia.
  - intros Hp. destruct (L4 Hp) as (F & En & Hl & ds & -> & Hds).
    split; [exact F|]. split; [exact Hl|]. split; [now apply act_ok_diags|apply acts_sum_diags].
Qed.

Lemma step_rune_nil cur : step_rune C V cur [] = Some ([ABad (-1)%Z], 0, false).
Proof.
  unfold step_rune. rewrite peek_nil. cbn [Z.eqb orb].
  rewrite (wf_neg_digit C WF), (wf_neg_xids C WF). rewrite andb_false_r. reflexivity.
Qed.

Lemma step_rune_spec cur rest : Valid rest -> rest <> [] ->
  exists acts n pn, step_rune C V cur rest = Some (acts, n, pn) /\ step_post cur rest acts n pn.
Proof.
  intros Hv Hne. unfold step_rune.
  destruct (Valid_peek rest Hv Hne) as (r & w & _ & Hp & Hw & H1 & H2 & H3 & H4 & H5).
  rewrite Hp.
  destruct ((r =? 34)%Z || (r =? 39)%Z) eqn:Eq.
  { (* a quote *)
    assert (Hc : exists c, (0 <= c < 128)%Z /\ peek rest = c /\ (c = 34 \/ c = 39)%Z) by (exists r; lia).
    destruct Hc as (c & Hc1 & Hc2 & Hc3).
    destruct (peek_eq_ascii rest c Hv Hc1 Hc2) as (t & Et & Hvt & _).
    apply lex_string_post; auto.
    - rewrite Et. cbn. lia.
    - rewrite Et. cbn [nth]. lia. }
  destruct ((c_dotnum C && (r =? 46)%Z) || c_digit C r) eqn:En.
  { (* a number *)
    destruct (raw_number_spec C rest Hv) as (n & E & N1 & N2). rewrite E.
    assert (Hn1 : 1 <= n).
    { apply (raw_number_progress C rest n Hv Hne); [|exact E]. rewrite Hp.
      destruct (c_digit C r); [now rewrite orb_true_r|]. rewrite orb_false_r in En.
      apply andb_true_iff in En. destruct En as [_ En]. now rewrite En. }
    exists [APush n K_Number 0 None false []], n, false. split; [reflexivity|].
    unfold step_post. split; [exact N1|]. split; [|discriminate]. intros _.
    split; [exact Hn1|]. split; [exact N2|]. split; [|cbn; lia].
    repeat constructor. cbn. discriminate. }
  destruct (c_xids C r) eqn:Ex.
  { (* an identifier, or a prefixed string *)
    destruct (raw_ident_spec C rest Hv) as (raw & idl & E & I1 & I2 & I3 & I4). rewrite E.
    assert (Hraw : 1 <= raw).
    { apply (raw_ident_progress C rest raw idl Hv Hne); [|exact E]. rewrite Hp. now apply (wf_xid C WF). }
    destruct (Nat.eqb_spec idl 0) as [->|Hidl].
    { exists [APush raw K_Unrec 0 None false [(L_Error, DUnrecognized, 1)]], raw, false. split; [reflexivity|].
      unfold step_post. split; [exact I2|]. split; [|discriminate]. intros _.
      split; [exact Hraw|]. split; [exact I3|]. split; [|cbn; lia].
      repeat constructor. cbn. discriminate. }
    destruct ((peek (skipn raw rest) =? 34)%Z || ((peek (skipn raw rest) =? 39)%Z && c_str_affix C (firstn raw rest))) eqn:Enx.
    { assert (Hc : exists c, (0 <= c < 128)%Z /\ peek (skipn raw rest) = c /\ (c = 34 \/ c = 39)%Z).
      { exists (peek (skipn raw rest)). destruct (Z.eqb_spec (peek (skipn raw rest)) 34); [lia|].
        cbn [orb] in Enx. apply andb_true_iff in Enx. lia. }
      destruct Hc as (c & Hc1 & Hc2 & Hc3).
      destruct (peek_eq_ascii (skipn raw rest) c I3 Hc1 Hc2) as (t & Et & Hvt & _).
      assert (Hlt : raw < length rest).
      { apply (f_equal (@length N)) in Et. rewrite skipn_length in Et. cbn in Et. lia. }
      apply lex_string_post; auto.
      replace (nth raw rest 0%N) with (nth 0 (skipn raw rest) 0%N) by (rewrite nth_skipn; f_equal; lia).
      rewrite Et. cbn [nth]. lia. }
    eexists. exists idl, false. split; [reflexivity|].
    unfold step_post. split; [lia|]. split; [|discriminate]. intros _.
    split; [lia|]. split; [exact I4|]. split; [|cbn; lia].
    repeat constructor. cbn. discriminate. }
  (* an unrecognised rune *)
  exists [ABad (rune_len r)], (pop_len rest), false. split; [reflexivity|].
  unfold step_post. rewrite Hw. split; [exact H2|]. split; [|discriminate]. intros _.
  split; [exact H1|]. split; [exact H3|]. split; [|cbn; lia].
  repeat constructor. cbn. lia.
Qed.

(* ---------- the keyword part ---------- *)
Lemma unmatched_spans_nil kw sp : unmatched_spans C kw sp [] = [sp].
Proof. unfold unmatched_spans. now destruct (N.eqb kw (kw_left C kw)). Qed.

Lemma kw_string_ascii id : ascii (kw_string C id).
Proof.
  unfold kw_string, kw_find. destruct (find (fun k => N.eqb (k_id k) id) (c_kws C)) as [k|] eqn:E; [|constructor].
  apply find_some in E. destruct E as [E _]. now apply (wf_kw_ascii C WF).
Qed.

Lemma step_main_spec cur rest : Valid rest -> rest <> [] ->
  exists acts n pn, step_main C V cur rest = Some (acts, n, pn) /\ step_post cur rest acts n pn.
Proof.
  intros Hv Hne. unfold step_main.
  destruct (kw_select C rest) as [k|] eqn:Ek; [|now apply step_rune_spec].
  destruct (kw_select_some rest k Ek) as (Hin & Hbrk & Hpre).
  pose proof (wf_kw_nonempty C WF k Hin Hbrk) as Hkne.
  pose proof (wf_kw_ascii C WF k Hin) as Hka.
  pose proof Hpre as Hpre'. apply is_prefix_spec in Hpre'. destruct Hpre' as [_ Hwl].
  assert (Hwl1 : 1 <= length (k_str k)) by (destruct (k_str k); [congruence|cbn; lia]).
  pose proof (Valid_skip_prefix rest (k_str k) Hv Hpre Hka) as Hv2.
  cbv zeta.
  destruct (N.eqb (k_act k) A_Soft || N.eqb (k_act k) A_Hard || N.eqb (k_act k) A_Bracket).
  { destruct (c_dotnum C && N.eqb (k_id k) (c_kw_dot C) && c_digit C (rune_at rest (length (k_str k))));
      [now apply step_rune_spec|].
    destruct (k_word k && c_xidc C (rune_at rest (length (k_str k)))); [now apply step_rune_spec|].
    eexists. exists (length (k_str k)), false. split; [reflexivity|].
    unfold step_post. split; [exact Hwl|]. split; [|discriminate]. intros _.
    split; [exact Hwl1|]. split; [exact Hv2|]. split; [|cbn; lia].
    repeat constructor. cbn. discriminate. }
  destruct (N.eqb (k_act k) A_Line).
  { (* a line comment *)
    set (wl := length (k_str k)) in *. set (rest2 := skipn wl rest) in *.
    assert (Hl2 : length rest2 = length rest - wl) by (unfold rest2; now rewrite skipn_length).
    set (text := match index_of [10%N] rest2 with Some i => firstn (i + 1) rest2 | None => rest2 end).
    assert (Ht : length text <= length rest2 /\ Valid (skipn (length text) rest2)).
    { unfold text. destruct (index_of [10%N] rest2) as [i|] eqn:Ei.
      - destruct (Valid_after_needle rest2 [10%N] i Hv2 ltac:(repeat constructor; lia) Ei) as [A B].
        cbn [length] in A, B. rewrite firstn_length. split; [lia|].
        replace (Nat.min (i + 1) (length rest2)) with (i + 1) by lia. exact B.
      - split; [lia|]. rewrite skipn_all. constructor. }
    destruct Ht as [Ht1 Ht2].
    destruct nl_push_shape as (N1 & N2 & N3).
    eexists. exists (wl + length text), false. split; [reflexivity|].
    unfold step_post. split; [lia|]. split; [|discriminate]. intros _.
    split; [lia|]. split; [rewrite <- skipn_skipn; exact Ht2|].
    destruct (match last_byte text with Some b => N.eqb b 10 | None => false end) eqn:Enl.
    - assert (1 <= length text).
      { destruct (last_byte text) eqn:El; [|discriminate]. now apply last_byte_some in El. }
      split.
      + constructor; [cbn; discriminate|]. constructor; [apply N3|constructor].
      + cbn [acts_sum fold_right]. rewrite N2. cbn [act_sum]. lia.
    - split; [repeat constructor; cbn; discriminate|cbn; lia]. }
  destruct (N.eqb (k_act k) A_Block); [|now apply step_rune_spec].
  (* a block comment *)
  set (wl := length (k_str k)) in *.
  destruct (N.eqb_spec (k_id k) (kw_right C (k_id k))) as [Eend|Nend].
  { (* the closer on its own *)
    rewrite <- Eend. unfold kw_string. rewrite (wf_kw_self C WF k Hin). fold wl.
    eexists. exists wl, false. split; [reflexivity|].
    unfold step_post. split; [exact Hwl|]. split; [|discriminate]. intros _.
    split; [exact Hwl1|]. split; [exact Hv2|]. split; [|cbn; lia].
    repeat constructor. cbn. discriminate. }
  set (rest2 := skipn wl rest) in *.
  assert (Hl2 : length rest2 = length rest - wl) by (unfold rest2; now rewrite skipn_length).
  set (needle := kw_string C (kw_right C (k_id k))).
  destruct (index_of needle rest2) as [i|] eqn:Ei.
  - destruct (Valid_after_needle rest2 needle i Hv2 (kw_string_ascii _) Ei) as [A B].
    eexists. exists (wl + (i + length needle)), false. split; [reflexivity|].
    unfold step_post. split; [lia|]. split; [|discriminate]. intros _.
    split; [lia|]. split; [rewrite <- skipn_skipn; exact B|]. split; [|cbn; lia].
    repeat constructor. cbn. discriminate.
  - eexists. exists (wl + length rest2), false. split; [reflexivity|].
    unfold step_post. split; [lia|]. split; [|discriminate]. intros _.
    split; [lia|]. split; [rewrite skipn_all2 by lia; constructor|]. split; [|cbn; lia].
    constructor.
    + cbn [act_ok]. unfold diag_within. cbn [d_spans mkd]. rewrite unmatched_spans_nil.
      repeat constructor; unfold span_within; cbn; lia.
    + repeat constructor. cbn. discriminate.
Qed.

Lemma step_main_nil cur : step_main C V cur [] = Some ([ABad (-1)%Z], 0, false).
Proof. unfold step_main. rewrite kw_select_nil. apply step_rune_nil. Qed.

(* ---------- the whole iteration ---------- *)
Lemma step_spec cur rest : Valid rest -> rest <> [] ->
  exists acts n pn, step C V cur rest = Some (acts, n, pn) /\ n <= length rest
    /\ (pn = false -> 1 <= n /\ Valid (skipn n rest)
                      /\ step_shape cur (cur + n) n (match skipn n rest with [] => true | _ => false end) acts)
    /\ (pn = true -> fix_esc V = false /\ last_byte rest = Some 92%N
                     /\ Forall (act_ok cur (cur + n)) acts /\ (0 <= acts_sum acts <= Z.of_nat n)%Z).
Proof.
  intros Hv Hne. unfold step.
  destruct (c_white C (peek rest)) eqn:Ew.
  2:{ destruct (step_main_spec cur rest Hv Hne) as (acts & n & pn & E & P1 & P2 & P3).
      exists acts, n, pn. split; [exact E|]. split; [exact P1|]. split.
      - intros Hp. destruct (P2 Hp) as (A & B & C0 & D). split; [exact A|]. split; [exact B|]. now apply SS_norm.
      - intros Hp. destruct (P3 Hp) as (A & B & C0 & D). repeat split; auto; lia. }
  destruct (take_while_spec (c_white C) rest Hv) as (ws & Ews & W1 & W2). rewrite Ews.
  pose proof (take_while_progress (c_white C) rest ws Hv Hne Ew Ews) as W3.
  destruct (chop_spec cur (cur + ws) (firstn ws rest) 0) as (C1 & C2 & C3).
  rewrite firstn_length, Nat.add_0_r in C2, C3.
  replace (Nat.min ws (length rest)) with ws in C2, C3 by lia.
  destruct (skipn ws rest) as [|b1 t1] eqn:E1.
  - (* whitespace up to the end of the text *)
    rewrite step_main_nil.
    exists (chop C (firstn ws rest) 0 ++ [ABad (-1)%Z]), (ws + 0), false.
    split; [reflexivity|]. split; [lia|]. split; [|discriminate]. intros _.
    split; [lia|]. rewrite Nat.add_0_r. rewrite E1. split; [constructor|].
    destruct (C3 W3) as (a0 & p & Ec & Hp). rewrite Ec, <- app_assoc. cbn [app].
    apply SS_eof; auto; rewrite <- Ec; auto.
  - rewrite <- E1 in *. assert (Hne1 : skipn ws rest <> []) by (rewrite E1; discriminate).
    destruct (step_main_spec (cur + ws) (skipn ws rest) W2 Hne1) as (acts & n & pn & E & P1 & P2 & P3).
    rewrite E. rewrite skipn_length in P1.
    exists (chop C (firstn ws rest) 0 ++ acts), (ws + n), pn.
    split; [reflexivity|]. split; [lia|]. split.
    + intros Hp. destruct (P2 Hp) as (A & B & C0 & D). split; [lia|].
      rewrite skipn_skipn in B. split; [exact B|]. apply SS_norm.
      * apply Forall_app. split.
        -- eapply Forall_impl; [|exact C1]. intros a. apply act_ok_mono; lia.
        -- eapply Forall_impl; [|exact C0]. intros a. apply act_ok_mono; lia.
      * rewrite acts_sum_app, C2, D. lia.
    + intros Hp. destruct (P3 Hp) as (A & B & C0 & D). split; [exact A|]. split.
      * now apply (last_byte_skipn rest ws).
      * split.
        -- apply Forall_app. split.
           ++ eapply Forall_impl; [|exact C1]. intros a. apply act_ok_mono; lia.
           ++ eapply Forall_impl; [|exact C0]. intros a. apply act_ok_mono; lia.
        -- rewrite acts_sum_app, C2, D. lia.
Qed.

End Step.
