(* Proofs about Model/XLexer.v, part E: the prelude, the passes after the loop, and the theorems
   that Props/C29.v and Props/C28.v state: fuel suffices, where the lexer can panic, when exactly
   the tokens tile the input, every diagnostic span lies in the file, and the verdict of
   parser.Parse against its specification. *)
From Coq Require Import List NArith ZArith Bool Lia ZifyBool ZifyN ZifyNat.
From PV Require Import Model.XLexer Proofs.XLexerUtf8 Proofs.XLexerScan Proofs.XLexerStep Proofs.XLexerLoop.
Import ListNotations.

Local Open Scope nat_scope.

(* ========================================================================================== *)
(* E1. the prelude                                                                              *)
(* ========================================================================================== *)
Lemma inv_valid : forall fuel pos cnt idx r pos' cnt' idx' n,
  rloop inv_body fuel (pos, cnt, idx) r = Some ((pos', cnt', idx'), n) ->
  cnt <= cnt' /\ (cnt' = cnt -> Valid r).
Proof.
  induction fuel as [|k IH]; intros pos cnt idx r pos' cnt' idx' n.
  - destruct r; cbn [rloop]; [|discriminate]. intros H; inversion H; subst. split; [lia|constructor].
  - destruct r as [|b t]; cbn [rloop]. { intros H; inversion H; subst. split; [lia|constructor]. }
    unfold inv_body at 1. destruct (decode_rune (b :: t)) as [[ru w]|] eqn:Ed.
    + destruct (rloop inv_body k (pos + w, cnt, idx) (skipn w (b :: t))) as [[[[p2 c2] i2] m]|] eqn:Er; [|discriminate].
      intros H; inversion H; subst. destruct (IH _ _ _ _ _ _ _ _ Er) as [A B]. split; [exact A|].
      intros E. eapply V_cons; [exact Ed|]. now apply B.
    + destruct (rloop inv_body k (pos + 1, S cnt, if Nat.eqb cnt 0 then pos else idx) (skipn 1 (b :: t)))
        as [[[[p2 c2] i2] m]|] eqn:Er; [|discriminate].
      intros H; inversion H; subst. destruct (IH _ _ _ _ _ _ _ _ Er) as [A B]. split; lia.
Qed.

Lemma count_invalid_total s : exists cnt idx, count_invalid s = Some (cnt, idx) /\ (1 <= cnt -> idx < length s).
Proof.
  unfold count_invalid.
  set (Q := fun (st : nat * nat * nat) (r : list N) =>
              fst (fst st) + length r = length s /\ (1 <= snd (fst st) -> snd st < length s)).
  destruct (rloop_spec inv_body Q Q) with (fuel := length s) (st := (0, 0, 0)) (rest := s)
    as (st' & n & Hr & Hn & HR); auto.
  - intros [[pos cnt] idx] r st' n Hne (Q1 & Q2) Hb. unfold inv_body in Hb. cbn [fst snd] in *.
    destruct (decode_rune r) as [[ru w]|] eqn:Ed.
    + injection Hb as <- <-. destruct (decode_spec _ _ _ Ed) as (A & B & _).
      split; [exact A|]. split; [exact B|]. unfold Q. cbn [fst snd]. rewrite skipn_length. split; [lia|exact Q2].
    + injection Hb as <- <-. assert (1 <= length r) by (destruct r; [congruence|cbn; lia]).
      split; [lia|]. split; [lia|]. unfold Q. cbn [fst snd]. rewrite skipn_length. split; [lia|].
      intros _. destruct (Nat.eqb_spec cnt 0); [lia|apply Q2; lia].
  - intros [[pos cnt] idx] r st' n Hne HQ Hb. unfold inv_body in Hb.
    destruct (decode_rune r) as [[ru w]|]; discriminate.
  - unfold Q. cbn. split; lia.
  - rewrite Hr. destruct st' as [[pos cnt] idx]. destruct HR as (R1 & R2). cbn [fst snd] in *.
    exists cnt, idx. split; [reflexivity|exact R2].
Qed.

Lemma count_invalid_zero s idx : count_invalid s = Some (0, idx) -> Valid s.
Proof.
  unfold count_invalid.
  destruct (rloop inv_body (length s) (0, 0, 0) s) as [[[[p c] i] n]|] eqn:E; [|discriminate].
  intros H; inversion H; subst. destruct (inv_valid _ _ _ _ _ _ _ _ _ E) as [_ B]. now apply B.
Qed.

Definition prelude_ok (C : cfg) (s : list N) : Prop := exists bom, prelude C s = PreOk bom.

Section Final.
Variable C : cfg.
Variable V : variant.
Hypothesis WF : wf_cfg C.

Lemma prelude_never_fuel s : prelude C s <> PreFuel.
Proof.
  unfold prelude. destruct s as [|b t]; [discriminate|].
  destruct (N.ltb (c_maxsize C) (N.of_nat (length (b :: t)))); [discriminate|].
  destruct (_ || _); [discriminate|].
  destruct (count_invalid_total (b :: t)) as (cnt & idx & -> & _).
  destruct (Nat.eqb cnt 0); [discriminate|]. destruct (Nat.ltb (cnt * 5) (length (b :: t))); discriminate.
Qed.

Lemma prelude_reject s d : prelude C s = PreReject d -> d_level d = L_Error /\ diag_in (length s) d.
Proof.
  unfold prelude. destruct s as [|b t]; [discriminate|].
  destruct (N.ltb (c_maxsize C) (N.of_nat (length (b :: t)))).
  { intros H; inversion H; subst. split; [reflexivity|constructor]. }
  destruct (_ || _).
  { intros H; inversion H; subst. split; [reflexivity|constructor]. }
  destruct (count_invalid_total (b :: t)) as (cnt & idx & -> & Hidx).
  destruct (Nat.eqb_spec cnt 0); [discriminate|].
  destruct (Nat.ltb (cnt * 5) (length (b :: t))); intros H; inversion H; subst; (split; [reflexivity|]).
  - unfold diag_in. cbn [d_spans mkd]. constructor; [|constructor]. unfold span_in. cbn [fst snd].
    specialize (Hidx ltac:(lia)). lia.
  - constructor.
Qed.

Lemma prelude_ok_valid s bom : prelude C s = PreOk bom ->
  Valid s /\ (bom = true -> 3 <= length s /\ Valid (skipn 3 s)).
Proof.
  unfold prelude. destruct s as [|b t]. { intros H; inversion H; subst. split; [constructor|discriminate]. }
  destruct (N.ltb (c_maxsize C) (N.of_nat (length (b :: t)))); [discriminate|].
  destruct (_ || _); [discriminate|].
  destruct (count_invalid (b :: t)) as [[cnt idx]|] eqn:Ec; [|discriminate].
  destruct (Nat.eqb_spec cnt 0) as [->|]; [|destruct (Nat.ltb (cnt * 5) (length (b :: t))); discriminate].
  intros H; inversion H; subst; clear H.
  pose proof (count_invalid_zero _ _ Ec) as Hv. split; [exact Hv|].
  intros Hb. apply Z.eqb_eq in Hb.
  destruct (Valid_peek (b :: t) Hv ltac:(discriminate)) as (r & w & Hd & Hp & Hw & H1 & H2 & H3 & H4 & H5).
  rewrite Hb in Hp. subst r. assert (Hw3 : w = 3) by (unfold rune_len in H5; cbn in H5; lia).
  rewrite Hw3 in *. split; assumption.
Qed.

(* ========================================================================================== *)
(* E2. tokens in stream order: contiguity and concatenation                                     *)
(* ========================================================================================== *)
Lemma apply_fuse_end pairs id t : tk_end (apply_fuse pairs id t) = tk_end t.
Proof.
  unfold apply_fuse. revert t. induction pairs as [|[a b] r IH]; intros t; cbn [fold_left]; [reflexivity|].
  rewrite IH. destruct (Nat.eqb id a); [reflexivity|]. destruct (Nat.eqb id b); reflexivity.
Qed.

Lemma view_contig fz ts id p : asc p ts -> contiguous_from p (view C fz (index_toks ts id p)).
Proof.
  revert id p. induction ts as [|t r IH]; intros id p; cbn [index_toks view map contiguous_from asc]; [auto|].
  intros [H1 H2]. cbn [o_start o_end it_start it_tok it_id]. rewrite apply_fuse_end.
  split; [reflexivity|]. split; [exact H1|]. now apply IH.
Qed.

Lemma firstn_add {A} n m (l : list A) : firstn (n + m) l = firstn n l ++ firstn m (skipn n l).
Proof.
  revert l. induction n as [|n IH]; intros l; [reflexivity|].
  destruct l; cbn [plus firstn skipn app]; [now rewrite firstn_nil|]. now rewrite IH.
Qed.

Lemma sub_app s a b c : a <= b -> b <= c -> sub s a b ++ sub s b c = sub s a c.
Proof.
  intros H1 H2. unfold sub. replace (c - a) with ((b - a) + (c - b)) by lia.
  rewrite firstn_add, skipn_skipn. replace (a + (b - a)) with b by lia. reflexivity.
Qed.

Lemma view_concat s fz ts id p : asc p ts ->
  concat (map (text_of s) (view C fz (index_toks ts id p))) = sub s p (last_end p ts).
Proof.
  revert id p. induction ts as [|t r IH]; intros id p; cbn [index_toks view map concat asc last_end].
  - intros _. unfold sub. now rewrite Nat.sub_diag.
  - intros [H1 H2]. fold (view C fz (index_toks r (S id) (tk_end t))). rewrite IH by exact H2.
    unfold text_of at 1. cbn [o_start o_end it_start it_tok it_id]. rewrite apply_fuse_end.
    apply sub_app; [exact H1|now apply asc_last_le].
Qed.

Lemma view_ends (s : list N) fz ts id p : asc p ts -> last_end p ts <= length s ->
  Forall (fun t => o_start t <= o_end t /\ o_end t <= length s) (view C fz (index_toks ts id p)).
Proof.
  revert id p. induction ts as [|t r IH]; intros id p; cbn [index_toks view map asc last_end]; [constructor|].
  intros [H1 H2] Hl. fold (view C fz (index_toks r (S id) (tk_end t))). constructor.
  - cbn [o_start o_end it_start it_tok it_id]. rewrite apply_fuse_end.
    pose proof (asc_last_le _ _ H2). lia.
  - now apply IH.
Qed.

Lemma sub_zero s e : sub s 0 e = firstn e s.
Proof. unfold sub. now rewrite Nat.sub_0_r. Qed.

Lemma firstn_eq_iff {A} (l : list A) e : e <= length l -> (firstn e l = l <-> e = length l).
Proof.
  intros H. split.
  - intros E. apply (f_equal (@length A)) in E. rewrite firstn_length in E. lia.
  - intros ->. apply firstn_all.
Qed.

(* ========================================================================================== *)
(* E3. the passes after the loop                                                                *)
(* ========================================================================================== *)
Variable s : list N.
Local Notation tl := (length s).

(* the state may still hold unrecognised bytes, but they fit *)
Definition PI (st : lstate) : Prop := SI tl st /\ (Z.of_nat (se st) + Z.max 0 (bad st) <= Z.of_nat tl)%Z.

Lemma EI_PI st : EI s st -> PI st.
Proof. intros (HS & [[A B]|[A B]]); split; auto ; lia. Qed.

Lemma add_diag_SI d st : SI tl st -> diag_in tl d -> SI tl (add_diag d st).
Proof. intros [A M O D B] Hd. constructor; cbn [add_diag toks diags braces ovf]; auto. Qed.

Lemma push0_PI st :
  PI st ->
  let st' := apply_act tl (APush 0 K_Unrec 0 None false []) st in
  PI st' /\ se st' = se st + Z.to_nat (Z.max 0 (bad st)) /\ (bad st' <= 0)%Z /\ braces st' = braces st.
Proof.
  intros (HS & HB). cbv zeta.
  destruct (push_proj tl 0 K_Unrec 0%N None false [] st) as [E1 E2].
  assert (Hse : se (apply_act tl (APush 0 K_Unrec 0 None false []) st) = se st + Z.to_nat (Z.max 0 (bad st))).
  { rewrite E1, se_flush. destruct (Z.ltb_spec 0 (bad st)); lia. }
  assert (Hbad : (bad (apply_act tl (APush 0 K_Unrec 0 None false []) st) <= 0)%Z).
  { rewrite E2. unfold flush. destruct (Z.ltb_spec 0 (bad st)); cbn [add_diag bad]; lia. }
  split; [split|].
  - apply (act_SI tl _ st 0 0); auto; [cbn; discriminate|lia|lia].
  - lia.
  - split; [exact Hse|]. split; [exact Hbad|].
    cbn [apply_act fold_left]. unfold flush. destruct (0 <? bad st)%Z; reflexivity.
Qed.

Lemma close_opens_spec opens : forall st fz, PI st ->
  let '(st', fz') := close_opens tl opens st fz in
  SI tl st' /\ se st' <= tl
  /\ se st' = (match opens with [] => se st | _ => se st + Z.to_nat (Z.max 0 (bad st)) end).
Proof.
  induction opens as [|o r IH]; intros st fz HP; cbn [close_opens].
  - destruct HP as (HS & HB). split; [exact HS|]. split; lia.
  - destruct (push0_PI st HP) as (P1 & P2 & P3 & _). cbv zeta in P1, P2, P3.
    set (st1 := apply_act tl (APush 0 K_Unrec 0 None false []) st) in *.
    specialize (IH st1 ((b_id o, length (toks st1)) :: fz) P1).
    destruct (close_opens tl r st1 ((b_id o, length (toks st1)) :: fz)) as [st' fz'].
    destruct IH as (I1 & I2 & I3). split; [exact I1|]. split; [exact I2|].
    rewrite I3. destruct r; [exact P2|]. rewrite P2. lia.
Qed.

(* the diagnostics of fuseBraces carry spans of remembered brackets *)
Definition brace_in (b : brace) : Prop := span_in tl (b_sp b).

Lemma unmatched_in kw sp extra : span_in tl sp -> Forall (span_in tl) extra -> diag_in tl (unmatched C kw sp extra).
Proof.
  intros H1 H2. unfold unmatched, diag_in, unmatched_spans. cbn [d_spans mkd].
  destruct (N.eqb kw (kw_left C kw)); constructor; auto.
Qed.

Lemma fuse_loop_in_n : forall n bs opens fz ds, length bs <= n ->
  Forall brace_in bs -> Forall brace_in opens -> Forall (diag_in tl) ds ->
  let '(opens', fz', ds') := fuse_loop C bs opens fz ds in
  Forall brace_in opens' /\ Forall (diag_in tl) ds'.
Proof.
  induction n as [|n IH]; intros bs opens fz ds Hn Hbs Hop Hds.
  { destruct bs; [cbn; auto|cbn in Hn; lia]. }
  destruct bs as [|t2 rest]; cbn [fuse_loop]; [auto|]. cbn [length] in Hn.
  assert (Ht2 : brace_in t2) by (inversion Hbs; auto).
  assert (Hrest : Forall brace_in rest) by (inversion Hbs; auto).
  destruct (N.eqb (b_kw t2) (kw_left C (b_kw t2))). { apply IH; auto; lia. }
  destruct opens as [|t1 opens1].
  { apply IH; auto; [lia|]. constructor; [|exact Hds]. apply unmatched_in; auto. }
  assert (Ht1 : brace_in t1) by (inversion Hop; auto).
  assert (Hop1 : Forall brace_in opens1) by (inversion Hop; auto).
  destruct (N.eqb (b_kw t1) (kw_left C (b_kw t2))). { apply IH; auto; lia. }
  assert (U2 : diag_in tl (unmatched C (b_kw t2) (b_sp t2) [])) by (apply unmatched_in; auto).
  assert (U1 : diag_in tl (unmatched C (b_kw t1) (b_sp t1) [])) by (apply unmatched_in; auto).
  destruct opens1 as [|t0 opens2].
  - destruct rest as [|t3 rest'].
    + apply IH; auto; lia.
    + assert (Ht3 : brace_in t3) by (inversion Hrest; auto).
      assert (Hrest' : Forall brace_in rest') by (inversion Hrest; auto).
      assert (U13 : diag_in tl (unmatched C (b_kw t1) (b_sp t1) [b_sp t2; b_sp t3])) by (apply unmatched_in; auto).
      cbn [length] in Hn.
      destruct (negb (N.eqb (b_kw t3) (kw_left C (b_kw t3))) && N.eqb (b_kw t1) (kw_left C (b_kw t3)));
        apply IH; auto; cbn [length]; lia.
  - assert (Ht0 : brace_in t0) by (inversion Hop1; auto).
    assert (Hop2 : Forall brace_in opens2) by (inversion Hop1; auto).
    destruct rest as [|t3 rest'].
    + destruct (N.eqb (b_kw t0) (kw_left C (b_kw t2))); apply IH; auto; lia.
    + assert (Ht3 : brace_in t3) by (inversion Hrest; auto).
      assert (Hrest' : Forall brace_in rest') by (inversion Hrest; auto).
      assert (U13 : diag_in tl (unmatched C (b_kw t1) (b_sp t1) [b_sp t2; b_sp t3])) by (apply unmatched_in; auto).
      cbn [length] in Hn.
      destruct (N.eqb (b_kw t0) (kw_left C (b_kw t2)));
        destruct (negb (N.eqb (b_kw t3) (kw_left C (b_kw t3))) && N.eqb (b_kw t1) (kw_left C (b_kw t3)));
        cbn [andb]; apply IH; auto; cbn [length]; lia.
Qed.

Lemma fuse_loop_in bs opens fz ds :
  Forall brace_in bs -> Forall brace_in opens -> Forall (diag_in tl) ds ->
  let '(opens', fz', ds') := fuse_loop C bs opens fz ds in
  Forall brace_in opens' /\ Forall (diag_in tl) ds'.
Proof. apply (fuse_loop_in_n (length bs)). lia. Qed.

Lemma fold_unmatched_SI l st : SI tl st -> Forall brace_in l ->
  SI tl (fold_left (fun s0 o => add_diag (unmatched C (b_kw o) (b_sp o) []) s0) l st)
  /\ se (fold_left (fun s0 o => add_diag (unmatched C (b_kw o) (b_sp o) []) s0) l st) = se st
  /\ bad (fold_left (fun s0 o => add_diag (unmatched C (b_kw o) (b_sp o) []) s0) l st) = bad st.
Proof.
  revert st. induction l as [|o r IH]; intros st HS Hl; cbn [fold_left]; [auto|].
  inversion Hl; subst.
  destruct (IH (add_diag (unmatched C (b_kw o) (b_sp o) []) st)) as (A & B & C0); auto.
  apply add_diag_SI; auto. apply unmatched_in; auto.
Qed.

Lemma fuse_braces_spec st : PI st ->
  let '(st', fz) := fuse_braces C tl st in
  SI tl st' /\ se st' <= tl
  /\ se st' = (match unclosed C st with [] => se st | _ => se st + Z.to_nat (Z.max 0 (bad st)) end).
Proof.
  intros (HS & HB). unfold fuse_braces, unclosed.
  pose proof (fuse_loop_in (rev (braces st)) [] [] []) as HF.
  destruct (fuse_loop C (rev (braces st)) [] [] []) as [[opens fz] ds].
  destruct HF as (F1 & F2); [apply Forall_rev; apply (si_braces _ _ HS)|constructor|constructor|].
  set (st1 := {| toks := toks st; diags := ds ++ diags st; braces := braces st; bad := bad st; ovf := ovf st |}).
  assert (S1 : SI tl st1).
  { destruct HS as [A M O D B]. constructor; cbn [st1 toks diags braces ovf]; auto. apply Forall_app. auto. }
  destruct (fold_unmatched_SI (rev opens) st1 S1 (Forall_rev F1)) as (S2 & E2 & B2).
  set (st2 := fold_left (fun s0 o => add_diag (unmatched C (b_kw o) (b_sp o) []) s0) (rev opens) st1) in *.
  assert (P2 : PI st2).
  { split; [exact S2|]. rewrite E2, B2. unfold st1, se, stream_end in *. cbn [toks bad]. exact HB. }
  pose proof (close_opens_spec opens st2 fz P2) as HC.
  destruct (close_opens tl opens st2 fz) as [st' fz'].
  destruct HC as (C1 & C2 & C3). split; [exact C1|]. split; [exact C2|].
  rewrite C3, E2, B2. unfold st1, se, stream_end. cbn [toks bad]. reflexivity.
Qed.

(* fuseStrings: the prefix spans lie inside their tokens *)
Definition it_ok (it : itok) : Prop :=
  tk_end (it_tok it) <= tl /\ forall sg, tk_meta (it_tok it) = Some sg -> it_start it + sg <= tk_end (it_tok it).

Lemma index_toks_ok ts id p : asc p ts -> mok p ts -> last_end p ts <= tl -> Forall it_ok (index_toks ts id p).
Proof.
  revert id p. induction ts as [|t r IH]; intros id p; cbn [index_toks asc mok last_end]; [constructor|].
  intros [A1 A2] [M1 M2] Hl. constructor; [|now apply IH].
  unfold it_ok. cbn [it_tok it_start]. pose proof (asc_last_le _ _ A2). split; [lia|].
  intros sg E. now rewrite E in M1.
Qed.

Lemma prefix_span_in it sp : it_ok it -> prefix_span it = Some sp -> span_in tl sp.
Proof.
  intros [A B]. unfold prefix_span. destruct (tk_meta (it_tok it)) as [sg|] eqn:E; [|discriminate].
  intros H; inversion H; subst. unfold span_in. cbn [fst snd]. specialize (B sg eq_refl). lia.
Qed.

Lemma fuse_strings_in : forall ts se0 fz ds,
  Forall it_ok ts -> (forall a b, se0 = Some (a, b) -> it_ok a) -> Forall (diag_in tl) ds ->
  Forall (diag_in tl) (snd (fuse_strings_loop s ts se0 fz ds)).
Proof.
  induction ts as [|t r IH]; intros se0 fz ds Hts Hse Hds; cbn [fuse_strings_loop]; [exact Hds|].
  inversion Hts; subst.
  destruct (N.eqb (tk_kind (it_tok t)) K_Space || N.eqb (tk_kind (it_tok t)) K_Comment); [now apply IH|].
  destruct (N.eqb (tk_kind (it_tok t)) K_String).
  - destruct se0 as [[st e]|].
    + apply IH; auto.
      * intros a b E. inversion E; subst. now apply (Hse a e).
      * destruct (prefix_span t) as [psp|] eqn:Ep; [|exact Hds].
        destruct (list_eq_dec N.eq_dec _ _); [exact Hds|]. constructor; [|exact Hds].
        unfold diag_in. cbn [d_spans mkd]. constructor; [now apply (prefix_span_in t)|].
        destruct (prefix_span st) as [o|] eqn:Eo; [|constructor].
        constructor; [|constructor]. apply (prefix_span_in st); auto. now apply (Hse st e).
    + apply IH; auto. intros a b E. inversion E; subst. auto.
  - apply IH; auto. discriminate.
Qed.

(* ---------- finish ---------- *)
Definition tiles (st : lstate) : Prop :=
  fix_flush V = true \/ (bad st <= 0)%Z \/ unclosed C st <> [].

Lemma flush_braces st : braces (flush tl st) = braces st.
Proof. unfold flush. destruct (0 <? bad st)%Z; reflexivity. Qed.

Lemma finish_spec st ts ds : EI s st -> finish C V s st = (ts, ds) ->
  contiguous ts /\ Forall (fun t => o_start t <= o_end t /\ o_end t <= tl) ts /\ Forall (diag_in tl) ds
  /\ (tiles st -> concat (map (text_of s) ts) = s)
  /\ (~ tiles st -> concat (map (text_of s) ts) <> s).
Proof.
  intros HE. unfold finish.
  assert (P1 : let st1 := if fix_flush V then flush tl st else st in
               PI st1 /\ braces st1 = braces st
               /\ ((fix_flush V = true \/ (bad st <= 0)%Z) -> se st1 = tl)
               /\ (fix_flush V = false -> st1 = st)).
  { pose proof (EI_PI st HE) as (HS & HB). destruct HE as (_ & HE).
    cbv zeta. destruct (fix_flush V).
    - assert (Hse : se (flush tl st) = tl) by (rewrite se_flush; destruct (Z.ltb_spec 0 (bad st)); lia).
      split; [split|].
      + apply flush_SI; auto. lia.
      + destruct (flush_bad_le tl st) as [F1 F2]. destruct (flush_bad tl st) as [F3 _]. rewrite Hse.
        destruct (Z.ltb_spec 0 (bad st)); [rewrite F3 by lia|rewrite F2 by lia]; lia.
      + split; [apply flush_braces|]. split; [auto|discriminate].
    - split; [split; auto|]. split; [reflexivity|]. split; [|reflexivity].
      intros [F|F]; [discriminate|]. lia. }
  set (st1 := if fix_flush V then flush tl st else st) in *. cbv zeta in P1.
  destruct P1 as (P1 & Hbr & Hfull & Hsame).
  pose proof (fuse_braces_spec st1 P1) as HF.
  destruct (fuse_braces C tl st1) as [st2 fz].
  destruct HF as (S2 & L2 & E2).
  set (its := index_toks (rev (toks st2)) 1 0).
  destruct (fuse_strings_loop s its None fz []) as [fz2 sds] eqn:Efs.
  intros H; inversion H; subst ts ds; clear H.
  pose proof (si_asc _ _ S2) as A2. pose proof (si_mok _ _ S2) as M2.
  rewrite se_rev in L2, E2.
  split; [apply view_contig; exact A2|].
  split; [apply view_ends; auto|].
  split.
  { apply Forall_rev. apply Forall_app. split; [|apply (si_diags _ _ S2)].
    replace sds with (snd (fuse_strings_loop s its None fz [])) by now rewrite Efs.
    apply fuse_strings_in; [apply index_toks_ok; auto|discriminate|constructor]. }
  unfold its. rewrite view_concat by exact A2. rewrite sub_zero.
  assert (Hun : unclosed C st1 = unclosed C st) by (unfold unclosed; now rewrite Hbr).
  rewrite Hun in E2.
  split.
  - intros Ht. apply firstn_eq_iff; [exact L2|]. rewrite E2.
    destruct Ht as [F|[F|F]].
    + rewrite (Hfull (or_introl F)). destruct (unclosed C st); [reflexivity|].
      destruct P1 as (_ & PB). rewrite (Hfull (or_introl F)) in PB. lia.
    + rewrite (Hfull (or_intror F)). destruct (unclosed C st); [reflexivity|].
      destruct P1 as (_ & PB). rewrite (Hfull (or_intror F)) in PB. lia.
    + destruct (unclosed C st); [congruence|].
      destruct (fix_flush V) eqn:Ef.
      * rewrite (Hfull (or_introl eq_refl)). destruct P1 as (_ & PB). rewrite (Hfull (or_introl eq_refl)) in PB. lia.
      * rewrite (Hsame eq_refl). destruct HE as (_ & [[B1 B2]|[B1 B2]]) ; lia.
  - intros Hnt Heq. apply firstn_eq_iff in Heq; [|exact L2]. apply Hnt. unfold tiles.
    destruct (fix_flush V) eqn:Ef; [now left|]. right.
    destruct (Z.leb_spec (bad st) 0); [now left|]. right. intros Eu.
    rewrite Eu, (Hsame eq_refl) in E2. rewrite E2 in Heq.
    destruct HE as (_ & [[B1 B2]|[B1 B2]]) ; lia.
Qed.

End Final.

(* ========================================================================================== *)
(* E4. the whole of Lex                                                                         *)
(* ========================================================================================== *)
Section Main.
Variable C : cfg.
Variable V : variant.
Hypothesis WF : wf_cfg C.

Lemma st0_SI tl : SI tl st0.
Proof. constructor; cbn; auto. Qed.

Lemma init_spec s bom : prelude C s = PreOk bom ->
  let st := if bom then raw_push (length s) 3 K_Unrec 0 None st0 else st0 in
  let cur := if bom then 3 else 0 in
  HI s cur st /\ Valid (skipn cur s) /\ cur <= length s.
Proof.
  intros Hp. destruct (prelude_ok_valid C s bom Hp) as (Hv & Hb). cbv zeta. destruct bom.
  - destruct (Hb eq_refl) as (H3 & Hv3). split; [|split; auto].
    split; [|split; [reflexivity|cbn; lia]].
    apply raw_push_SI; [apply st0_SI|cbn; lia|discriminate].
  - split; [|split; [exact Hv|lia]]. split; [apply st0_SI|split; [reflexivity|cbn; lia]].
Qed.

Definition ice_obs (s : list N) (c : nat) (st : lstate) : xres :=
  XICE (view C [] (index_toks (rev (toks st)) 1 0)) (rev (mkd L_ICE DIcePanic [(c, c)] :: diags st)).

(* every run of Lex is of one of three kinds *)
Lemma xlex_cases s :
  (exists d, prelude C s = PreReject d /\ xlex C V s = XReject d)
  \/ (exists st ts ds, prelude_ok C s /\ final_state C V s = Some st /\ EI s st
                       /\ finish C V s st = (ts, ds) /\ xlex C V s = XDone ts ds)
  \/ (exists c st, prelude_ok C s /\ final_state C V s = None /\ fix_esc V = false
                   /\ last_byte s = Some 92%N /\ SI (length s) st /\ c <= length s /\ se st <= length s
                   /\ xlex C V s = ice_obs s c st).
Proof.
  unfold xlex, final_state, prelude_ok.
  destruct (prelude C s) as [bom|d|] eqn:Ep.
  - right. destruct (init_spec s bom Ep) as (HH & Hv & Hc). cbv zeta in HH, Hv, Hc.
    set (st := if bom then raw_push (length s) 3 K_Unrec 0 None st0 else st0) in *.
    set (cur := if bom then 3 else 0) in *.
    destruct (loop_spec C V WF s (S (length s)) cur (skipn cur s) None st) as [(st' & El & HE)|(c & st' & El & F & L & HS & Hcl & Hse)];
      auto; [rewrite skipn_length; lia| |].
    + left. rewrite El. destruct HE as (HS & HE'). rewrite (si_ovf _ _ HS).
      destruct (finish C V s st') as [ts ds] eqn:Ef.
      exists st', ts, ds. split; [eauto|]. split; [reflexivity|]. split; [split; auto|]. split; [exact Ef|reflexivity].
    + right. rewrite El. exists c, st'. split; [eauto|]. split; [reflexivity|].
      split; [exact F|]. split; [exact L|]. split; [exact HS|]. split; [exact Hcl|]. split; [exact Hse|reflexivity].
  - left. exists d. split; reflexivity.
  - exfalso. now apply (prelude_never_fuel C s).
Qed.

(* fuel = length + 1 suffices, for every input *)
Theorem xlex_never_fuel_lemma s : xlex C V s <> XFuel.
Proof.
  destruct (xlex_cases s) as [(d & _ & ->)|[(st & ts & ds & _ & _ & _ & _ & ->)|(c & st & _ & _ & _ & _ & _ & _ & _ & ->)]];
    discriminate.
Qed.

(* the only panic is the one of the short escape *)
Theorem xlex_ice_lemma s ts ds : xlex C V s = XICE ts ds -> fix_esc V = false /\ last_byte s = Some 92%N.
Proof.
  destruct (xlex_cases s) as [(d & _ & ->)|[(st & ts' & ds' & _ & _ & _ & _ & ->)|(c & st & _ & _ & F & L & _ & _ & _ & ->)]];
    try discriminate. auto.
Qed.

Theorem xlex_total_lemma s : prelude_ok C s -> fix_esc V = true \/ last_byte s <> Some 92%N ->
  exists st ts ds, final_state C V s = Some st /\ xlex C V s = XDone ts ds.
Proof.
  intros [bom Hp] Hg.
  destruct (xlex_cases s) as [(d & Hr & _)|[(st & ts & ds & _ & Hf & _ & _ & Hx)|(c & st & _ & _ & F & L & _)]].
  - congruence.
  - eauto.
  - destruct Hg; congruence.
Qed.

(* every token and every diagnostic span lies inside the file *)
Definition in_file (s : list N) (r : xres) : Prop :=
  match r with
  | XReject d => d_level d = L_Error /\ diag_in (length s) d
  | XDone ts ds | XICE ts ds =>
    Forall (fun t => o_start t <= o_end t /\ o_end t <= length s) ts /\ Forall (diag_in (length s)) ds
  | XFuel => False
  end.

Theorem xlex_spans_lemma s : in_file s (xlex C V s).
Proof.
  destruct (xlex_cases s) as [(d & Hr & ->)|[(st & ts & ds & _ & _ & HE & Hf & ->)|(c & st & _ & _ & _ & _ & HS & Hc & Hse & ->)]].
  - now apply (prelude_reject C s).
  - destruct (finish_spec C V s st ts ds HE Hf) as (_ & A & B & _). split; auto.
  - cbn [in_file ice_obs]. split.
    + apply view_ends; [apply (si_asc _ _ HS)|]. now rewrite <- se_rev.
    + apply Forall_rev. constructor; [|apply (si_diags _ _ HS)].
      unfold diag_in. cbn [d_spans mkd]. constructor; [|constructor]. unfold span_in. cbn [fst snd]. lia.
Qed.

(* when the tokens tile the text, exactly *)
Theorem tokens_tile_lemma s st : final_state C V s = Some st ->
  exists ts ds, xlex C V s = XDone ts ds /\ contiguous ts
    /\ (concat (map (text_of s) ts) = s <-> tiles C V st).
Proof.
  intros Hf.
  destruct (xlex_cases s) as [(d & Hr & _)|[(st' & ts & ds & _ & Hf' & HE & Hfin & Hx)|(c & st' & _ & Hn & _)]].
  - unfold final_state in Hf. now rewrite Hr in Hf.
  - assert (st' = st) by congruence. subst st'. exists ts, ds. split; [exact Hx|].
    destruct (finish_spec C V s st ts ds HE Hfin) as (A & _ & _ & T1 & T2). split; [exact A|].
    split; [|exact T1]. intros E.
    destruct (fix_flush V) eqn:Ef; [left; exact Ef|].
    destruct (Z.leb_spec (bad st) 0); [right; left; assumption|].
    destruct (unclosed C st) eqn:Eu; [|right; right; rewrite Eu; discriminate].
    exfalso. apply T2; [|exact E]. unfold tiles. rewrite Ef, Eu. intros [?|[?|?]]; [discriminate|lia|congruence].
  - congruence.
Qed.

(* the prelude declined: one error, no tokens *)
Theorem prelude_reject_lemma s d : xlex C V s = XReject d -> d_level d = L_Error /\ diag_in (length s) d.
Proof. intros H. pose proof (xlex_spans_lemma s) as I. now rewrite H in I. Qed.

End Main.

(* ========================================================================================== *)
(* E5. the verdict of parser.Parse                                                              *)
(* ========================================================================================== *)
Lemma verdict_repaired_spec levels :
  verdict_repaired levels = true <-> (forall l, In l levels -> (L_Error < l)%Z).
Proof.
  unfold verdict_repaired. rewrite negb_true_iff. split.
  - intros H l Hl. destruct (Z.ltb_spec L_Error l); [assumption|].
    exfalso. assert (existsb (fun l0 => (l0 <=? L_Error)%Z) levels = true); [|congruence].
    apply existsb_exists. exists l. split; [exact Hl|]. now apply Z.leb_le.
  - intros H. destruct (existsb _ levels) eqn:E; [|reflexivity].
    apply existsb_exists in E. destruct E as (l & Hl & Hle). apply Z.leb_le in Hle. specialize (H l Hl). lia.
Qed.

Lemma verdict_as_is_spec levels :
  verdict_as_is levels = true <-> (forall l, In l levels -> (l < L_Error)%Z).
Proof.
  unfold verdict_as_is. rewrite negb_true_iff. split.
  - intros H l Hl. destruct (Z.ltb_spec l L_Error); [assumption|].
    exfalso. assert (existsb (fun l0 => (L_Error <=? l0)%Z) levels = true); [|congruence].
    apply existsb_exists. exists l. split; [exact Hl|]. now apply Z.leb_le.
  - intros H. destruct (existsb _ levels) eqn:E; [|reflexivity].
    apply existsb_exists in E. destruct E as (l & Hl & Hle). apply Z.leb_le in Hle. specialize (H l Hl). lia.
Qed.

(* the levels that the report package defines *)
Definition known_level (l : Z) : Prop := l = L_ICE \/ l = L_Error \/ l = L_Warning \/ l = L_Remark.

Theorem verdict_spec_repaired_lemma levels : Forall known_level levels ->
  (verdict_repaired levels = true <-> forall l, In l levels -> ~ error_or_worse l).
Proof.
  intros Hk. rewrite verdict_repaired_spec. rewrite Forall_forall in Hk. unfold error_or_worse, known_level in *.
  unfold L_ICE, L_Error, L_Warning, L_Remark in *.
  split; intros H l Hl; specialize (H l Hl); specialize (Hk l Hl); lia.
Qed.

(* where the code as written agrees with the specification: exactly on these histories *)
Theorem verdict_spec_partial_lemma levels : Forall known_level levels ->
  ((verdict_as_is levels = true <-> forall l, In l levels -> ~ error_or_worse l)
   <-> (levels = [] \/ ((exists l, In l levels /\ (L_Error <= l)%Z) /\ (exists l, In l levels /\ (l <= L_Error)%Z)))).
Proof.
  intros Hk. rewrite verdict_as_is_spec. rewrite Forall_forall in Hk. unfold error_or_worse, known_level in *.
  unfold L_ICE, L_Error, L_Warning, L_Remark in *. split.
  - intros [H1 H2]. destruct levels as [|l0 r]; [now left|]. right.
    destruct (Z.leb_spec 2 l0) as [Hge|Hlt].
    + split; [exists l0; split; [now left|lia]|].
      (* the code says false; so must the specification: some level is at most Error *)
      destruct (existsb (fun l => (l <=? 2)%Z) (l0 :: r)) eqn:E.
      * apply existsb_exists in E. destruct E as (l & Hl & Hle). apply Z.leb_le in Hle. eauto.
      * exfalso. assert (Hall : forall l, In l (l0 :: r) -> ~ (l = 1 \/ l = 2)%Z).
        { intros l Hl [?|?]; subst; assert (existsb (fun l => (l <=? 2)%Z) (l0 :: r) = true);
            try congruence; apply existsb_exists; eexists; split; try exact Hl; reflexivity. }
        specialize (H2 Hall l0 (or_introl eq_refl)). lia.
    + (* l0 is ICE: the specification says false; so must the code: some level is at least Error *)
      pose proof (Hk l0 (or_introl eq_refl)) as K0.
      split; [|exists l0; split; [now left|lia]].
      destruct (existsb (fun l => (2 <=? l)%Z) (l0 :: r)) eqn:E.
      * apply existsb_exists in E. destruct E as (l & Hl & Hle). apply Z.leb_le in Hle. eauto.
      * exfalso. assert (Hall : forall l, In l (l0 :: r) -> (l < 2)%Z).
        { intros l Hl. destruct (Z.ltb_spec l 2); [assumption|].
          assert (existsb (fun l => (2 <=? l)%Z) (l0 :: r) = true); try congruence.
          apply existsb_exists. exists l. split; [exact Hl|]. now apply Z.leb_le. }
        specialize (H1 Hall l0 (or_introl eq_refl)). lia.
  - intros [->|[(a & Ha & Hage) (b & Hb & Hble)]].
    + split; intros _ l [].
    + split; intros H; exfalso.
      * specialize (H a Ha). lia.
      * specialize (H b Hb). specialize (Hk b Hb). lia.
Qed.
