(* Incremental executor model: shape of steps, reachability, and the structural invariant
   (no cancellation without panics, holding discipline, caller/callee structure, semaphore count). *)
From Coq Require Import List Arith Bool NArith Lia.
From PV Require Import Model.IncExec.
Import ListNotations.

Lemma upd_same {A} (m : nat -> A) k v : upd m k v k = v.
Proof. unfold upd. now rewrite Nat.eqb_refl. Qed.
Lemma upd_other {A} (m : nat -> A) k v x : x <> k -> upd m k v x = m x.
Proof. intros H. unfold upd. apply Nat.eqb_neq in H. now rewrite H. Qed.

Lemma memb_In x l : memb x l = true <-> In x l.
Proof.
  unfold memb. rewrite existsb_exists. split.
  - intros (y & Hy & E). apply Nat.eqb_eq in E. now subst.
  - intros H. exists x. split; [assumption|apply Nat.eqb_refl].
Qed.
Lemma memb_false x l : memb x l = false <-> ~ In x l.
Proof. rewrite <- memb_In. destruct (memb x l); split; congruence. Qed.

Lemma has_edge_In l e : has_edge l e = true <-> In e l.
Proof.
  unfold has_edge. rewrite existsb_exists. split.
  - intros (y & Hy & E). unfold edge_eqb in E. apply andb_true_iff in E. destruct E as [E1 E2].
    apply Nat.eqb_eq in E1, E2. destruct e, y; cbn in *; subst; assumption.
  - intros H. exists e. split; [assumption|]. unfold edge_eqb. now rewrite !Nat.eqb_refl.
Qed.

Lemma deps_of_In l c d : In d (deps_of l c) <-> In (c, d) l.
Proof.
  unfold deps_of. rewrite in_map_iff. split.
  - intros ((a, b) & E & H). apply filter_In in H. destruct H as [H1 H2]. cbn in *. apply Nat.eqb_eq in H2. now subst.
  - intros H. exists (c, d). split; [reflexivity|]. apply filter_In. split; [assumption|cbn; apply Nat.eqb_refl].
Qed.
Lemma callers_of_In l c d : In c (callers_of l d) <-> In (c, d) l.
Proof.
  unfold callers_of. rewrite in_map_iff. split.
  - intros ((a, b) & E & H). apply filter_In in H. destruct H as [H1 H2]. cbn in *. apply Nat.eqb_eq in H2. now subst.
  - intros H. exists (c, d). split; [reflexivity|]. apply filter_In. split; [assumption|cbn; apply Nat.eqb_refl].
Qed.

(* ---- shape of a step ---- *)
Lemma step_spec w s id s' : step w s id = Some s' ->
  id < nthr s /\ exists e p, step_local w s id = Some e /\ s' = apply_eff s id e p /\
    match e_sem e with
    | PSame => p = permits s
    | PRel => p = S (permits s)
    | PAcq => permits s = S p
    end.
Proof.
  unfold step. destruct (Nat.ltb id (nthr s)) eqn:El; [|discriminate]. apply Nat.ltb_lt in El.
  destruct (step_local w s id) as [e|] eqn:E; [|discriminate]. intros H. split; [assumption|].
  destruct (e_sem e) eqn:Es.
  - destruct (permits s) as [|p] eqn:Ep; [discriminate|]. inversion H. exists e, p. rewrite Es. auto.
  - inversion H. exists e, (S (permits s)). rewrite Es. auto.
  - inversion H. exists e, (permits s). rewrite Es. auto.
Qed.

(* case analysis of step_local: one goal per branch, the effect substituted *)
Ltac local_cases H :=
  unfold step_local in H; cbv zeta in H;
  match type of H with context [match tpc ?t with _ => _ end] => destruct (tpc t) eqn:Epc end;
  repeat match type of H with
         | context [match ?x with _ => _ end] => destruct x eqn:?
         | context [if ?x then _ else _] => destruct x eqn:?
         end; try discriminate; inversion H; subst; clear H.

Definition flatd (w : world) (i : nat) (k : key) : list key := concat (wdeps w i k).
Definition wf_world (w : world) : Prop := forall i k d, In d (flatd w i k) -> d < wn w.

Inductive reach (w : world) (par : nat) (inputs : key -> nat) : state -> Prop :=
| reach_init : reach w par inputs (init par inputs)
| reach_ev s e s' : reach w par inputs s -> do_event w s e = Some s' -> reach w par inputs s'.

Lemma run_reach w par inputs evs : forall s, reach w par inputs s -> reach w par inputs (run w evs s).
Proof.
  induction evs as [|e rest IH]; intros s Hs; cbn [run]; [assumption|].
  destruct (do_event w s e) eqn:E; [apply IH; eapply reach_ev; eassumption|apply IH; assumption].
Qed.

(* sums over the thread table *)
Fixpoint sum_to (n : nat) (h : nat -> nat) : nat :=
  match n with O => 0 | S k => sum_to k h + h k end.
Lemma sum_to_ext n h h' : (forall x, x < n -> h x = h' x) -> sum_to n h = sum_to n h'.
Proof. induction n as [|n IH]; intros H; cbn; [reflexivity|]. rewrite IH, H by (intros; try apply H; lia). reflexivity. Qed.
Lemma sum_to_upd n (h : nat -> nat) k v : k < n -> sum_to n (upd h k v) + h k = sum_to n h + v.
Proof.
  induction n as [|n IH]; intros Hk; [lia|]. cbn. destruct (Nat.eq_dec k n) as [->|Hn].
  - rewrite upd_same. rewrite (sum_to_ext n (upd h n v) h) by (intros; apply upd_other; lia). lia.
  - rewrite upd_other by lia. specialize (IH ltac:(lia)). lia.
Qed.
Lemma sum_to_upd_out n (h : nat -> nat) k v : n <= k -> sum_to n (upd h k v) = sum_to n h.
Proof. intros H. apply sum_to_ext. intros x Hx. apply upd_other. lia. Qed.

Definition b2n (b : bool) : nat := if b then 1 else 0.
Definition holders (s : state) : nat := sum_to (nthr s) (fun i => b2n (thold (thr s i))).

(* ---- the structural invariant ---- *)
(* does a thread at this pc hold a permit *)
Definition hpc (p : pc) (sync : bool) : bool :=
  match p with
  | RLoad | RCas | RLoad2 | RCheck _ _ _ | RCycW _ _ | RCycR _ | RRel _ | RReload _ => sync
  | RWait _ | RAcq _ => false
  | PAcquire => false
  | PBody _ | PEdges _ _ | PStart _ _ _ | PJoinRel _ | PRelease _ => true
  | PCall _ _ | PJoin _ | PJoinAcq _ => false
  | PClose _ | PReturn _ => sync
  | PEnd | PAbort => false
  end.

(* the expected value of Task.holding; a caller in PCall gets its hold back together with the result *)
Definition hexp (t : thread) : bool :=
  match tpc t with
  | PCall _ _ => match nth_error (tslots t) 0 with Some (Some _) => true | _ => false end
  | p => hpc p (tsync t)
  end.

(* pcs of t.run before the leader election, and of waiting *)
Definition rpc (p : pc) : bool :=
  match p with
  | RLoad | RCas | RLoad2 | RCheck _ _ _ | RCycW _ _ | RCycR _ | RRel _ | RWait _ | RAcq _ | RReload _ => true
  | _ => false
  end.
(* pcs that only a sync thread reaches *)
Definition sync_only (p : pc) : bool := match p with RRel _ | RAcq _ => true | _ => false end.
(* the Resolve call a pc belongs to *)
Definition in_resolve (p : pc) : option nat :=
  match p with
  | PEdges g _ | PStart g _ _ | PCall g _ | PJoinRel g | PJoin g | PJoinAcq g => Some g
  | _ => None
  end.
(* pcs of a caller that may have unfinished asynchronous callees for index i *)
Definition async_parent (p : pc) (g i : nat) : Prop :=
  match p with
  | PStart g' j nw => g' = g /\ j <= i /\ nw = true
  | PCall g' nw => g' = g /\ nw = true
  | PJoinRel g' | PJoin g' => g' = g
  | _ => False
  end.

Definition live (s : state) (id : nat) : Prop := id < nthr s /\ ended (tpc (thr s id)) = false.

Section Inv1.
Variable w : world.
Variable par : nat.

Record host_ok (s : state) (id : nat) : Prop := {
  h_ex : exists p i g grp d,
      thost (thr s id) = Some (p, i) /\ p < id /\
      trun (thr s id) = trun (thr s p) /\ tcaller (thr s id) = tkey (thr s p) /\
      nth_error (groups w s p) g = Some grp /\ nth_error grp i = Some d /\ tkey (thr s id) = Some d /\
      nth_error (tslots (thr s p)) i = Some None /\
      (if tsync (thr s id) then i = 0 /\ exists nw, tpc (thr s p) = PCall g nw
       else 0 < i /\ async_parent (tpc (thr s p)) g i)
}.

Record thread_ok (s : state) (id : nat) : Prop := {
  t_noabort : tpc (thr s id) <> PAbort;
  t_hold : thold (thr s id) = hexp (thr s id);
  t_root : tkey (thr s id) = None ->
           thost (thr s id) = None /\ tsync (thr s id) = false /\ rpc (tpc (thr s id)) = false /\
           (forall m, tpc (thr s id) <> PClose m) /\ (forall r, tpc (thr s id) <> PReturn r) /\
           exists ks, In (id, ks) (roots s);
  t_host : tkey (thr s id) <> None -> ended (tpc (thr s id)) = false -> host_ok s id;
  t_synconly : sync_only (tpc (thr s id)) = true -> tsync (thr s id) = true;
  t_mode : forall m, tpc (thr s id) = PRelease m \/ tpc (thr s id) = PClose m -> m = MDone;
  t_slots : forall g, in_resolve (tpc (thr s id)) = Some g ->
            exists grp, nth_error (groups w s id) g = Some grp /\ length (tslots (thr s id)) = length grp;
  t_start : forall g j nw, tpc (thr s id) = PStart g j nw ->
            (forall i, i < j -> nth_error (tslots (thr s id)) i = Some None) /\ j <= length (tslots (thr s id));
  t_edges : forall g i, tpc (thr s id) = PEdges g i ->
            forall j, j < length (tslots (thr s id)) -> nth_error (tslots (thr s id)) j = Some None
}.

Record inv1 (s : state) : Prop := {
  i_thr : forall id, id < nthr s -> thread_ok s id;
  i_nocanc : forall r, rcanc s r = None;
  i_perm : permits s + holders s = par;
  i_uniq : forall a b, live s a -> live s b -> a <> b -> tkey (thr s a) <> None ->
           thost (thr s a) = thost (thr s b) -> False;
  i_roots : forall id ks, In (id, ks) (roots s) -> id < nthr s
}.

End Inv1.

Section Inv1Proofs.
Variable w : world.
Variable par : nat.
Hypothesis Hnp : forall k, wpanic w k = None.

Lemma cancelled_false s t : inv1 w par s -> cancelled s t = false.
Proof. intros Hi. unfold cancelled. now rewrite (i_nocanc _ _ _ Hi). Qed.

Lemma do_release_hold s t n : thold t = true -> do_release s t n = Esem (set_pc_hold t n false) PRel.
Proof. intros H. unfold do_release. now rewrite H. Qed.

Lemma after_resolve_nc s t g h : cancelled s t = false ->
  after_resolve s t g h = leave_resolve t (PBody (S g)) h false.
Proof. intros H. unfold after_resolve. now rewrite H. Qed.

Lemma panics_at_false k g n : panics_at w k g n = false.
Proof. unfold panics_at. destruct k as [k|]; [|reflexivity]. now rewrite Hnp. Qed.

(* fields that no step changes *)
Definition same_id (a b : thread) : Prop :=
  trun a = trun b /\ tkey a = tkey b /\ tcaller a = tcaller b /\ thost a = thost b /\ tsync a = tsync b.

Lemma step_self_id s id e : step_local w s id = Some e -> same_id (e_self e) (thr s id).
Proof.
  intros H. local_cases H; cbn; unfold same_id; try (repeat split; reflexivity).
  all: unfold do_release, after_resolve;
    repeat match goal with |- context [if ?x then _ else _] => destruct x end; cbn; repeat split; reflexivity.
Qed.

(* the stepping thread keeps the local part of the invariant *)
Lemma step_self_local s id e : inv1 w par s -> id < nthr s -> step_local w s id = Some e ->
  let t' := e_self e in
  tpc t' <> PAbort /\ thold t' = hexp t' /\ (sync_only (tpc t') = true -> tsync t' = true) /\
  (forall m, tpc t' = PRelease m \/ tpc t' = PClose m -> m = MDone) /\ e_cancel e = None.
Proof.
  intros Hi Hid H. pose proof (i_thr _ _ _ Hi id Hid) as Ht.
  pose proof (t_hold _ _ _ Ht) as Hh. pose proof (t_synconly _ _ _ Ht) as Hso. pose proof (t_mode _ _ _ Ht) as Hmo.
  pose proof (cancelled_false s (thr s id) Hi) as Hc.
  assert (Hc' : forall p h, cancelled s (set_pc_hold (thr s id) p h) = false) by (intros; apply (cancelled_false _ _ Hi)).
  unfold hexp in *.
  local_cases H; rewrite ?Epc in *; cbn [hpc sync_only] in *;
    rewrite ?panics_at_false in *; try discriminate;
    rewrite ?after_resolve_nc by assumption;
    rewrite ?do_release_hold by (first [assumption | rewrite Hh; try apply Hso; reflexivity]);
    cbn; repeat split; try congruence; try discriminate; try (intros _; assumption); auto.
  all: try (intros m' [Hm|Hm]; inversion Hm; subst; try reflexivity; apply Hmo; auto; fail).
  all: try (specialize (Hmo _ (or_intror eq_refl)); discriminate).
  - symmetry. apply Hso. reflexivity.
  - destruct (t_start _ _ _ Ht _ _ _ Epc) as [Hs _]. specialize (Hs 0 ltac:(lia)).
    destruct (tslots (thr s id)) as [|x l']; cbn in *; [reflexivity|]. inversion Hs. reflexivity.
Qed.


(* three kinds of steps with respect to the thread table *)
Definition child_of (s : state) (id j : nat) (d : key) (sync h : bool) : thread :=
  {| trun := trun (thr s id); tkey := Some d; tcaller := tkey (thr s id); thost := Some (id, j); tsync := sync;
     tpc := RLoad; tobj := 0; tslots := []; tacc := []; thold := h; tcanc := false; tpub := 0; tdisc := [] |}.

Lemma step_kinds s id e : step_local w s id = Some e ->
  (e_slot e = None /\ e_spawn e = None) \/
  (exists r p i, tpc (thr s id) = PReturn r /\ thost (thr s id) = Some (p, i) /\ e_spawn e = None /\
     e_slot e = Some (p, i, r, if tsync (thr s id) then Some (thold (thr s id)) else None) /\
     tpc (e_self e) = PEnd /\ e_sem e = PSame /\ e_tmap e = None /\ e_obj e = None /\ e_edge e = None /\
     e_lead e = None) \/
  (exists g j nw grp d, tpc (thr s id) = PStart g (S j) nw /\ nth_error (groups w s id) g = Some grp /\
     nth_error grp j = Some d /\ e_slot e = None /\
     e_spawn e = Some (child_of s id j d (Nat.eqb j 0) (if Nat.eqb j 0 then thold (thr s id) else false)) /\
     e_self e = (if Nat.eqb j 0 then set_pc_hold (thr s id) (PCall g nw) false else set_pc (thr s id) (PStart g j true)) /\
     e_sem e = PSame /\ e_tmap e = None /\ e_obj e = None /\ e_edge e = None /\ e_lead e = None).
Proof.
  intros H. local_cases H; try (left; split; reflexivity).
  all: try (left; unfold do_release, after_resolve;
            repeat match goal with |- context [if ?x then _ else _] => destruct x end; split; reflexivity).
  all: first [ right; left; do 3 eexists; cbn; repeat split; reflexivity
             | right; right; do 5 eexists; cbn; split; [reflexivity|]; cbn; repeat split; try reflexivity; eassumption ].
Qed.


Lemma set_slot_length sl i r : length (set_slot sl i r) = length sl.
Proof.
  unfold set_slot. revert i. induction sl as [|a sl IH]; intros [|i]; cbn; try reflexivity.
  specialize (IH i). cbn in IH. now rewrite IH.
Qed.
Lemma set_slot_same sl i r : i < length sl -> nth_error (set_slot sl i r) i = Some (Some r).
Proof.
  unfold set_slot. revert i. induction sl as [|a sl IH]; intros [|i] H; cbn in *; try lia; try reflexivity.
  apply IH. lia.
Qed.
Lemma set_slot_other sl i r j : j <> i -> nth_error (set_slot sl i r) j = nth_error sl j.
Proof.
  unfold set_slot. revert i j. induction sl as [|a sl IH]; intros [|i] [|j] H; cbn; try reflexivity; try congruence.
  all: try (destruct j; reflexivity).
  apply IH. congruence.
Qed.
Lemma slots_full_nth sl i : slots_full sl = true -> nth_error sl i = Some None -> False.
Proof.
  unfold slots_full. rewrite forallb_forall. intros H Hn. apply nth_error_In in Hn. specialize (H _ Hn). discriminate.
Qed.
Lemma nth_error_repeat {A} (x : A) n i : i < n -> nth_error (repeat x n) i = Some x.
Proof. revert i. induction n as [|n IH]; intros [|i] H; cbn; try lia; try reflexivity. apply IH. lia. Qed.

(* groups only depend on the key of the thread, the inputs and the roots *)
Lemma groups_eq s s' x : inp s' = inp s -> roots s' = roots s -> tkey (thr s' x) = tkey (thr s x) ->
  groups w s' x = groups w s x.
Proof. intros H1 H2 H3. unfold groups. now rewrite H1, H2, H3. Qed.

(* how the step of a caller affects what its unfinished callees rely on *)
Lemma parent_step_child s id e g i (sync : bool) : inv1 w par s -> id < nthr s -> step_local w s id = Some e ->
  nth_error (tslots (thr s id)) i = Some None ->
  (if sync then i = 0 /\ exists nw, tpc (thr s id) = PCall g nw else 0 < i /\ async_parent (tpc (thr s id)) g i) ->
  nth_error (tslots (e_self e)) i = Some None /\
  (if sync then i = 0 /\ exists nw, tpc (e_self e) = PCall g nw else 0 < i /\ async_parent (tpc (e_self e)) g i).
Proof.
  intros Hi Hid H Hsl Hp. pose proof (cancelled_false s (thr s id) Hi) as Hc.
  pose proof (i_thr _ _ _ Hi id Hid) as Ht. pose proof (t_hold _ _ _ Ht) as Hh. unfold hexp in Hh.
  destruct sync.
  - destruct Hp as [-> [nw Hpc]]. unfold step_local in H. cbv zeta in H. rewrite Hpc, Hsl in H. discriminate.
  - destruct Hp as [Hi0 Hp].
    local_cases H; rewrite ?Epc in *; cbn [async_parent] in Hp; try contradiction.
    all: try (destruct Hp as (-> & Hj & ->)); try (destruct Hp as (-> & ->)); try subst g.
    all: rewrite ?do_release_hold by (rewrite Hh; reflexivity).
    all: cbn [e_self Esem E set_pc set_pc_slots set_pc_hold tslots tpc async_parent].
    all: try (split; [assumption|split; [assumption|]]; repeat split; auto; lia).
    + destruct Hp as (_ & _ & Hf). discriminate.
    + split; [rewrite set_slot_other by lia; assumption|]. repeat split; auto; lia.
    + destruct Hp as (_ & Hf). discriminate.
    + exfalso. eapply slots_full_nth; eassumption.
Qed.


Lemma step_self_struct s id e : inv1 w par s -> id < nthr s -> step_local w s id = Some e ->
  let t' := e_self e in
  (tkey (thr s id) = None -> rpc (tpc t') = false /\ (forall m, tpc t' <> PClose m) /\ (forall r, tpc t' <> PReturn r)) /\
  (forall g, in_resolve (tpc t') = Some g ->
     exists grp, nth_error (groups w s id) g = Some grp /\ length (tslots t') = length grp) /\
  (forall g j nw, tpc t' = PStart g j nw ->
     (forall i, i < j -> nth_error (tslots t') i = Some None) /\ j <= length (tslots t')) /\
  (forall g i, tpc t' = PEdges g i -> forall j, j < length (tslots t') -> nth_error (tslots t') j = Some None).
Proof.
  intros Hi Hid H. pose proof (i_thr _ _ _ Hi id Hid) as Ht.
  pose proof (cancelled_false s (thr s id) Hi) as Hc.
  pose proof (t_hold _ _ _ Ht) as Hh. unfold hexp in Hh.
  pose proof (t_slots _ _ _ Ht) as Hsl. pose proof (t_start _ _ _ Ht) as Hst. pose proof (t_edges _ _ _ Ht) as Hed.
  pose proof (t_synconly _ _ _ Ht) as Hso.
  cbv zeta. split; [|split; [|split]].
  - intros Hk. destruct (t_root _ _ _ Ht Hk) as (_ & _ & Hr1 & Hr2 & Hr3 & _).
    local_cases H; rewrite ?Epc in *; cbn [rpc] in Hr1; try congruence;
      try (exfalso; eapply Hr2; reflexivity); try (exfalso; eapply Hr3; reflexivity);
      rewrite ?after_resolve_nc by assumption;
      rewrite ?do_release_hold by (rewrite Hh; first [reflexivity | cbn; apply Hso; reflexivity]);
      cbn; repeat split; try discriminate; try reflexivity.
  - local_cases H; rewrite ?Epc in *; cbn [in_resolve] in *;
      rewrite ?after_resolve_nc by assumption;
      rewrite ?do_release_hold by (rewrite Hh; first [reflexivity | cbn; apply Hso; reflexivity]);
      cbn [e_self E Esem set_pc set_pc_hold set_pc_slots set_pc_obj set_pc_pub set_pc_disc leave_resolve tpc tslots in_resolve];
      intros g' Hg'; try discriminate; inversion Hg'; subst; eauto.
    + rewrite repeat_length. eauto.
    + rewrite set_slot_length. eauto.
  - local_cases H; rewrite ?Epc in *;
      rewrite ?after_resolve_nc by assumption;
      rewrite ?do_release_hold by (rewrite Hh; first [reflexivity | cbn; apply Hso; reflexivity]);
      cbn [e_self E Esem set_pc set_pc_hold set_pc_slots set_pc_obj set_pc_pub set_pc_disc leave_resolve tpc tslots];
      intros g' j' nw' Hg'; try discriminate; inversion Hg'; subst.
    + destruct (Hsl _ eq_refl) as (grp & Hg & Hlen). rewrite Heqo in Hg. inversion Hg; subst grp.
      split; [|lia]. intros i0 Hi0. apply (Hed _ _ eq_refl). lia.
    + destruct (Hst _ _ _ eq_refl) as [Hn Hle]. rewrite set_slot_length. split; [|lia].
      intros i0 Hi0. rewrite set_slot_other by lia. apply Hn. lia.
    + destruct (Hst _ _ _ eq_refl) as [Hn Hle]. split; [|lia]. intros i0 Hi0. apply Hn. lia.
  - local_cases H; rewrite ?Epc in *;
      rewrite ?after_resolve_nc by assumption;
      rewrite ?do_release_hold by (rewrite Hh; first [reflexivity | cbn; apply Hso; reflexivity]);
      cbn [e_self E Esem set_pc set_pc_hold set_pc_slots set_pc_obj set_pc_pub set_pc_disc leave_resolve tpc tslots];
      intros g' j' Hg'; try discriminate; inversion Hg'; subst.
    all: try (apply (Hed _ _ eq_refl)).
    intros j Hj. rewrite repeat_length in Hj. apply nth_error_repeat. assumption.
Qed.


Lemma step_sem_hold s id e : inv1 w par s -> id < nthr s -> step_local w s id = Some e ->
  e_spawn e = None -> e_slot e = None ->
  match e_sem e with
  | PAcq => thold (thr s id) = false /\ thold (e_self e) = true
  | PRel => thold (thr s id) = true /\ thold (e_self e) = false
  | PSame => thold (e_self e) = thold (thr s id)
  end.
Proof.
  intros Hi Hid H. pose proof (i_thr _ _ _ Hi id Hid) as Ht.
  pose proof (cancelled_false s (thr s id) Hi) as Hc.
  pose proof (t_hold _ _ _ Ht) as Hh. unfold hexp in Hh. pose proof (t_synconly _ _ _ Ht) as Hso.
  local_cases H; rewrite ?Epc in *; cbn [hpc] in Hh;
    rewrite ?after_resolve_nc by assumption;
    rewrite ?do_release_hold by (rewrite Hh; first [reflexivity | cbn; apply Hso; reflexivity]);
    cbn; intros; try discriminate; auto.
  all: rewrite Hh; split; try reflexivity; apply Hso; reflexivity.
Qed.


Lemma step_local_live s id e : step_local w s id = Some e -> ended (tpc (thr s id)) = false.
Proof. unfold step_local. cbv zeta. destruct (tpc (thr s id)); try reflexivity; discriminate. Qed.

Lemma inv1_step_plain s id e p : inv1 w par s -> id < nthr s -> step_local w s id = Some e ->
  e_slot e = None -> e_spawn e = None ->
  match e_sem e with PSame => p = permits s | PRel => p = S (permits s) | PAcq => permits s = S p end ->
  inv1 w par (apply_eff s id e p).
Proof.
  intros Hi Hid Hl Hsl Hsp Hp.
  set (s' := apply_eff s id e p).
  destruct (step_self_local s id e Hi Hid Hl) as (La & Lb & Lc & Ld & Le).
  destruct (step_self_struct s id e Hi Hid Hl) as (Sa & Sb & Sc & Sd).
  destruct (step_self_id s id e Hl) as (Ia & Ib & Ic & Id & Ie).
  pose proof (step_local_live _ _ _ Hl) as Hlive.
  assert (Hthr : thr s' = upd (thr s) id (e_self e)) by (unfold s', apply_eff; cbn; rewrite Hsl, Hsp; reflexivity).
  assert (Hn : nthr s' = nthr s) by (unfold s', apply_eff; cbn; rewrite Hsp; reflexivity).
  assert (Hinp : inp s' = inp s) by reflexivity.
  assert (Hroots : roots s' = roots s) by reflexivity.
  assert (Hself : thr s' id = e_self e) by (rewrite Hthr; apply upd_same).
  assert (Hoth : forall x, x <> id -> thr s' x = thr s x) by (intros x Hx; rewrite Hthr; apply upd_other; assumption).
  assert (Hkey : forall x, tkey (thr s' x) = tkey (thr s x)).
  { intros x. destruct (Nat.eq_dec x id) as [->|Hx]; [rewrite Hself; assumption|rewrite Hoth by assumption; reflexivity]. }
  assert (Hgr : forall x, groups w s' x = groups w s x) by (intros x; apply groups_eq; auto).
  constructor.
  - intros x Hx. rewrite Hn in Hx. pose proof (i_thr _ _ _ Hi x Hx) as Ht.
    destruct (Nat.eq_dec x id) as [->|Hxid].
    + constructor; rewrite ?Hself, ?Hgr, ?Hroots; try assumption.
      * rewrite Ib. intros Hk. destruct (t_root _ _ _ Ht Hk) as (R1 & R2 & _ & _ & _ & R6).
        destruct (Sa Hk) as (Q1 & Q2 & Q3). rewrite Id, Ie. repeat split; assumption.
      * rewrite Ib. intros Hk Hend. destruct (t_host _ _ _ Ht Hk Hlive) as [(hp & hi & g & grp & d & H1 & H2 & H3 & H4 & H5 & H6 & H7 & H8 & H9)].
        constructor. exists hp, hi, g, grp, d. rewrite Hself, Hgr, Hoth by lia.
        rewrite Id, Ia, Ic, Ib, Ie. repeat split; assumption.
    + constructor; rewrite ?Hoth, ?Hgr, ?Hroots by assumption; try apply Ht.
      intros Hk Hend. destruct (t_host _ _ _ Ht Hk Hend) as [(hp & hi & g & grp & d & H1 & H2 & H3 & H4 & H5 & H6 & H7 & H8 & H9)].
      constructor. exists hp, hi, g, grp, d. rewrite Hgr. rewrite (Hoth x) by assumption.
      destruct (Nat.eq_dec hp id) as [->|Hhp].
      * rewrite Hself, Ia, Ib.
        destruct (parent_step_child s id e g hi (tsync (thr s x)) Hi Hid Hl H8 H9) as [P1 P2].
        repeat split; assumption.
      * rewrite (Hoth hp) by assumption. repeat split; assumption.
  - intros r. unfold s', apply_eff; cbn. rewrite Le. apply (i_nocanc _ _ _ Hi).
  - pose proof (i_perm _ _ _ Hi) as Hperm.
    pose proof (step_sem_hold s id e Hi Hid Hl Hsp Hsl) as Hsh.
    assert (Hh' : holders s' + b2n (thold (thr s id)) = holders s + b2n (thold (e_self e))).
    { unfold holders. rewrite Hn, Hthr.
      rewrite (sum_to_ext _ (fun i => b2n (thold (upd (thr s) id (e_self e) i)))
                 (upd (fun i => b2n (thold (thr s i))) id (b2n (thold (e_self e))))).
      - apply (sum_to_upd (nthr s) (fun i => b2n (thold (thr s i))) id). assumption.
      - intros x _. unfold upd. destruct (Nat.eqb x id); reflexivity. }
    change (permits s') with p. set (X := holders s') in *. clearbody X.
    destruct (e_sem e).
    + destruct Hsh as [A B]. rewrite A, B in Hh'. cbn in Hh'. lia.
    + destruct Hsh as [A B]. rewrite A, B in Hh'. cbn in Hh'. lia.
    + rewrite Hsh in Hh'. lia.
  - intros a b [Ha1 Ha2] [Hb1 Hb2] Hab Hka Hh. rewrite Hn in *.
    assert (La' : live s a).
    { split; [assumption|]. destruct (Nat.eq_dec a id) as [->|Hx]; [assumption|rewrite Hoth in Ha2; assumption]. }
    assert (Lb' : live s b).
    { split; [assumption|]. destruct (Nat.eq_dec b id) as [->|Hx]; [assumption|rewrite Hoth in Hb2; assumption]. }
    apply (i_uniq _ _ _ Hi a b La' Lb' Hab).
    + rewrite <- Hkey. assumption.
    + assert (Hho : forall x, thost (thr s' x) = thost (thr s x)).
      { intros x. destruct (Nat.eq_dec x id) as [->|Hx]; [rewrite Hself; assumption|rewrite Hoth by assumption; reflexivity]. }
      rewrite <- !Hho. assumption.
  - intros x ks Hin. rewrite Hn. apply (i_roots _ _ _ Hi x ks Hin).
Qed.


Definition slot_write (tp : thread) (i : nat) (r : dres) (h : option bool) : thread :=
  {| trun := trun tp; tkey := tkey tp; tcaller := tcaller tp; thost := thost tp; tsync := tsync tp;
     tpc := tpc tp; tobj := tobj tp; tslots := set_slot (tslots tp) i r; tacc := tacc tp;
     thold := match h with Some b => b | None => thold tp end; tcanc := tcanc tp; tpub := tpub tp; tdisc := tdisc tp |}.

Lemma sum_to_upd2 n (h : nat -> nat) a va b vb : a < n -> b < n -> a <> b ->
  sum_to n (upd (upd h a va) b vb) + h a + h b = sum_to n h + va + vb.
Proof.
  intros Ha Hb Hab. pose proof (sum_to_upd n (upd h a va) b vb Hb) as H1.
  rewrite upd_other in H1 by congruence. pose proof (sum_to_upd n h a va Ha) as H2. lia.
Qed.

Lemma inv1_step_return s id e r hp hi : inv1 w par s -> id < nthr s -> step_local w s id = Some e ->
  tpc (thr s id) = PReturn r -> thost (thr s id) = Some (hp, hi) -> e_spawn e = None ->
  e_slot e = Some (hp, hi, r, if tsync (thr s id) then Some (thold (thr s id)) else None) ->
  tpc (e_self e) = PEnd -> e_sem e = PSame ->
  inv1 w par (apply_eff s id e (permits s)).
Proof.
  intros Hi Hid Hl Hpc Hho Hsp Hsl Hend Hsem.
  set (s' := apply_eff s id e (permits s)).
  destruct (step_self_local s id e Hi Hid Hl) as (La & Lb & Lc & Ld & Le).
  destruct (step_self_id s id e Hl) as (Ia & Ib & Ic & Id & Ie).
  pose proof (i_thr _ _ _ Hi id Hid) as Htid.
  assert (Hk : tkey (thr s id) <> None).
  { intros Hk. destruct (t_root _ _ _ Htid Hk) as (_ & _ & _ & _ & R & _). eapply R; eassumption. }
  assert (Hlive : ended (tpc (thr s id)) = false) by (rewrite Hpc; reflexivity).
  destruct (t_host _ _ _ Htid Hk Hlive) as [(hp' & hi' & g & grp & d & H1 & H2 & H3 & H4 & H5 & H6 & H7 & H8 & H9)].
  rewrite Hho in H1. inversion H1; subst hp' hi'. clear H1.
  assert (Hhp : hp < nthr s) by lia.
  pose proof (i_thr _ _ _ Hi hp Hhp) as Htp.
  set (h := if tsync (thr s id) then Some (thold (thr s id)) else None) in *.
  assert (Hthr : thr s' = upd (upd (thr s) id (e_self e)) hp (slot_write (thr s hp) hi r h)).
  { unfold s', apply_eff; cbn. rewrite Hsl, Hsp. cbn. rewrite upd_other by lia. reflexivity. }
  assert (Hn : nthr s' = nthr s) by (unfold s', apply_eff; cbn; rewrite Hsp; reflexivity).
  assert (Hself : thr s' id = e_self e) by (rewrite Hthr, upd_other by lia; apply upd_same).
  assert (Hpar : thr s' hp = slot_write (thr s hp) hi r h) by (rewrite Hthr; apply upd_same).
  assert (Hoth : forall x, x <> id -> x <> hp -> thr s' x = thr s x)
    by (intros x Hx Hx'; rewrite Hthr, !upd_other by assumption; reflexivity).
  assert (Hkey : forall x, tkey (thr s' x) = tkey (thr s x)).
  { intros x. destruct (Nat.eq_dec x id) as [->|Hx]; [rewrite Hself; assumption|].
    destruct (Nat.eq_dec x hp) as [->|Hx']; [rewrite Hpar; reflexivity|rewrite Hoth by assumption; reflexivity]. }
  assert (Hhost : forall x, thost (thr s' x) = thost (thr s x)).
  { intros x. destruct (Nat.eq_dec x id) as [->|Hx]; [rewrite Hself; assumption|].
    destruct (Nat.eq_dec x hp) as [->|Hx']; [rewrite Hpar; reflexivity|rewrite Hoth by assumption; reflexivity]. }
  assert (Hpcs : forall x, x <> id -> tpc (thr s' x) = tpc (thr s x)).
  { intros x Hx. destruct (Nat.eq_dec x hp) as [->|Hx']; [rewrite Hpar; reflexivity|rewrite Hoth by assumption; reflexivity]. }
  assert (Hgr : forall x, groups w s' x = groups w s x) by (intros x; apply groups_eq; auto).
  assert (Hslotlen : hi < length (tslots (thr s hp))) by (apply nth_error_Some; congruence).
  (* the hold of the caller before and after *)
  pose proof (t_hold _ _ _ Htid) as Hhid. unfold hexp in Hhid. rewrite Hpc in Hhid. cbn in Hhid.
  pose proof (t_hold _ _ _ Htp) as Hhp'. unfold hexp in Hhp'.
  constructor.
  - intros x Hx. rewrite Hn in Hx. pose proof (i_thr _ _ _ Hi x Hx) as Ht.
    destruct (Nat.eq_dec x id) as [->|Hxid]; [|destruct (Nat.eq_dec x hp) as [->|Hxhp]].
    + constructor; rewrite ?Hself, ?Hgr; try assumption; rewrite ?Hend; cbn; try discriminate.
      rewrite Ib. intros Hk'. contradiction.
    + (* the caller *)
      constructor; rewrite ?Hpar, ?Hgr; cbn [slot_write tpc tkey thost tsync thold tslots]; try apply Ht.
      * unfold hexp. cbn [slot_write tpc tsync tslots]. unfold h.
        destruct (tsync (thr s id)) eqn:Esy.
        -- destruct H9 as [-> [nw Hpp]]. rewrite Hpp. rewrite set_slot_same by assumption. assumption.
        -- destruct H9 as [Hi0 Hap]. rewrite Hhp'.
           destruct (tpc (thr s hp)); cbn in Hap; try contradiction; try reflexivity.
           rewrite set_slot_other by lia. reflexivity.
      * intros Hk' He'. destruct (t_host _ _ _ Ht Hk' He') as [(pp & pi & g' & grp' & d' & G1 & G2 & G3 & G4 & G5 & G6 & G7 & G8 & G9)].
        constructor. exists pp, pi, g', grp', d'. rewrite Hgr, Hpar. rewrite (Hoth pp) by lia.
        cbn [slot_write thost trun tcaller tkey tsync]. repeat split; assumption.
      * intros g' Hg'. destruct (t_slots _ _ _ Ht g' Hg') as (grp' & A & B). exists grp'. rewrite set_slot_length. auto.
      * intros g' j nw Hg'. destruct (t_start _ _ _ Ht g' j nw Hg') as [A B]. rewrite set_slot_length. split; [|assumption].
        intros i0 Hi0. rewrite set_slot_other; [apply A; assumption|].
        destruct (tsync (thr s id)); [destruct H9 as [_ [nw' Hpp]]; congruence|].
        destruct H9 as [_ Hap]. rewrite Hg' in Hap. cbn in Hap. lia.
      * intros g' i0 Hg'. exfalso. destruct (tsync (thr s id)); [destruct H9 as [_ [nw' Hpp]]; congruence|].
        destruct H9 as [_ Hap]. rewrite Hg' in Hap. exact Hap.
    + (* everybody else *)
      constructor; rewrite ?Hoth, ?Hgr by assumption; try apply Ht.
      intros Hk' He'. destruct (t_host _ _ _ Ht Hk' He') as [(pp & pi & g' & grp' & d' & G1 & G2 & G3 & G4 & G5 & G6 & G7 & G8 & G9)].
      constructor. exists pp, pi, g', grp', d'. rewrite Hgr. rewrite (Hoth x) by assumption.
      destruct (Nat.eq_dec pp id) as [->|Hppid].
      * exfalso. rewrite Hpc in G9. destruct (tsync (thr s x)); [destruct G9 as [_ [nw' F]]; discriminate|destruct G9 as [_ F]; exact F].
      * destruct (Nat.eq_dec pp hp) as [->|Hpphp].
        -- rewrite Hpar. cbn [slot_write trun tkey tslots tpc].
           assert (pi <> hi).
           { intros ->. apply (i_uniq _ _ _ Hi x id); try (split; assumption); try assumption. congruence. }
           rewrite set_slot_other by assumption. repeat split; assumption.
        -- rewrite (Hoth pp) by assumption. repeat split; assumption.
  - intros r0. unfold s', apply_eff; cbn. rewrite Le. apply (i_nocanc _ _ _ Hi).
  - pose proof (i_perm _ _ _ Hi) as Hperm. change (permits s') with (permits s).
    assert (Hh' : holders s' = holders s); [|lia].
    unfold holders. rewrite Hn, Hthr.
    rewrite (sum_to_ext _ (fun i => b2n (thold (upd (upd (thr s) id (e_self e)) hp (slot_write (thr s hp) hi r h) i)))
               (upd (upd (fun i => b2n (thold (thr s i))) id (b2n (thold (e_self e)))) hp
                    (b2n (thold (slot_write (thr s hp) hi r h)))))
      by (intros x _; unfold upd; destruct (Nat.eqb x hp); [reflexivity|destruct (Nat.eqb x id); reflexivity]).
    pose proof (sum_to_upd2 (nthr s) (fun i => b2n (thold (thr s i))) id (b2n (thold (e_self e))) hp
                  (b2n (thold (slot_write (thr s hp) hi r h))) Hid Hhp ltac:(lia)) as Hsum. cbn beta in Hsum.
    assert (He0 : thold (e_self e) = false) by (rewrite Lb; unfold hexp; rewrite Hend; reflexivity).
    assert (Hv : b2n (thold (e_self e)) + b2n (thold (slot_write (thr s hp) hi r h)) =
                 b2n (thold (thr s id)) + b2n (thold (thr s hp))).
    { rewrite He0. cbn [slot_write thold]. unfold h. destruct (tsync (thr s id)) eqn:Esy.
      - destruct H9 as [-> [nw Hpp]]. rewrite Hpp, H8 in Hhp'. rewrite Hhp', Hhid. reflexivity.
      - rewrite Hhid. reflexivity. }
    set (v1 := b2n (thold (e_self e))) in *. set (v2 := b2n (thold (slot_write (thr s hp) hi r h))) in *.
    clearbody v1 v2. lia.
  - intros a b [Ha1 Ha2] [Hb1 Hb2] Hab Hka Hh. rewrite Hn in *.
    assert (Hl' : forall x, x < nthr s -> ended (tpc (thr s' x)) = false -> live s x).
    { intros x Hx He. split; [assumption|]. destruct (Nat.eq_dec x id) as [->|Hxi]; [assumption|].
      rewrite Hpcs in He by assumption. assumption. }
    apply (i_uniq _ _ _ Hi a b (Hl' a Ha1 Ha2) (Hl' b Hb1 Hb2) Hab).
    + rewrite <- Hkey. assumption.
    + rewrite <- !Hhost. assumption.
  - intros x ks Hin. rewrite Hn. apply (i_roots _ _ _ Hi x ks Hin).
Qed.


Lemma inv1_step_spawn s id e g j nw grp d : inv1 w par s -> id < nthr s -> step_local w s id = Some e ->
  tpc (thr s id) = PStart g (S j) nw -> nth_error (groups w s id) g = Some grp -> nth_error grp j = Some d ->
  e_slot e = None ->
  e_spawn e = Some (child_of s id j d (Nat.eqb j 0) (if Nat.eqb j 0 then thold (thr s id) else false)) ->
  e_self e = (if Nat.eqb j 0 then set_pc_hold (thr s id) (PCall g nw) false else set_pc (thr s id) (PStart g j true)) ->
  e_sem e = PSame ->
  inv1 w par (apply_eff s id e (permits s)).
Proof.
  intros Hi Hid Hl Hpc Hg Hd Hsl Hsp Hse Hsem.
  set (s' := apply_eff s id e (permits s)).
  set (c := child_of s id j d (Nat.eqb j 0) (if Nat.eqb j 0 then thold (thr s id) else false)) in *.
  destruct (step_self_local s id e Hi Hid Hl) as (La & Lb & Lc & Ld & Le).
  destruct (step_self_struct s id e Hi Hid Hl) as (Sa & Sb & Sc & Sd).
  destruct (step_self_id s id e Hl) as (Ia & Ib & Ic & Id & Ie).
  pose proof (step_local_live _ _ _ Hl) as Hlive.
  pose proof (i_thr _ _ _ Hi id Hid) as Htid.
  assert (Hthr : thr s' = upd (upd (thr s) id (e_self e)) (nthr s) c)
    by (unfold s', apply_eff; cbn; rewrite Hsl, Hsp; reflexivity).
  assert (Hn : nthr s' = S (nthr s)) by (unfold s', apply_eff; cbn; rewrite Hsp; reflexivity).
  assert (Hself : thr s' id = e_self e) by (rewrite Hthr, upd_other by lia; apply upd_same).
  assert (Hnew : thr s' (nthr s) = c) by (rewrite Hthr; apply upd_same).
  assert (Hoth : forall x, x <> id -> x < nthr s -> thr s' x = thr s x)
    by (intros x Hx Hx'; rewrite Hthr, !upd_other by lia; reflexivity).
  assert (Hkey : forall x, x < nthr s -> tkey (thr s' x) = tkey (thr s x)).
  { intros x Hx. destruct (Nat.eq_dec x id) as [->|Hxi]; [rewrite Hself; assumption|rewrite Hoth by assumption; reflexivity]. }
  assert (Hgr : forall x, x < nthr s -> groups w s' x = groups w s x) by (intros x Hx; apply groups_eq; auto).
  pose proof (t_hold _ _ _ Htid) as Hhid. unfold hexp in Hhid. rewrite Hpc in Hhid. cbn in Hhid.
  destruct (t_start _ _ _ Htid _ _ _ Hpc) as [Hnone Hjlen].
  assert (Hslots : tslots (e_self e) = tslots (thr s id)) by (rewrite Hse; destruct (Nat.eqb j 0); reflexivity).
  constructor.
  - intros x Hx. rewrite Hn in Hx.
    destruct (Nat.eq_dec x (nthr s)) as [->|Hxn].
    + (* the new thread *)
      constructor; rewrite Hnew; unfold c, child_of; cbn; try discriminate; try congruence.
      * unfold hexp. cbn. destruct (Nat.eqb j 0); [assumption|reflexivity].
      * intros _ _. constructor. exists id, j, g, grp, d. rewrite Hnew. unfold c, child_of. cbn [thost trun tcaller tkey tsync].
        rewrite Hself, Hgr, Ia, Ib, Hslots by assumption.
        repeat split; try assumption; try reflexivity; try (apply Hnone; lia).
        rewrite Hse. destruct (Nat.eqb j 0) eqn:Ej.
        -- apply Nat.eqb_eq in Ej. split; [assumption|]. exists nw. reflexivity.
        -- apply Nat.eqb_neq in Ej. cbn. repeat split; lia.
      * intros m [F|F]; discriminate.
    + assert (Hx' : x < nthr s) by lia. pose proof (i_thr _ _ _ Hi x Hx') as Ht.
      destruct (Nat.eq_dec x id) as [->|Hxid].
      * constructor; rewrite ?Hself, ?Hgr by assumption; try assumption.
        -- rewrite Ib. intros Hk. destruct (t_root _ _ _ Ht Hk) as (R1 & R2 & _ & _ & _ & R6).
           destruct (Sa Hk) as (Q1 & Q2 & Q3). rewrite Id, Ie. repeat split; assumption.
        -- rewrite Ib. intros Hk Hend. destruct (t_host _ _ _ Ht Hk Hlive) as [(hp & hi & g' & grp' & d' & H1 & H2 & H3 & H4 & H5 & H6 & H7 & H8 & H9)].
           constructor. exists hp, hi, g', grp', d'. rewrite Hself, Hgr, Hoth by lia.
           rewrite Id, Ia, Ic, Ib, Ie. repeat split; assumption.
      * constructor; rewrite ?Hoth, ?Hgr by assumption; try apply Ht.
        intros Hk Hend. destruct (t_host _ _ _ Ht Hk Hend) as [(hp & hi & g' & grp' & d' & H1 & H2 & H3 & H4 & H5 & H6 & H7 & H8 & H9)].
        constructor. exists hp, hi, g', grp', d'. rewrite Hgr by lia. rewrite (Hoth x) by assumption.
        destruct (Nat.eq_dec hp id) as [->|Hhp].
        -- rewrite Hself, Ia, Ib.
           destruct (parent_step_child s id e g' hi (tsync (thr s x)) Hi Hid Hl H8 H9) as [P1 P2].
           repeat split; assumption.
        -- rewrite (Hoth hp) by lia. repeat split; assumption.
  - intros r. unfold s', apply_eff; cbn. rewrite Le. apply (i_nocanc _ _ _ Hi).
  - pose proof (i_perm _ _ _ Hi) as Hperm. change (permits s') with (permits s).
    assert (Hh' : holders s' = holders s); [|lia].
    unfold holders. rewrite Hn. cbn [sum_to]. rewrite Hnew.
    rewrite (sum_to_ext (nthr s) (fun i => b2n (thold (thr s' i)))
               (upd (fun i => b2n (thold (thr s i))) id (b2n (thold (e_self e))))).
    2:{ intros x Hx. unfold upd. destruct (Nat.eqb x id) eqn:Ex.
        - apply Nat.eqb_eq in Ex. subst. rewrite Hself. reflexivity.
        - apply Nat.eqb_neq in Ex. rewrite Hoth by assumption. reflexivity. }
    pose proof (sum_to_upd (nthr s) (fun i => b2n (thold (thr s i))) id (b2n (thold (e_self e))) Hid) as Hsum.
    cbn beta in Hsum. rewrite Hse in *. unfold c, child_of. cbn [thold]. rewrite Hhid in *.
    destruct (Nat.eqb j 0); cbn [thold set_pc_hold set_pc] in *; rewrite ?Hhid in *; cbn [b2n] in *; lia.
  - intros a b [Ha1 Ha2] [Hb1 Hb2] Hab Hka Hh. rewrite Hn in *.
    assert (Hold : forall x, x < nthr s -> ended (tpc (thr s' x)) = false -> live s x /\ thost (thr s' x) = thost (thr s x)).
    { intros x Hx He. destruct (Nat.eq_dec x id) as [->|Hxi].
      - split; [split; assumption|]. rewrite Hself. assumption.
      - rewrite Hoth in * by assumption. split; [split; assumption|reflexivity]. }
    (* no old live thread has the host of the new one *)
    assert (Hfresh : forall x, live s x -> tkey (thr s x) <> None -> thost (thr s x) = Some (id, j) -> False).
    { intros x [Hx1 Hx2] Hk Hh'. pose proof (i_thr _ _ _ Hi x Hx1) as Ht.
      destruct (t_host _ _ _ Ht Hk Hx2) as [(hp & hi & g' & grp' & d' & H1 & H2 & H3 & H4 & H5 & H6 & H7 & H8 & H9)].
      rewrite Hh' in H1. inversion H1; subst hp hi. rewrite Hpc in H9.
      destruct (tsync (thr s x)); [destruct H9 as [_ [nw' F]]; discriminate|]. destruct H9 as [_ F]. cbn in F. lia. }
    destruct (Nat.eq_dec a (nthr s)) as [->|Han]; destruct (Nat.eq_dec b (nthr s)) as [->|Hbn]; try congruence.
    + destruct (Hold b ltac:(lia) Hb2) as [Lb' Hhb]. rewrite Hnew in Hh. unfold c, child_of in Hh. cbn [thost] in Hh.
      apply (Hfresh b Lb'); [|congruence].
      intros Hkb. destruct (t_root _ _ _ (i_thr _ _ _ Hi b (proj1 Lb')) Hkb) as (R1 & _). congruence.
    + destruct (Hold a ltac:(lia) Ha2) as [La' Hha]. rewrite Hnew in Hh. unfold c, child_of in Hh. cbn [thost] in Hh.
      apply (Hfresh a La'); [rewrite <- Hkey by lia; assumption|congruence].
    + destruct (Hold a ltac:(lia) Ha2) as [La' Hha]. destruct (Hold b ltac:(lia) Hb2) as [Lb' Hhb].
      apply (i_uniq _ _ _ Hi a b La' Lb' Hab); [rewrite <- Hkey by lia; assumption|congruence].
  - intros x ks Hin. rewrite Hn. pose proof (i_roots _ _ _ Hi x ks Hin). lia.
Qed.


Lemma inv1_step s id s' : inv1 w par s -> step w s id = Some s' -> inv1 w par s'.
Proof.
  intros Hi H. destruct (step_spec _ _ _ _ H) as (Hid & e & p & Hl & -> & Hp).
  destruct (step_kinds s id e Hl) as [[A B]|[(r & hp & hi & A1 & A2 & A3 & A4 & A5 & A6 & _)|(g & j & nw & grp & d & A1 & A2 & A3 & A4 & A5 & A6 & A7 & _)]].
  - apply inv1_step_plain; assumption.
  - rewrite A6 in Hp. subst p. eapply inv1_step_return; eassumption.
  - rewrite A7 in Hp. subst p. eapply inv1_step_spawn; eassumption.
Qed.

Lemma quiescent_ended s : quiescent s = true -> forall x, x < nthr s -> ended (tpc (thr s x)) = true.
Proof.
  unfold quiescent. rewrite forallb_forall. intros H x Hx. apply H. apply in_seq. lia.
Qed.

Lemma groups_start_run s ks x : x < nthr s -> groups w (start_run s ks) x = groups w s x.
Proof.
  intros Hx. unfold groups, start_run. cbn. rewrite upd_other by lia.
  destruct (tkey (thr s x)); [reflexivity|]. cbn. assert (Nat.eqb (nthr s) x = false) as -> by (apply Nat.eqb_neq; lia).
  reflexivity.
Qed.

Lemma inv1_start_run s ks : inv1 w par s -> inv1 w par (start_run s ks).
Proof.
  intros Hi. set (s' := start_run s ks).
  assert (Hnew : thr s' (nthr s) = root_thread (S (nrun s))) by (unfold s', start_run; cbn; apply upd_same).
  assert (Hoth : forall x, x < nthr s -> thr s' x = thr s x) by (intros x Hx; unfold s', start_run; cbn; apply upd_other; lia).
  assert (Hgr : forall x, x < nthr s -> groups w s' x = groups w s x) by (intros; apply groups_start_run; assumption).
  constructor.
  - intros x Hx. change (nthr s') with (S (nthr s)) in Hx.
    destruct (Nat.eq_dec x (nthr s)) as [->|Hxn].
    + constructor; rewrite Hnew; cbn; try discriminate; try congruence.
      * intros _. repeat split; try discriminate; try reflexivity. exists ks. left. reflexivity.
      * intros m [F|F]; discriminate.
    + assert (Hx' : x < nthr s) by lia. pose proof (i_thr _ _ _ Hi x Hx') as Ht.
      constructor; rewrite ?Hoth, ?Hgr by assumption; try apply Ht.
      * intros Hk. destruct (t_root _ _ _ Ht Hk) as (R1 & R2 & R3 & R4 & R5 & (ks' & R6)).
        repeat split; try assumption. exists ks'. right. assumption.
      * intros Hk He. destruct (t_host _ _ _ Ht Hk He) as [(hp & hi & g & grp & d & H1 & H2 & H3 & H4 & H5 & H6 & H7 & H8 & H9)].
        constructor. exists hp, hi, g, grp, d. rewrite (Hoth x), (Hoth hp), Hgr by lia.
        repeat split; assumption.
  - apply (i_nocanc _ _ _ Hi).
  - pose proof (i_perm _ _ _ Hi) as Hperm. change (permits s') with (permits s).
    assert (holders s' = holders s); [|lia]. unfold holders. change (nthr s') with (S (nthr s)). cbn [sum_to].
    rewrite Hnew. cbn [root_thread thold b2n]. rewrite Nat.add_0_r. apply sum_to_ext. intros x Hx. rewrite Hoth by assumption. reflexivity.
  - intros a b [Ha1 Ha2] [Hb1 Hb2] Hab Hka Hh. change (nthr s') with (S (nthr s)) in *.
    destruct (Nat.eq_dec a (nthr s)) as [->|Han]; [rewrite Hnew in Hka; cbn in Hka; congruence|].
    rewrite (Hoth a) in * by lia.
    destruct (Nat.eq_dec b (nthr s)) as [->|Hbn].
    + rewrite Hnew in Hh. cbn in Hh.
      destruct (t_host _ _ _ (i_thr _ _ _ Hi a ltac:(lia)) Hka Ha2) as [(hp & hi & g & grp & d & H1 & _)]. congruence.
    + rewrite (Hoth b) in * by lia. apply (i_uniq _ _ _ Hi a b); try split; try assumption; lia.
  - intros x ks' [Hin|Hin]; change (nthr s') with (S (nthr s)); [inversion Hin; lia|].
    pose proof (i_roots _ _ _ Hi x ks' Hin). lia.
Qed.

(* Evict / Edit only run in quiescent states and leave threads, roots, semaphore alone *)
Lemma inv1_quiet s s' : inv1 w par s -> quiescent s = true ->
  thr s' = thr s -> nthr s' = nthr s -> roots s' = roots s -> rcanc s' = rcanc s -> permits s' = permits s ->
  inv1 w par s'.
Proof.
  intros Hi Hq Ht Hn Hr Hc Hp. pose proof (quiescent_ended s Hq) as He.
  constructor.
  - intros x Hx. rewrite Hn in Hx. pose proof (i_thr _ _ _ Hi x Hx) as Hx'. specialize (He x Hx).
    constructor; rewrite ?Ht, ?Hr; try apply Hx'.
    + intros _ Hf. congruence.
    + intros g Hg. destruct (tpc (thr s x)); cbn in *; discriminate.
  - rewrite Hc. apply (i_nocanc _ _ _ Hi).
  - rewrite Hp. unfold holders. rewrite Hn, Ht. apply (i_perm _ _ _ Hi).
  - intros a b [Ha1 Ha2] _ _ _ _. rewrite Hn in Ha1. rewrite Ht in Ha2. specialize (He a Ha1). congruence.
  - intros x ks. rewrite Hr, Hn. apply (i_roots _ _ _ Hi).
Qed.

Lemma inv1_event s e s' : inv1 w par s -> do_event w s e = Some s' -> inv1 w par s'.
Proof.
  intros Hi H. destruct e as [t|ks|ks|ks vs]; cbn [do_event] in H.
  - eapply inv1_step; eassumption.
  - destruct (forallb (fun k => Nat.ltb k (wn w)) ks); inversion H. apply inv1_start_run. assumption.
  - destruct (quiescent s) eqn:Hq; inversion H. eapply inv1_quiet; try eassumption; reflexivity.
  - destruct (quiescent s) eqn:Hq; inversion H. eapply inv1_quiet; try eassumption; reflexivity.
Qed.

Lemma inv1_init inputs : inv1 w par (init par inputs).
Proof.
  constructor; cbn; try (intros; lia); try reflexivity; try (intros; contradiction).
  all: try (intros a b [Ha _]; cbn in Ha; lia).
Qed.

Lemma reach_inv1 inputs s : reach w par inputs s -> inv1 w par s.
Proof. induction 1; [apply inv1_init|eapply inv1_event; eassumption]. Qed.

End Inv1Proofs.
