(* Proofs about the token loop of fastscan.Scan (Model/FastScan.v): it computes exactly the package
   and the imports of every file that is a list of well-formed declarations, with no syntax error
   (scan_tokens_of_decls_lemma). *)
From Coq Require Import List NArith ZArith Bool Lia Arith.
From PV Require Import Common.Bytes Model.Utf8 Model.Lexer Model.FastScan.
Import ListNotations.
Open Scope nat_scope.

(* ================================================================================================
   A. the token loop of Scan on the abstract top-level grammar
   ================================================================================================ *)

(* ---- well-formed declarations ---- *)
(* a token that is neither the end marker nor a bracket *)
Definition plain_tok (t : ftok) : Prop :=
  ft_ty t <> 0%N /\ is_open (ft_ty t) = false /\ is_close (ft_ty t) = false.

(* token sequences that are balanced in (), {}, [] and <>; semicolons may occur anywhere *)
Inductive balanced : list ftok -> Prop :=
| bal_nil : balanced []
| bal_plain t ts : plain_tok t -> balanced ts -> balanced (t :: ts)
| bal_group topen body tclose ts :
    is_open (ft_ty topen) = true -> ft_ty tclose = close_symbol (ft_ty topen) ->
    balanced body -> balanced ts -> balanced (topen :: body ++ tclose :: ts).

(* depth-0 material that does not end a declaration: tokens other than a semicolon, and groups in
   (), [] or <> *)
Inductive unit0 : list ftok -> Prop :=
| u_nil : unit0 []
| u_plain t ts : plain_tok t -> ft_ty t <> 59%N -> unit0 ts -> unit0 (t :: ts)
| u_group topen body tclose ts :
    is_open (ft_ty topen) = true -> ft_ty topen <> 123%N ->
    ft_ty tclose = close_symbol (ft_ty topen) ->
    balanced body -> unit0 ts -> unit0 (topen :: body ++ tclose :: ts).

(* how a declaration ends: with a semicolon at depth 0, or with the brace that closes a block
   opened at depth 0 *)
Inductive decl_end : list ftok -> Prop :=
| e_semi t : ft_ty t = 59%N -> decl_end [t]
| e_block topen body tclose :
    ft_ty topen = 123%N -> ft_ty tclose = 125%N -> balanced body -> decl_end (topen :: body ++ [tclose]).

Definition is_kw_start (t : ftok) : Prop :=
  ft_ty t = t_ident /\ (ft_text t = kw_import \/ ft_text t = kw_package).

(* an other declaration: its first token is not the identifier import or package, and it ends at
   its first depth-0 semicolon or closing brace *)
Definition wf_other (toks : list ftok) : Prop :=
  exists pre e, toks = pre ++ e /\ unit0 pre /\ decl_end e /\
                match toks with t :: _ => ~ is_kw_start t | [] => False end.

Definition wf_decl (d : decl) : Prop :=
  match d with
  | DImport _ parts => parts <> []
  | DPackage comps => comps <> [] /\ Forall (fun c => c <> [46%N]) comps
  | DSyntax _ _ => True
  | DOther toks => wf_other toks
  end.

Definition wf_decls (ds : list decl) : Prop := Forall wf_decl ds.

(* ---- small facts ---- *)
Lemma bytes_eqb_refl a : bytes_eqb a a = true.
Proof. unfold bytes_eqb. destruct (list_eq_dec N.eq_dec a a); congruence. Qed.

Lemma bytes_eqb_neq a b : a <> b -> bytes_eqb a b = false.
Proof. intros H. unfold bytes_eqb. destruct (list_eq_dec N.eq_dec a b); congruence. Qed.

Lemma bytes_eqb_eq a b : bytes_eqb a b = true -> a = b.
Proof. unfold bytes_eqb. destruct (list_eq_dec N.eq_dec a b); congruence. Qed.

Lemma is_open_cases o : is_open o = true -> o = 40%N \/ o = 123%N \/ o = 91%N \/ o = 60%N.
Proof.
  unfold is_open. rewrite !orb_true_iff, !N.eqb_eq. tauto.
Qed.

(* the state between declarations and inside other declarations: no import or package statement
   is being read *)
Definition Q (p w o : bool) (pkg : list N) (imps : list import) (stack : list N) (ds : bool) : sst :=
  {| s_imp := None; s_pub := p; s_wk := w; s_opt := o; s_pkgc := None; s_stack := stack;
     s_dstart := ds; s_pkg := pkg; s_imports := imps; s_errs := [] |}.

Section Quiet.
  Variables (p w o : bool) (pkg : list N) (imps : list import).
  Notation Q' := (Q p w o pkg imps).

  (* a plain token below depth 0 changes nothing but declarationStart *)
  Lemma step_plain_deep t x s ds : plain_tok t ->
    exists ds', scan_step (Q' (x :: s) ds) t = Q' (x :: s) ds'.
  Proof.
    intros (_ & Hop & Hcl). destruct t as [ty txt]. cbn in Hop, Hcl.
    unfold scan_step, step_import, step_package, step_context. cbn.
    rewrite Hop, Hcl. destruct (ty =? t_ident)%N.
    - rewrite andb_false_r. eexists. reflexivity.
    - eexists. reflexivity.
  Qed.

  Lemma step_open t stack ds : is_open (ft_ty t) = true ->
    scan_step (Q' stack ds) t = Q' (close_symbol (ft_ty t) :: stack) false.
  Proof.
    intros Hop. destruct t as [ty txt]. cbn in Hop.
    unfold scan_step, step_import, step_package, step_context. cbn. rewrite Hop.
    apply is_open_cases in Hop. destruct Hop as [ -> | [ -> | [ -> | -> ] ] ]; reflexivity.
  Qed.

  Lemma step_close topen t stack ds : is_open topen = true -> ft_ty t = close_symbol topen ->
    scan_step (Q' (close_symbol topen :: stack) ds) t = Q' stack (topen =? 123)%N.
  Proof.
    intros Hop Hty. destruct t as [ty txt]. cbn in Hty. subst ty.
    apply is_open_cases in Hop. destruct Hop as [ -> | [ -> | [ -> | -> ] ] ]; reflexivity.
  Qed.

  Lemma open_nonzero t : is_open (ft_ty t) = true -> (ft_ty t =? t_eof)%N = false.
  Proof. intros H. apply is_open_cases in H. destruct H as [ -> | [ -> | [ -> | -> ] ] ]; reflexivity. Qed.

  Lemma close_nonzero topen t : is_open topen = true -> ft_ty t = close_symbol topen ->
    (ft_ty t =? t_eof)%N = false.
  Proof.
    intros H ->. apply is_open_cases in H. destruct H as [ -> | [ -> | [ -> | -> ] ] ]; reflexivity.
  Qed.

  Lemma plain_nonzero t : plain_tok t -> (ft_ty t =? t_eof)%N = false.
  Proof. intros (H & _). apply N.eqb_neq. exact H. Qed.

  (* a balanced sequence read below depth 0 leaves the state as it was, up to declarationStart *)
  Lemma scan_balanced body : balanced body -> forall x s ds rest,
    exists ds', scan_loop (body ++ rest) (Q' (x :: s) ds) = scan_loop rest (Q' (x :: s) ds').
  Proof.
    induction 1 as [|t ts Hp Hts IHts|topen body tclose ts Hop Hcl Hbody IHbody Hts IHts];
      intros x s ds rest.
    - exists ds. reflexivity.
    - cbn [app scan_loop]. rewrite (plain_nonzero t Hp).
      destruct (step_plain_deep t x s ds Hp) as [ds1 ->]. apply IHts.
    - cbn [app scan_loop]. rewrite (open_nonzero topen Hop), (step_open topen _ _ Hop).
      rewrite <- app_assoc. cbn [app].
      destruct (IHbody (close_symbol (ft_ty topen)) (x :: s) false (tclose :: ts ++ rest)) as [ds1 ->].
      cbn [scan_loop]. rewrite (close_nonzero _ tclose Hop Hcl), (step_close _ tclose _ _ Hop Hcl).
      apply IHts.
  Qed.

  (* a plain token other than a semicolon at depth 0, when no declaration can start *)
  Lemma step_plain_top t : plain_tok t -> ft_ty t <> 59%N ->
    scan_step (Q' [] false) t = Q' [] false.
  Proof.
    intros (_ & Hop & Hcl) Hsemi. destruct t as [ty txt]. cbn in Hop, Hcl, Hsemi.
    unfold scan_step, step_import, step_package, step_context. cbn.
    rewrite Hop, Hcl.
    assert (H125 : (ty =? 125)%N = false).
    { apply N.eqb_neq. intros ->. discriminate Hcl. }
    assert (H59 : (ty =? 59)%N = false) by (apply N.eqb_neq; exact Hsemi).
    rewrite H125, H59. destruct (ty =? t_ident)%N; reflexivity.
  Qed.

  Lemma scan_unit0 pre : unit0 pre -> forall rest,
    scan_loop (pre ++ rest) (Q' [] false) = scan_loop rest (Q' [] false).
  Proof.
    induction 1 as [|t ts Hp Hsemi Hts IHts|topen body tclose ts Hop Hnb Hcl Hbody Hts IHts]; intros rest.
    - reflexivity.
    - cbn [app scan_loop]. rewrite (plain_nonzero t Hp), (step_plain_top t Hp Hsemi). apply IHts.
    - cbn [app scan_loop]. rewrite (open_nonzero topen Hop), (step_open topen _ _ Hop).
      rewrite <- app_assoc. cbn [app].
      destruct (scan_balanced body Hbody (close_symbol (ft_ty topen)) [] false (tclose :: ts ++ rest)) as [ds1 ->].
      cbn [scan_loop]. rewrite (close_nonzero _ tclose Hop Hcl), (step_close _ tclose _ _ Hop Hcl).
      replace (ft_ty topen =? 123)%N with false by (symmetry; apply N.eqb_neq; exact Hnb).
      apply IHts.
  Qed.

  Lemma scan_decl_end e : decl_end e -> forall rest,
    scan_loop (e ++ rest) (Q' [] false) = scan_loop rest (Q' [] true).
  Proof.
    destruct 1 as [t Ht|topen body tclose Hop Hcl Hbody]; intros rest.
    - destruct t as [ty txt]. cbn in Ht. subst ty. reflexivity.
    - assert (Hop' : is_open (ft_ty topen) = true) by (rewrite Hop; reflexivity).
      assert (Hcl' : ft_ty tclose = close_symbol (ft_ty topen)) by (rewrite Hop, Hcl; reflexivity).
      cbn [app scan_loop]. rewrite (open_nonzero topen Hop'), (step_open topen _ _ Hop').
      rewrite <- app_assoc. cbn [app].
      destruct (scan_balanced body Hbody (close_symbol (ft_ty topen)) [] false (tclose :: rest)) as [ds1 ->].
      cbn [scan_loop]. rewrite (close_nonzero _ tclose Hop' Hcl'), (step_close _ tclose _ _ Hop' Hcl').
      rewrite Hop. reflexivity.
  Qed.

  (* the first token of an other declaration: declarationStart is true, but the token is not the
     identifier import or package, so it is read as if declarationStart were false *)
  Lemma step_first t : ~ is_kw_start t -> scan_step (Q' [] true) t = scan_step (Q' [] false) t.
  Proof.
    intros Hk. destruct t as [ty txt]. unfold is_kw_start in Hk. cbn in Hk.
    unfold scan_step, step_import, step_package, step_context. cbn.
    destruct (is_open ty); [reflexivity|]. destruct (is_close ty); [reflexivity|].
    destruct (ty =? t_ident)%N eqn:Ei; [|reflexivity].
    apply N.eqb_eq in Ei.
    destruct (bytes_eqb txt kw_import) eqn:E1; [apply bytes_eqb_eq in E1; tauto|].
    destruct (bytes_eqb txt kw_package) eqn:E2; [apply bytes_eqb_eq in E2; tauto|].
    reflexivity.
  Qed.

  Lemma unit0_first_nonzero pre e : unit0 pre -> decl_end e ->
    match pre ++ e with t :: _ => (ft_ty t =? t_eof)%N = false | [] => False end.
  Proof.
    intros Hu He. destruct Hu as [|t ts Hp _ _|topen body tclose ts Hop _ _ _ _].
    - destruct He as [t Ht|topen body tclose Hop _ _]; cbn.
      + rewrite Ht. reflexivity.
      + rewrite Hop. reflexivity.
    - cbn. apply plain_nonzero. exact Hp.
    - cbn. apply open_nonzero. exact Hop.
  Qed.

  Lemma scan_other toks rest : wf_other toks ->
    scan_loop (toks ++ rest) (Q' [] true) = scan_loop rest (Q' [] true).
  Proof.
    intros (pre & e & -> & Hu & He & Hk).
    pose proof (unit0_first_nonzero pre e Hu He) as Hnz.
    assert (E : scan_loop ((pre ++ e) ++ rest) (Q' [] true) = scan_loop ((pre ++ e) ++ rest) (Q' [] false)).
    { destruct (pre ++ e) as [|t more]; [contradiction|].
      cbn [app scan_loop]. rewrite Hnz, (step_first t Hk). reflexivity. }
    rewrite E, <- app_assoc, (scan_unit0 pre Hu). apply scan_decl_end. exact He.
  Qed.
End Quiet.

(* ---- import statements ---- *)
Definition I (p w o : bool) (pkg : list N) (imps : list import) (cur : list (list N)) : sst :=
  {| s_imp := Some cur; s_pub := p; s_wk := w; s_opt := o; s_pkgc := None; s_stack := [];
     s_dstart := false; s_pkg := pkg; s_imports := imps; s_errs := [] |}.

Lemma scan_strings p w o pkg imps parts : forall cur rest,
  scan_loop (map tk_str parts ++ rest) (I p w o pkg imps cur) =
  scan_loop rest (I p w o pkg imps (cur ++ parts)).
Proof.
  induction parts as [|s parts IH]; intros cur rest.
  - rewrite app_nil_r. reflexivity.
  - cbn [map app scan_loop]. change (ft_ty (tk_str s) =? t_eof)%N with false. cbv iota.
    replace (scan_step (I p w o pkg imps cur) (tk_str s)) with (I p w o pkg imps (cur ++ [s])) by reflexivity.
    rewrite IH, <- app_assoc. reflexivity.
Qed.

Lemma scan_import p w o pkg imps m parts rest : parts <> [] ->
  exists p' w' o',
    scan_loop (decl_tokens (DImport m parts) ++ rest) (Q p w o pkg imps [] true) =
    scan_loop rest (Q p' w' o' pkg (imps ++ [import_of m parts]) [] true).
Proof.
  intros Hne. cbn [decl_tokens app scan_loop].
  change (ft_ty (tk_ident kw_import) =? t_eof)%N with false. cbv iota.
  replace (scan_step (Q p w o pkg imps [] true) (tk_ident kw_import))
    with (I false false false pkg imps []) by reflexivity.
  rewrite <- !app_assoc.
  assert (Hm : scan_loop (mod_tokens m ++ map tk_str parts ++ [tk_sym 59] ++ rest) (I false false false pkg imps []) =
               scan_loop (map tk_str parts ++ [tk_sym 59] ++ rest)
                         (I (im_public (import_of m parts)) (im_weak (import_of m parts))
                            (im_option (import_of m parts)) pkg imps [])).
  { destruct m; reflexivity. }
  rewrite Hm, scan_strings. cbn [app scan_loop].
  change (ft_ty (tk_sym 59) =? t_eof)%N with false. cbv iota.
  destruct parts as [|s parts]; [congruence|].
  eexists _, _, _. reflexivity.
Qed.

(* ---- package statements ---- *)
Definition P (p w o : bool) (pkg : list N) (imps : list import) (comps : list (list N)) : sst :=
  {| s_imp := None; s_pub := p; s_wk := w; s_opt := o; s_pkgc := Some comps; s_stack := [];
     s_dstart := false; s_pkg := pkg; s_imports := imps; s_errs := [] |}.

Lemma last_is_period_snoc acc c : last_is_period (acc ++ [c]) = bytes_eqb c [46%N].
Proof. unfold last_is_period. rewrite rev_unit. reflexivity. Qed.

(* the components read so far, with their periods *)
Fixpoint with_dots (comps : list (list N)) : list (list N) :=
  match comps with
  | [] => []
  | [c] => [c]
  | c :: r => c :: [46%N] :: with_dots r
  end.

Lemma concat_with_dots comps : concat (with_dots comps) = join_dots comps.
Proof.
  induction comps as [|c [|c2 r] IH]; cbn [with_dots join_dots concat]; [reflexivity|apply app_nil_r|].
  cbn [with_dots join_dots concat] in IH. rewrite IH. reflexivity.
Qed.

Lemma step_pkg_ident p w o pkg imps acc c :
  (acc = [] \/ last_is_period acc = true) ->
  scan_step (P p w o pkg imps acc) (tk_ident c) = P p w o pkg imps (acc ++ [c]).
Proof.
  intros Hacc. unfold scan_step, step_import, step_package, step_context. cbn.
  destruct Hacc as [ -> | Hl ]; [reflexivity|]. rewrite Hl. cbn. rewrite andb_false_r. reflexivity.
Qed.

Lemma step_pkg_period p w o pkg imps acc :
  acc <> [] -> last_is_period acc = false ->
  scan_step (P p w o pkg imps acc) (tk_sym 46) = P p w o pkg imps (acc ++ [[46%N]]).
Proof.
  intros Hne Hl. unfold scan_step, step_import, step_package, step_context. cbn.
  rewrite Hl. destruct acc; [congruence|]. reflexivity.
Qed.

Lemma step_pkg_semi p w o pkg imps acc :
  acc <> [] -> last_is_period acc = false ->
  scan_step (P p w o pkg imps acc) (tk_sym 59) = Q p w o (concat acc) imps [] true.
Proof.
  intros Hne Hl. unfold scan_step, step_import, step_package, step_context. cbn.
  rewrite Hl. destruct acc; [congruence|]. reflexivity.
Qed.

Lemma scan_dotted p w o pkg imps comps : comps <> [] -> Forall (fun c => c <> [46%N]) comps ->
  forall acc rest, (acc = [] \/ last_is_period acc = true) ->
  scan_loop (dotted comps ++ rest) (P p w o pkg imps acc) =
  scan_loop rest (P p w o pkg imps (acc ++ with_dots comps)) /\
  acc ++ with_dots comps <> [] /\ last_is_period (acc ++ with_dots comps) = false.
Proof.
  induction comps as [|c [|c2 r] IH]; intros Hne Hall acc rest Hacc; [congruence| |].
  - cbn [dotted with_dots app scan_loop]. change (ft_ty (tk_ident c) =? t_eof)%N with false. cbv iota.
    rewrite step_pkg_ident by exact Hacc. split; [reflexivity|]. split.
    + destruct acc; discriminate.
    + rewrite last_is_period_snoc. apply bytes_eqb_neq. inversion Hall. assumption.
  - inversion Hall as [|? ? Hc Hall']; subst.
    change (dotted (c :: c2 :: r)) with (tk_ident c :: tk_sym 46 :: dotted (c2 :: r)).
    change (with_dots (c :: c2 :: r)) with (c :: [46%N] :: with_dots (c2 :: r)).
    cbn [app scan_loop]. change (ft_ty (tk_ident c) =? t_eof)%N with false.
    change (ft_ty (tk_sym 46) =? t_eof)%N with false. cbv iota.
    rewrite step_pkg_ident by exact Hacc.
    rewrite step_pkg_period.
    2:{ destruct acc; discriminate. }
    2:{ rewrite last_is_period_snoc. apply bytes_eqb_neq. exact Hc. }
    specialize (IH ltac:(discriminate) Hall' ((acc ++ [c]) ++ [[46%N]]) rest
                   ltac:(right; apply last_is_period_snoc)).
    assert (E1 : ((acc ++ [c]) ++ [[46%N]]) ++ with_dots (c2 :: r) = acc ++ c :: [46%N] :: with_dots (c2 :: r))
      by (rewrite <- !app_assoc; reflexivity).
    rewrite E1 in IH. exact IH.
Qed.

Lemma scan_package p w o pkg imps comps rest : comps <> [] -> Forall (fun c => c <> [46%N]) comps ->
  scan_loop (decl_tokens (DPackage comps) ++ rest) (Q p w o pkg imps [] true) =
  scan_loop rest (Q p w o (join_dots comps) imps [] true).
Proof.
  intros Hne Hall. cbn [decl_tokens app scan_loop].
  change (ft_ty (tk_ident kw_package) =? t_eof)%N with false. cbv iota.
  replace (scan_step (Q p w o pkg imps [] true) (tk_ident kw_package)) with (P p w o pkg imps []) by reflexivity.
  rewrite <- app_assoc.
  destruct (scan_dotted p w o pkg imps comps Hne Hall [] ([tk_sym 59] ++ rest) ltac:(left; reflexivity))
    as (E & Hne' & Hl).
  rewrite E. cbn [app scan_loop] in *. change (ft_ty (tk_sym 59) =? t_eof)%N with false. cbv iota.
  rewrite step_pkg_semi; try assumption. rewrite concat_with_dots. reflexivity.
Qed.

(* ---- syntax and edition statements are other declarations ---- *)
Lemma unit0_strs parts : unit0 (map tk_str parts).
Proof.
  induction parts as [|s parts IH]; [constructor|].
  cbn [map]. apply u_plain; [|discriminate|exact IH].
  split; [discriminate|split; reflexivity].
Qed.

Lemma wf_other_syntax ed parts : wf_other (decl_tokens (DSyntax ed parts)).
Proof.
  exists (tk_ident (if ed then kw_edition else kw_syntax) :: tk_sym 61 :: map tk_str parts), [tk_sym 59].
  split; [reflexivity|]. split.
  - apply u_plain; [split; [destruct ed; discriminate|split; reflexivity]|destruct ed; discriminate|].
    apply u_plain; [split; [discriminate|split; reflexivity]|discriminate|].
    apply unit0_strs.
  - split; [apply e_semi; reflexivity|].
    cbn. unfold is_kw_start. cbn. intros (_ & [H|H]); destruct ed; discriminate H.
Qed.

(* ---- the theorem ---- *)
Lemma scan_decls ds : wf_decls ds -> forall p w o pkg imps,
  exists p' w' o',
    scan_loop (tokens_of ds) (Q p w o pkg imps [] true) =
    Q p' w' o' (package_of_from pkg ds) (imps ++ imports_of ds) [] true.
Proof.
  induction 1 as [|d ds Hd Hds IH]; intros p w o pkg imps.
  - exists p, w, o. cbn. rewrite app_nil_r. reflexivity.
  - cbn [tokens_of flat_map]. fold (tokens_of ds).
    destruct d as [m parts|comps|ed parts|toks]; cbn [wf_decl] in Hd.
    + destruct (scan_import p w o pkg imps m parts (tokens_of ds) Hd) as (p1 & w1 & o1 & ->).
      destruct (IH p1 w1 o1 pkg (imps ++ [import_of m parts])) as (p2 & w2 & o2 & ->).
      exists p2, w2, o2. cbn [package_of_from imports_of]. rewrite <- app_assoc. reflexivity.
    + destruct Hd as [Hne Hall]. rewrite scan_package by assumption.
      destruct (IH p w o (join_dots comps) imps) as (p2 & w2 & o2 & ->).
      exists p2, w2, o2. reflexivity.
    + rewrite scan_other by apply wf_other_syntax.
      destruct (IH p w o pkg imps) as (p2 & w2 & o2 & ->). exists p2, w2, o2. reflexivity.
    + cbn [decl_tokens]. rewrite scan_other by exact Hd.
      destruct (IH p w o pkg imps) as (p2 & w2 & o2 & ->). exists p2, w2, o2. reflexivity.
Qed.

Theorem scan_tokens_of_decls_lemma : forall ds, wf_decls ds ->
  scan (tokens_of ds) = {| r_pkg := package_of ds; r_imports := imports_of ds; r_errs := [] |}.
Proof.
  intros ds Hwf. unfold scan.
  destruct (scan_decls ds Hwf false false false [] []) as (p & w & o & E).
  change st0 with (Q false false false [] [] [] true). rewrite E. reflexivity.
Qed.
