(* C10 - proofs about Model/MapRelink.v: when the re-link accepts the map fields of a message compiled from source. *)
From Coq Require Import List Bool String Arith Lia.
From PV Require Import Model.MapRelink.
Import ListNotations.
Open Scope string_scope.
Open Scope list_scope.

Lemma from_source_valid : forall f e, from_source f -> mf_ref f = Some e -> is_valid_map f e = true.
Proof.
  intros f e Hs Hr. unfold from_source in Hs. rewrite Hr in Hs. destruct Hs as [He Hrep].
  unfold is_valid_map. rewrite Hrep, He, String.eqb_refl. reflexivity.
Qed.

Lemma filter_app_rep : forall (a b : list mfield), filter mf_repeated (a ++ b) = filter mf_repeated a ++ filter mf_repeated b.
Proof. intros a b. induction a as [|x a IH]; cbn; [reflexivity|]. destruct (mf_repeated x); cbn; rewrite IH; reflexivity. Qed.

(* no earlier field is valid for the entry of f when the repeated fields claim pairwise different entry names *)
Lemma no_earlier_valid : forall earlier f r e,
  NoDup (repeated_entry_names (earlier ++ f :: r)) ->
  mf_repeated f = true -> e = mf_entry_name f ->
  existsb (fun g => is_valid_map g e) earlier = false.
Proof.
  intros earlier f r e Hnd Hrep He.
  destruct (existsb (fun g => is_valid_map g e) earlier) eqn:Hex; [|reflexivity].
  exfalso. apply existsb_exists in Hex. destruct Hex as [g [Hin Hv]].
  unfold is_valid_map in Hv. apply andb_true_iff in Hv. destruct Hv as [Hg Heq].
  apply String.eqb_eq in Heq.
  unfold repeated_entry_names in Hnd. rewrite filter_app_rep in Hnd. cbn [filter] in Hnd. rewrite Hrep in Hnd.
  rewrite map_app in Hnd. cbn [map] in Hnd.
  apply NoDup_remove_2 in Hnd. apply Hnd. apply in_or_app. left.
  rewrite <- He, Heq. apply in_map. apply filter_In. split; assumption.
Qed.

Lemma relink_errors_zero_gen : forall fs earlier,
  Forall from_source fs -> NoDup (repeated_entry_names (earlier ++ fs)) -> relink_errors earlier fs = 0.
Proof.
  induction fs as [|f r IH]; intros earlier Hs Hnd; [reflexivity|].
  cbn [relink_errors]. inversion Hs as [|? ? Hf Hr]; subst.
  assert (Hok : field_ok earlier f = true).
  { unfold field_ok. destruct (mf_ref f) as [e|] eqn:Href; [|reflexivity].
    rewrite (from_source_valid f e Hf Href).
    unfold from_source in Hf. rewrite Href in Hf. destruct Hf as [He Hrep].
    rewrite (no_earlier_valid earlier f r e Hnd Hrep He). reflexivity. }
  rewrite Hok. cbn [Nat.add]. apply IH; [assumption|]. rewrite <- app_assoc. exact Hnd.
Qed.

(* The code as it is: the re-link accepts every map field of a message compiled from source PROVIDED the repeated
   fields of the message (map fields or not) claim pairwise different entry names. *)
Theorem relink_map_fields_partial_lemma : forall fs,
  Forall from_source fs -> NoDup (repeated_entry_names fs) -> relink_errors [] fs = 0.
Proof. intros fs Hs Hnd. apply relink_errors_zero_gen; assumption. Qed.

(* Without the proviso it is refuted: a repeated int32 Foo_bar declared before map foo_bar (both FooBarEntry). The map
   fields themselves have different entry names (the compiler rejects two map fields with the same entry name), the
   message compiles from source, and the re-link reports an error. *)
Theorem relink_map_fields_refuted_lemma : exists fs,
  Forall from_source fs /\ NoDup (map_entry_names fs) /\ relink_errors [] fs = 1.
Proof.
  exists [mkmf "Foo_bar" "FooBarEntry" true None; mkmf "foo_bar" "FooBarEntry" true (Some "FooBarEntry")].
  split; [|split].
  - repeat constructor; cbn; auto.
  - cbn. repeat constructor; cbn; auto.
  - vm_compute. reflexivity.
Qed.

(* The repaired code: only the map fields need different entry names, which every accepted source has. *)
Lemma filter_app_map : forall (a b : list mfield), filter is_map_field (a ++ b) = filter is_map_field a ++ filter is_map_field b.
Proof. intros a b. induction a as [|x a IH]; cbn; [reflexivity|]. destruct (is_map_field x); cbn; rewrite IH; reflexivity. Qed.

Lemma no_earlier_valid_repaired : forall earlier f r e,
  NoDup (map_entry_names (earlier ++ f :: r)) -> Forall from_source earlier ->
  mf_ref f = Some e -> e = mf_entry_name f ->
  existsb (fun g => match mf_ref g with Some e' => String.eqb e' e && is_valid_map g e | None => false end) earlier = false.
Proof.
  intros earlier f r e Hnd Hse Href He.
  match goal with |- ?x = false => destruct x eqn:Hex; [|reflexivity] end.
  exfalso. apply existsb_exists in Hex. destruct Hex as [g [Hin Hv]].
  destruct (mf_ref g) as [e'|] eqn:Hg; [|discriminate].
  apply andb_true_iff in Hv. destruct Hv as [Hee _]. apply String.eqb_eq in Hee. subst e'.
  rewrite Forall_forall in Hse. specialize (Hse g Hin). unfold from_source in Hse. rewrite Hg in Hse. destruct Hse as [Heg _].
  unfold map_entry_names in Hnd. rewrite filter_app_map in Hnd. cbn [filter] in Hnd.
  unfold is_map_field at 2 in Hnd. rewrite Href in Hnd. rewrite map_app in Hnd. cbn [map] in Hnd.
  apply NoDup_remove_2 in Hnd. apply Hnd. apply in_or_app. left.
  rewrite <- He, Heg. apply in_map. apply filter_In. split; [assumption|]. unfold is_map_field. rewrite Hg. reflexivity.
Qed.

Lemma relink_errors_repaired_zero_gen : forall fs earlier,
  Forall from_source earlier -> Forall from_source fs -> NoDup (map_entry_names (earlier ++ fs)) ->
  relink_errors_repaired earlier fs = 0.
Proof.
  induction fs as [|f r IH]; intros earlier Hse Hs Hnd; [reflexivity|].
  cbn [relink_errors_repaired]. inversion Hs as [|? ? Hf Hr]; subst.
  assert (Hok : field_ok_repaired earlier f = true).
  { unfold field_ok_repaired. destruct (mf_ref f) as [e|] eqn:Href; [|reflexivity].
    rewrite (from_source_valid f e Hf Href).
    pose proof Hf as Hf'. unfold from_source in Hf'. rewrite Href in Hf'. destruct Hf' as [He _].
    rewrite (no_earlier_valid_repaired earlier f r e Hnd Hse Href He). reflexivity. }
  rewrite Hok. cbn [Nat.add]. apply IH; [|assumption|rewrite <- app_assoc; exact Hnd].
  apply Forall_app. split; [assumption|constructor; [assumption|constructor]].
Qed.

Theorem relink_map_fields_repaired_lemma : forall fs,
  Forall from_source fs -> NoDup (map_entry_names fs) -> relink_errors_repaired [] fs = 0.
Proof. intros fs Hs Hnd. apply relink_errors_repaired_zero_gen; [constructor|assumption|assumption]. Qed.
