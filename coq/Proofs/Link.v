(* C02 - what the rewriting of references leaves in the descriptor (linker/resolve.go
   resolveFieldTypes, resolveMethodTypes): after an error-free resolution every named type,
   extendee, request and response type is an absolute name (leading dot) of the element the
   lookup found, and the field type says MESSAGE / GROUP for a message and ENUM for an enum. *)
From Coq Require Import List NArith ZArith Bool.
From PV Require Import Model.MiniProto Model.Lower Model.ValiditySpec Model.Validate.
From PV Require Model.Resolve.
Import ListNotations.

Definition absolute (n : name) : Prop := exists r, n = dotc :: r.

Theorem resolve_type_absolute_lemma : forall L path fd fd' c tn,
  df_type_name fd = Some (c :: tn) -> resolve_type L path fd = (fd', []) ->
  exists n k, resolve_ref (lc_cfg L) (lc_U L) path (df_name fd) (c :: tn) true = Resolve.GDesc n k /\
              df_type_name fd' = Some (dotc :: n) /\
              ((k = Resolve.KMessage /\ (df_type fd' = Some DMessage \/ df_type fd' = Some DGroup)) \/
               (k = Resolve.KEnum /\ df_type fd' = Some DEnum)).
Proof.
  intros L path fd fd' c tn Htn H. unfold resolve_type in H. rewrite Htn in H.
  destruct (resolve_ref (lc_cfg L) (lc_U L) path (df_name fd) (c :: tn) true) as [|n k|n] eqn:E; try discriminate.
  exists n, k. split; [reflexivity|].
  destruct k; try discriminate.
  - destruct (match info_of L n with IMsg mi => mi_mapentry mi | _ => false end && negb match df_src fd with FromMap => true | _ => false end);
      [discriminate|].
    destruct (df_type fd) as [[s| | |]|] eqn:Et; try discriminate; injection H as <-; cbn; rewrite ?Et; auto.
  - destruct (df_type fd) as [[s| | |]|] eqn:Et; try discriminate; injection H as <-; cbn; rewrite ?Et; auto.
Qed.

Theorem resolve_extendee_absolute_lemma : forall L path X fd fd' X' stop c x,
  df_extendee fd = Some (c :: x) -> resolve_extendee L path X fd = (fd', X', [], stop) ->
  exists n, resolve_ref (lc_cfg L) (lc_U L) path (df_name fd) (c :: x) false = Resolve.GDesc n Resolve.KMessage /\
            df_extendee fd' = Some (dotc :: n) /\
            existsb (in_half_open (df_number fd)) (match info_of L n with IMsg mi => mi_extr mi | _ => [] end) = true.
Proof.
  intros L path X fd fd' X' stop c x Hx H. unfold resolve_extendee in H. rewrite Hx in H.
  destruct (resolve_ref (lc_cfg L) (lc_U L) path (df_name fd) (c :: x) false) as [|n k|n] eqn:E; try discriminate.
  destruct k; try discriminate. exists n. split; [reflexivity|].
  destruct (existsb (in_half_open (df_number fd)) match info_of L n with IMsg mi => mi_extr mi | _ => [] end) eqn:Er; [|discriminate].
  destruct (ext_mem n (df_number fd) X); [discriminate|]. injection H as <- _ _. cbn. auto.
Qed.

Theorem resolve_rpc_absolute_lemma : forall L svc mtd t t',
  resolve_rpc_type L svc mtd t = (t', []) ->
  exists n, resolve_ref (lc_cfg L) (lc_U L) [svc] mtd t false = Resolve.GDesc n Resolve.KMessage /\ t' = dotc :: n.
Proof.
  intros L svc mtd t t' H. unfold resolve_rpc_type in H.
  destruct (resolve_ref (lc_cfg L) (lc_U L) [svc] mtd t false) as [|n k|n]; try discriminate.
  destruct k; try discriminate. injection H as <-. eauto.
Qed.
