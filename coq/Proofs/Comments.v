(* Proofs about Model/Comments.v (the Go code) and Model/ProtocComments.v (protoc): properties C03, C23. *)
From Coq Require Import List NArith ZArith Bool Arith Lia.
From PV Require Import Common.Bytes Common.Corr Model.Lexer Model.Comments Model.ProtocComments.
Import ListNotations.
Open Scope N_scope.

(* ================================================================ the text of one comment *)
Lemma split_nl_nonempty s : split_nl s <> [].
Proof.
  destruct s as [|c r]; cbn [split_nl]; [discriminate|].
  destruct (c =? 10); [discriminate|]. destruct (split_nl r); discriminate.
Qed.

Definition no_nl (l : list N) : Prop := Forall (fun c => c <> 10) l.

Lemma split_nl_lines_no_nl s : Forall no_nl (split_nl s).
Proof.
  induction s as [|c r IH]; cbn [split_nl].
  - repeat constructor.
  - destruct (N.eqb_spec c 10) as [E|E].
    + constructor; [constructor|exact IH].
    + destruct (split_nl r) as [|l ls] eqn:S.
      * repeat constructor. exact E.
      * inversion IH as [|x y H1 H2]; subst. constructor; [constructor; assumption|assumption].
Qed.

Lemma block_content_true_no_nl l : no_nl l -> block_content true l = l.
Proof.
  induction 1 as [|c r Hc _ IH]; cbn [block_content]; [reflexivity|].
  apply N.eqb_neq in Hc. rewrite Hc. now rewrite IH.
Qed.

(* protoc's treatment of the lines after the first one *)
Definition pstrip (l : list N) : list N := block_content false l.

Lemma block_content_lines s :
  (block_content true s = match split_nl s with
                           | l :: ls => l ++ flat_map (fun l => 10 :: pstrip l) ls
                           | [] => [] end) /\
  (block_content false s = match split_nl s with
                            | l :: ls => pstrip l ++ flat_map (fun l => 10 :: pstrip l) ls
                            | [] => [] end).
Proof.
  induction s as [|c r [IHt IHf]].
  - cbn. split; reflexivity.
  - pose proof (split_nl_lines_no_nl r) as Hno.
    cbn [split_nl block_content].
    destruct (split_nl r) as [|l ls] eqn:S; [exfalso; now apply (split_nl_nonempty r)|].
    inversion Hno as [|x y Hl _]; subst.
    destruct (N.eqb_spec c 10) as [E|E].
    + subst c. split.
      * rewrite IHf. cbn [flat_map app]. reflexivity.
      * replace (is_ws_no_nl 10) with false by reflexivity. cbn [N.eqb Pos.eqb].
        rewrite IHf. unfold pstrip at 1. cbn [block_content flat_map app]. reflexivity.
    + split.
      * rewrite IHt. reflexivity.
      * unfold pstrip at 1. cbn [block_content].
        destruct (is_ws_no_nl c).
        { rewrite IHf. reflexivity. }
        destruct (c =? 42).
        { rewrite IHt. rewrite (block_content_true_no_nl l Hl). reflexivity. }
        apply N.eqb_neq in E. rewrite E.
        rewrite IHt. rewrite (block_content_true_no_nl l Hl). reflexivity.
Qed.

(* a line on which the Go code and protoc strip the same prefix: after the blanks and tabs (and, with
   fix_ws, carriage returns, vertical tabs and form feeds) comes no further whitespace character *)
Definition line_ok (cf : cfg) (l : list N) : bool :=
  match skipn (span (is_blank_tab cf) l) l with
  | [] => true
  | c :: _ => negb (is_ws_no_nl c)
  end.

Lemma blank_tab_is_ws cf c : is_blank_tab cf c = true -> is_ws_no_nl c = true.
Proof.
  unfold is_blank_tab, is_ws_no_nl.
  destruct (c =? 32), (c =? 9), (c =? 13), (c =? 11), (c =? 12), (fix_ws cf); cbn; congruence.
Qed.

Lemma strip_line_eq cf l : no_nl l -> line_ok cf l = true -> strip_line cf l = pstrip l.
Proof.
  unfold strip_line, line_ok, pstrip.
  induction 1 as [|c r Hc Hr IH]; intros Hok.
  - reflexivity.
  - cbn [span] in *. destruct (is_blank_tab cf c) eqn:B.
    + cbn [skipn] in *. cbn [block_content]. rewrite (blank_tab_is_ws cf c B). apply IH. exact Hok.
    + cbn [skipn] in *. cbn [block_content].
      apply negb_true_iff in Hok. rewrite Hok.
      destruct (c =? 42).
      * symmetry. apply block_content_true_no_nl. exact Hr.
      * apply N.eqb_neq in Hc. rewrite Hc. f_equal. symmetry. apply block_content_true_no_nl. exact Hr.
Qed.

Definition text_ok (cf : cfg) (u : cunit) : bool :=
  negb (u_blk u) || forallb (line_ok cf) (tl (split_nl (u_text u))).

Lemma flat_map_ext_in {A B} (f g : A -> list B) l : (forall x, In x l -> f x = g x) -> flat_map f l = flat_map g l.
Proof.
  induction l as [|a l IH]; intros H; cbn; [reflexivity|].
  rewrite (H a (or_introl eq_refl)). f_equal. apply IH. intros x Hx. apply H. now right.
Qed.

Theorem combine_comments_text_lemma : forall cf u, text_ok cf u = true -> go_ctext cf u = spec_content u.
Proof.
  intros cf u H. unfold go_ctext, spec_content, text_ok in *.
  destruct (u_blk u); [|reflexivity]. cbn [negb orb] in H.
  unfold go_block_text. destruct (block_content_lines (u_text u)) as [Ht _]. rewrite Ht.
  pose proof (split_nl_lines_no_nl (u_text u)) as Hno.
  destruct (split_nl (u_text u)) as [|l ls]; [reflexivity|].
  cbn [tl] in H. f_equal. apply flat_map_ext_in. intros x Hx. f_equal.
  apply strip_line_eq.
  - inversion Hno as [|a b _ Hls]; subst. rewrite Forall_forall in Hls. now apply Hls.
  - rewrite forallb_forall in H. now apply H.
Qed.

Lemma span_skipn_head (p : N -> bool) l :
  match skipn (span p l) l with [] => True | c :: _ => p c = false end.
Proof.
  induction l as [|c r IH]; cbn [span]; [exact I|].
  destruct (p c) eqn:E; cbn [skipn]; [exact IH|exact E].
Qed.

Lemma blank_tab_fixed c : is_blank_tab cfg_fixed c = is_ws_no_nl c.
Proof.
  unfold is_blank_tab, is_ws_no_nl, cfg_fixed. cbn [fix_ws andb].
  destruct (c =? 32), (c =? 9), (c =? 13), (c =? 11), (c =? 12); reflexivity.
Qed.

Lemma line_ok_fixed l : line_ok cfg_fixed l = true.
Proof.
  unfold line_ok. pose proof (span_skipn_head (is_blank_tab cfg_fixed) l) as H.
  destruct (skipn (span (is_blank_tab cfg_fixed) l) l) as [|c r]; [reflexivity|].
  rewrite blank_tab_fixed in H. now rewrite H.
Qed.

Theorem combine_comments_text_fixed_lemma : forall u, go_ctext cfg_fixed u = spec_content u.
Proof.
  intros u. apply combine_comments_text_lemma. unfold text_ok.
  destruct (u_blk u); [|reflexivity]. cbn [negb orb].
  apply forallb_forall. intros x _. apply line_ok_fixed.
Qed.

(* a block comment whose second line starts with a carriage return (a blank line of a CRLF file) *)
Theorem combine_comments_text_refuted_lemma :
  exists u, go_ctext cfg_asis u <> spec_content u.
Proof. exists (mkunit true [32; 97; 13; 10; 13; 10; 32; 98; 32] 1). vm_compute. discriminate. Qed.


(* ================================================================ phase 1: the lexer on a gap *)
Open Scope nat_scope.

(* where the comments lie: first line, last line, index *)
Fixpoint layout (line idx : nat) (us : list cunit) : list lcm :=
  match us with
  | [] => []
  | u :: r => mklcm (u_blk u) line (line + u_k u) idx u :: layout (line + u_k u + u_nls u) (S idx) r
  end.

Fixpoint end_line (line : nat) (us : list cunit) : nat :=
  match us with
  | [] => line
  | u :: r => end_line (line + u_k u + u_nls u) r
  end.

Lemma end_line_ge us : forall line, line <= end_line line us.
Proof. induction us as [|u r IH]; intros line; cbn [end_line]; [lia|]. specialize (IH (line + u_k u + u_nls u)). lia. Qed.

Lemma newlines_spec n : forall st,
  newlines n st = mklexst (l_cur st + n)
                          (if first_is_block (l_cms st) && Nat.ltb 0 (l_md st) then l_md st + n else l_md st)
                          (l_cms st).
Proof.
  induction n as [|n IH]; intros [cur md cms]; cbn [newlines l_cur l_md l_cms].
  - rewrite !Nat.add_0_r. destruct (first_is_block cms && (0 <? md)); reflexivity.
  - rewrite IH. unfold maybe_newline. cbn [l_cur l_md l_cms].
    destruct (first_is_block cms) eqn:F; cbn [andb].
    + destruct (Nat.ltb_spec 0 md) as [H|H].
      * replace (0 <? S md) with true by (symmetry; apply Nat.ltb_lt; lia). f_equal; lia.
      * replace (0 <? md) with false by (symmetry; apply Nat.ltb_ge; lia). f_equal; lia.
    + f_equal; lia.
Qed.

Lemma first_is_block_app cms c : cms <> [] -> first_is_block (cms ++ [c]) = first_is_block cms.
Proof. destruct cms; [congruence|reflexivity]. Qed.

(* the comments after the first one *)
Lemma lex_rest us : forall cur md cms, cms <> [] ->
  fold_left lex_unit us (mklexst cur md cms)
  = mklexst (end_line cur us)
            (if first_is_block cms && Nat.ltb 0 md then md + (end_line cur us - cur) else md)
            (cms ++ layout cur (length cms) us).
Proof.
  induction us as [|u r IH]; intros cur md cms Hne; cbn [fold_left layout end_line].
  - rewrite Nat.sub_diag, Nat.add_0_r, app_nil_r. destruct (first_is_block cms && (0 <? md)); reflexivity.
  - unfold lex_unit at 2. rewrite newlines_spec. cbn [l_cur l_md l_cms].
    unfold add_comment. cbn [l_cur l_md l_cms].
    destruct cms as [|c0 cms']; [congruence|].
    rewrite newlines_spec. cbn [l_cur l_md l_cms].
    rewrite IH by (destruct cms'; discriminate).
    pose proof (end_line_ge r (cur + u_k u + u_nls u)) as Hge.
    change (first_is_block ((c0 :: cms') ++ [mklcm (u_blk u) cur (cur + u_k u) (length (c0 :: cms')) u]))
      with (c_blk c0). cbn [first_is_block].
    rewrite app_length. cbn [length]. rewrite <- app_assoc. cbn [app].
    f_equal; [|repeat f_equal; lia].
    destruct (c_blk c0); cbn [andb]; [|reflexivity].
    destruct (Nat.ltb_spec 0 md) as [H|H].
    + replace (0 <? md + u_k u) with true by (symmetry; apply Nat.ltb_lt; lia). cbn [andb].
      replace (0 <? md + u_k u + u_nls u) with true by (symmetry; apply Nat.ltb_lt; lia). lia.
    + replace md with 0 by lia. cbn. reflexivity.
Qed.

(* l.maybeDonateComment when the next token is reached *)
Definition md_final (p : nat) (us : list cunit) : nat :=
  match us with
  | [] => 0
  | u :: r => if Nat.eqb p 0 then (if u_blk u then 1 + (end_line p us - (p + u_k u)) else 1) else 0
  end.

Lemma lex_gap_spec g :
  lex_gap g = mklexst (end_line (g_pre g) (g_units g)) (md_final (g_pre g) (g_units g))
                      (layout (g_pre g) 0 (g_units g)).
Proof.
  unfold lex_gap. rewrite newlines_spec. cbn [l_cur l_md l_cms first_is_block andb Nat.add].
  destruct (g_units g) as [|u r]; cbn [fold_left md_final layout end_line]; [reflexivity|].
  unfold lex_unit at 2. rewrite newlines_spec. cbn [l_cur l_md l_cms first_is_block andb].
  unfold add_comment. cbn [l_cur l_md l_cms app length].
  rewrite newlines_spec. cbn [l_cur l_md l_cms first_is_block].
  rewrite lex_rest by discriminate. cbn [first_is_block length app].
  pose proof (end_line_ge r (g_pre g + u_k u + u_nls u)) as Hge.
  f_equal.
  destruct (Nat.eqb_spec (g_pre g) 0) as [E|E]; destruct (u_blk u); cbn [c_blk andb Nat.ltb Nat.leb Nat.add]; try reflexivity.
  - rewrite E in *. cbn [Nat.add] in *.
    replace (0 <? 1 + u_nls u) with true by (symmetry; apply Nat.ltb_lt; lia). lia.
Qed.
