(* Proofs about Model/Comments.v (the Go code) and Model/ProtocComments.v (protoc): properties C03, C23. *)
From Coq Require Import List NArith ZArith Bool Arith Lia FinFun.
From PV Require Import Common.Bytes Common.Corr Model.Lexer Model.Comments Model.ProtocComments.
Import ListNotations.
Open Scope N_scope.

(* ================================================================ the text of one comment *)
Lemma split_nl_nonempty s : split_nl s <> [].
Proof.
  destruct s as [|c r]; cbn [split_nl]; [discriminate|].
  destruct (c =? 10); [discriminate|]. destruct (split_nl r); discriminate.
Qed.

Definition no_nl (l : list N) : Prop := Forall (fun c => c <> 10) l.

Lemma split_nl_lines_no_nl s : Forall no_nl (split_nl s).
Proof.
  induction s as [|c r IH]; cbn [split_nl].
  - repeat constructor.
  - destruct (N.eqb_spec c 10) as [E|E].
    + constructor; [constructor|exact IH].
    + destruct (split_nl r) as [|l ls] eqn:S.
      * repeat constructor. exact E.
      * inversion IH as [|x y H1 H2]; subst. constructor; [constructor; assumption|assumption].
Qed.

Lemma block_content_true_no_nl l : no_nl l -> block_content true l = l.
Proof.
  induction 1 as [|c r Hc _ IH]; cbn [block_content]; [reflexivity|].
  apply N.eqb_neq in Hc. rewrite Hc. now rewrite IH.
Qed.

(* protoc's treatment of the lines after the first one *)
Definition pstrip (l : list N) : list N := block_content false l.

Lemma block_content_lines s :
  (block_content true s = match split_nl s with
                           | l :: ls => l ++ flat_map (fun l => 10 :: pstrip l) ls
                           | [] => [] end) /\
  (block_content false s = match split_nl s with
                            | l :: ls => pstrip l ++ flat_map (fun l => 10 :: pstrip l) ls
                            | [] => [] end).
Proof.
  induction s as [|c r [IHt IHf]].
  - cbn. split; reflexivity.
  - pose proof (split_nl_lines_no_nl r) as Hno.
    cbn [split_nl block_content].
    destruct (split_nl r) as [|l ls] eqn:S; [exfalso; now apply (split_nl_nonempty r)|].
    inversion Hno as [|x y Hl _]; subst.
    destruct (N.eqb_spec c 10) as [E|E].
    + subst c. split.
      * rewrite IHf. cbn [flat_map app]. reflexivity.
      * replace (is_ws_no_nl 10) with false by reflexivity. cbn [N.eqb Pos.eqb].
        rewrite IHf. unfold pstrip at 1. cbn [block_content flat_map app]. reflexivity.
    + split.
      * rewrite IHt. reflexivity.
      * unfold pstrip at 1. cbn [block_content].
        destruct (is_ws_no_nl c).
        { rewrite IHf. reflexivity. }
        destruct (c =? 42).
        { rewrite IHt. rewrite (block_content_true_no_nl l Hl). reflexivity. }
        apply N.eqb_neq in E. rewrite E.
        rewrite IHt. rewrite (block_content_true_no_nl l Hl). reflexivity.
Qed.

(* a line on which the Go code and protoc strip the same prefix: after the blanks and tabs (and, with
   fix_ws, carriage returns, vertical tabs and form feeds) comes no further whitespace character *)
Definition line_ok (cf : cfg) (l : list N) : bool :=
  match skipn (span (is_blank_tab cf) l) l with
  | [] => true
  | c :: _ => negb (is_ws_no_nl c)
  end.

Lemma blank_tab_is_ws cf c : is_blank_tab cf c = true -> is_ws_no_nl c = true.
Proof.
  unfold is_blank_tab, is_ws_no_nl.
  destruct (c =? 32), (c =? 9), (c =? 13), (c =? 11), (c =? 12), (fix_ws cf); cbn; congruence.
Qed.

Lemma strip_line_eq cf l : no_nl l -> line_ok cf l = true -> strip_line cf l = pstrip l.
Proof.
  unfold strip_line, line_ok, pstrip.
  induction 1 as [|c r Hc Hr IH]; intros Hok.
  - reflexivity.
  - cbn [span] in *. destruct (is_blank_tab cf c) eqn:B.
    + cbn [skipn] in *. cbn [block_content]. rewrite (blank_tab_is_ws cf c B). apply IH. exact Hok.
    + cbn [skipn] in *. cbn [block_content].
      apply negb_true_iff in Hok. rewrite Hok.
      destruct (c =? 42).
      * symmetry. apply block_content_true_no_nl. exact Hr.
      * apply N.eqb_neq in Hc. rewrite Hc. f_equal. symmetry. apply block_content_true_no_nl. exact Hr.
Qed.

Definition text_ok (cf : cfg) (u : cunit) : bool :=
  negb (u_blk u) || forallb (line_ok cf) (tl (split_nl (u_text u))).

Lemma flat_map_ext_in {A B} (f g : A -> list B) l : (forall x, In x l -> f x = g x) -> flat_map f l = flat_map g l.
Proof.
  induction l as [|a l IH]; intros H; cbn; [reflexivity|].
  rewrite (H a (or_introl eq_refl)). f_equal. apply IH. intros x Hx. apply H. now right.
Qed.

Theorem combine_comments_text_lemma : forall cf u, text_ok cf u = true -> go_ctext cf u = spec_content u.
Proof.
  intros cf u H. unfold go_ctext, spec_content, text_ok in *.
  destruct (u_blk u); [|reflexivity]. cbn [negb orb] in H.
  unfold go_block_text. destruct (block_content_lines (u_text u)) as [Ht _]. rewrite Ht.
  pose proof (split_nl_lines_no_nl (u_text u)) as Hno.
  destruct (split_nl (u_text u)) as [|l ls]; [reflexivity|].
  cbn [tl] in H. f_equal. apply flat_map_ext_in. intros x Hx. f_equal.
  apply strip_line_eq.
  - inversion Hno as [|a b _ Hls]; subst. rewrite Forall_forall in Hls. now apply Hls.
  - rewrite forallb_forall in H. now apply H.
Qed.

Lemma span_skipn_head (p : N -> bool) l :
  match skipn (span p l) l with [] => True | c :: _ => p c = false end.
Proof.
  induction l as [|c r IH]; cbn [span]; [exact I|].
  destruct (p c) eqn:E; cbn [skipn]; [exact IH|exact E].
Qed.

Lemma blank_tab_repaired c : is_blank_tab cfg_repaired c = is_ws_no_nl c.
Proof.
  unfold is_blank_tab, is_ws_no_nl, cfg_repaired. cbn [fix_ws andb].
  destruct (c =? 32), (c =? 9), (c =? 13), (c =? 11), (c =? 12); reflexivity.
Qed.

Lemma line_ok_repaired l : line_ok cfg_repaired l = true.
Proof.
  unfold line_ok. pose proof (span_skipn_head (is_blank_tab cfg_repaired) l) as H.
  destruct (skipn (span (is_blank_tab cfg_repaired) l) l) as [|c r]; [reflexivity|].
  rewrite blank_tab_repaired in H. now rewrite H.
Qed.

Theorem combine_comments_text_repaired_lemma : forall u, go_ctext cfg_repaired u = spec_content u.
Proof.
  intros u. apply combine_comments_text_lemma. unfold text_ok.
  destruct (u_blk u); [|reflexivity]. cbn [negb orb].
  apply forallb_forall. intros x _. apply line_ok_repaired.
Qed.

(* a block comment whose second line starts with a carriage return (a blank line of a CRLF file) *)
Theorem combine_comments_text_refuted_lemma :
  exists u, go_ctext cfg_pinned u <> spec_content u.
Proof. exists (mkunit true [32; 97; 13; 10; 13; 10; 32; 98; 32] 1). vm_compute. discriminate. Qed.


(* ================================================================ phase 1: the lexer on a gap *)
Open Scope nat_scope.

(* where the comments lie: first line, last line, index *)
Fixpoint layout (line idx : nat) (us : list cunit) : list lcm :=
  match us with
  | [] => []
  | u :: r => mklcm (u_blk u) line (line + u_k u) idx u :: layout (line + u_k u + u_nls u) (S idx) r
  end.

Fixpoint end_line (line : nat) (us : list cunit) : nat :=
  match us with
  | [] => line
  | u :: r => end_line (line + u_k u + u_nls u) r
  end.

Lemma end_line_ge us : forall line, line <= end_line line us.
Proof. induction us as [|u r IH]; intros line; cbn [end_line]; [lia|]. specialize (IH (line + u_k u + u_nls u)). lia. Qed.

Lemma newlines_spec n : forall st,
  newlines n st = mklexst (l_cur st + n)
                          (if first_is_block (l_cms st) && Nat.ltb 0 (l_md st) then l_md st + n else l_md st)
                          (l_cms st).
Proof.
  induction n as [|n IH]; intros [cur md cms]; cbn [newlines l_cur l_md l_cms].
  - rewrite !Nat.add_0_r. destruct (first_is_block cms && (0 <? md)); reflexivity.
  - rewrite IH. unfold maybe_newline. cbn [l_cur l_md l_cms].
    destruct (first_is_block cms) eqn:F; cbn [andb].
    + destruct (Nat.ltb_spec 0 md) as [H|H].
      * replace (0 <? S md) with true by (symmetry; apply Nat.ltb_lt; lia). f_equal; lia.
      * replace (0 <? md) with false by (symmetry; apply Nat.ltb_ge; lia). f_equal; lia.
    + f_equal; lia.
Qed.

Lemma first_is_block_app cms c : cms <> [] -> first_is_block (cms ++ [c]) = first_is_block cms.
Proof. destruct cms; [congruence|reflexivity]. Qed.

(* the comments after the first one *)
Lemma lex_rest us : forall cur md cms, cms <> [] ->
  fold_left lex_unit us (mklexst cur md cms)
  = mklexst (end_line cur us)
            (if first_is_block cms && Nat.ltb 0 md then md + (end_line cur us - cur) else md)
            (cms ++ layout cur (length cms) us).
Proof.
  induction us as [|u r IH]; intros cur md cms Hne; cbn [fold_left layout end_line].
  - rewrite Nat.sub_diag, Nat.add_0_r, app_nil_r. destruct (first_is_block cms && (0 <? md)); reflexivity.
  - unfold lex_unit at 2. rewrite newlines_spec. cbn [l_cur l_md l_cms].
    unfold add_comment. cbn [l_cur l_md l_cms].
    destruct cms as [|c0 cms']; [congruence|].
    rewrite newlines_spec. cbn [l_cur l_md l_cms].
    rewrite IH by (destruct cms'; discriminate).
    pose proof (end_line_ge r (cur + u_k u + u_nls u)) as Hge.
    change (first_is_block ((c0 :: cms') ++ [mklcm (u_blk u) cur (cur + u_k u) (length (c0 :: cms')) u]))
      with (c_blk c0). cbn [first_is_block].
    rewrite app_length. cbn [length]. rewrite <- app_assoc. cbn [app].
    f_equal; [|repeat f_equal; lia].
    destruct (c_blk c0); cbn [andb]; [|reflexivity].
    destruct (Nat.ltb_spec 0 md) as [H|H].
    + replace (0 <? md + u_k u) with true by (symmetry; apply Nat.ltb_lt; lia). cbn [andb].
      replace (0 <? md + u_k u + u_nls u) with true by (symmetry; apply Nat.ltb_lt; lia). lia.
    + replace md with 0 by lia. cbn. reflexivity.
Qed.

(* l.maybeDonateComment when the next token is reached *)
Definition md_final (p : nat) (us : list cunit) : nat :=
  match us with
  | [] => 0
  | u :: r => if Nat.eqb p 0 then (if u_blk u then 1 + (end_line p us - (p + u_k u)) else 1) else 0
  end.

Lemma lex_gap_spec g :
  lex_gap g = mklexst (end_line (g_pre g) (g_units g)) (md_final (g_pre g) (g_units g))
                      (layout (g_pre g) 0 (g_units g)).
Proof.
  unfold lex_gap. rewrite newlines_spec. cbn [l_cur l_md l_cms first_is_block andb Nat.add].
  destruct (g_units g) as [|u r]; cbn [fold_left md_final layout end_line]; [reflexivity|].
  unfold lex_unit at 2. rewrite newlines_spec. cbn [l_cur l_md l_cms first_is_block andb].
  unfold add_comment. cbn [l_cur l_md l_cms app length].
  rewrite newlines_spec. cbn [l_cur l_md l_cms first_is_block].
  rewrite lex_rest by discriminate. cbn [first_is_block length app].
  pose proof (end_line_ge r (g_pre g + u_k u + u_nls u)) as Hge.
  f_equal.
  destruct (Nat.eqb_spec (g_pre g) 0) as [E|E]; destruct (u_blk u); cbn [c_blk andb Nat.ltb Nat.leb Nat.add]; try reflexivity.
  - rewrite E in *. cbn [Nat.add] in *.
    replace (0 <? 1 + u_nls u) with true by (symmetry; apply Nat.ltb_lt; lia). lia.
Qed.

(* ================================================================ grouping *)
(* the groups both algorithms form, on the comments themselves: a new group starts at a block comment,
   after a block comment, and after a blank line *)
Fixpoint rgroups (grp : list cunit) (lst : cunit) (us : list cunit) : list (list cunit) :=
  match us with
  | [] => [grp]
  | u :: r => if u_blk u || u_blk lst || Nat.leb 2 (u_nls lst)
              then grp :: rgroups [u] u r
              else rgroups (grp ++ [u]) u r
  end.

Lemma rgroups_nonnil grp lst us : rgroups grp lst us <> [].
Proof.
  revert grp lst. induction us as [|u r IH]; intros grp lst; cbn [rgroups]; [discriminate|].
  destruct (u_blk u || u_blk lst || (2 <=? u_nls lst)); [discriminate|apply IH].
Qed.

Lemma last_e_app grp c : last_e (grp ++ [c]) = c_e c.
Proof. unfold last_e. rewrite rev_app_distr. reflexivity. Qed.

Lemma first_s_app grp c : grp <> [] -> first_s (grp ++ [c]) = first_s grp.
Proof. destruct grp; [congruence|reflexivity]. Qed.

Lemma last_cons {A} (u : A) r d : last (u :: r) d = last r u.
Proof.
  revert u d. induction r as [|x r IH]; intros u d; [reflexivity|].
  change (last (u :: x :: r) d) with (last (x :: r) d). rewrite (IH x d). symmetry. apply (IH x u).
Qed.

Lemma last_cons_nonnil {A} (x : A) G d : G <> [] -> last (x :: G) d = last G d.
Proof. destruct G; [congruence|reflexivity]. Qed.

Lemma group_loop_spec us : forall grp lc idx,
  grp <> [] -> last_e grp = c_e lc -> c_blk lc = u_blk (c_u lc) ->
  let gs := group_loop (negb (c_blk lc)) (c_e lc) grp (layout (c_e lc + u_nls (c_u lc)) idx us) in
  map (map c_u) gs = rgroups (map c_u grp) (c_u lc) us /\
  concat gs = grp ++ layout (c_e lc + u_nls (c_u lc)) idx us /\
  Forall (fun g => g <> []) gs /\
  first_s (hd [] gs) = first_s grp /\
  last_e (last gs []) + u_nls (last us (c_u lc)) = end_line (c_e lc + u_nls (c_u lc)) us.
Proof.
  induction us as [|u r IH]; intros grp lc idx Hne Hle Hblk; cbn zeta.
  - cbn [layout group_loop map rgroups concat hd last end_line]. rewrite !app_nil_r.
    repeat split; try reflexivity.
    + constructor; [exact Hne|constructor].
    + rewrite Hle. reflexivity.
  - cbn [layout group_loop rgroups end_line]. rewrite last_cons.
    set (c := mklcm (u_blk u) (c_e lc + u_nls (c_u lc)) (c_e lc + u_nls (c_u lc) + u_k u) idx u).
    assert (Hcond : (negb (negb (c_blk c)) || negb (Bool.eqb (negb (c_blk lc)) (negb (c_blk c))) ||
                     (c_e lc + 1 <? c_s c))
                    = (u_blk u || u_blk (c_u lc) || (2 <=? u_nls (c_u lc)))).
    { unfold c. cbn [c_blk c_s]. rewrite Hblk. destruct (u_blk u), (u_blk (c_u lc)); cbn [negb orb Bool.eqb]; try reflexivity.
      all: destruct (Nat.ltb_spec (c_e lc + 1) (c_e lc + u_nls (c_u lc))), (Nat.leb_spec 2 (u_nls (c_u lc))); try reflexivity; lia. }
    rewrite Hcond.
    assert (Hc : c_blk c = u_blk (c_u c)) by reflexivity.
    change (c_e lc + u_nls (c_u lc) + u_k u + u_nls u) with (c_e c + u_nls (c_u c)).
    destruct (u_blk u || u_blk (c_u lc) || (2 <=? u_nls (c_u lc))).
    + specialize (IH [c] c (S idx)). cbn zeta in IH.
      destruct IH as (I1 & I2 & I3 & I4 & I5); [discriminate|reflexivity|exact Hc|].
      cbn [map concat hd].
      repeat split.
      * f_equal. exact I1.
      * rewrite I2. reflexivity.
      * constructor; [exact Hne|exact I3].
      * pose proof (rgroups_nonnil (map c_u [c]) (c_u c) r) as Hn. rewrite <- I1 in Hn.
        rewrite last_cons_nonnil; [exact I5|]. intros E. rewrite E in Hn. now apply Hn.
    + specialize (IH (grp ++ [c]) c (S idx)). cbn zeta in IH.
      destruct IH as (I1 & I2 & I3 & I4 & I5);
        [destruct grp; discriminate|apply last_e_app|exact Hc|].
      repeat split.
      * rewrite I1. rewrite map_app. reflexivity.
      * rewrite I2. rewrite <- app_assoc. reflexivity.
      * exact I3.
      * rewrite I4. apply first_s_app. exact Hne.
      * exact I5.
Qed.

(* ================================================================ the reference description *)
Definition roles := (list cunit * list (list cunit) * list cunit)%type.

Definition go_uroles (cf : cfg) (extra : bool) (g : gap) : roles :=
  let '(t, d, l) := go_roles cf extra g in (map c_u t, map (map c_u) d, map c_u l).

Definition pc_uroles (g : gap) : roles :=
  let c := run_gap g in (trailing c, detached c, if has_comment c then buf c else []).

Definition obs_roles (next : nextk) (r : roles) : roles :=
  if is_scope_end next then (fst (fst r), [], []) else r.

Definition split_last (gs : list (list cunit)) (flushed : bool) : list (list cunit) * list cunit :=
  if flushed then (gs, []) else (removelast gs, last gs []).

Definition ref_roles (g : gap) : roles :=
  match g_units g with
  | [] => ([], [], [])
  | u1 :: r =>
    let lu := last r u1 in
    let flushed := Nat.leb 2 (u_nls lu) || is_scope_end (g_next g) in
    if g_prev g && Nat.eqb (g_pre g) 0 then
      match r with
      | [] => if negb (is_eof (g_next g)) && Nat.eqb (u_nls u1) 0 then ([], [[u1]], []) else ([u1], [], [])
      | u2 :: r' => let '(d, l) := split_last (rgroups [u2] u2 r') flushed in ([u1], d, l)
      end
    else
      let can := g_prev g && Nat.leb (g_pre g) 1 in
      match rgroups [u1] u1 r with
      | [] => ([], [], [])
      | g1 :: gs' =>
        match gs' with
        | [] => if flushed then (if can then (g1, [], []) else ([], [g1], [])) else ([], [], g1)
        | _ => let '(d, l) := split_last gs' flushed in if can then (g1, d, l) else ([], g1 :: d, l)
        end
      end
  end.

Lemma map_last {A B} (f : A -> B) l d : map f (cons d l) <> [] -> last (map f l) (f d) = f (last l d).
Proof. intros _. induction l as [|a l IH]; [reflexivity|]. cbn [map]. destruct l; [reflexivity|]. exact IH. Qed.

Lemma map_last_nil {A B} (f : list A -> list B) (l : list (list A)) : f [] = [] -> last (map f l) [] = f (last l []).
Proof. intros H. induction l as [|a l IH]; [cbn; now rewrite H|]. cbn [map]. destruct l; [reflexivity|]. exact IH. Qed.

Lemma map_removelast {A B} (f : A -> B) l : map f (removelast l) = removelast (map f l).
Proof. induction l as [|a l IH]; [reflexivity|]. cbn [removelast map]. destruct l; [reflexivity|]. cbn [map] in *. now rewrite IH. Qed.

(* arithmetic of the decisions in terms of n = the newlines after the last comment *)
Lemma dec_blank e n E : e + n = E -> Nat.ltb (e + 1) E = Nat.leb 2 n.
Proof. intros <-. destruct (Nat.ltb_spec (e + 1) (e + n)), (Nat.leb_spec 2 n); try reflexivity; lia. Qed.
Lemma dec_same e n E : e + n = E -> Nat.eqb e E = Nat.eqb n 0.
Proof. intros <-. destruct (Nat.eqb_spec e (e + n)), (Nat.eqb_spec n 0); try reflexivity; lia. Qed.
Lemma dec_near e n E : e + n = E -> Nat.leb E (e + 1) = Nat.leb n 1.
Proof. intros <-. destruct (Nat.leb_spec (e + n) (e + 1)), (Nat.leb_spec n 1); try reflexivity; lia. Qed.

Lemma maybe_attach_spec prev E ht gs n :
  gs <> [] -> last_e (last gs []) + n = E ->
  maybe_attach prev E ht gs =
  if (match gs with [_] => true | _ => false end) && negb ht && prev && Nat.eqb (first_s (hd [] gs)) 0 && Nat.eqb n 0
  then (gs, [])
  else if Nat.leb n 1 then (removelast gs, last gs []) else (gs, []).
Proof.
  intros Hne H. unfold maybe_attach. destruct gs as [|g0 rest]; [congruence|].
  rewrite (dec_near _ _ _ H).
  destruct rest as [|g1 rest'].
  - cbn [last hd] in *. rewrite (dec_same _ _ _ H). cbn [andb].
    destruct (negb ht && prev && (first_s g0 =? 0) && (n =? 0)); reflexivity.
  - cbn [andb]. reflexivity.
Qed.

Lemma maybe_donate_spec cf extra E next g0 rest n :
  (rest = [] -> last_e g0 + n = E) ->
  maybe_donate cf extra E next (g0 :: rest) =
  if Nat.leb 2 (first_s g0) then ([], g0 :: rest)
  else match rest with
       | _ :: _ => (g0, rest)
       | [] => if Nat.leb 2 n then (g0, [])
               else if is_closer_or_eof cf extra next
                    then (if negb extra && negb (is_eof next) && Nat.eqb (first_s g0) 0 && Nat.eqb n 0
                          then ([], [g0]) else (g0, []))
                    else ([], [g0])
       end.
Proof.
  intros H. unfold maybe_donate.
  replace (1 <? first_s g0) with (2 <=? first_s g0)
    by (destruct (Nat.ltb_spec 1 (first_s g0)), (Nat.leb_spec 2 (first_s g0)); try reflexivity; lia).
  destruct (2 <=? first_s g0); [reflexivity|].
  destruct rest; [|reflexivity]. specialize (H eq_refl).
  rewrite (dec_blank _ _ _ H), (dec_same _ _ _ H). reflexivity.
Qed.

(* ================================================================ the Go code against the reference description *)
Definition phase2 (cf : cfg) (extra prev : bool) (next : nextk) (nstart : nat) (tl : list lcm * list lcm) :=
  let '(trail_lex, lead_lex) := tl in
  let detached := group_comments lead_lex in
  let '(trail, detached1) :=
    if prev then
      match trail_lex with
      | [] => maybe_donate cf extra nstart next detached
      | _ => (trail_lex, detached)
      end
    else ([], detached) in
  let '(detached2, lead) :=
    maybe_attach prev nstart (match trail with [] => false | _ => true end) detached1 in
  (trail, detached2, lead).

Lemma go_roles_phase2 cf extra g :
  go_roles cf extra g = phase2 cf extra (g_prev g) (g_next g) (l_cur (lex_gap g))
                               (set_prev (g_prev g) (g_next g) (lex_gap g)).
Proof. reflexivity. Qed.

Definition uroles_of (x : list lcm * list (list lcm) * list lcm) : roles :=
  let '(t, d, l) := x in (map c_u t, map (map c_u) d, map c_u l).

(* phase 2 when the lexer gave every comment to the next token *)
Lemma phase2_all cf prev p u1 r next :
  (next = NSep -> fix_sep cf = true) ->
  (prev && Nat.eqb p 0 = false) ->
  obs_roles next (uroles_of (phase2 cf false prev next (end_line p (u1 :: r)) ([], layout p 0 (u1 :: r))))
  = obs_roles next (ref_roles (mkgap prev p (u1 :: r) next)).
Proof.
  intros Hsep Hp0. unfold phase2, ref_roles. cbn [g_units g_prev g_pre g_next]. rewrite Hp0.
  cbn [layout group_comments c_blk c_e].
  set (c1 := mklcm (u_blk u1) p (p + u_k u1) 0 u1).
  destruct (group_loop_spec r [c1] c1 1) as (G1 & G2 & G3 & G4 & G5); [discriminate|reflexivity|reflexivity|].
  cbn zeta in *. change (c_e c1 + u_nls (c_u c1)) with (p + u_k u1 + u_nls u1) in *.
  change (c_blk c1) with (u_blk u1) in *. change (c_e c1) with (p + u_k u1) in *.
  set (gs := group_loop (negb (u_blk u1)) (p + u_k u1) [c1] (layout (p + u_k u1 + u_nls u1) 1 r)) in *.
  cbn [map] in G1. change (c_u c1) with u1 in *. cbn [end_line].
  set (E := end_line (p + u_k u1 + u_nls u1) r) in *.
  set (n := u_nls (last r u1)) in *.
  rewrite <- G1.
  assert (Hgs : gs <> []) by (intros E0; pose proof (rgroups_nonnil [u1] u1 r) as Hn; rewrite <- G1, E0 in Hn; now apply Hn).
  cbn [first_s] in G4. change (c_s c1) with p in G4.
  assert (Hn1 : (n <=? 1) = negb (2 <=? n))
    by (destruct (Nat.leb_spec n 1), (Nat.leb_spec 2 n); cbn; try reflexivity; lia).
  assert (Hn0 : (n =? 0) = true -> (2 <=? n) = false)
    by (intros H0; apply Nat.eqb_eq in H0; apply Nat.leb_gt; lia).
  destruct gs as [|g1 rest]; [congruence|]. cbn [hd] in G4. cbn [map].
  destruct prev.
  - cbn [andb] in Hp0. apply Nat.eqb_neq in Hp0.
    rewrite (maybe_donate_spec cf false E next g1 rest n) by (intros ->; exact G5).
    rewrite G4. cbn [andb negb].
    destruct (Nat.leb_spec 2 p) as [Hp|Hp].
    + (* a blank line before the first comment: nothing for the previous token *)
      replace (p <=? 1) with false by (symmetry; apply Nat.leb_gt; lia).
      rewrite (maybe_attach_spec true E false (g1 :: rest) n) by (congruence || exact G5).
      cbn [hd]. rewrite G4. replace (p =? 0) with false by (symmetry; apply Nat.eqb_neq; lia).
      rewrite !andb_false_r. cbn [andb]. rewrite Hn1.
      destruct rest as [|g2 rest']; cbn [map].
      * unfold obs_roles, uroles_of. destruct (2 <=? n), next; cbn; reflexivity.
      * unfold obs_roles, uroles_of, split_last.
        destruct (2 <=? n); cbn [negb orb].
        { destruct next; cbn; reflexivity. }
        change (removelast (g1 :: g2 :: rest')) with (g1 :: removelast (g2 :: rest')).
        change (last (g1 :: g2 :: rest') []) with (last (g2 :: rest') []).
        change (map c_u g2 :: map (map c_u) rest') with (map (map c_u) (g2 :: rest')).
        rewrite <- (map_removelast (map c_u) (g2 :: rest')).
        rewrite <- (map_last_nil (map c_u) (g2 :: rest')) by reflexivity.
        destruct next; cbn [is_scope_end fst map]; reflexivity.
    + assert (Hp1 : p = 1) by lia. rewrite Hp1.
      change (1 <=? 1) with true. change (1 =? 0) with false. cbn [andb].
      destruct rest as [|g2 rest']; cbn [map].
      * cbn [last] in G5.
        destruct (Nat.leb_spec 2 n) as [Hn|Hn]; cbn [orb].
        { unfold obs_roles, uroles_of. cbn [maybe_attach]. destruct next; reflexivity. }
        destruct next; cbn [is_closer_or_eof is_scope_end is_eof negb andb orb].
        { unfold obs_roles, uroles_of. cbn [maybe_attach is_scope_end]. reflexivity. }
        { unfold obs_roles, uroles_of. cbn [maybe_attach is_scope_end]. reflexivity. }
        { rewrite (Hsep eq_refl). cbn [negb orb].
          rewrite (maybe_attach_spec true E false [g1] n) by (congruence || exact G5).
          cbn [hd]. rewrite G4, Hp1. change (1 =? 0) with false. cbn [andb].
          replace (n <=? 1) with true by (symmetry; apply Nat.leb_le; lia).
          unfold obs_roles, uroles_of. cbn. reflexivity. }
        { rewrite (maybe_attach_spec true E false [g1] n) by (congruence || exact G5).
          cbn [hd]. rewrite G4, Hp1. change (1 =? 0) with false. cbn [andb].
          replace (n <=? 1) with true by (symmetry; apply Nat.leb_le; lia).
          unfold obs_roles, uroles_of. cbn. reflexivity. }
      * change (last (g1 :: g2 :: rest') []) with (last (g2 :: rest') []) in G5.
        assert (Hg1 : g1 <> []) by (inversion G3; assumption).
        replace (match g1 with [] => false | _ :: _ => true end) with true by (destruct g1; [congruence|reflexivity]).
        rewrite (maybe_attach_spec true E true (g2 :: rest') n) by (congruence || exact G5).
        cbn [negb andb]. rewrite !andb_false_r. cbn [andb]. rewrite Hn1.
        unfold obs_roles, uroles_of, split_last.
        destruct (2 <=? n); cbn [negb orb].
        { destruct next; cbn; reflexivity. }
        change (map c_u g2 :: map (map c_u) rest') with (map (map c_u) (g2 :: rest')).
        rewrite <- (map_removelast (map c_u) (g2 :: rest')).
        rewrite <- (map_last_nil (map c_u) (g2 :: rest')) by reflexivity.
        destruct next; cbn [is_scope_end fst map]; reflexivity.
  - cbn [andb].
    rewrite (maybe_attach_spec false E false (g1 :: rest) n) by (congruence || exact G5).
    rewrite !andb_false_r. cbn [andb]. rewrite Hn1.
    destruct rest as [|g2 rest']; cbn [map].
    + unfold obs_roles, uroles_of. destruct (2 <=? n), next; cbn; reflexivity.
    + unfold obs_roles, uroles_of, split_last.
      destruct (2 <=? n); cbn [negb orb].
      * destruct next; cbn; reflexivity.
      * change (removelast (g1 :: g2 :: rest')) with (g1 :: removelast (g2 :: rest')).
        change (last (g1 :: g2 :: rest') []) with (last (g2 :: rest') []).
        change (map c_u g2 :: map (map c_u) rest') with (map (map c_u) (g2 :: rest')).
        rewrite <- (map_removelast (map c_u) (g2 :: rest')).
        rewrite <- (map_last_nil (map c_u) (g2 :: rest')) by reflexivity.
        destruct next; cbn [is_scope_end fst map]; reflexivity.
Qed.

Lemma set_prev_none prev p u1 r next :
  prev && Nat.eqb p 0 = false ->
  set_prev prev next (mklexst (end_line p (u1 :: r)) (md_final p (u1 :: r)) (layout p 0 (u1 :: r)))
  = ([], layout p 0 (u1 :: r)).
Proof.
  intros H. unfold set_prev. cbn [l_cms l_cur l_md layout].
  destruct prev; cbn [negb]; [|reflexivity].
  cbn [andb] in H. unfold md_final. rewrite H. rewrite andb_false_r. reflexivity.
Qed.

(* the tail shared by all cases in which the first comment goes to the previous token *)
Lemma attach_tail (c1 : lcm) u2 r' next E idx line :
  let c2 := mklcm (u_blk u2) line (line + u_k u2) idx u2 in
  let gs2 := group_loop (negb (u_blk u2)) (line + u_k u2) [c2] (layout (line + u_k u2 + u_nls u2) (S idx) r') in
  E = end_line (line + u_k u2 + u_nls u2) r' ->
  obs_roles next (uroles_of (let '(d, l) := maybe_attach true E true gs2 in ([c1], d, l)))
  = obs_roles next (let '(d, l) := split_last (rgroups [u2] u2 r')
                                               (Nat.leb 2 (u_nls (last r' u2)) || is_scope_end next) in
                    ([c_u c1], d, l)).
Proof.
  intros c2 gs2 HE.
  destruct (group_loop_spec r' [c2] c2 (S idx)) as (G1 & G2 & G3 & G4 & G5); [discriminate|reflexivity|reflexivity|].
  cbn zeta in *. change (c_e c2 + u_nls (c_u c2)) with (line + u_k u2 + u_nls u2) in *.
  change (c_blk c2) with (u_blk u2) in *. change (c_e c2) with (line + u_k u2) in *.
  fold gs2 in G1, G2, G3, G4, G5. cbn [map] in G1. change (c_u c2) with u2 in *.
  rewrite <- HE in G5. set (n := u_nls (last r' u2)) in *.
  assert (Hgs : gs2 <> []) by (intros E0; pose proof (rgroups_nonnil [u2] u2 r') as Hn; rewrite <- G1, E0 in Hn; now apply Hn).
  assert (Hn1 : (n <=? 1) = negb (2 <=? n))
    by (destruct (Nat.leb_spec n 1), (Nat.leb_spec 2 n); cbn; try reflexivity; lia).
  rewrite (maybe_attach_spec true E true gs2 n) by assumption.
  cbn [negb andb]. rewrite !andb_false_r. cbn [andb]. rewrite Hn1. rewrite <- G1.
  unfold obs_roles, uroles_of, split_last.
  destruct (2 <=? n); cbn [negb orb].
  - destruct next; cbn; reflexivity.
  - rewrite <- (map_removelast (map c_u) gs2).
    rewrite <- (map_last_nil (map c_u) gs2) by reflexivity.
    destruct next; cbn [is_scope_end fst map]; reflexivity.
Qed.

Ltac nb := repeat match goal with
  | |- context [Nat.ltb ?a ?b] => destruct (Nat.ltb_spec a b)
  | |- context [Nat.leb ?a ?b] => destruct (Nat.leb_spec a b)
  | |- context [Nat.eqb ?a ?b] => destruct (Nat.eqb_spec a b)
  end.

Lemma go_p0_single cf u1 next :
  wf_units [u1] next -> (next = NSep -> fix_sep cf = true) ->
  obs_roles next (uroles_of (phase2 cf false true next (end_line 0 [u1])
       (set_prev true next (mklexst (end_line 0 [u1]) (md_final 0 [u1]) (layout 0 0 [u1])))))
  = obs_roles next (ref_roles (mkgap true 0 [u1] next)).
Proof.
  intros [Hwf _] Hsep.
  unfold ref_roles. cbn [g_units g_prev g_pre g_next last andb Nat.eqb].
  cbn [end_line layout md_final Nat.eqb Nat.add].
  set (c1 := mklcm (u_blk u1) 0 (u_k u1) 0 u1).
  unfold set_prev. cbn [l_cms l_cur l_md negb length c_blk c1].
  assert (Hk : u_blk u1 = false -> u_k u1 = 0) by (intros B; unfold u_k; now rewrite B).
  assert (G5 : last_e [c1] + u_nls u1 = u_k u1 + u_nls u1) by reflexivity.
  assert (M : forall ht, maybe_attach true (u_k u1 + u_nls u1) ht [[c1]] =
              if negb ht && Nat.eqb (u_nls u1) 0 then ([[c1]], [])
              else if Nat.leb (u_nls u1) 1 then ([], [c1]) else ([[c1]], [])).
  { intros ht. rewrite (maybe_attach_spec true _ ht [[c1]] (u_nls u1)) by (congruence || exact G5).
    cbn [hd first_s c_s c1 Nat.eqb andb removelast last]. rewrite andb_true_r. rewrite andb_true_r. reflexivity. }
  assert (D : maybe_donate cf false (u_k u1 + u_nls u1) next [[c1]] =
              if Nat.leb 2 (u_nls u1) then ([c1], [])
              else if is_closer_or_eof cf false next
                   then (if negb (is_eof next) && Nat.eqb (u_nls u1) 0 then ([], [[c1]]) else ([c1], []))
                   else ([], [[c1]])).
  { rewrite (maybe_donate_spec cf false _ next [c1] [] (u_nls u1)) by (intros _; exact G5).
    cbn [first_s c_s c1 negb andb]. change (2 <=? 0) with false. change (0 =? 0) with true. rewrite andb_true_r. reflexivity. }
  destruct (u_blk u1) eqn:B.
  - (* a block comment *)
    cbn [negb orb]. change (1 <? 1) with false. cbn [orb].
    destruct (u_nls u1) as [|n1] eqn:N.
    + (* the next token is on the line where it ends *)
      rewrite !Nat.add_0_r, Nat.sub_diag. rewrite ?Nat.add_0_r.
      match goal with |- context [if ?b then (if 1 <? 1 then ?x else ?y) else ?y] =>
        replace (if b then (if 1 <? 1 then x else y) else y) with y by (destruct b; reflexivity) end.
      unfold phase2. cbn [group_comments group_loop c_blk c_e c1].
      rewrite Nat.add_0_r in D, M. rewrite D. change (2 <=? 0) with false. change (0 =? 0) with true. rewrite andb_true_r.
      destruct next; cbn [is_closer_or_eof is_eof negb andb orb is_scope_end].
      * rewrite ?M. cbn. reflexivity.
      * rewrite ?M. cbn. reflexivity.
      * rewrite (Hsep eq_refl). cbn [negb orb]. rewrite ?M. cbn. reflexivity.
      * rewrite ?M. cbn. reflexivity.
    + (* it is followed by a newline: the lexer gives it to the previous token *)
      replace (u_k u1 + S n1 - u_k u1) with (S n1) by lia.
      replace (u_k u1 + S n1 =? 0) with false by (symmetry; apply Nat.eqb_neq; lia). cbn [andb].
      replace (0 <? u_k u1 + S n1) with true by (symmetry; apply Nat.ltb_lt; lia).
      change (0 <? S (S n1)) with true. change (1 <? S (S n1)) with true. cbn [andb].
      unfold phase2. cbn [group_comments maybe_attach].
      unfold obs_roles, uroles_of. rewrite andb_false_r. destruct next; cbn; reflexivity.
  - (* a line comment *)
    cbn [negb orb]. rewrite (Hk eq_refl). cbn [Nat.add]. rewrite Hk in D, M by reflexivity. cbn [Nat.add] in D, M.
    destruct (u_nls u1) as [|n1] eqn:N.
    + destruct (Hwf eq_refl eq_refl) as [_ ->]. cbn [Nat.eqb andb Nat.ltb Nat.leb].
      unfold phase2. cbn [group_comments maybe_attach]. reflexivity.
    + change (S n1 =? 0) with false. cbn [andb]. change (0 <? S n1) with true. cbn [andb Nat.ltb Nat.leb].
      unfold phase2. cbn [group_comments maybe_attach].
      unfold obs_roles, uroles_of. rewrite andb_false_r. destruct next; cbn; reflexivity.
Qed.

Lemma group_loop_nonnil cs : forall single line grp, group_loop single line grp cs <> [].
Proof.
  induction cs as [|c r IH]; intros single line grp; cbn [group_loop]; [discriminate|].
  destruct (negb (negb (c_blk c)) || negb (eqb single (negb (c_blk c))) || (line + 1 <? c_s c)); [discriminate|apply IH].
Qed.

Lemma end_line_zero us : forall line, end_line line us = 0 ->
  line = 0 /\ Forall (fun u => u_k u = 0 /\ u_nls u = 0) us.
Proof.
  induction us as [|u r IH]; intros line H; cbn [end_line] in H.
  - split; [exact H|constructor].
  - destruct (IH _ H) as [H1 H2]. split; [lia|]. constructor; [lia|exact H2].
Qed.

Lemma go_p0_multi cf u1 u2 r' next :
  wf_units (u1 :: u2 :: r') next ->
  obs_roles next (uroles_of (phase2 cf false true next (end_line 0 (u1 :: u2 :: r'))
       (set_prev true next (mklexst (end_line 0 (u1 :: u2 :: r')) (md_final 0 (u1 :: u2 :: r'))
                                    (layout 0 0 (u1 :: u2 :: r'))))))
  = obs_roles next (ref_roles (mkgap true 0 (u1 :: u2 :: r') next)).
Proof.
  intros Hwf.
  unfold ref_roles. cbn [g_units g_prev g_pre g_next andb Nat.eqb]. rewrite last_cons.
  set (E := end_line 0 (u1 :: u2 :: r')).
  assert (HE : E = end_line (0 + u_k u1 + u_nls u1 + u_k u2 + u_nls u2) r') by reflexivity.
  cbn [layout].
  set (c1 := mklcm (u_blk u1) 0 (0 + u_k u1) 0 u1).
  set (c2 := mklcm (u_blk u2) (0 + u_k u1 + u_nls u1) (0 + u_k u1 + u_nls u1 + u_k u2) 1 u2).
  set (rest := layout (0 + u_k u1 + u_nls u1 + u_k u2 + u_nls u2) 2 r').
  assert (Hmd : (0 <? md_final 0 (u1 :: u2 :: r')) = true).
  { unfold md_final. cbn [Nat.eqb]. destruct (u_blk u1); reflexivity. }
  unfold set_prev. cbn [l_cms l_cur l_md negb length]. rewrite Hmd.
  change (1 <? S (S (length rest))) with true. rewrite orb_true_r. cbn [orb].
  rewrite andb_true_r.
  pose proof (attach_tail c1 u2 r' next E 1 (0 + u_k u1 + u_nls u1) HE) as T.
  cbn zeta in T. fold c2 in T. fold rest in T. change (c_u c1) with u1 in T.
  match goal with |- context [if ?b then ([c1], c2 :: rest) else _] => destruct b eqn:Hcur end.
  - (* the lexer gives the first comment to the previous token *)
    unfold phase2. cbn [group_comments c_blk c_e c2].
    exact T.
  - (* everything is on the line of the previous token and the file goes on *)
    assert (E0 : E = 0 /\ next <> NEof).
    { destruct (Nat.eqb_spec E 0) as [Ez|Ez]; cbn [andb] in Hcur.
      - destruct next; cbn in Hcur; try discriminate; split; (exact Ez || discriminate).
      - apply Nat.ltb_ge in Hcur. lia. }
    destruct E0 as [Ez Hne]. unfold E in Ez.
    destruct (end_line_zero _ _ Ez) as [_ Hz].
    inversion Hz as [|? ? [Hk1 Hn1] Hz']; subst. inversion Hz' as [|? ? [Hk2 Hn2] _]; subst.
    destruct Hwf as [W1 [W2 _]].
    assert (B1 : u_blk u1 = true).
    { destruct (u_blk u1); [reflexivity|]. destruct (W1 eq_refl Hn1) as [Hx _]. discriminate. }
    assert (B2 : u_blk u2 = true).
    { destruct (u_blk u2); [reflexivity|]. destruct (W2 eq_refl Hn2) as [_ Hx]. congruence. }
    unfold phase2. cbn [group_comments group_loop c_blk c_e c_s c1 c2].
    rewrite B2. cbn [negb orb].
    rewrite (maybe_donate_spec cf false E next [c1] _ 0)
      by (intros Hnil; exfalso; revert Hnil; apply group_loop_nonnil).
    cbn [first_s c_s c1]. change (2 <=? 0) with false. cbn iota.
    pose proof (group_loop_nonnil rest (negb true) (0 + u_k u1 + u_nls u1 + u_k u2) [c2]) as Hnn.
    rewrite B2 in T. change (negb true) with false in *.
    destruct (group_loop false (0 + u_k u1 + u_nls u1 + u_k u2) [c2] rest) as [|g gs'] eqn:G; [congruence|].
    exact T.
Qed.

Theorem go_ref cf g :
  wf_gap g -> (g_next g = NSep -> fix_sep cf = true) ->
  obs_roles (g_next g) (go_uroles cf false g) = obs_roles (g_next g) (ref_roles g).
Proof.
  intros Hwf Hsep. change (go_uroles cf false g) with (uroles_of (go_roles cf false g)).
  rewrite go_roles_phase2, lex_gap_spec. cbn [l_cur].
  destruct g as [prev p us next]. unfold wf_gap in Hwf. cbn [g_prev g_pre g_units g_next] in *.
  destruct us as [|u1 r].
  - unfold set_prev, phase2, ref_roles. cbn. destruct prev; reflexivity.
  - destruct (prev && (p =? 0)) eqn:Hp.
    + apply andb_true_iff in Hp. destruct Hp as [-> Hp]. apply Nat.eqb_eq in Hp. subst p.
      destruct r as [|u2 r'].
      * apply go_p0_single; assumption.
      * apply go_p0_multi; assumption.
    + rewrite set_prev_none by exact Hp. apply phase2_all; assumption.
Qed.

(* ================================================================ protoc on a gap *)
(* the collector while the buffer holds the group grp whose last comment is lst; c0 = the collector before *)
Definition open_c (c0 : coll) (grp : list cunit) (lst : cunit) : coll :=
  mkcoll grp true (negb (u_blk lst)) (can_attach_to_prev c0) (num_comments c0)
         (has_trailing_comment c0) (trailing c0) (detached c0).

(* ... after the newlines that follow lst have been read *)
Definition after_unit (c0 : coll) (grp : list cunit) (lst : cunit) : coll :=
  if Nat.leb 2 (u_nls lst) then flush (open_c c0 grp lst) else open_c c0 grp lst.

Definition idle (c : coll) : Prop := has_comment c = false /\ buf c = [].

Lemma flush_open_idle c0 grp lst : idle (flush (open_c c0 grp lst)).
Proof. unfold flush, open_c. cbn. destruct (can_attach_to_prev c0); split; reflexivity. Qed.

Lemma detach_flush_open c0 grp lst : detach_from_prev (flush (open_c c0 grp lst)) = flush (open_c c0 grp lst).
Proof. unfold flush, open_c, detach_from_prev. cbn. destruct (can_attach_to_prev c0); reflexivity. Qed.

Lemma flush_idle c : idle c -> flush c = c.
Proof. intros [H _]. unfold flush. now rewrite H. Qed.

Lemma blank_lines_flushed n c0 grp lst L :
  blank_lines n (mkts (flush (open_c c0 grp lst)) L) = mkts (flush (open_c c0 grp lst)) (L + n).
Proof.
  revert L. induction n as [|n IH]; intros L; cbn [blank_lines].
  - now rewrite Nat.add_0_r.
  - unfold blank_line. cbn [ts_c ts_line]. rewrite (flush_idle _ (flush_open_idle c0 grp lst)).
    rewrite detach_flush_open. rewrite IH. f_equal. lia.
Qed.

Lemma blank_lines_open n c0 grp lst L :
  blank_lines (S n) (mkts (open_c c0 grp lst) L) = mkts (flush (open_c c0 grp lst)) (L + S n).
Proof.
  cbn [blank_lines]. unfold blank_line. cbn [ts_c ts_line]. rewrite detach_flush_open.
  rewrite blank_lines_flushed. f_equal. lia.
Qed.

(* the newlines after a comment *)
Lemma after_newlines c0 grp lst L :
  (match u_nls lst with
   | O => mkts (open_c c0 grp lst) L
   | S m => blank_lines m (mkts (open_c c0 grp lst) (S L))
   end) = mkts (after_unit c0 grp lst) (L + u_nls lst).
Proof.
  unfold after_unit. destruct (u_nls lst) as [|[|m]]; cbn [Nat.leb].
  - now rewrite Nat.add_0_r.
  - cbn [blank_lines]. f_equal. lia.
  - rewrite blank_lines_open. f_equal. lia.
Qed.

Lemma read_idle c u : idle c -> read_comment c u = open_c c [u] u.
Proof.
  intros [H B]. unfold read_comment, open_c. rewrite H. cbn [andb].
  destruct (u_blk u); rewrite B; reflexivity.
Qed.

Lemma loop_unit_idle c L u : idle c -> loop_unit (mkts c L) u = mkts (after_unit c [u] u) (L + u_k u + u_nls u).
Proof.
  intros H. unfold loop_unit. cbn [ts_c ts_line]. rewrite (read_idle c u H). apply after_newlines.
Qed.

Definition brk (lst u : cunit) : bool := u_blk u || u_blk lst || Nat.leb 2 (u_nls lst).

Lemma loop_unit_after c0 grp lst L u : idle c0 -> grp <> [] ->
  loop_unit (mkts (after_unit c0 grp lst) L) u
  = if brk lst u then mkts (after_unit (flush (open_c c0 grp lst)) [u] u) (L + u_k u + u_nls u)
    else mkts (after_unit c0 (grp ++ [u]) u) (L + u_k u + u_nls u).
Proof.
  intros Hi Hg. unfold brk, after_unit at 1.
  destruct (Nat.leb 2 (u_nls lst)) eqn:N.
  - rewrite orb_true_r. apply loop_unit_idle. apply flush_open_idle.
  - rewrite orb_false_r. unfold loop_unit. cbn [ts_c ts_line].
    assert (R : read_comment (open_c c0 grp lst) u
                = if u_blk u || u_blk lst then open_c (flush (open_c c0 grp lst)) [u] u else open_c c0 (grp ++ [u]) u).
    { unfold read_comment. cbn [open_c has_comment is_line_comment andb].
      destruct (u_blk u) eqn:B; cbn [orb].
      - rewrite <- (read_idle _ u (flush_open_idle c0 grp lst)). unfold read_comment. rewrite B.
        destruct (flush_open_idle c0 grp lst) as [H _]. rewrite H. reflexivity.
      - rewrite negb_involutive. destruct (u_blk lst) eqn:B2.
        + rewrite <- (read_idle _ u (flush_open_idle c0 grp lst)). unfold read_comment. rewrite B.
          destruct (flush_open_idle c0 grp lst) as [H _]. rewrite H. reflexivity.
        + unfold open_c. cbn. rewrite B. reflexivity. }
    rewrite R. destruct (u_blk u || u_blk lst); apply after_newlines.
Qed.

(* the state after a whole run of comments *)
Fixpoint walk (c0 : coll) (grp : list cunit) (lst : cunit) (us : list cunit) : coll * list cunit * cunit :=
  match us with
  | [] => (c0, grp, lst)
  | u :: r => if brk lst u then walk (flush (open_c c0 grp lst)) [u] u r else walk c0 (grp ++ [u]) u r
  end.

Lemma loop_walk us : forall c0 grp lst L, idle c0 -> grp <> [] ->
  fold_left loop_unit us (mkts (after_unit c0 grp lst) L)
  = let '(c0', grp', lst') := walk c0 grp lst us in mkts (after_unit c0' grp' lst') (end_line L us).
Proof.
  induction us as [|u r IH]; intros c0 grp lst L Hi Hg; cbn [fold_left walk end_line]; [reflexivity|].
  rewrite loop_unit_after by assumption.
  destruct (brk lst u).
  - apply IH; [apply flush_open_idle|discriminate].
  - apply IH; [exact Hi|destruct grp; discriminate].
Qed.

Definition core_t := (bool * nat * bool * list cunit * list (list cunit))%type.
Definition core (c : coll) : core_t :=
  (can_attach_to_prev c, num_comments c, has_trailing_comment c, trailing c, detached c).
Definition push_core (x : core_t) (g : list cunit) : core_t :=
  let '(can, num, ht, tr, det) := x in
  if can then (false, S num, true, tr ++ g, det) else (false, S num, ht, tr, det ++ [g]).

Lemma core_flush_open c0 grp lst : core (flush (open_c c0 grp lst)) = push_core (core c0) grp.
Proof. unfold core, push_core, flush, open_c. cbn. destruct (can_attach_to_prev c0); reflexivity. Qed.

Lemma removelast_cons_nonnil {A} (x : A) G : G <> [] -> removelast (x :: G) = x :: removelast G.
Proof. destruct G; [congruence|reflexivity]. Qed.

Lemma walk_spec us : forall c0 grp lst, idle c0 ->
  let '(c0', grp', lst') := walk c0 grp lst us in
  grp' = last (rgroups grp lst us) [] /\ lst' = last us lst /\ idle c0' /\
  core c0' = fold_left push_core (removelast (rgroups grp lst us)) (core c0).
Proof.
  induction us as [|u r IH]; intros c0 grp lst Hi; cbn [walk rgroups].
  - cbn. exact (conj eq_refl (conj eq_refl (conj Hi eq_refl))).
  - fold (brk lst u). rewrite last_cons. destruct (brk lst u).
    + specialize (IH (flush (open_c c0 grp lst)) [u] u (flush_open_idle c0 grp lst)).
      destruct (walk (flush (open_c c0 grp lst)) [u] u r) as [[c0' grp'] lst'].
      destruct IH as (I1 & I2 & I3 & I4).
      pose proof (rgroups_nonnil [u] u r) as Hn.
      rewrite last_cons_nonnil, removelast_cons_nonnil by exact Hn.
      cbn [fold_left]. rewrite <- (core_flush_open c0 grp lst). exact (conj I1 (conj I2 (conj I3 I4))).
    + specialize (IH c0 (grp ++ [u]) u Hi).
      destruct (walk c0 (grp ++ [u]) u r) as [[c0' grp'] lst'].
      exact IH.
Qed.

Lemma push_all_flushed gs : forall num ht tr det,
  fold_left push_core gs (false, num, ht, tr, det) = (false, num + length gs, ht, tr, det ++ gs).
Proof.
  induction gs as [|g gs IH]; intros num ht tr det; cbn [fold_left length push_core].
  - rewrite Nat.add_0_r, app_nil_r. reflexivity.
  - rewrite IH. rewrite <- app_assoc. cbn [app]. replace (S num + length gs) with (num + S (length gs)) by lia. reflexivity.
Qed.

Lemma push_all gs can num ht tr det :
  fold_left push_core gs (can, num, ht, tr, det)
  = match gs with
    | [] => (can, num, ht, tr, det)
    | g1 :: rest => if can then (false, num + length gs, true, tr ++ g1, det ++ rest)
                    else (false, num + length gs, ht, tr, det ++ g1 :: rest)
    end.
Proof.
  destruct gs as [|g1 rest]; [reflexivity|]. cbn [fold_left push_core length].
  destruct can; rewrite push_all_flushed.
  - replace (S num + length rest) with (num + S (length rest)) by lia. reflexivity.
  - rewrite <- app_assoc. cbn [app]. replace (S num + length rest) with (num + S (length rest)) by lia. reflexivity.
Qed.

(* the collector at the end of the loop, after the flush at the end of a scope *)
Definition final_c (c0 : coll) (grp : list cunit) (lst : cunit) (next : nextk) : coll :=
  if is_scope_end next then flush (after_unit c0 grp lst) else after_unit c0 grp lst.

Lemma final_c_spec c0 grp lst next :
  final_c c0 grp lst next
  = if Nat.leb 2 (u_nls lst) || is_scope_end next then flush (open_c c0 grp lst) else open_c c0 grp lst.
Proof.
  unfold final_c, after_unit. destruct (Nat.leb 2 (u_nls lst)), (is_scope_end next); cbn [orb]; try reflexivity.
  apply flush_idle. apply flush_open_idle.
Qed.

Definition roles_of (c : coll) : roles := (trailing c, detached c, if has_comment c then buf c else []).

(* the loop over u1 :: r from an idle collector *)
Lemma loop_from_idle c L u1 r next : idle c ->
  let s := fold_left loop_unit (u1 :: r) (mkts c L) in
  let gs := rgroups [u1] u1 r in
  let lu := last r u1 in
  let flushed := Nat.leb 2 (u_nls lu) || is_scope_end next in
  ts_line s = end_line L (u1 :: r) /\
  exists cF, (if is_scope_end next then flush (ts_c s) else ts_c s) = cF /\
    (if flushed
     then has_comment cF = false /\ core cF = fold_left push_core gs (core c)
     else has_comment cF = true /\ buf cF = last gs [] /\ core cF = fold_left push_core (removelast gs) (core c)).
Proof.
  intros Hi. cbn zeta. cbn [fold_left]. rewrite (loop_unit_idle c L u1 Hi).
  rewrite (loop_walk r c [u1] u1 _ Hi) by discriminate.
  pose proof (walk_spec r c [u1] u1 Hi) as W.
  destruct (walk c [u1] u1 r) as [[c0' grp'] lst'].
  destruct W as (W1 & W2 & W3 & W4).
  cbn [ts_c ts_line end_line]. split; [reflexivity|].
  eexists. split; [reflexivity|].
  change (if is_scope_end next then flush (after_unit c0' grp' lst') else after_unit c0' grp' lst')
    with (final_c c0' grp' lst' next).
  rewrite final_c_spec. rewrite W2.
  pose proof (rgroups_nonnil [u1] u1 r) as Hn.
  destruct (Nat.leb 2 (u_nls (last r u1)) || is_scope_end next).
  - split; [apply flush_open_idle|].
    rewrite core_flush_open, W4, W1.
    transitivity (fold_left push_core (removelast (rgroups [u1] u1 r) ++ [last (rgroups [u1] u1 r) []]) (core c)).
    + rewrite fold_left_app. reflexivity.
    + rewrite <- (app_removelast_last [] Hn). reflexivity.
  - repeat split; [exact W1|exact W4].
Qed.

Definition cd : coll := detach_from_prev coll_init.

Lemma blank_lines_cd n : forall L, blank_lines n (mkts cd L) = mkts cd (L + n).
Proof.
  induction n as [|n IH]; intros L; cbn [blank_lines].
  - now rewrite Nat.add_0_r.
  - unfold blank_line. cbn [ts_c ts_line]. change (detach_from_prev (flush cd)) with cd. rewrite IH. f_equal. lia.
Qed.

Lemma blank_lines_init n L :
  blank_lines n (mkts coll_init L) = mkts (if Nat.eqb n 0 then coll_init else cd) (L + n).
Proof.
  destruct n as [|n]; cbn [blank_lines Nat.eqb].
  - now rewrite Nat.add_0_r.
  - unfold blank_line. cbn [ts_c ts_line]. change (detach_from_prev (flush coll_init)) with cd.
    rewrite blank_lines_cd. f_equal. lia.
Qed.

Lemma idle_cd : idle cd. Proof. split; reflexivity. Qed.
Lemma idle_init : idle coll_init. Proof. split; reflexivity. Qed.

Lemma roles_of_flushed c tr det can num ht :
  has_comment c = false -> core c = (can, num, ht, tr, det) -> roles_of c = (tr, det, []).
Proof. intros H C. unfold roles_of, core in *. rewrite H. injection C as _ _ _ -> ->. reflexivity. Qed.

Lemma roles_of_open c tr det can num ht b :
  has_comment c = true -> buf c = b -> core c = (can, num, ht, tr, det) -> roles_of c = (tr, det, b).
Proof. intros H B C. unfold roles_of, core in *. rewrite H, B. injection C as _ _ _ -> ->. reflexivity. Qed.

(* from an idle collector that has seen nothing, without MaybeDetachComment *)
Lemma run_from_start can0 c L u1 r next :
  idle c -> core c = (can0, 0, false, [], []) ->
  roles_of (let s := fold_left loop_unit (u1 :: r) (mkts c L) in
            if is_scope_end next then flush (ts_c s) else ts_c s)
  = let flushed := Nat.leb 2 (u_nls (last r u1)) || is_scope_end next in
    match rgroups [u1] u1 r with
    | [] => ([], [], [])
    | g1 :: gs' =>
      match gs' with
      | [] => if flushed then (if can0 then (g1, [], []) else ([], [g1], [])) else ([], [], g1)
      | _ => let '(d, l) := split_last gs' flushed in if can0 then (g1, d, l) else ([], g1 :: d, l)
      end
    end.
Proof.
  intros Hi Hc. cbn zeta.
  destruct (loop_from_idle c L u1 r next Hi) as (_ & cF & -> & H).
  pose proof (rgroups_nonnil [u1] u1 r) as Hn.
  destruct (rgroups [u1] u1 r) as [|g1 gs']; [congruence|].
  rewrite Hc in H.
  destruct (Nat.leb 2 (u_nls (last r u1)) || is_scope_end next).
  - destruct H as [Hh Hcore]. rewrite push_all in Hcore. unfold split_last.
    destruct can0; cbn [app] in Hcore; rewrite (roles_of_flushed _ _ _ _ _ _ Hh Hcore); destruct gs'; reflexivity.
  - destruct H as (Hh & Hb & Hcore). unfold split_last.
    destruct gs' as [|g2 rest'].
    + cbn [removelast fold_left last] in *. rewrite (roles_of_open _ _ _ _ _ _ _ Hh Hb Hcore). reflexivity.
    + change (removelast (g1 :: g2 :: rest')) with (g1 :: removelast (g2 :: rest')) in Hcore.
      change (last (g1 :: g2 :: rest') []) with (last (g2 :: rest') []) in Hb.
      rewrite push_all in Hcore.
      destruct can0; cbn [app] in Hcore; rewrite (roles_of_open _ _ _ _ _ _ _ Hh Hb Hcore); reflexivity.
Qed.

Lemma finish_plain pl tce next s :
  (match pl with Some l => Nat.eqb l (ts_line s) | None => false end) = false ->
  (match tce with Some l => Nat.eqb l (ts_line s) | None => false end) = false ->
  finish pl tce next s = if is_scope_end next then flush (ts_c s) else ts_c s.
Proof. intros H1 H2. unfold finish. rewrite H1, H2. cbn [orb]. rewrite andb_false_r. reflexivity. Qed.

Lemma fold_loop_line us : forall s, ts_line (fold_left loop_unit us s) = end_line (ts_line s) us.
Proof.
  induction us as [|u r IH]; intros s; cbn [fold_left end_line]; [reflexivity|].
  rewrite IH. f_equal. unfold loop_unit. cbn [ts_line].
  destruct (u_nls u) as [|m]; cbn [ts_line]; [lia|].
  assert (B : forall n t, ts_line (blank_lines n t) = ts_line t + n).
  { induction n as [|n IHn]; intros t; cbn [blank_lines]; [lia|]. rewrite IHn. unfold blank_line. cbn [ts_line]. lia. }
  rewrite B. cbn [ts_line]. lia.
Qed.

Lemma maybe_detach_many c : Nat.eqb (num_comments c + (if has_comment c then 1 else 0)) 1 = false ->
  maybe_detach_comment c = c.
Proof. intros H. unfold maybe_detach_comment. now rewrite H. Qed.

Theorem pc_ref g : pc_uroles g = ref_roles g.
Proof.
  change (pc_uroles g) with (roles_of (run_gap g)).
  destruct g as [prev p us next]. unfold run_gap, ref_roles. cbn [g_prev g_pre g_units g_next].
  destruct prev.
  - destruct p as [|p'].
    + (* the first comment, if any, is on the line of the previous token *)
      destruct us as [|u1 r]; [reflexivity|].
      cbn [andb Nat.eqb].
      rewrite (read_idle coll_init u1 idle_init).
      rewrite blank_lines_flushed.
      set (c1 := flush (open_c coll_init [u1] u1)).
      assert (Hc1 : core c1 = (false, 1, true, [u1], [])) by reflexivity.
      assert (Hi1 : idle c1) by apply flush_open_idle.
      set (L := u_k u1 + match u_nls u1 with 0 => 0 | S _ => 1 end + pred (u_nls u1)).
      assert (HL : L = u_k u1 + u_nls u1) by (unfold L; destruct (u_nls u1); cbn; lia).
      destruct r as [|u2 r'].
      * cbn [fold_left last]. unfold finish. cbn [ts_c ts_line].
        rewrite (flush_idle c1 Hi1).
        replace ((0 =? L) || ((if u_blk u1 then u_k u1 else 0) =? L)) with (u_nls u1 =? 0).
        2:{ rewrite HL. unfold u_k. destruct (u_blk u1).
            - destruct (Nat.eqb_spec (u_nls u1) 0), (Nat.eqb_spec 0 (count_nl (u_text u1) + u_nls u1)),
                (Nat.eqb_spec (count_nl (u_text u1)) (count_nl (u_text u1) + u_nls u1)); cbn; try reflexivity; lia.
            - cbn [Nat.add]. destruct (Nat.eqb_spec (u_nls u1) 0), (Nat.eqb_spec 0 (u_nls u1)); cbn; try reflexivity; lia. }
        destruct (if is_scope_end next then c1 else c1) eqn:Ec; rewrite <- Ec; clear Ec.
        replace (if is_scope_end next then c1 else c1) with c1 by (destruct (is_scope_end next); reflexivity).
        destruct (negb (is_eof next) && (u_nls u1 =? 0)); reflexivity.
      * rewrite last_cons.
        assert (Hline : forall s, ts_line s = L -> ts_line (fold_left loop_unit (u2 :: r') s) <> 0 \/ True) by (intros; now right).
        unfold finish.
        set (s := fold_left loop_unit (u2 :: r') (mkts c1 L)).
        destruct (loop_from_idle c1 L u2 r' next Hi1) as (_ & cF & HcF & H). fold s in HcF.
        rewrite HcF. rewrite Hc1 in H.
        assert (Hmd : maybe_detach_comment cF = cF).
        { apply maybe_detach_many.
          destruct (Nat.leb 2 (u_nls (last r' u2)) || is_scope_end next).
          - destruct H as [Hh Hcore]. rewrite push_all_flushed in Hcore. unfold core in Hcore.
            injection Hcore as _ Hnum _ _ _. rewrite Hnum, Hh.
            pose proof (rgroups_nonnil [u2] u2 r') as Hn. destruct (rgroups [u2] u2 r'); [congruence|]. reflexivity.
          - destruct H as (Hh & _ & Hcore). rewrite push_all_flushed in Hcore. unfold core in Hcore.
            injection Hcore as _ Hnum _ _ _. rewrite Hnum, Hh.
            apply Nat.eqb_neq. lia. }
        replace (if negb (is_eof next) && _ then maybe_detach_comment cF else cF) with cF
          by (destruct (negb (is_eof next) && _); [now rewrite Hmd|reflexivity]).
        unfold split_last.
        destruct (Nat.leb 2 (u_nls (last r' u2)) || is_scope_end next).
        -- destruct H as [Hh Hcore]. rewrite push_all_flushed in Hcore. cbn [app] in Hcore.
           apply (roles_of_flushed _ _ _ _ _ _ Hh Hcore).
        -- destruct H as (Hh & Hb & Hcore). rewrite push_all_flushed in Hcore. cbn [app] in Hcore.
           apply (roles_of_open _ _ _ _ _ _ _ Hh Hb Hcore).
    + (* the first comment is on a later line *)
      cbn [andb Nat.eqb]. rewrite blank_lines_init.
      set (c := if p' =? 0 then coll_init else cd).
      assert (Hi : idle c) by (unfold c; destruct (p' =? 0); [apply idle_init|apply idle_cd]).
      assert (Hc : core c = (Nat.leb (S p') 1, 0, false, [], [])).
      { unfold c. destruct p'; reflexivity. }
      rewrite finish_plain.
      2:{ rewrite fold_loop_line. cbn [ts_line].
          pose proof (end_line_ge us (1 + p')). apply Nat.eqb_neq. lia. }
      2:{ reflexivity. }
      destruct us as [|u1 r].
      * cbn [fold_left ts_c]. rewrite (flush_idle c Hi). unfold c. destruct (p' =? 0), (is_scope_end next); reflexivity.
      * apply (run_from_start _ c (1 + p') u1 r next Hi Hc).
  - (* start of the file *)
    cbn [andb]. unfold cd in *. fold cd. rewrite blank_lines_cd.
    rewrite finish_plain by reflexivity.
    destruct us as [|u1 r].
    + cbn [fold_left ts_c]. rewrite (flush_idle cd idle_cd). destruct (is_scope_end next); reflexivity.
    + apply (run_from_start false cd (0 + p) u1 r next idle_cd eq_refl).
Qed.

(* ================================================================ who gets which comment *)
Theorem attribution_eq_lemma : forall cf g,
  wf_gap g -> (g_next g = NSep -> fix_sep cf = true) ->
  obs_roles (g_next g) (go_uroles cf false g) = obs_roles (g_next g) (pc_uroles g).
Proof. intros cf g Hwf Hsep. rewrite (go_ref cf g Hwf Hsep), pc_ref. reflexivity. Qed.

(* ================================================================ the roles split the comments of the gap *)
Lemma group_loop_concat cs : forall single line grp, concat (group_loop single line grp cs) = grp ++ cs.
Proof.
  induction cs as [|c r IH]; intros single line grp; cbn [group_loop concat].
  - now rewrite app_nil_r.
  - destruct (negb (negb (c_blk c)) || negb (eqb single (negb (c_blk c))) || (line + 1 <? c_s c)); cbn [concat].
    + rewrite IH. reflexivity.
    + rewrite IH. rewrite <- app_assoc. reflexivity.
Qed.

Lemma group_comments_concat cs : concat (group_comments cs) = cs.
Proof. destruct cs as [|c r]; [reflexivity|]. unfold group_comments. apply group_loop_concat. Qed.

Lemma set_prev_split prev next st : let '(a, b) := set_prev prev next st in a ++ b = l_cms st.
Proof.
  unfold set_prev. destruct (l_cms st) as [|c0 rest]; [reflexivity|].
  destruct (negb prev); [reflexivity|].
  destruct ((0 <? _) && (0 <? l_md st)); [|reflexivity].
  destruct (negb (c_blk c0) || _ || _); reflexivity.
Qed.

Lemma maybe_donate_split cf extra E next lead :
  let '(t, d) := maybe_donate cf extra E next lead in t ++ concat d = concat lead.
Proof.
  unfold maybe_donate. destruct lead as [|g0 rest]; [reflexivity|].
  destruct (1 <? first_s g0); [reflexivity|].
  destruct rest as [|g1 rest']; [|reflexivity].
  destruct (last_e g0 + 1 <? E); [reflexivity|].
  destruct (is_closer_or_eof cf extra next); [|reflexivity].
  destruct (negb extra && _ && _ && _); reflexivity.
Qed.

Lemma concat_removelast_last {A} (l : list (list A)) : l <> [] -> concat (removelast l) ++ last l [] = concat l.
Proof.
  intros H. rewrite (app_removelast_last [] H) at 3. rewrite concat_app. cbn [concat]. now rewrite app_nil_r.
Qed.

Lemma maybe_attach_split prev E ht lead :
  let '(d, l) := maybe_attach prev E ht lead in concat d ++ l = concat lead.
Proof.
  unfold maybe_attach. destruct lead as [|g0 rest]; [reflexivity|].
  match goal with |- context [if ?b then (g0 :: rest, []) else _] => destruct b end.
  - now rewrite app_nil_r.
  - destruct (E <=? last_e (last (g0 :: rest) []) + 1).
    + apply concat_removelast_last. discriminate.
    + now rewrite app_nil_r.
Qed.

Theorem roles_partition_lemma : forall cf extra g,
  let '(t, d, l) := go_roles cf extra g in
  t ++ concat d ++ l = layout (g_pre g) 0 (g_units g).
Proof.
  intros cf extra g. rewrite go_roles_phase2. unfold phase2.
  rewrite lex_gap_spec. cbn [l_cur].
  set (st := mklexst (end_line (g_pre g) (g_units g)) (md_final (g_pre g) (g_units g)) (layout (g_pre g) 0 (g_units g))).
  pose proof (set_prev_split (g_prev g) (g_next g) st) as S1.
  assert (Hnp : fst (set_prev false (g_next g) st) = [])
    by (unfold set_prev; destruct (l_cms st); reflexivity).
  set (E := end_line (g_pre g) (g_units g)) in *.
  destruct (g_prev g).
  - destruct (set_prev true (g_next g) st) as [tl ll]. cbn [l_cms st] in S1. rewrite <- S1.
    pose proof (group_comments_concat ll) as GC.
    destruct tl as [|x tl'].
    + pose proof (maybe_donate_split cf extra E (g_next g) (group_comments ll)) as D.
      destruct (maybe_donate cf extra E (g_next g) (group_comments ll)) as [t d1].
      pose proof (maybe_attach_split true E (match t with [] => false | _ :: _ => true end) d1) as A.
      destruct (maybe_attach true E (match t with [] => false | _ :: _ => true end) d1) as [d2 l].
      rewrite A, D, GC. reflexivity.
    + pose proof (maybe_attach_split true E true (group_comments ll)) as A.
      destruct (maybe_attach true E true (group_comments ll)) as [d2 l].
      rewrite A, GC. reflexivity.
  - destruct (set_prev false (g_next g) st) as [tl ll]. cbn [fst] in Hnp. subst tl.
    cbn [l_cms st app] in S1. rewrite <- S1.
    pose proof (group_comments_concat ll) as GC.
    pose proof (maybe_attach_split false E false (group_comments ll)) as A.
    destruct (maybe_attach false E false (group_comments ll)) as [d2 l].
    cbn [app]. rewrite A, GC. reflexivity.
Qed.

(* ================================================================ from roles to texts *)
Lemma map_cu_layout us : forall line idx, map c_u (layout line idx us) = us.
Proof. induction us as [|u r IH]; intros line idx; cbn [layout map c_u]; [reflexivity|]. now rewrite IH. Qed.

Lemma combine_units cf grp : combine cf grp = flat_map (go_ctext cf) (map c_u grp).
Proof. unfold combine. induction grp as [|c r IH]; cbn [flat_map map]; [reflexivity|]. now rewrite IH. Qed.

Definition set_field_u (cf : cfg) (grp : list cunit) : option (list N) :=
  if nonempty grp
  then (if fix_empty cf then (match flat_map (go_ctext cf) grp with [] => None | s => Some s end)
        else Some (flat_map (go_ctext cf) grp))
  else None.

Definition go_out (cf : cfg) (r : roles) : comments_out :=
  let '(t, d, l) := r in (set_field_u cf t, map (flat_map (go_ctext cf)) d, set_field_u cf l).

Definition pc_out (r : roles) : comments_out :=
  let '(t, d, l) := r in (attach (render t), map render d, attach (render l)).

Lemma set_field_units cf grp : set_field cf grp = set_field_u cf (map c_u grp).
Proof. unfold set_field, set_field_u. rewrite combine_units. destruct grp; reflexivity. Qed.

Lemma go_attribution_out cf extra g : go_attribution_mode cf extra g = go_out cf (go_uroles cf extra g).
Proof.
  unfold go_attribution_mode, go_uroles, go_out. destruct (go_roles cf extra g) as [[t d] l].
  rewrite !set_field_units. f_equal. f_equal. rewrite map_map. apply map_ext. intros a. apply combine_units.
Qed.

Lemma next_with_comments_out g : next_with_comments g = pc_out (pc_uroles g).
Proof.
  unfold next_with_comments, pc_out, pc_uroles. destruct (has_comment (run_gap g)); reflexivity.
Qed.

Lemma observable_go_out cf next r : observable next (go_out cf r) = go_out cf (obs_roles next r).
Proof. unfold observable, obs_roles. destruct r as [[t d] l]. destruct (is_scope_end next); reflexivity. Qed.

Lemma observable_pc_out next r : observable next (pc_out r) = pc_out (obs_roles next r).
Proof. unfold observable, obs_roles. destruct r as [[t d] l]. destruct (is_scope_end next); reflexivity. Qed.

Definition all_units (r : roles) : list cunit := fst (fst r) ++ concat (snd (fst r)) ++ snd r.

Lemma go_uroles_units cf extra g : all_units (go_uroles cf extra g) = g_units g.
Proof.
  pose proof (roles_partition_lemma cf extra g) as P. unfold go_uroles, all_units.
  destruct (go_roles cf extra g) as [[t d] l]. cbn [fst snd].
  rewrite <- (map_cu_layout (g_units g) (g_pre g) 0), <- P.
  rewrite !map_app, concat_map. reflexivity.
Qed.

Lemma obs_units next r : incl (all_units (obs_roles next r)) (all_units r).
Proof.
  unfold obs_roles, all_units. destruct r as [[t d] l]. destruct (is_scope_end next); cbn [fst snd concat app].
  - rewrite app_nil_r. apply incl_appl, incl_refl.
  - apply incl_refl.
Qed.

(* the comments of the gap on which the code as configured and protoc produce the same text and the same
   presence of the field *)
Definition unit_ok (cf : cfg) (u : cunit) : Prop :=
  text_ok cf u = true /\ (fix_empty cf = true \/ spec_content u <> []).
Definition gap_ok (cf : cfg) (g : gap) : Prop := Forall (unit_ok cf) (g_units g).

Lemma render_ok cf grp : Forall (unit_ok cf) grp -> flat_map (go_ctext cf) grp = render grp.
Proof.
  intros H. unfold render. apply flat_map_ext_in. intros u Hu. rewrite Forall_forall in H.
  apply combine_comments_text_lemma. apply (H u Hu).
Qed.

Lemma set_field_ok cf grp : Forall (unit_ok cf) grp -> set_field_u cf grp = attach (render grp).
Proof.
  intros H. unfold set_field_u. rewrite (render_ok cf grp H).
  destruct grp as [|u r]; [reflexivity|]. cbn [nonempty].
  destruct (fix_empty cf) eqn:Fe; [unfold attach; destruct (render (u :: r)); reflexivity|].
  inversion H as [|? ? [_ [Hf|Hne]] _]; subst; [congruence|].
  unfold render. cbn [flat_map]. destruct (spec_content u) eqn:S; [congruence|]. reflexivity.
Qed.

Lemma go_pc_out cf r : Forall (unit_ok cf) (all_units r) -> go_out cf r = pc_out r.
Proof.
  destruct r as [[t d] l]. unfold all_units. cbn [fst snd]. intros H.
  apply Forall_app in H. destruct H as [Ht H]. apply Forall_app in H. destruct H as [Hd Hl].
  unfold go_out, pc_out. rewrite (set_field_ok cf t Ht), (set_field_ok cf l Hl). f_equal. f_equal.
  apply map_ext_in. intros grp Hg. apply render_ok.
  rewrite Forall_forall in *. intros u Hu. apply Hd. apply in_concat. exists grp. split; assumption.
Qed.

Theorem comments_eq_lemma : forall cf g,
  wf_gap g -> (g_next g = NSep -> fix_sep cf = true) -> gap_ok cf g ->
  observable (g_next g) (go_attribution_mode cf false g) = observable (g_next g) (next_with_comments g).
Proof.
  intros cf g Hwf Hsep Hok.
  rewrite go_attribution_out, next_with_comments_out, observable_go_out, observable_pc_out.
  rewrite <- (attribution_eq_lemma cf g Hwf Hsep).
  apply go_pc_out.
  rewrite Forall_forall. intros u Hu. apply obs_units in Hu. rewrite go_uroles_units in Hu.
  unfold gap_ok in Hok. rewrite Forall_forall in Hok. now apply Hok.
Qed.

(* the code before the three repairs *)
Theorem comments_eq_partial_lemma : forall g,
  wf_gap g -> g_next g <> NSep -> gap_ok cfg_pinned g ->
  observable (g_next g) (go_attribution_pinned g) = observable (g_next g) (next_with_comments g).
Proof. intros g Hwf Hn Hok. apply comments_eq_lemma; [exact Hwf|congruence|exact Hok]. Qed.

(* the code as it is (with the three repairs): every gap *)
Theorem comments_eq_protoc_lemma : forall g,
  wf_gap g -> observable (g_next g) (go_attribution g) = observable (g_next g) (next_with_comments g).
Proof.
  intros g Hwf. apply comments_eq_lemma; [exact Hwf|reflexivity|].
  unfold gap_ok. rewrite Forall_forall. intros u _. split; [|left; reflexivity].
  unfold text_ok. destruct (u_blk u); [|reflexivity]. cbn [negb orb].
  apply forallb_forall. intros x _. apply line_ok_repaired.
Qed.

(* the three classes of gaps on which the code before the repairs differs from protoc *)
Definition g_sep : gap := mkgap true 1 [mkunit false [32; 99]%N 1] NSep.        (* newline, // c, newline, ; *)
Definition g_empty : gap := mkgap true 1 [mkunit true []%N 1] NOther.          (* newline, an empty block comment, newline *)
Definition g_cr : gap := mkgap true 1 [mkunit true [32; 97; 13; 10; 13; 10; 32; 98; 32]%N 1] NOther.

Theorem comments_eq_refuted_lemma :
  (wf_gap g_sep /\ observable (g_next g_sep) (go_attribution_pinned g_sep) <> observable (g_next g_sep) (next_with_comments g_sep)) /\
  (wf_gap g_empty /\ observable (g_next g_empty) (go_attribution_pinned g_empty) <> observable (g_next g_empty) (next_with_comments g_empty)) /\
  (wf_gap g_cr /\ observable (g_next g_cr) (go_attribution_pinned g_cr) <> observable (g_next g_cr) (next_with_comments g_cr)).
Proof.
  repeat split; try (cbn; intros; discriminate); vm_compute; discriminate.
Qed.

(* ================================================================ commentsUsed: a comment is emitted once *)
Lemma cid_eqb_eq a b : cid_eqb a b = true <-> a = b.
Proof.
  unfold cid_eqb. destruct a as [a1 a2], b as [b1 b2]. cbn [fst snd]. rewrite andb_true_iff, !Nat.eqb_eq.
  split; [intros [-> ->]; reflexivity|intros E; injection E; auto].
Qed.

Lemma used_in c used : existsb (cid_eqb c) used = true <-> In c used.
Proof.
  rewrite existsb_exists. split.
  - intros (x & Hx & E). apply cid_eqb_eq in E. now subst.
  - intros H. exists c. split; [exact H|now apply cid_eqb_eq].
Qed.

(* one lookup in the commentsUsed map for a side (the leading side or the trailing side of a gap) and
   what is then written to the location *)
Definition step (st : list cid * list cid) (S : list cid) : list cid * list cid :=
  let '(used, out) := st in
  let '(u, used') := comment_used used S in (used', if u then out else out ++ S).

Section Once.
  Variable F : list cid -> Prop.
  Hypothesis F_nodup : forall S, F S -> NoDup S.
  Hypothesis F_sep : forall S S', F S -> F S' -> S = S' \/ (forall x, In x S -> ~ In x S').

  Definition inv (st : list cid * list cid) : Prop :=
    NoDup (snd st) /\
    forall x, In x (snd st) -> exists S c r, F S /\ S = c :: r /\ In x S /\ In c (fst st).

  Lemma step_inv st S : F S -> inv st -> inv (step st S).
  Proof.
    intros HF [Hnd Hblk]. destruct st as [used out]. cbn [fst snd] in *. unfold step, comment_used.
    destruct S as [|c r].
    - cbn [app]. rewrite app_nil_r. split; assumption.
    - destruct (existsb (cid_eqb c) used) eqn:U.
      + split; assumption.
      + assert (Hc : ~ In c used) by (rewrite <- used_in; congruence).
        split; cbn [fst snd].
        * (* out ++ c :: r has no duplicates *)
          assert (Hdis : forall x, In x (c :: r) -> ~ In x out).
          { intros x Hx Ho. destruct (Hblk x Ho) as (S' & c' & r' & HF' & E' & Hin' & Hu').
            destruct (F_sep _ _ HF HF') as [Eq|Dis].
            - rewrite E' in Eq. injection Eq as -> _. contradiction.
            - exact (Dis x Hx Hin'). }
          clear -Hnd Hdis HF F_nodup. pose proof (F_nodup _ HF) as Hs.
          revert Hnd Hdis. induction out as [|a out IH]; intros Hnd Hdis; cbn [app]; [exact Hs|].
          inversion Hnd as [|? ? Ha Hnd']; subst. constructor.
          -- rewrite in_app_iff. intros [H|H]; [contradiction|]. apply (Hdis a H). now left.
          -- apply IH; [exact Hnd'|]. intros x Hx Ho. apply (Hdis x Hx). now right.
        * intros x Hx. rewrite in_app_iff in Hx. destruct Hx as [Hx|Hx].
          -- destruct (Hblk x Hx) as (S' & c' & r' & HF' & E' & Hin' & Hu').
             exists S', c', r'. repeat split; try assumption. now right.
          -- exists (c :: r), c, r. repeat split; try assumption. now left.
  Qed.

  Lemma steps_inv sides : Forall F sides -> forall st, inv st -> inv (fold_left step sides st).
  Proof.
    induction 1 as [|S sides HS _ IH]; intros st Hst; cbn [fold_left]; [exact Hst|].
    apply IH. now apply step_inv.
  Qed.
End Once.

(* the sides of the gaps of one file *)
Definition lead_side (cf : cfg) (extra : bool) (gaps : list gap) (gi : nat) : list cid :=
  let '(_, d, l) := go_roles cf extra (gap_at gaps gi) in concat (map (ids gi) d) ++ ids gi l.
Definition trail_side (cf : cfg) (extra : bool) (gaps : list gap) (gi : nat) : list cid :=
  let '(t, _, _) := go_roles cf extra (gap_at gaps gi) in ids gi t.

Definition side (cf : cfg) (extra : bool) (gaps : list gap) (S : list cid) : Prop :=
  exists gi, S = lead_side cf extra gaps gi \/ S = trail_side cf extra gaps gi.

Lemma layout_idx us : forall line idx, map c_idx (layout line idx us) = seq idx (length us).
Proof. induction us as [|u r IH]; intros line idx; cbn [layout map length seq c_idx]; [reflexivity|]. now rewrite IH. Qed.

Lemma ids_app gi a b : ids gi (a ++ b) = ids gi a ++ ids gi b.
Proof. unfold ids. apply map_app. Qed.

Lemma ids_concat gi d : ids gi (concat d) = concat (map (ids gi) d).
Proof. unfold ids. apply concat_map. Qed.

Lemma sides_of_gap cf extra gaps gi :
  trail_side cf extra gaps gi ++ lead_side cf extra gaps gi
  = map (fun i => (gi, i)) (seq 0 (length (g_units (gap_at gaps gi)))).
Proof.
  unfold trail_side, lead_side. pose proof (roles_partition_lemma cf extra (gap_at gaps gi)) as P.
  destruct (go_roles cf extra (gap_at gaps gi)) as [[t d] l].
  rewrite <- ids_concat, <- !ids_app, P. unfold ids.
  rewrite <- (layout_idx (g_units (gap_at gaps gi)) (g_pre (gap_at gaps gi)) 0). rewrite map_map. reflexivity.
Qed.

Lemma side_gap cf extra gaps gi x :
  In x (trail_side cf extra gaps gi ++ lead_side cf extra gaps gi) -> fst x = gi.
Proof. rewrite sides_of_gap, in_map_iff. intros (i & <- & _). reflexivity. Qed.

Lemma sides_nodup cf extra gaps gi : NoDup (trail_side cf extra gaps gi ++ lead_side cf extra gaps gi).
Proof.
  rewrite sides_of_gap. apply FinFun.Injective_map_NoDup; [|apply seq_NoDup].
  intros a b E. now injection E.
Qed.

Lemma nodup_app_parts {A} (a b : list A) : NoDup (a ++ b) -> NoDup a /\ NoDup b.
Proof.
  induction a as [|y a IH]; intros H; cbn [app] in H; [split; [constructor|exact H]|].
  inversion H as [|? ? Hy H']; subst. destruct (IH H') as [Ha Hb]. split; [|exact Hb].
  constructor; [|exact Ha]. intros Hin. apply Hy. rewrite in_app_iff. now left.
Qed.

Lemma side_nodup cf extra gaps S : side cf extra gaps S -> NoDup S.
Proof.
  intros [gi [-> | ->]]; pose proof (sides_nodup cf extra gaps gi) as H.
  - exact (proj2 (nodup_app_parts _ _ H)).
  - exact (proj1 (nodup_app_parts _ _ H)).
Qed.

Lemma nodup_app_disjoint {A} (a b : list A) : NoDup (a ++ b) -> forall x, In x a -> ~ In x b.
Proof.
  induction a as [|y a IH]; intros H x Hx; [contradiction|]. cbn [app] in H. inversion H as [|? ? Hy H']; subst.
  destruct Hx as [->|Hx].
  - intros Hb. apply Hy. rewrite in_app_iff. now right.
  - now apply IH.
Qed.

Lemma side_sep cf extra gaps S S' : side cf extra gaps S -> side cf extra gaps S' ->
  S = S' \/ (forall x, In x S -> ~ In x S').
Proof.
  intros [gi HS] [gj HS'].
  destruct (Nat.eq_dec gi gj) as [->|Hne].
  - pose proof (sides_nodup cf extra gaps gj) as Hnd.
    destruct HS as [-> | ->], HS' as [-> | ->]; try (left; reflexivity); right.
    + intros x Hl Ht. exact (nodup_app_disjoint _ _ Hnd x Ht Hl).
    + exact (nodup_app_disjoint _ _ Hnd).
  - right. intros x Hx Hx'. apply Hne.
    assert (Hi : fst x = gi) by (apply (side_gap cf extra gaps gi); rewrite in_app_iff; destruct HS as [-> | ->]; [right|left]; exact Hx).
    assert (Hj : fst x = gj) by (apply (side_gap cf extra gaps gj); rewrite in_app_iff; destruct HS' as [-> | ->]; [right|left]; exact Hx').
    congruence.
Qed.

(* groups are never empty *)
Definition nonnil (g : list lcm) : Prop := g <> [].

Lemma group_loop_nonnil_groups cs : forall single line grp, grp <> [] -> Forall nonnil (group_loop single line grp cs).
Proof.
  induction cs as [|c r IH]; intros single line grp Hg; cbn [group_loop].
  - constructor; [exact Hg|constructor].
  - destruct (negb (negb (c_blk c)) || negb (eqb single (negb (c_blk c))) || (line + 1 <? c_s c)).
    + constructor; [exact Hg|]. apply IH. discriminate.
    + apply IH. destruct grp; discriminate.
Qed.

Lemma group_comments_nonnil cs : Forall nonnil (group_comments cs).
Proof. destruct cs as [|c r]; [constructor|]. apply group_loop_nonnil_groups. discriminate. Qed.

Lemma Forall_removelast {A} (P : A -> Prop) l : Forall P l -> Forall P (removelast l).
Proof.
  induction 1 as [|a l Ha Hl IH]; [constructor|]. cbn [removelast]. destruct l; [constructor|].
  constructor; assumption.
Qed.

Lemma maybe_donate_nonnil cf extra E next lead : Forall nonnil lead ->
  Forall nonnil (snd (maybe_donate cf extra E next lead)).
Proof.
  intros H. unfold maybe_donate. destruct lead as [|g0 rest]; [constructor|].
  destruct (1 <? first_s g0); [exact H|].
  inversion H as [|? ? H0 Hr]; subst.
  destruct rest as [|g1 rest']; [|exact Hr].
  destruct (last_e g0 + 1 <? E); [constructor|].
  destruct (is_closer_or_eof cf extra next); [|exact H].
  destruct (negb extra && _ && _ && _); [exact H|constructor].
Qed.

Lemma maybe_attach_nonnil prev E ht lead : Forall nonnil lead ->
  Forall nonnil (fst (maybe_attach prev E ht lead)).
Proof.
  intros H. unfold maybe_attach. destruct lead as [|g0 rest]; [constructor|].
  match goal with |- context [if ?b then (g0 :: rest, []) else _] => destruct b end; [exact H|].
  destruct (E <=? last_e (last (g0 :: rest) []) + 1); [|exact H].
  apply Forall_removelast. exact H.
Qed.

Lemma go_roles_nonnil cf extra g : Forall nonnil (snd (fst (go_roles cf extra g))).
Proof.
  rewrite go_roles_phase2. unfold phase2.
  destruct (set_prev (g_prev g) (g_next g) (lex_gap g)) as [tl ll].
  pose proof (group_comments_nonnil ll) as G.
  set (E := l_cur (lex_gap g)).
  assert (H1 : Forall nonnil (snd (if g_prev g then match tl with
                                     | [] => maybe_donate cf extra E (g_next g) (group_comments ll)
                                     | _ :: _ => (tl, group_comments ll) end else ([], group_comments ll)))).
  { destruct (g_prev g); [|exact G]. destruct tl; [apply maybe_donate_nonnil; exact G|exact G]. }
  destruct (if g_prev g then match tl with
                             | [] => maybe_donate cf extra E (g_next g) (group_comments ll)
                             | _ :: _ => (tl, group_comments ll) end else ([], group_comments ll)) as [trail d1].
  cbn [snd] in H1.
  pose proof (maybe_attach_nonnil (g_prev g) E (match trail with [] => false | _ :: _ => true end) d1 H1) as H2.
  destruct (maybe_attach (g_prev g) E (match trail with [] => false | _ :: _ => true end) d1) as [d2 l].
  exact H2.
Qed.

(* what a location holds, in the order in which newLocWithGivenComments looks the comments up *)
Definition loc_ids (o : loc) : list cid := (concat (o_det o) ++ o_lead o) ++ o_trail o.

Lemma comment_used_head used d0 r l : d0 <> [] ->
  comment_used used d0 = comment_used used (concat (d0 :: r) ++ l).
Proof. intros H. destruct d0 as [|c d0']; [congruence|]. reflexivity. Qed.

Lemma with_given_steps used opt path span t d l :
  (forall d0 r, d = d0 :: r -> d0 <> []) ->
  let '(o, used') := with_given used opt path span t d l in
  fold_left step [concat d ++ l; t] (used, []) = (used', loc_ids o).
Proof.
  intros Hd. unfold with_given. cbn [fold_left]. unfold step at 2.
  assert (E : (match d with d0 :: _ => comment_used used d0 | [] => comment_used used l end)
              = comment_used used (concat d ++ l)).
  { destruct d as [|d0 r]; [reflexivity|]. apply comment_used_head. exact (Hd d0 r eq_refl). }
  rewrite E. destruct (comment_used used (concat d ++ l)) as [u1 used1].
  unfold step. destruct (comment_used used1 t) as [u2 used2].
  unfold loc_ids. destruct u1, u2; cbn [o_det o_lead o_trail concat app]; rewrite ?app_nil_r; reflexivity.
Qed.

Definition req_sides (cf : cfg) (extra : bool) (gaps : list gap) (r : req) : list (list cid) :=
  let both := [lead_side cf extra gaps (r_lead r); trail_side cf extra gaps (r_trail r)] in
  match r_kind r with
  | KWithout => []
  | KPlain => if extra then both else []
  | KFull => both
  end.

Lemma step_shift1 used out S :
  step (used, out) S = (fst (step (used, []) S), out ++ snd (step (used, []) S)).
Proof.
  unfold step. destruct (comment_used used S) as [u used']. cbn [fst snd app].
  destruct u; [now rewrite app_nil_r|reflexivity].
Qed.

Lemma step_shift sides : forall used out,
  fold_left step sides (used, out)
  = (fst (fold_left step sides (used, [])), out ++ snd (fold_left step sides (used, []))).
Proof.
  induction sides as [|S sides IH]; intros used out; cbn [fold_left fst snd]; [now rewrite app_nil_r|].
  rewrite (step_shift1 used out S).
  destruct (step (used, []) S) as [u' o1] eqn:E1. cbn [fst snd].
  rewrite (IH u' (out ++ o1)), (IH u' o1). cbn [fst snd]. now rewrite app_assoc.
Qed.

Lemma gen_req_steps cf extra gaps used r :
  let '(o, used') := gen_req cf extra gaps used r in
  fold_left step (req_sides cf extra gaps r) (used, []) = (used', loc_ids o).
Proof.
  unfold gen_req, req_sides.
  assert (Full : let '(o, used') :=
                   (let '(_, d, l) := go_roles cf extra (gap_at gaps (r_lead r)) in
                    let '(t, _, _) := go_roles cf extra (gap_at gaps (r_trail r)) in
                    with_given used (r_opt r) (r_path r) (r_span r) (ids (r_trail r) t)
                               (map (ids (r_lead r)) d) (ids (r_lead r) l)) in
                 fold_left step [lead_side cf extra gaps (r_lead r); trail_side cf extra gaps (r_trail r)] (used, [])
                 = (used', loc_ids o)).
  { unfold lead_side, trail_side.
    pose proof (go_roles_nonnil cf extra (gap_at gaps (r_lead r))) as Hn.
    destruct (go_roles cf extra (gap_at gaps (r_lead r))) as [[t1 d] l].
    destruct (go_roles cf extra (gap_at gaps (r_trail r))) as [[t d2] l2].
    cbn [fst snd] in Hn.
    apply with_given_steps. intros d0 r0 E. destruct d as [|g0 d']; [discriminate|].
    cbn [map] in E. injection E as <- _. inversion Hn as [|? ? H0 _]; subst.
    unfold ids. destruct g0; [now elim H0|discriminate]. }
  destruct (r_kind r).
  - reflexivity.
  - destruct extra; [exact Full|reflexivity].
  - exact Full.
Qed.

Definition emitting (optlocs : bool) (r : req) : bool := negb (r_opt r && negb optlocs).

Lemma gen_locs_steps cf extra optlocs gaps rs : forall used,
  snd (fold_left step (flat_map (req_sides cf extra gaps) (filter (emitting optlocs) rs)) (used, []))
  = flat_map loc_ids (gen_locs cf extra optlocs gaps used rs).
Proof.
  induction rs as [|r rest IH]; intros used; cbn [gen_locs filter flat_map fold_left snd]; [reflexivity|].
  unfold emitting at 1. destruct (r_opt r && negb optlocs); cbn [negb].
  - apply IH.
  - cbn [flat_map]. rewrite fold_left_app.
    pose proof (gen_req_steps cf extra gaps used r) as G.
    destruct (gen_req cf extra gaps used r) as [o used'].
    rewrite G. rewrite step_shift. cbn [snd flat_map]. rewrite IH. reflexivity.
Qed.

Theorem comment_used_once_lemma : forall cf extra optlocs gaps rs,
  NoDup (flat_map loc_ids (gen_locs cf extra optlocs gaps [] rs)).
Proof.
  intros cf extra optlocs gaps rs. rewrite <- gen_locs_steps.
  assert (HF : Forall (side cf extra gaps) (flat_map (req_sides cf extra gaps) (filter (emitting optlocs) rs))).
  { rewrite Forall_forall. intros S HS. apply in_flat_map in HS. destruct HS as (r & _ & HS).
    unfold req_sides in HS.
    assert (B : In S [lead_side cf extra gaps (r_lead r); trail_side cf extra gaps (r_trail r)] -> side cf extra gaps S).
    { intros [<-|[<-|[]]]; [exists (r_lead r); now left|exists (r_trail r); now right]. }
    destruct (r_kind r); [destruct HS|destruct extra; [now apply B|destruct HS]|now apply B]. }
  pose proof (steps_inv (side cf extra gaps) (side_nodup cf extra gaps) (side_sep cf extra gaps) _ HF ([], [])) as I.
  destruct I as [I _]; [|exact I].
  split; [constructor|intros x []].
Qed.

(* ================================================================ the boolean form of wf_gap used by the correspondence *)
Lemma wf_gapb_iff g : wf_gapb g = true <-> wf_gap g.
Proof.
  unfold wf_gapb, wf_gap. generalize (g_next g) as next. induction (g_units g) as [|u r IH]; intros next; cbn [wf_unitsb wf_units].
  - split; auto.
  - rewrite andb_true_iff, IH. apply and_iff_compat_r.
    destruct (u_blk u); cbn [orb negb].
    + split; [intros _ H; discriminate|reflexivity].
    + destruct (Nat.eqb_spec (u_nls u) 0) as [E|E]; cbn [negb orb].
      * rewrite andb_true_iff. split.
        -- intros [H1 H2] _ _. destruct r; [|discriminate]. destruct next; try discriminate. split; reflexivity.
        -- intros H. destruct (H eq_refl E) as [-> ->]. split; reflexivity.
      * split; [intros _ _ H; contradiction|reflexivity].
Qed.
