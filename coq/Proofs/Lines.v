(* Facts about newline positions (Model/Lines.v), shared by the C32 and C13 proofs. *)
From Coq Require Import List NArith Bool Lia ZifyBool ZifyN ZifyNat Arith.
From PV Require Import Model.Lines.
Import ListNotations.
Open Scope nat_scope.

Lemma is_nl_true c : is_nl c = true <-> c = 10%N.
Proof. unfold is_nl. apply N.eqb_eq. Qed.

Lemma is_nl_false c : is_nl c = false <-> c <> 10%N.
Proof. unfold is_nl. apply N.eqb_neq. Qed.

Lemma no_nl_nil : no_nl [].
Proof. intros c []. Qed.

Lemma no_nl_cons c s : no_nl (c :: s) <-> c <> 10%N /\ no_nl s.
Proof.
  unfold no_nl. split.
  - intros H. split; [apply H; now left|]. intros x Hx. apply H. now right.
  - intros [Hc Hs] x [<-|Hx]; [assumption|now apply Hs].
Qed.

Lemma no_nl_app a b : no_nl (a ++ b) <-> no_nl a /\ no_nl b.
Proof.
  unfold no_nl. split.
  - intros H. split; intros x Hx; apply H, in_or_app; [now left|now right].
  - intros [Ha Hb] x Hx. apply in_app_or in Hx. destruct Hx; [now apply Ha|now apply Hb].
Qed.

Lemma count_nl_app a b : count_nl (a ++ b) = count_nl a + count_nl b.
Proof. induction a as [|c a IH]; [reflexivity|]. cbn [app count_nl]. destruct (is_nl c); lia. Qed.

Lemma count_nl_no_nl s : no_nl s -> count_nl s = 0.
Proof.
  induction s as [|c s IH]; [reflexivity|]. intros H. apply no_nl_cons in H. destruct H as [Hc Hs].
  cbn [count_nl]. apply is_nl_false in Hc. rewrite Hc. now apply IH.
Qed.

Lemma nl_after_from_app a : forall pos b,
  nl_after_from pos (a ++ b) = nl_after_from pos a ++ nl_after_from (pos + length a) b.
Proof.
  induction a as [|c a IH]; intros pos b.
  - cbn [app nl_after_from length]. now rewrite Nat.add_0_r.
  - cbn [app nl_after_from length]. rewrite IH. replace (S pos + length a) with (pos + S (length a)) by lia.
    destruct (is_nl c); reflexivity.
Qed.

Lemma nl_after_from_no_nl s : forall pos, no_nl s -> nl_after_from pos s = [].
Proof.
  induction s as [|c s IH]; intros pos H; [reflexivity|]. apply no_nl_cons in H. destruct H as [Hc Hs].
  cbn [nl_after_from]. apply is_nl_false in Hc. rewrite Hc. now apply IH.
Qed.

Lemma nl_after_from_bounds s : forall pos x, In x (nl_after_from pos s) -> pos < x <= pos + length s.
Proof.
  induction s as [|c s IH]; intros pos x H; [destruct H|].
  cbn [nl_after_from length] in *. destruct (is_nl c).
  - destruct H as [<-|H]; [lia|]. apply IH in H. lia.
  - apply IH in H. lia.
Qed.

Lemma nl_after_from_length s : forall pos, length (nl_after_from pos s) = count_nl s.
Proof.
  induction s as [|c s IH]; intros pos; [reflexivity|]. cbn [nl_after_from count_nl].
  destruct (is_nl c); cbn [length]; now rewrite IH.
Qed.

(* a line prefix: everything before the start of some line *)
Definition line_prefix (A : list N) : Prop := A = [] \/ exists A', A = A' ++ [10%N].

(* every prefix of a text splits into complete lines and a newline-free rest *)
Lemma split_last_nl X : exists A P, X = A ++ P /\ line_prefix A /\ no_nl P.
Proof.
  induction X as [|c X IH] using rev_ind.
  - exists [], []. split; [reflexivity|]. split; [now left|apply no_nl_nil].
  - destruct IH as (A & P & -> & HA & HP).
    destruct (N.eq_dec c 10) as [->|Hc].
    + exists ((A ++ P) ++ [10%N]), []. split; [now rewrite app_nil_r|]. split; [right; now exists (A ++ P)|apply no_nl_nil].
    + exists A, (P ++ [c]). split; [now rewrite app_assoc|]. split; [assumption|].
      apply no_nl_app. split; [assumption|]. apply no_nl_cons. split; [assumption|apply no_nl_nil].
Qed.

Lemma text_decomp (text : list N) off : off <= length text ->
  exists A P R, text = A ++ P ++ R /\ off = length A + length P /\ line_prefix A /\ no_nl P.
Proof.
  intros H. destruct (split_last_nl (firstn off text)) as (A & P & HX & HA & HP).
  exists A, P, (skipn off text). split; [|split; [|split]]; try assumption.
  - rewrite app_assoc, <- HX. symmetry. apply firstn_skipn.
  - rewrite <- app_length, <- HX. rewrite firstn_length. lia.
Qed.

(* the rest of the line: either no further newline, or a first one *)
Lemma split_first_nl R : no_nl R \/ exists R1 R2, R = R1 ++ 10%N :: R2 /\ no_nl R1.
Proof.
  induction R as [|c R IH]; [left; apply no_nl_nil|].
  destruct (N.eq_dec c 10) as [->|Hc].
  - right. exists [], R. split; [reflexivity|apply no_nl_nil].
  - destruct IH as [H|(R1 & R2 & -> & H1)].
    + left. apply no_nl_cons. now split.
    + right. exists (c :: R1), R2. split; [reflexivity|]. apply no_nl_cons. now split.
Qed.

Lemma line_prefix_last A : line_prefix A -> last (nl_after A) 0 = length A.
Proof.
  intros [->|(A' & ->)]; [reflexivity|].
  unfold nl_after. rewrite nl_after_from_app. cbn [nl_after_from is_nl N.eqb Pos.eqb length Nat.add].
  rewrite last_last, app_length. cbn [length]. lia.
Qed.

Lemma line_prefix_count A : line_prefix A -> forall x, In x (nl_after A) -> x <= length A.
Proof. intros _ x H. apply nl_after_from_bounds in H. lia. Qed.

(* the table of line starts, 0 followed by the offsets after each newline, around an offset:
   text = A ++ P ++ R with A a line prefix and P newline-free *)
Lemma lines_decomp A P R : line_prefix A -> no_nl P ->
  exists L1, 0 :: nl_after (A ++ P ++ R) = L1 ++ length A :: nl_after_from (length A + length P) R
             /\ (forall y, In y L1 -> y < length A) /\ length L1 = count_nl A.
Proof.
  intros HA HP. unfold nl_after. rewrite !nl_after_from_app. cbn [Nat.add].
  rewrite (nl_after_from_no_nl P) by assumption. cbn [app].
  destruct HA as [->|(A' & ->)].
  - exists []. cbn. split; [reflexivity|]. split; [intros y []|reflexivity].
  - exists (0 :: nl_after_from 0 A'). rewrite nl_after_from_app.
    cbn [nl_after_from is_nl N.eqb Pos.eqb Nat.add]. rewrite !app_length. cbn [length].
    split; [|split].
    + cbn [app]. rewrite <- app_assoc. cbn [app]. repeat f_equal; lia.
    + intros y [<-|Hy]; [lia|]. apply nl_after_from_bounds in Hy. lia.
    + rewrite nl_after_from_length, count_nl_app. cbn. lia.
Qed.

Lemma line_start_decomp A P R : line_prefix A -> no_nl P ->
  line_start (A ++ P ++ R) (length A + length P) = length A.
Proof.
  intros HA HP. unfold line_start.
  rewrite app_assoc, <- app_length, firstn_app, Nat.sub_diag, firstn_all, firstn_O, app_nil_r.
  unfold nl_after. rewrite nl_after_from_app, (nl_after_from_no_nl P), app_nil_r by assumption.
  now apply line_prefix_last.
Qed.

(* slicing the decomposed text *)
Lemma slice_mid (A P R : list N) : slice (A ++ P ++ R) (length A) (length A + length P) = P.
Proof.
  unfold slice. rewrite skipn_app, Nat.sub_diag, skipn_all. cbn [app skipn].
  replace (length A + length P - length A) with (length P) by lia.
  now rewrite firstn_app, Nat.sub_diag, firstn_all, firstn_O, app_nil_r.
Qed.

Lemma slice_mid_to (A X R : list N) n : n = length A + length X ->
  slice (A ++ X ++ R) (length A) n = X.
Proof. intros ->. apply slice_mid. Qed.
