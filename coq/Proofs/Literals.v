(* C14: what the lexer model decodes from literals.  String literals: the decoder inverts the
   C-style escaper of Model/Escape.v (internal.EscapeBytes, the same escaping protoc uses for bytes
   defaults) and the two-digit hex spelling, for every byte string; integer literals have the
   mathematical value of their digits in base 10, 8 and 16, with the overflow rules of the code. *)
From Coq Require Import List NArith ZArith Bool Lia Arith.
From PV Require Import Common.Bytes Model.Utf8 Proofs.Utf8 Model.Escape Proofs.Escape Model.Lexer Proofs.Lexer.
Import ListNotations.
Open Scope N_scope.

Lemma dec_ascii c t : c < 128 -> decode_rune (c :: t) = (c, 1%nat).
Proof. apply decode_rune_ascii. Qed.

Lemma encode_rune_ascii c : c < 128 -> encode_rune c = [c].
Proof. intros H. unfold encode_rune. apply N.ltb_lt in H. rewrite H. reflexivity. Qed.

(* per byte value: what one iteration of readStringLiteral does with the escape of that byte *)
Definition lex_esc_ok (q c : N) : bool :=
  match escape_byte c with
  | [x] => (x <? 128) && negb (x =? 10) && negb (x =? q) && negb (x =? 0) && negb (x =? 92) && (x =? c)
  | [b; e] => (b =? 92) && (e <? 128) && negb ((e =? 120) || (e =? 88)) && negb (is_octdigit e)
              && negb (e =? 117) && negb (e =? 85)
              && (match simple_esc e with Some v => v =? c | None => false end)
  | [b; d1; d2; d3] => (b =? 92) && (d1 <? 128) && (d2 <? 128) && (d3 <? 128)
              && negb ((d1 =? 120) || (d1 =? 88))
              && is_octdigit d1 && is_octdigit d2 && is_octdigit d3
              && (digits_val 8 [d1; d2; d3] =? c) && negb (255 <? c)
  | _ => false
  end.

Lemma lex_esc_sweep_dq : forallb (lex_esc_ok 34) all_bytes = true.
Proof. vm_compute. reflexivity. Qed.
Lemma lex_esc_sweep_sq : forallb (lex_esc_ok 39) all_bytes = true.
Proof. vm_compute. reflexivity. Qed.

Lemma lex_esc q c : (q = 34 \/ q = 39) -> c < 256 -> lex_esc_ok q c = true.
Proof.
  intros [->| ->] Hc; [exact (sweep_bytes _ lex_esc_sweep_dq c Hc)|exact (sweep_bytes _ lex_esc_sweep_sq c Hc)].
Qed.

(* chunk lemma: one iteration decodes one escaped byte, whatever follows *)
Lemma string_step_escape q c t pos st : (q = 34 \/ q = 39) -> c < 256 ->
  string_step q pos (escape_byte c ++ t) st =
  SCont (pos + length (escape_byte c)) t (emit st [c]).
Proof.
  intros Hq Hc. pose proof (lex_esc q c Hq Hc) as H. unfold lex_esc_ok in H.
  destruct (escape_byte c) as [|x [|e [|d2 [|d3 [|? ?]]]]]; try discriminate.
  - rewrite !andb_true_iff in H. destruct H as [[[[[H128 H10] Hqq] H0] H92] Hx].
    apply N.ltb_lt in H128. apply N.eqb_eq in Hx. subst x.
    apply negb_true_iff in H10, Hqq, H0, H92.
    unfold string_step. cbn [app]. rewrite (dec_ascii c t H128). cbn [skipn].
    rewrite H10, Hqq, H0, H92. cbn [negb]. rewrite (encode_rune_ascii c H128).
    replace (pos + 1)%nat with (pos + length [c])%nat by reflexivity. reflexivity.
  - rewrite !andb_true_iff in H. destruct H as [[[[[[Hb He] Hxx] Hoct] Hu] HU] Hs].
    apply N.eqb_eq in Hb. subst x. apply N.ltb_lt in He.
    apply negb_true_iff in Hxx, Hoct, Hu, HU.
    unfold string_step. cbn [app]. rewrite (dec_ascii 92 (e :: t) ltac:(reflexivity)). cbn [skipn].
    replace (92 =? 10) with false by reflexivity. replace (92 =? 0) with false by reflexivity.
    replace (92 =? q) with false by (destruct Hq as [->| ->]; reflexivity).
    replace (negb (92 =? 92)) with false by reflexivity.
    rewrite (dec_ascii e t He). cbn [skipn]. rewrite Hxx, Hoct, Hu, HU.
    destruct (simple_esc e) as [v|]; [|discriminate]. apply N.eqb_eq in Hs. subst v.
    cbn [length]. replace (pos + 1 + 1)%nat with (pos + 2)%nat by lia. reflexivity.
  - rewrite !andb_true_iff in H. destruct H as [[[[[[[[[Hb H1] H2] H3] Hxx] Ho1] Ho2] Ho3] Hv] Hle].
    apply N.eqb_eq in Hb. subst x. rename e into d1.
    apply N.ltb_lt in H1, H2, H3. apply negb_true_iff in Hxx, Hle. apply N.eqb_eq in Hv.
    unfold string_step. cbn [app]. rewrite (dec_ascii 92 (d1 :: d2 :: d3 :: t) ltac:(reflexivity)). cbn [skipn].
    replace (92 =? 10) with false by reflexivity. replace (92 =? 0) with false by reflexivity.
    replace (92 =? q) with false by (destruct Hq as [->| ->]; reflexivity).
    replace (negb (92 =? 92)) with false by reflexivity.
    rewrite (dec_ascii d1 _ H1). cbn [skipn]. rewrite Hxx, Ho1.
    rewrite (dec_ascii d2 _ H2). cbn [skipn]. rewrite Ho2. cbn [negb].
    rewrite (dec_ascii d3 _ H3). cbn [skipn]. rewrite Ho3. cbn [negb].
    rewrite Hv, Hle. cbn [length]. replace (pos + 1 + 1 + 1 + 1)%nat with (pos + 4)%nat by lia. reflexivity.
Qed.

Definition st_empty : sstate := {| s_buf := []; s_pend := None; s_flushed := [] |}.

Lemma scan_string_escaped q : (q = 34 \/ q = 39) -> forall b, Bytes b ->
  forall fuel pos st tail, (length (escape_bytes b) < fuel)%nat ->
  scan_string fuel q pos (escape_bytes b ++ q :: tail) st =
  SDone (pos + length (escape_bytes b) + 1) (emit st b).
Proof.
  intros Hq b Hb. induction Hb as [|c b Hc Hb IH]; intros fuel pos st tail Hf.
  - destruct fuel as [|fuel]; [cbn in Hf; lia|]. cbn [escape_bytes flat_map app scan_string].
    unfold string_step. rewrite (dec_ascii q tail ltac:(destruct Hq as [->| ->]; reflexivity)).
    replace (q =? 10) with false by (destruct Hq as [->| ->]; reflexivity). rewrite N.eqb_refl.
    cbn [length skipn]. unfold emit. rewrite app_nil_r. destruct st. f_equal. lia.
  - cbn [escape_bytes flat_map] in *. fold (escape_bytes b) in *. rewrite app_length in Hf.
    pose proof (escape_byte_length c) as Hl.
    destruct fuel as [|fuel]; [lia|]. cbn [scan_string]. rewrite <- app_assoc.
    rewrite (string_step_escape q c _ pos st Hq Hc).
    rewrite IH by lia. f_equal; [rewrite app_length; lia|].
    unfold emit. cbn. rewrite <- app_assoc. reflexivity.
Qed.

(* the dispatch on a quote followed by the escaped text and the closing quote yields the bytes *)
Theorem string_literal_decodes_escaped_lemma : forall q b tail pos, (q = 34 \/ q = 39) -> Bytes b ->
  dispatch pos (q :: escape_bytes b ++ q :: tail) =
  DItem (mk (IToken (TStr b)) pos (length (escape_bytes b) + 2)).
Proof.
  intros q b tail pos Hq Hb. unfold dispatch.
  rewrite (dec_ascii q _ ltac:(destruct Hq as [->| ->]; reflexivity)). cbn [skipn].
  replace (q =? 46) with false by (destruct Hq as [->| ->]; reflexivity).
  replace (is_ident_start q) with false by (destruct Hq as [->| ->]; reflexivity).
  replace (is_digit q) with false by (destruct Hq as [->| ->]; reflexivity).
  replace ((q =? 39) || (q =? 34)) with true by (destruct Hq as [->| ->]; reflexivity).
  rewrite (scan_string_escaped q Hq b Hb) by (rewrite app_length; cbn; lia).
  cbn [emit s_pend s_buf app]. f_equal. f_equal. lia.
Qed.

(* ---- two-digit hex spelling of every byte ---- *)
Definition hexdigit (v : N) : N := if v <? 10 then 48 + v else 87 + v.
Definition hex2 (c : N) : list N := [92; 120; hexdigit (c / 16); hexdigit (c mod 16)].

Definition lex_hex_ok (c : N) : bool :=
  match hex2 c with
  | [_; _; h1; h2] => (h1 <? 128) && (h2 <? 128) && negb (h1 =? 34) && negb (h1 =? 39) && negb (h1 =? 92)
                      && is_hexdigit h2 && (match parse_uint16_32 [h1; h2] with Some v => v mod 256 =? c | None => false end)
  | _ => false
  end.
Lemma lex_hex_sweep : forallb lex_hex_ok all_bytes = true.
Proof. vm_compute. reflexivity. Qed.

Lemma string_step_hex2 q c t pos st : (q = 34 \/ q = 39) -> c < 256 -> t <> [] ->
  string_step q pos (hex2 c ++ t) st = SCont (pos + 4) t (emit st [c]).
Proof.
  intros Hq Hc Ht. pose proof (sweep_bytes _ lex_hex_sweep c Hc) as H. unfold lex_hex_ok in H.
  unfold hex2 in *. set (h1 := hexdigit (c / 16)) in *. set (h2 := hexdigit (c mod 16)) in *.
  rewrite !andb_true_iff in H. destruct H as [[[[[[H1 H2] Hq1] Hq2] Hb] Hh2] Hv].
  apply N.ltb_lt in H1, H2. apply negb_true_iff in Hq1, Hq2, Hb.
  unfold string_step. cbn [app]. rewrite (dec_ascii 92 _ ltac:(reflexivity)). cbn [skipn].
  replace (92 =? 10) with false by reflexivity. replace (92 =? 0) with false by reflexivity.
  replace (92 =? q) with false by (destruct Hq as [->| ->]; reflexivity).
  replace (negb (92 =? 92)) with false by reflexivity.
  rewrite (dec_ascii 120 _ ltac:(reflexivity)). cbn [skipn].
  replace ((120 =? 120) || (120 =? 88)) with true by reflexivity.
  rewrite (dec_ascii h1 _ H1). cbn [skipn].
  replace ((h1 =? q) || (h1 =? 92)) with false by (destruct Hq as [->| ->]; rewrite ?Hq1, ?Hq2, Hb; reflexivity).
  rewrite (dec_ascii h2 _ H2). cbn [skipn]. rewrite Hh2.
  destruct (parse_uint16_32 [h1; h2]) as [v|]; [|discriminate]. apply N.eqb_eq in Hv. rewrite Hv.
  replace (pos + 1 + 1 + 1 + 1)%nat with (pos + 4)%nat by lia. reflexivity.
Qed.

Theorem string_literal_decodes_hex_lemma : forall q b tail pos st fuel, (q = 34 \/ q = 39) -> Bytes b ->
  (length (flat_map hex2 b) < fuel)%nat ->
  scan_string fuel q pos (flat_map hex2 b ++ q :: tail) st =
  SDone (pos + 4 * length b + 1) (emit st b).
Proof.
  intros q b tail pos st fuel Hq Hb. revert pos st fuel.
  induction Hb as [|c b Hc Hb IH]; intros pos st fuel Hf.
  - destruct fuel as [|fuel]; [cbn in Hf; lia|]. cbn [flat_map app scan_string].
    unfold string_step. rewrite (dec_ascii q tail ltac:(destruct Hq as [->| ->]; reflexivity)).
    replace (q =? 10) with false by (destruct Hq as [->| ->]; reflexivity). rewrite N.eqb_refl.
    cbn [length skipn]. unfold emit. rewrite app_nil_r. destruct st. f_equal. lia.
  - cbn [flat_map] in *. rewrite app_length in Hf. cbn [hex2 length] in Hf.
    destruct fuel as [|fuel]; [lia|]. cbn [scan_string]. rewrite <- app_assoc.
    rewrite (string_step_hex2 q c _ pos st Hq Hc) by (destruct (flat_map hex2 b); discriminate).
    rewrite IH by lia. f_equal; [cbn [length]; lia|].
    unfold emit. cbn. rewrite <- app_assoc. reflexivity.
Qed.

(* an escape that is none of the defined ones makes the literal an error, whatever follows *)
Definition valid_escape_start (e : N) : bool :=
  (e =? 120) || (e =? 88) || is_octdigit e || (e =? 117) || (e =? 85) ||
  match simple_esc e with Some _ => true | None => false end.

Theorem invalid_escape_reported_lemma : forall q e t pos st, e < 128 -> valid_escape_start e = false ->
  (q = 34 \/ q = 39) ->
  string_step q pos (92 :: e :: t) st = SCont (pos + 2) t (report st (Z.of_nat pos)).
Proof.
  intros q e t pos st He Hv Hq. unfold valid_escape_start in Hv.
  rewrite !orb_false_iff in Hv. destruct Hv as [[[[[Hx HX] Ho] Hu] HU] Hs].
  unfold string_step. rewrite (dec_ascii 92 _ ltac:(reflexivity)). cbn [skipn].
  replace (92 =? 10) with false by reflexivity. replace (92 =? 0) with false by reflexivity.
  replace (92 =? q) with false by (destruct Hq as [->| ->]; reflexivity).
  replace (negb (92 =? 92)) with false by reflexivity.
  rewrite (dec_ascii e t He). cbn [skipn]. rewrite Hx, HX, Ho, Hu, HU. cbn [orb].
  destruct (simple_esc e); [discriminate|]. replace (pos + 1 + 1)%nat with (pos + 2)%nat by lia. reflexivity.
Qed.

(* ---- integer literals ---- *)
(* a literal given by the VALUES of its digits (each below the base) *)
Definition dchar (d : N) : N := if d <? 10 then 48 + d else 87 + d.     (* 0-9, a-f *)
Definition dchars (ds : list N) : list N := map dchar ds.
Definition value_of (base : N) (ds : list N) : N := fold_left (fun a d => a * base + d) ds 0.

Lemma hexval_dchar d : d < 16 -> hexval (dchar d) = d.
Proof.
  intros H. unfold dchar, hexval. destruct (d <? 10) eqn:E.
  - apply N.ltb_lt in E. replace (48 + d <=? 57) with true by (symmetry; apply N.leb_le; lia). lia.
  - apply N.ltb_ge in E. replace (87 + d <=? 57) with false by (symmetry; apply N.leb_gt; lia).
    replace (87 + d <=? 70) with false by (symmetry; apply N.leb_gt; lia). lia.
Qed.

Lemma digits_val_dchars base : forall ds acc, Forall (fun d => d < 16) ds ->
  fold_left (fun a c => a * base + hexval c) (dchars ds) acc = fold_left (fun a d => a * base + d) ds acc.
Proof.
  induction ds as [|d ds IH]; intros acc H; [reflexivity|]. inversion H; subst.
  cbn [dchars map fold_left]. rewrite hexval_dchar by assumption. apply IH. assumption.
Qed.

Lemma digits_val_value base ds : Forall (fun d => d < 16) ds -> digits_val base (dchars ds) = value_of base ds.
Proof. intros H. unfold digits_val, value_of. apply digits_val_dchars. assumption. Qed.

Lemma forallb_dchars (p : N -> bool) (bound : N) ds :
  (forall d, d < bound -> p (dchar d) = true) -> Forall (fun d => d < bound) ds -> forallb p (dchars ds) = true.
Proof.
  intros Hp. induction 1 as [|d ds Hd H IH]; [reflexivity|]. cbn [dchars map forallb].
  fold (dchars ds). rewrite (Hp d Hd), IH. reflexivity.
Qed.

Lemma is_digit_dchar d : d < 10 -> is_digit (dchar d) = true.
Proof.
  intros H. unfold dchar, is_digit. replace (d <? 10) with true by (symmetry; apply N.ltb_lt; lia).
  apply andb_true_iff. split; apply N.leb_le; lia.
Qed.
Lemma is_octdigit_dchar d : d < 8 -> is_octdigit (dchar d) = true.
Proof.
  intros H. unfold dchar, is_octdigit. replace (d <? 10) with true by (symmetry; apply N.ltb_lt; lia).
  apply andb_true_iff. split; apply N.leb_le; lia.
Qed.
Lemma is_hexdigit_dchar d : d < 16 -> is_hexdigit (dchar d) = true.
Proof.
  intros H. unfold dchar, is_hexdigit, is_digit. destruct (d <? 10) eqn:E.
  - apply N.ltb_lt in E. replace (48 <=? 48 + d) with true by (symmetry; apply N.leb_le; lia).
    replace (48 + d <=? 57) with true by (symmetry; apply N.leb_le; lia). reflexivity.
  - apply N.ltb_ge in E. replace (97 <=? 87 + d) with true by (symmetry; apply N.leb_le; lia).
    replace (87 + d <=? 102) with true by (symmetry; apply N.leb_le; lia). cbn. rewrite orb_true_r. reflexivity.
Qed.

Lemma no_float_char_dchars ds : Forall (fun d => d < 10) ds -> has_float_char (dchars ds) = false.
Proof.
  induction 1 as [|d ds Hd H IH]; [reflexivity|]. unfold has_float_char in *. cbn [dchars map existsb].
  fold (dchars ds). rewrite IH, orb_false_r. unfold dchar.
  replace (d <? 10) with true by (symmetry; apply N.ltb_lt; lia).
  rewrite !orb_false_iff. repeat split; apply N.eqb_neq; lia.
Qed.

Lemma Forall_lt_weaken (a b : N) ds : a <= b -> Forall (fun d => d < a) ds -> Forall (fun d => d < b) ds.
Proof. intros Hab H. eapply Forall_impl; [|exact H]. cbn. intros; lia. Qed.

(* decimal: first digit 1..9; the value is the base-10 value of the digits; from 2^64 on the
   literal becomes a float literal instead of an error *)
Theorem decimal_literal_value_lemma : forall d ds, 1 <= d < 10 -> Forall (fun x => x < 10) ds ->
  classify_number (dchars (d :: ds)) =
  if value_of 10 (d :: ds) <? two64 then Some (TInt (value_of 10 (d :: ds))) else Some TFloat.
Proof.
  intros d ds Hd Hds. assert (Hall : Forall (fun x => x < 10) (d :: ds)) by (constructor; [lia|assumption]).
  unfold classify_number. cbn [dchars map]. fold (dchars ds).
  replace (dchar d =? 48) with false
    by (symmetry; apply N.eqb_neq; unfold dchar; replace (d <? 10) with true by (symmetry; apply N.ltb_lt; lia); lia).
  change (dchar d :: dchars ds) with (dchars (d :: ds)).
  rewrite (no_float_char_dchars _ Hall), (forallb_dchars is_digit 10 _ is_digit_dchar Hall).
  rewrite (digits_val_value 10 _ (Forall_lt_weaken 10 16 _ ltac:(lia) Hall)). reflexivity.
Qed.

(* octal: a leading 0 followed by octal digits; overflow is an error *)
Theorem octal_literal_value_lemma : forall d ds, d < 8 -> Forall (fun x => x < 8) ds ->
  classify_number (dchars (0 :: d :: ds)) =
  if value_of 8 (0 :: d :: ds) <? two64 then Some (TInt (value_of 8 (0 :: d :: ds))) else None.
Proof.
  intros d ds Hd Hds.
  assert (Hall : Forall (fun x => x < 8) (0 :: d :: ds)) by (constructor; [lia|constructor; assumption]).
  unfold classify_number. cbn [dchars map]. fold (dchars ds).
  change (dchar 0) with 48. cbn [N.eqb Pos.eqb].
  replace ((dchar d =? 120) || (dchar d =? 88)) with false
    by (symmetry; apply orb_false_iff; unfold dchar; replace (d <? 10) with true by (symmetry; apply N.ltb_lt; lia);
        split; apply N.eqb_neq; lia).
  change (48 :: dchar d :: dchars ds) with (dchars (0 :: d :: ds)).
  rewrite (no_float_char_dchars _ (Forall_lt_weaken 8 10 _ ltac:(lia) Hall)).
  rewrite (forallb_dchars is_octdigit 8 _ is_octdigit_dchar Hall).
  rewrite (digits_val_value 8 _ (Forall_lt_weaken 8 16 _ ltac:(lia) Hall)). cbn [andb].
  destruct (value_of 8 (0 :: d :: ds) <? two64); reflexivity.
Qed.

(* hexadecimal: 0x followed by at least one hex digit; overflow is an error *)
Theorem hex_literal_value_lemma : forall d ds, Forall (fun x => x < 16) (d :: ds) ->
  classify_number (48 :: 120 :: dchars (d :: ds)) =
  if value_of 16 (d :: ds) <? two64 then Some (TInt (value_of 16 (d :: ds))) else None.
Proof.
  intros d ds Hall. unfold classify_number. cbn [N.eqb Pos.eqb orb].
  rewrite (forallb_dchars is_hexdigit 16 _ is_hexdigit_dchar Hall).
  rewrite (digits_val_value 16 _ Hall). cbn [dchars map length Nat.ltb Nat.leb andb].
  destruct (value_of 16 (d :: ds) <? two64); reflexivity.
Qed.

Lemma forallb_octdigit_false l : Forall (fun x => x < 10) l -> existsb (fun x => 8 <=? x) l = true ->
  forallb is_octdigit (dchars l) = false.
Proof.
  induction 1 as [|x xs Hx Hxs IH]; intros Hex; [discriminate|].
  cbn [existsb] in Hex. cbn [dchars map forallb]. fold (dchars xs).
  destruct (8 <=? x) eqn:E.
  - apply N.leb_le in E. unfold dchar, is_octdigit. replace (x <? 10) with true by (symmetry; apply N.ltb_lt; lia).
    replace (48 + x <=? 55) with false by (symmetry; apply N.leb_gt; lia).
    destruct (48 <=? 48 + x); reflexivity.
  - cbn [orb] in Hex. rewrite (IH Hex). apply andb_false_r.
Qed.

(* a digit 8 or 9 after a leading zero is an error, not a decimal number *)
Theorem leading_zero_decimal_rejected_lemma : forall ds, Forall (fun x => x < 10) ds ->
  existsb (fun x => 8 <=? x) ds = true ->
  classify_number (dchars (0 :: ds)) = None.
Proof.
  intros ds Hds Hex. destruct ds as [|d ds]; [discriminate|].
  assert (Hall : Forall (fun x => x < 10) (0 :: d :: ds)) by (constructor; [lia|assumption]).
  assert (Hd : d < 10) by (inversion Hds; assumption).
  unfold classify_number. cbn [dchars map]. fold (dchars ds).
  change (dchar 0) with 48. cbn [N.eqb Pos.eqb].
  replace ((dchar d =? 120) || (dchar d =? 88)) with false
    by (symmetry; apply orb_false_iff; unfold dchar; replace (d <? 10) with true by (symmetry; apply N.ltb_lt; lia);
        split; apply N.eqb_neq; lia).
  change (48 :: dchar d :: dchars ds) with (dchars (0 :: d :: ds)).
  rewrite (no_float_char_dchars _ Hall).
  assert (Hno : forallb is_octdigit (dchars (0 :: d :: ds)) = false).
  { change (dchars (0 :: d :: ds)) with (48 :: dchars (d :: ds)). cbn [forallb].
    rewrite (forallb_octdigit_false _ Hds Hex). apply andb_false_r. }
  rewrite Hno. reflexivity.
Qed.
