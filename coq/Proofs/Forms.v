(* C09 - proofs: every input form of a file gives the same compiled descriptor, and no object supplied by the
   resolver is ever written, under any interleaving of any number of compilations. *)
From Coq Require Import List Bool PeanoNat NArith Lia.
From PV Require Import Model.Forms.
Import ListNotations.
Open Scope nat_scope.

Section FormsProofs.
Variables src ast core si : Type.
Variable parse : src -> ast.
Variable to_core : ast -> core.
Variable link_core : core -> list core -> core.
Variable gen_si : N -> ast -> core -> si.

Notation heap := (heap ast core si).
Notation obj := (obj ast core si).
Notation OAst := (OAst ast core si).
Notation OProto := (OProto ast core si).
Notation ORes := (ORes ast core si).
Notation store := (store ast core si).
Notation next := (next ast core si).
Notation alloc := (alloc ast core si).
Notation write := (write ast core si).
Notation input := (input src).
Notation as_ast := (as_ast src ast core si parse).
Notation as_parse_result := (as_parse_result src ast core si parse to_core).
Notation link_step := (link_step ast core si link_core).
Notation si_step := (si_step ast core si gen_si).
Notation result_of := (result_of ast core si).
Notation compile_file := (compile_file src ast core si parse to_core link_core gen_si).
Notation compile_all := (compile_all src ast core si parse to_core link_core gen_si).
Notation step_task := (step_task src ast core si parse to_core link_core gen_si).
Notation run := (run src ast core si parse to_core link_core gen_si).
Notation task := (task src core).

(* h' has everything h had, unchanged *)
Definition extends (h h' : heap) : Prop :=
  next h <= next h' /\ forall i, i < next h -> store h' i = store h i.

Lemma extends_refl : forall h, extends h h.
Proof. intro h. split; [lia | auto]. Qed.

Lemma extends_trans : forall a b c, extends a b -> extends b c -> extends a c.
Proof.
  intros a b c [H1 H2] [H3 H4]. split; [lia |].
  intros i Hi. rewrite H4 by lia. apply H2. exact Hi.
Qed.

Lemma alloc_spec : forall h o i h', alloc h o = (i, h') ->
  i = next h /\ next h' = S (next h) /\ store h' i = Some o /\ extends h h'.
Proof.
  intros h o i h' H. unfold Forms.alloc in H. injection H as Hi Hh. subst i h'. cbn.
  rewrite Nat.eqb_refl. repeat split; try (cbn; lia).
  intros i Hi. cbn. destruct (Nat.eqb i (next h)) eqn:E; [apply Nat.eqb_eq in E; lia | reflexivity].
Qed.

Lemma write_other : forall h i o j, j <> i -> store (write h i o) j = store h j.
Proof. intros h i o j H. cbn. destruct (Nat.eqb j i) eqn:E; [apply Nat.eqb_eq in E; contradiction | reflexivity]. Qed.

Lemma write_same : forall h i o, store (write h i o) i = Some o.
Proof. intros. cbn. rewrite Nat.eqb_refl. reflexivity. Qed.

Lemma write_next : forall h i o, next (write h i o) = next h.
Proof. reflexivity. Qed.

(* a write at or above n keeps everything below n *)
Lemma write_keeps_below : forall h i o n, n <= i -> forall j, j < n -> store (write h i o) j = store h j.
Proof. intros h i o n Hn j Hj. apply write_other. lia. Qed.

(* nothing lives at or above next *)
Definition wfh (h : heap) : Prop := forall i, next h <= i -> store h i = None.

Lemma alloc_wfh : forall h o i h', wfh h -> alloc h o = (i, h') -> wfh h'.
Proof.
  intros h o i h' W H. unfold Forms.alloc in H. injection H as _ Hh. subst h'.
  intros j Hj. cbn in *. destruct (Nat.eqb j (next h)) eqn:E; [apply Nat.eqb_eq in E; lia | apply W; lia].
Qed.

Lemma write_wfh : forall h i o, wfh h -> i < next h -> wfh (write h i o).
Proof.
  intros h i o W Hi j Hj. cbn in *. destruct (Nat.eqb j i) eqn:E; [apply Nat.eqb_eq in E; lia | apply W; lia].
Qed.

Lemma stored_below_next : forall h i o, wfh h -> store h i = Some o -> i < next h.
Proof.
  intros h i o W H. destruct (Nat.lt_ge_cases i (next h)) as [L | G]; [exact L |].
  rewrite (W i G) in H. discriminate.
Qed.

(* ------------------------------------------------------------------ asParseResult *)
(* what a parse result looks like right after asParseResult: a fresh result object pointing at a fresh
   proto (content c, source info s) and at an AST object (a) if there is one *)
Definition fresh_result (h h1 : heap) (rid : id) (oa : option id) (a : option ast) (c : core) (s : option si) : Prop :=
  wfh h1 /\ extends h h1 /\ next h <= rid /\ rid < next h1 /\
  exists pid, store h1 rid = Some (ORes oa pid) /\ next h <= pid /\ pid < next h1 /\ pid <> rid /\
              store h1 pid = Some (OProto c s) /\
              match oa, a with
              | Some ia, Some x => ia < next h1 /\ ia <> pid /\ ia <> rid /\ store h1 ia = Some (OAst x)
              | None, None => True
              | _, _ => False
              end.

Lemma as_parse_result_source : forall h s, wfh h ->
  exists rid h1 ia, as_parse_result h (ISource src s) = Some (rid, h1) /\
    fresh_result h h1 rid (Some ia) (Some (parse s)) (to_core (parse s)) None.
Proof.
  intros h s W. unfold Forms.as_parse_result. cbn [Forms.as_ast].
  destruct (alloc h (OAst (parse s))) as [ia ha] eqn:Ea.
  destruct (alloc_spec _ _ _ _ Ea) as (Hia & Hna & Hsa & Hea). pose proof (alloc_wfh _ _ _ _ W Ea) as Wa.
  rewrite Hsa.
  destruct (alloc ha (OProto (to_core (parse s)) None)) as [pid hp] eqn:Ep.
  destruct (alloc_spec _ _ _ _ Ep) as (Hip & Hnp & Hsp & Hep). pose proof (alloc_wfh _ _ _ _ Wa Ep) as Wp.
  destruct (alloc hp (ORes (Some ia) pid)) as [rr hr] eqn:Er.
  destruct (alloc_spec _ _ _ _ Er) as (Hir & Hnr & Hsr & Her). pose proof (alloc_wfh _ _ _ _ Wp Er) as Wr.
  exists rr, hr, ia. split; [reflexivity |].
  split; [exact Wr |]. split; [eapply extends_trans; [exact Hea | eapply extends_trans; eauto] |].
  split; [lia |]. split; [lia |].
  exists pid. split; [exact Hsr |]. split; [lia |]. split; [lia |]. split; [lia |].
  destruct Her as [_ Hk]. destruct Hep as [_ Hk2].
  split; [rewrite Hk by lia; exact Hsp |].
  split; [lia |]. split; [lia |]. split; [lia |].
  rewrite Hk by lia. rewrite Hk2 by lia. exact Hsa.
Qed.

Lemma as_parse_result_ast : forall h i a, wfh h -> store h i = Some (OAst a) ->
  exists rid h1, as_parse_result h (IAst src i) = Some (rid, h1) /\
    fresh_result h h1 rid (Some i) (Some a) (to_core a) None.
Proof.
  intros h i a W Hi. pose proof (stored_below_next _ _ _ W Hi) as Hlt.
  unfold Forms.as_parse_result. cbn [Forms.as_ast]. rewrite Hi. rewrite Hi.
  destruct (alloc h (OProto (to_core a) None)) as [pid hp] eqn:Ep.
  destruct (alloc_spec _ _ _ _ Ep) as (Hip & Hnp & Hsp & Hep). pose proof (alloc_wfh _ _ _ _ W Ep) as Wp.
  destruct (alloc hp (ORes (Some i) pid)) as [rr hr] eqn:Er.
  destruct (alloc_spec _ _ _ _ Er) as (Hir & Hnr & Hsr & Her). pose proof (alloc_wfh _ _ _ _ Wp Er) as Wr.
  exists rr, hr. split; [reflexivity |].
  split; [exact Wr |]. split; [eapply extends_trans; eauto |].
  split; [lia |]. split; [lia |].
  exists pid. split; [exact Hsr |]. split; [lia |]. split; [lia |]. split; [lia |].
  destruct Her as [_ Hk]. destruct Hep as [_ Hk2].
  split; [rewrite Hk by lia; exact Hsp |].
  split; [lia |]. split; [lia |]. split; [lia |].
  rewrite Hk by lia. rewrite Hk2 by lia. exact Hi.
Qed.

Lemma as_parse_result_res : forall h r oa pid0 c s a, wfh h ->
  store h r = Some (ORes oa pid0) -> store h pid0 = Some (OProto c s) ->
  match oa, a with
  | Some ia, Some x => store h ia = Some (OAst x)
  | None, None => True
  | _, _ => False
  end ->
  exists rid h1, as_parse_result h (IRes src r) = Some (rid, h1) /\ fresh_result h h1 rid oa a c s.
Proof.
  intros h r oa pid0 c s a W Hr Hp Ha.
  unfold Forms.as_parse_result. rewrite Hr, Hp.
  destruct (alloc h (OProto c s)) as [pid hp] eqn:Ep.
  destruct (alloc_spec _ _ _ _ Ep) as (Hip & Hnp & Hsp & Hep). pose proof (alloc_wfh _ _ _ _ W Ep) as Wp.
  destruct (alloc hp (ORes oa pid)) as [rr hr] eqn:Er.
  destruct (alloc_spec _ _ _ _ Er) as (Hir & Hnr & Hsr & Her). pose proof (alloc_wfh _ _ _ _ Wp Er) as Wr.
  exists rr, hr. split; [reflexivity |].
  split; [exact Wr |]. split; [eapply extends_trans; eauto |].
  split; [lia |]. split; [lia |].
  exists pid. split; [exact Hsr |]. split; [lia |]. split; [lia |]. split; [lia |].
  destruct Her as [_ Hk]. destruct Hep as [_ Hk2].
  split; [rewrite Hk by lia; exact Hsp |].
  destruct oa as [ia |], a as [x |]; try exact Ha; try exact I.
  pose proof (stored_below_next _ _ _ W Ha) as Hlt.
  split; [lia |]. split; [lia |]. split; [lia |].
  rewrite Hk by lia. rewrite Hk2 by lia. exact Ha.
Qed.

Lemma as_parse_result_proto : forall h p c s, wfh h -> store h p = Some (OProto c s) ->
  exists rid h1, as_parse_result h (IProto src p) = Some (rid, h1) /\ fresh_result h h1 rid None None c s.
Proof.
  intros h p c s W Hp.
  unfold Forms.as_parse_result. rewrite Hp.
  destruct (alloc h (OProto c s)) as [pid hp] eqn:Ep.
  destruct (alloc_spec _ _ _ _ Ep) as (Hip & Hnp & Hsp & Hep). pose proof (alloc_wfh _ _ _ _ W Ep) as Wp.
  destruct (alloc hp (ORes None pid)) as [rr hr] eqn:Er.
  destruct (alloc_spec _ _ _ _ Er) as (Hir & Hnr & Hsr & Her). pose proof (alloc_wfh _ _ _ _ Wp Er) as Wr.
  exists rr, hr. split; [reflexivity |].
  split; [exact Wr |]. split; [eapply extends_trans; eauto |].
  split; [lia |]. split; [lia |].
  exists pid. split; [exact Hsr |]. split; [lia |]. split; [lia |]. split; [lia |].
  destruct Her as [_ Hk].
  split; [rewrite Hk by lia; exact Hsp | exact I].
Qed.

(* ------------------------------------------------------------------ link and source info on a fresh result *)
Definition expected_si (mode : N) (a : option ast) (s : option si) (linked : core) : option si :=
  match a, s with
  | Some x, None => if negb (mode_none mode) then Some (gen_si mode x linked) else None
  | _, _ => if mode_none mode then None else s
  end.

Lemma finish_fresh : forall h h1 rid oa a c s deps mode,
  fresh_result h h1 rid oa a c s ->
  exists h3, match link_step h1 rid deps with
             | Some h2 => match si_step h2 rid mode with
                          | Some h3' => match result_of h3' rid with Some r => Some (r, h3') | None => None end
                          | None => None end
             | None => None end
             = Some ((link_core c deps, expected_si mode a s (link_core c deps)), h3)
             /\ wfh h3 /\ extends h h3.
Proof.
  intros h h1 rid oa a c s deps mode (W1 & E1 & Hr1 & Hr2 & pid & Srid & Hp1 & Hp2 & Hne & Spid & Hast).
  unfold Forms.link_step. rewrite Srid, Spid.
  set (h2 := write h1 pid (OProto (link_core c deps) s)).
  assert (W2 : wfh h2) by (apply write_wfh; assumption).
  assert (S2rid : store h2 rid = Some (ORes oa pid)) by (unfold h2; rewrite write_other by lia; exact Srid).
  assert (S2pid : store h2 pid = Some (OProto (link_core c deps) s)) by (unfold h2; apply write_same).
  assert (E2 : extends h h2).
  { destruct E1 as [En Es]. split; [unfold h2; rewrite write_next; exact En |].
    intros i Hi. unfold h2. rewrite write_other by lia. apply Es. exact Hi. }
  unfold Forms.si_step. rewrite S2rid, S2pid.
  assert (Hthe : match oa with
                 | Some ia => match store h2 ia with Some (Forms.OAst _ _ _ x) => Some x | _ => None end
                 | None => None end = a).
  { destruct oa as [ia |], a as [x |]; try contradiction; try reflexivity.
    destruct Hast as (_ & Hn1 & _ & Hs). unfold h2. rewrite write_other by lia. rewrite Hs. reflexivity. }
  rewrite Hthe.
  assert (Fin : forall sfin, exists h3,
            (match result_of (write h2 pid (OProto (link_core c deps) sfin)) rid with
             | Some r => Some (r, write h2 pid (OProto (link_core c deps) sfin)) | None => None end)
            = Some ((link_core c deps, sfin), h3) /\ wfh h3 /\ extends h h3).
  { intro sfin. exists (write h2 pid (OProto (link_core c deps) sfin)).
    unfold Forms.result_of. rewrite write_other by lia. rewrite S2rid. rewrite write_same.
    split; [reflexivity |]. split; [apply write_wfh; [exact W2 | unfold h2; rewrite write_next; exact Hp2] |].
    destruct E2 as [En Es]. split; [rewrite write_next; exact En |].
    intros i Hi. rewrite write_other by lia. apply Es. exact Hi. }
  unfold expected_si.
  destruct a as [x |]; destruct s as [s0 |]; destruct (mode_none mode) eqn:Em; cbn [negb];
    try (apply Fin).
  - (* AST, pre-existing source info, mode wants it: nothing is written *)
    exists h2. unfold Forms.result_of. rewrite S2rid, S2pid. auto.
  - exists h2. unfold Forms.result_of. rewrite S2rid, S2pid. auto.
  - exists h2. unfold Forms.result_of. rewrite S2rid, S2pid. auto.
Qed.

(* ------------------------------------------------------------------ one file: what every form compiles to *)
(* the resolver's object for a file whose source text is s *)
Inductive represents (h : heap) (s : src) : input -> option ast -> option si -> Prop :=
| RSource : represents h s (ISource src s) (Some (parse s)) None
| RAst : forall i, store h i = Some (OAst (parse s)) -> represents h s (IAst src i) (Some (parse s)) None
| RRes : forall r ia pid s0, store h r = Some (ORes (Some ia) pid) -> store h ia = Some (OAst (parse s)) ->
    store h pid = Some (OProto (to_core (parse s)) s0) -> represents h s (IRes src r) (Some (parse s)) s0
(* a parse result that wraps a descriptor proto and has no AST (parser.ResultWithoutAST) *)
| RResNoAst : forall r pid s0, store h r = Some (ORes None pid) ->
    store h pid = Some (OProto (to_core (parse s)) s0) -> represents h s (IRes src r) None s0
| RProto : forall p s0, store h p = Some (OProto (to_core (parse s)) s0) ->
    represents h s (IProto src p) None s0.

Lemma compile_file_spec : forall h s inp a s0 deps mode,
  wfh h -> represents h s inp a s0 ->
  exists h',
    compile_file h inp deps mode =
      Some ((link_core (to_core (parse s)) deps, expected_si mode a s0 (link_core (to_core (parse s)) deps)), h')
    /\ wfh h' /\ extends h h'.
Proof.
  intros h s inp a s0 deps mode W R. unfold Forms.compile_file.
  destruct R as [| i Hi | r ia pid s0 Hr Hia Hp | r pid s0 Hr Hp | p s0 Hp].
  - destruct (as_parse_result_source h s W) as (rid & h1 & ia & Heq & F). rewrite Heq.
    apply (finish_fresh _ _ _ _ _ _ _ deps mode F).
  - destruct (as_parse_result_ast h i _ W Hi) as (rid & h1 & Heq & F). rewrite Heq.
    apply (finish_fresh _ _ _ _ _ _ _ deps mode F).
  - destruct (as_parse_result_res h r (Some ia) pid _ s0 (Some (parse s)) W Hr Hp Hia) as (rid & h1 & Heq & F).
    rewrite Heq. apply (finish_fresh _ _ _ _ _ _ _ deps mode F).
  - destruct (as_parse_result_res h r None pid _ s0 None W Hr Hp I) as (rid & h1 & Heq & F).
    rewrite Heq. apply (finish_fresh _ _ _ _ _ _ _ deps mode F).
  - destruct (as_parse_result_proto h p _ s0 W Hp) as (rid & h1 & Heq & F). rewrite Heq.
    apply (finish_fresh _ _ _ _ _ _ _ deps mode F).
Qed.

(* the source info of one compiled file, for every form and EVERY value of the mode (a bit set; only the value
   SourceInfoNone = 0 strips): none under SourceInfoNone; under any other mode source info that came with the
   supplied descriptor is kept as it is, a file with an AST and no source info gets the generated one, a file with
   neither has none *)
Theorem source_info_per_mode_lemma : forall h s inp a s0 deps mode,
  wfh h -> represents h s inp a s0 ->
  exists c sres h',
    compile_file h inp deps mode = Some ((c, sres), h') /\
    (mode_none mode = true -> sres = None) /\
    (mode_none mode = false -> forall x, s0 = Some x -> sres = Some x) /\
    (mode_none mode = false -> s0 = None -> forall t, a = Some t -> sres = Some (gen_si mode t c)) /\
    (mode_none mode = false -> s0 = None -> a = None -> sres = None).
Proof.
  intros h s inp a s0 deps mode W R.
  destruct (compile_file_spec h s inp a s0 deps mode W R) as (h' & E & _).
  eexists _, _, h'. split; [exact E |]. unfold expected_si.
  destruct a as [t |]; destruct s0 as [x |]; destruct (mode_none mode); cbn [negb];
    repeat split; intros; try discriminate; try congruence.
Qed.

Lemma represents_extends : forall h h' s inp a s0, wfh h -> extends h h' ->
  represents h s inp a s0 -> represents h' s inp a s0.
Proof.
  intros h h' s inp a s0 W [_ E] R.
  destruct R as [| i Hi | r ia pid s1 Hr Hia Hp | r pid s1 Hr Hp | p s1 Hp].
  - constructor.
  - constructor. rewrite E; [exact Hi | eapply stored_below_next; eauto].
  - econstructor; (rewrite E; [eassumption | eapply stored_below_next; eauto]).
  - eapply RResNoAst; (rewrite E; [eassumption | eapply stored_below_next; eauto]).
  - constructor. rewrite E; [exact Hp | eapply stored_below_next; eauto].
Qed.

(* forms_agree for one file *)
Theorem forms_agree_file_lemma : forall h s inp1 inp2 a1 a2 s1 s2 deps mode,
  wfh h -> represents h s inp1 a1 s1 -> represents h s inp2 a2 s2 ->
  exists c si1 si2 h1 h2,
    compile_file h inp1 deps mode = Some ((c, si1), h1) /\
    compile_file h inp2 deps mode = Some ((c, si2), h2) /\
    c = link_core (to_core (parse s)) deps /\
    (* same source info whenever both forms have the AST and no pre-attached source info, and always when
       the mode asks for none *)
    ((a1 <> None /\ a2 <> None /\ s1 = None /\ s2 = None) \/ mode_none mode = true -> si1 = si2).
Proof.
  intros h s inp1 inp2 a1 a2 s1 s2 deps mode W R1 R2.
  destruct (compile_file_spec h s inp1 a1 s1 deps mode W R1) as (h1 & E1 & _).
  destruct (compile_file_spec h s inp2 a2 s2 deps mode W R2) as (h2 & E2 & _).
  eexists _, _, _, h1, h2. split; [exact E1 |]. split; [exact E2 |]. split; [reflexivity |].
  intros [(N1 & N2 & Z1 & Z2) | Hm].
  - subst s1 s2.
    assert (A1 : a1 = Some (parse s)) by (inversion R1; subst; try reflexivity; contradiction).
    assert (A2 : a2 = Some (parse s)) by (inversion R2; subst; try reflexivity; contradiction).
    subst a1 a2. reflexivity.
  - unfold expected_si. rewrite Hm. cbn [negb]. destruct a1, a2, s1, s2; reflexivity.
Qed.

(* ------------------------------------------------------------------ whole programs *)
(* two assignments of forms to the same files *)
Inductive same_program : heap -> heap -> list (file_in src) -> list (file_in src) -> Prop :=
| SPnil : forall h1 h2, same_program h1 h2 [] []
| SPcons : forall h1 h2 f1 f2 r1 r2 s a1 a2 s1 s2,
    fi_deps src f1 = fi_deps src f2 ->
    represents h1 s (fi_inp src f1) a1 s1 -> represents h2 s (fi_inp src f2) a2 s2 ->
    same_program h1 h2 r1 r2 -> same_program h1 h2 (f1 :: r1) (f2 :: r2).

Lemma same_program_extends : forall h1 h2 h1' h2' l1 l2, wfh h1 -> wfh h2 -> extends h1 h1' -> extends h2 h2' ->
  same_program h1 h2 l1 l2 -> same_program h1' h2' l1 l2.
Proof.
  intros h1 h2 h1' h2' l1 l2 W1 W2 E1 E2 H. induction H.
  - constructor.
  - econstructor; eauto using represents_extends.
Qed.

Definition cores (r : option (list (core * option si) * heap)) : option (list core) :=
  match r with Some (l, _) => Some (map fst l) | None => None end.

Theorem forms_agree_lemma : forall l1 l2 h1 h2 d1 d2 mode,
  wfh h1 -> wfh h2 -> same_program h1 h2 l1 l2 -> map fst d1 = map fst d2 ->
  cores (compile_all h1 l1 d1 mode) = cores (compile_all h2 l2 d2 mode).
Proof.
  induction l1 as [| f1 r1 IH]; intros l2 h1 h2 d1 d2 mode W1 W2 SP Hd.
  - inversion SP; subst. cbn. rewrite Hd. reflexivity.
  - inversion SP as [| ? ? ? f2 ? r2 s a1 a2 s1 s2 Hdeps R1 R2 SPr]; subst.
    cbn [Forms.compile_all]. rewrite <- Hdeps, <- Hd.
    destruct (lookup_all (map fst d1) (fi_deps src f1)) as [deps |]; [| reflexivity].
    destruct (compile_file_spec h1 s _ a1 s1 deps mode W1 R1) as (h1' & E1 & W1' & X1).
    destruct (compile_file_spec h2 s _ a2 s2 deps mode W2 R2) as (h2' & E2 & W2' & X2).
    rewrite E1, E2.
    apply IH; try assumption.
    + apply (same_program_extends h1 h2 h1' h2' r1 r2 W1 W2 X1 X2 SPr).
    + rewrite !map_app. cbn [map fst]. rewrite Hd. reflexivity.
Qed.

(* with SourceInfoNone the complete results (source info included) agree *)
Definition full (r : option (list (core * option si) * heap)) : option (list (core * option si)) :=
  match r with Some (l, _) => Some l | None => None end.

Theorem forms_agree_mode_none_lemma : forall l1 l2 h1 h2 d mode,
  mode_none mode = true ->
  wfh h1 -> wfh h2 -> same_program h1 h2 l1 l2 ->
  full (compile_all h1 l1 d mode) = full (compile_all h2 l2 d mode).
Proof.
  induction l1 as [| f1 r1 IH]; intros l2 h1 h2 d mode Hm W1 W2 SP.
  - inversion SP; subst. reflexivity.
  - inversion SP as [| ? ? ? f2 ? r2 s a1 a2 s1 s2 Hdeps R1 R2 SPr]; subst.
    cbn [Forms.compile_all]. rewrite <- Hdeps.
    destruct (lookup_all (map fst d) (fi_deps src f1)) as [deps |]; [| reflexivity].
    destruct (compile_file_spec h1 s _ a1 s1 deps mode W1 R1) as (h1' & E1 & W1' & X1).
    destruct (compile_file_spec h2 s _ a2 s2 deps mode W2 R2) as (h2' & E2 & W2' & X2).
    rewrite E1, E2.
    assert (Hsi : expected_si mode a1 s1 (link_core (to_core (parse s)) deps)
                = expected_si mode a2 s2 (link_core (to_core (parse s)) deps)).
    { unfold expected_si. rewrite Hm. cbn [negb]. destruct a1, a2, s1, s2; reflexivity. }
    rewrite Hsi. apply IH; try assumption. apply (same_program_extends h1 h2 h1' h2' r1 r2 W1 W2 X1 X2 SPr).
Qed.

(* ------------------------------------------------------------------ inputs are never written *)
(* h' differs from h below next h only in cells at or above n0, and those now hold protos *)
Definition only_protos_above (n0 : id) (h h' : heap) : Prop :=
  wfh h' /\ next h <= next h' /\
  forall i, i < next h -> store h' i = store h i \/ (n0 <= i /\ exists c s, store h' i = Some (OProto c s)).

Definition task_ok (n0 : id) (h : heap) (t : task) : Prop :=
  match t_state src core t with
  | TParsed rid | TLinked rid | TDone rid =>
      rid < next h /\ n0 <= rid /\ forall oa pid, store h rid = Some (ORes oa pid) -> n0 <= pid /\ pid < next h
  | _ => True
  end.

Lemma task_ok_preserved : forall n0 h h' t, only_protos_above n0 h h' -> task_ok n0 h t -> task_ok n0 h' t.
Proof.
  intros n0 h h' t (W' & Hn & Hc) H. unfold task_ok in *.
  destruct (t_state src core t) as [| rid | rid | rid |]; try exact I;
    (destruct H as (H1 & H2 & H3); split; [lia |]; split; [exact H2 |];
     intros oa pid Hs; destruct (Hc rid H1) as [Heq | (_ & c & s & Hp)];
     [rewrite Heq in Hs; destruct (H3 oa pid Hs); split; lia | rewrite Hp in Hs; discriminate]).
Qed.

Lemma extends_only_protos : forall n0 h h', wfh h' -> extends h h' -> only_protos_above n0 h h'.
Proof. intros n0 h h' W [En Es]. split; [exact W |]. split; [exact En |]. intros i Hi. left. apply Es. exact Hi. Qed.

Lemma as_parse_result_extends : forall h inp rid h1, wfh h -> as_parse_result h inp = Some (rid, h1) ->
  wfh h1 /\ extends h h1 /\ next h <= rid /\ rid < next h1 /\
  forall oa pid, store h1 rid = Some (ORes oa pid) -> next h <= pid /\ pid < next h1.
Proof.
  intros h inp rid h1 W H.
  assert (G : forall oa a c s, fresh_result h h1 rid oa a c s ->
              wfh h1 /\ extends h h1 /\ next h <= rid /\ rid < next h1 /\
              forall oa pid, store h1 rid = Some (ORes oa pid) -> next h <= pid /\ pid < next h1).
  { intros oa a c s (W1 & E1 & Hr1 & Hr2 & pid & Srid & Hp1 & Hp2 & _).
    split; [exact W1 |]. split; [exact E1 |]. split; [exact Hr1 |]. split; [exact Hr2 |].
    intros oa' pid' Hs. rewrite Srid in Hs. injection Hs as _ Hpp. subst pid'. split; lia. }
  destruct inp as [s | i | r | p].
  - destruct (as_parse_result_source h s W) as (rid' & h1' & ia & Heq & F).
    rewrite Heq in H. injection H as H1 H2. subst rid' h1'. eapply G; eauto.
  - unfold Forms.as_parse_result in H. cbn [Forms.as_ast] in H.
    destruct (store h i) as [[a | c s | oa pid] |] eqn:Ei; try discriminate.
    destruct (as_parse_result_ast h i a W Ei) as (rid' & h1' & Heq & F).
    unfold Forms.as_parse_result in Heq. cbn [Forms.as_ast] in Heq. rewrite Ei in Heq.
    rewrite Heq in H. injection H as H1 H2. subst rid' h1'. eapply G; eauto.
  - unfold Forms.as_parse_result in H.
    destruct (store h r) as [[a | c s | oa pid] |] eqn:Er; try discriminate.
    destruct (store h pid) as [[a | c s | oa2 pid2] |] eqn:Ep; try discriminate.
    (* whatever the result's AST pointer holds, the copy is fresh *)
    destruct (alloc h (OProto c s)) as [pid' hp] eqn:Ea.
    destruct (alloc_spec _ _ _ _ Ea) as (Hip & Hnp & Hsp & Hep). pose proof (alloc_wfh _ _ _ _ W Ea) as Wp.
    destruct (alloc hp (ORes oa pid')) as [rr hr] eqn:Eb.
    destruct (alloc_spec _ _ _ _ Eb) as (Hir & Hnr & Hsr & Her). pose proof (alloc_wfh _ _ _ _ Wp Eb) as Wr.
    injection H as H1 H2. subst rr hr.
    split; [exact Wr |]. split; [eapply extends_trans; eauto |]. split; [lia |]. split; [lia |].
    intros oa' pid'' Hs. rewrite Hsr in Hs. injection Hs as _ Hpp. subst pid''. lia.
  - unfold Forms.as_parse_result in H.
    destruct (store h p) as [[a | c s | oa pid] |] eqn:Ep; try discriminate.
    destruct (as_parse_result_proto h p c s W Ep) as (rid' & h1' & Heq & F).
    unfold Forms.as_parse_result in Heq. rewrite Ep in Heq.
    rewrite Heq in H. injection H as H1 H2. subst rid' h1'. eapply G; eauto.
Qed.

Lemma write_only_protos : forall n0 h pid c s, wfh h -> n0 <= pid -> pid < next h ->
  only_protos_above n0 h (write h pid (OProto c s)).
Proof.
  intros n0 h pid c s W Hn Hp. split; [apply write_wfh; assumption |]. split; [rewrite write_next; lia |].
  intros i Hi. destruct (Nat.eq_dec i pid) as [E | N].
  - subst i. right. split; [exact Hn |]. exists c, s. apply write_same.
  - left. apply write_other. exact N.
Qed.

Lemma only_protos_refl : forall n0 h, wfh h -> only_protos_above n0 h h.
Proof. intros n0 h W. split; [exact W |]. split; [lia |]. intros i _. left. reflexivity. Qed.

(* one step of one task *)
Lemma step_task_ok : forall n0 h t h' t',
  wfh h -> n0 <= next h -> task_ok n0 h t -> step_task h t = (h', t') ->
  only_protos_above n0 h h' /\ task_ok n0 h' t'.
Proof.
  intros n0 h t h' t' W Hn0 Hok Hstep. unfold Forms.step_task in Hstep.
  destruct (t_state src core t) as [| rid | rid | rid |] eqn:Est.
  - (* asParseResult *)
    destruct (as_parse_result h (t_inp src core t)) as [[rid h1] |] eqn:Ea.
    + injection Hstep as H1 H2. subst h' t'.
      destruct (as_parse_result_extends _ _ _ _ W Ea) as (W1 & E1 & Hr1 & Hr2 & Hp).
      split; [apply extends_only_protos; assumption |].
      unfold task_ok. cbn. split; [exact Hr2 |]. split; [lia |].
      intros oa pid Hs. destruct (Hp oa pid Hs). split; lia.
    + injection Hstep as H1 H2. subst h' t'. split; [apply only_protos_refl; exact W | exact I].
  - (* link *)
    unfold task_ok in Hok. rewrite Est in Hok. destruct Hok as (Hr1 & Hr2 & Hp).
    unfold Forms.link_step in Hstep.
    destruct (store h rid) as [[a | c s | oa pid] |] eqn:Er;
      try (injection Hstep as H1 H2; subst h' t'; split; [apply only_protos_refl; exact W | exact I]).
    destruct (Hp oa pid eq_refl) as [Hp1 Hp2].
    destruct (store h pid) as [[a | c s | oa2 pid2] |] eqn:Ep;
      try (injection Hstep as H1 H2; subst h' t'; split; [apply only_protos_refl; exact W | exact I]).
    injection Hstep as H1 H2. subst h' t'.
    pose proof (write_only_protos n0 h pid (link_core c (t_deps src core t)) s W Hp1 Hp2) as O.
    split; [exact O |].
    apply (task_ok_preserved n0 h _ (set_state src core t (TLinked rid)) O).
    unfold task_ok. cbn. split; [exact Hr1 |]. split; [exact Hr2 |].
    intros oa' pid' Hs. apply (Hp oa' pid'). rewrite <- Er. exact Hs.
  - (* source info *)
    unfold task_ok in Hok. rewrite Est in Hok. destruct Hok as (Hr1 & Hr2 & Hp).
    unfold Forms.si_step in Hstep.
    destruct (store h rid) as [[a | c s | oa pid] |] eqn:Er;
      try (injection Hstep as H1 H2; subst h' t'; split; [apply only_protos_refl; exact W | exact I]).
    destruct (Hp oa pid eq_refl) as [Hp1 Hp2].
    destruct (store h pid) as [[a | c s | oa2 pid2] |] eqn:Ep;
      try (injection Hstep as H1 H2; subst h' t'; split; [apply only_protos_refl; exact W | exact I]).
    assert (Done : forall hh, only_protos_above n0 h hh ->
              only_protos_above n0 h hh /\ task_ok n0 hh (set_state src core t (TDone rid))).
    { intros hh O. split; [exact O |].
      apply (task_ok_preserved n0 h _ (set_state src core t (TDone rid)) O).
      unfold task_ok. cbn. split; [exact Hr1 |]. split; [exact Hr2 |].
      intros oa' pid' Hs. apply (Hp oa' pid'). rewrite <- Er. exact Hs. }
    destruct (match oa with
              | Some ia => match store h ia with Some (Forms.OAst _ _ _ a) => Some a | _ => None end
              | None => None end) as [x |]; destruct s as [s0 |];
      destruct (mode_none (t_mode src core t)); cbn [negb] in Hstep;
      injection Hstep as H1 H2; subst h' t';
      first [ apply Done; apply write_only_protos; assumption | apply Done; apply only_protos_refl; exact W ].
  - injection Hstep as H1 H2. subst h' t'. split; [apply only_protos_refl; exact W | exact Hok].
  - injection Hstep as H1 H2. subst h' t'. split; [apply only_protos_refl; exact W | exact Hok].
Qed.

Lemma Forall_update_nth : forall (A : Type) (P : A -> Prop) l n x, Forall P l -> P x -> Forall P (update_nth l n x).
Proof.
  intros A P l. induction l as [| y r IH]; intros n x Hl Hx; cbn.
  - constructor.
  - inversion Hl; subst. destruct n; constructor; auto.
Qed.

(* the invariant of a system of tasks that started on heap h0 with n0 = next h0 *)
Definition sys_ok (n0 : id) (h0 h : heap) (ts : list task) : Prop :=
  wfh h /\ n0 <= next h /\ (forall i, i < n0 -> store h i = store h0 i) /\ Forall (task_ok n0 h) ts.

Lemma run_ok : forall sched n0 h0 h ts h' ts',
  sys_ok n0 h0 h ts -> run h ts sched = (h', ts') -> sys_ok n0 h0 h' ts'.
Proof.
  induction sched as [| k r IH]; intros n0 h0 h ts h' ts' Hok Hrun; cbn [Forms.run] in Hrun.
  - injection Hrun as H1 H2. subst h' ts'. exact Hok.
  - destruct (nth_error ts k) as [t |] eqn:Ek; [| eapply IH; eauto].
    destruct (step_task h t) as [h1 t1] eqn:Es.
    destruct Hok as (W & Hn & Hbase & Hts).
    assert (Ht : task_ok n0 h t).
    { rewrite Forall_forall in Hts. apply Hts. eapply nth_error_In; eauto. }
    destruct (step_task_ok n0 h t h1 t1 W Hn Ht Es) as (O & Ht1).
    eapply IH; [| exact Hrun].
    destruct O as (W1 & Hn1 & Hc).
    split; [exact W1 |]. split; [lia |]. split.
    + intros i Hi. destruct (Hc i ltac:(lia)) as [Heq | (Hge & _)]; [rewrite Heq; apply Hbase; exact Hi | lia].
    + apply Forall_update_nth; [| exact Ht1].
      rewrite Forall_forall in *. intros t0 Hin.
      apply (task_ok_preserved n0 h h1 t0); [split; [exact W1 |]; split; [exact Hn1 | exact Hc] | apply Hts; exact Hin].
Qed.

Definition fresh_task (t : task) : Prop := t_state src core t = TStart.

Theorem inputs_untouched_lemma : forall h0 ts sched h' ts',
  wfh h0 -> Forall fresh_task ts -> run h0 ts sched = (h', ts') ->
  forall i, i < next h0 -> store h' i = store h0 i.
Proof.
  intros h0 ts sched h' ts' W Hf Hrun.
  assert (Hok : sys_ok (next h0) h0 h0 ts).
  { split; [exact W |]. split; [lia |]. split; [auto |].
    rewrite Forall_forall in *. intros t Hin. unfold task_ok. rewrite (Hf t Hin). exact I. }
  destruct (run_ok sched _ _ _ _ _ _ Hok Hrun) as (_ & _ & Hbase & _). exact Hbase.
Qed.

(* sequential compilations of whole programs, one after another on the same objects *)
Lemma compile_file_extends : forall h inp deps mode r h', wfh h ->
  compile_file h inp deps mode = Some (r, h') -> wfh h' /\ extends h h'.
Proof.
  intros h inp deps mode r h' W H. unfold Forms.compile_file in H.
  destruct (as_parse_result h inp) as [[rid h1] |] eqn:Ea; [| discriminate].
  destruct (as_parse_result_extends _ _ _ _ W Ea) as (W1 & E1 & Hr1 & Hr2 & Hp).
  (* replay the two steps as a one-task schedule *)
  set (t := mktask src core inp deps mode (TParsed rid)).
  assert (Hok : task_ok (next h) h1 t).
  { unfold task_ok. cbn. split; [exact Hr2 |]. split; [exact Hr1 |]. intros oa pid Hs. apply (Hp oa pid Hs). }
  destruct (link_step h1 rid deps) as [h2 |] eqn:El; [| discriminate].
  assert (S1 : step_task h1 t = (h2, set_state src core t (TLinked rid))).
  { unfold Forms.step_task. cbn. rewrite El. reflexivity. }
  destruct E1 as [En1 Es1].
  destruct (step_task_ok (next h) h1 t _ _ W1 En1 Hok S1) as (O1 & Hok2).
  destruct (si_step h2 rid mode) as [h3 |] eqn:Esi; [| discriminate].
  destruct (result_of h3 rid) as [rr |]; [| discriminate]. injection H as _ Hh. subst h'.
  assert (S2 : step_task h2 (set_state src core t (TLinked rid)) = (h3, set_state src core (set_state src core t (TLinked rid)) (TDone rid))).
  { unfold Forms.step_task. cbn. rewrite Esi. reflexivity. }
  destruct O1 as (W2 & Hn2 & Hc2).
  destruct (step_task_ok (next h) h2 _ _ _ W2 ltac:(lia) Hok2 S2) as ((W3 & Hn3 & Hc3) & _).
  split; [exact W3 |]. split; [lia |].
  intros i Hi.
  destruct (Hc3 i ltac:(lia)) as [Heq3 | (Hge & _)]; [| lia].
  destruct (Hc2 i ltac:(lia)) as [Heq2 | (Hge & _)]; [| lia].
  rewrite Heq3, Heq2. apply Es1. exact Hi.
Qed.

Theorem compile_all_untouched_lemma : forall files h done mode res h',
  wfh h -> compile_all h files done mode = Some (res, h') ->
  wfh h' /\ forall i, i < next h -> store h' i = store h i.
Proof.
  induction files as [| f r IH]; intros h done mode res h' W H; cbn [Forms.compile_all] in H.
  - injection H as _ Hh. subst h'. split; [exact W | auto].
  - destruct (lookup_all (map fst done) (fi_deps src f)) as [deps |]; [| discriminate].
    destruct (compile_file h (fi_inp src f) deps mode) as [[rf hf] |] eqn:Ec; [| discriminate].
    destruct (compile_file_extends _ _ _ _ _ _ W Ec) as (Wf & Enf & Esf).
    destruct (IH _ _ _ _ _ Wf H) as (W' & Hs).
    split; [exact W' |]. intros i Hi. rewrite Hs by lia. apply Esf. exact Hi.
Qed.

End FormsProofs.
