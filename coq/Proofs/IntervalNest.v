(* Proofs about the model of interval.Nesting (Model/Interval.v): every set stays laminar and the
   sets partition the inserted intervals, for every configuration c, provided each of the two places
   where the code as it is differs from the repaired code was repaired (flag of c) or not exercised
   (ghost flag of the run). *)
From Coq Require Import List ZArith Bool Lia Sorting.Sorted Sorting.Permutation.
From PV Require Import Model.Interval Proofs.Interval.
Import ListNotations.
Open Scope Z_scope.

Notation NE := (entry nat).

Definition set_ok (s : list NE) : Prop :=
  ksorted s /\ Forall (fun e => eS e <= eE e) s /\ laminar s.

Lemma seek_split_rest_ge (t : list NE) k : ksorted t -> Forall (fun x => k <= eE x) (snd (seek_split t k)).
Proof.
  unfold ksorted. induction t as [|x r IH]; intros Hs; cbn [seek_split]; [constructor|].
  inversion Hs as [|? ? Hr Hall]; subst.
  destruct (Z.ltb_spec (eE x) k) as [Hlt|Hge].
  - specialize (IH Hr). destruct (seek_split r k) as [b0 a0]. exact IH.
  - cbn [snd]. constructor; [exact Hge|]. rewrite Forall_forall in *. intros y Hy. specialize (Hall y Hy). lia.
Qed.

Lemma seek_split_rest_sorted (t : list NE) k : ksorted t -> ksorted (snd (seek_split t k)) /\ ksorted (fst (seek_split t k)).
Proof.
  unfold ksorted. induction t as [|x r IH]; intros Hs; cbn [seek_split]; [split; constructor|].
  inversion Hs as [|? ? Hr Hall]; subst.
  destruct (Z.ltb_spec (eE x) k) as [Hlt|Hge].
  - specialize (IH Hr). pose proof (seek_split_app r k) as Happ. destruct (seek_split r k) as [b0 a0]. cbn [fst snd] in *.
    destruct IH as [IH1 IH2]. split; [exact IH1|]. constructor; [exact IH2|].
    rewrite Forall_forall in *. intros y Hy. apply Hall. rewrite <- Happ. apply in_or_app. left. exact Hy.
  - cbn [fst snd]. split; [exact Hs|constructor].
Qed.

Lemma last_opt_max (l : list NE) p : ksorted l -> last_opt l = Some p -> forall x, In x l -> eE x <= eE p.
Proof.
  unfold ksorted. induction l as [|y r IH]; intros Hs Hl x Hx; [destruct Hx|].
  inversion Hs as [|? ? Hr Hall]; subst. rewrite Forall_forall in Hall.
  destruct r as [|z r2].
  - cbn [last_opt] in Hl. injection Hl as <-. destruct Hx as [->|[]]. lia.
  - assert (Hl' : last_opt (z :: r2) = Some p) by exact Hl.
    destruct Hx as [->|Hx].
    + assert (Hp : In p (z :: r2)).
      { clear - Hl'. revert Hl'. generalize (z :: r2). induction l as [|u w IHw]; [discriminate|].
        destruct w as [|u2 w2]; cbn [last_opt]; intros H; [injection H as <-; left; reflexivity|]. right. apply IHw. exact H. }
      specialize (Hall p Hp). lia.
    + apply IH; assumption.
Qed.

Lemma last_opt_none {A} (l : list A) : last_opt l = None -> l = [].
Proof.
  induction l as [|y r IH]; [reflexivity|]. destruct r as [|z r2]; cbn [last_opt]; [discriminate|].
  intros H. specialize (IH H). discriminate.
Qed.

Lemma tset_perm (s : list NE) e : (forall x, In x s -> eE x <> eE e) -> Permutation (tset s e) (e :: s).
Proof.
  induction s as [|y r IH]; intros Hk; cbn [tset]; [apply Permutation_refl|].
  destruct (eE e <? eE y); [apply Permutation_refl|].
  destruct (Z.eqb_spec (eE e) (eE y)) as [Heq|Hne].
  - exfalso. apply (Hk y); [left; reflexivity|]. symmetry. exact Heq.
  - eapply Permutation_trans; [apply perm_skip, IH|apply perm_swap].
    intros x Hx. apply Hk. right. exact Hx.
Qed.

Lemma laminar_pair_sym x y : laminar_pair x y -> laminar_pair y x.
Proof. unfold laminar_pair. tauto. Qed.

(* what a successful examination of one set establishes *)
Lemma nconflict_accepts c (s : list NE) a b hz :
  set_ok s -> a <= b -> nconflict c s a b = (false, hz) ->
  fix_eqend c = true \/ hz = false -> fix_encl c = true \/ hz = false ->
  forall x, In x s -> eE x <> b /\ laminar_pair (mkE a b O) x.
Proof.
  intros [Hks [Hval Hlam]] Hab Hn He Hc x Hx. unfold nconflict in Hn.
  pose proof (seek_split_app s b) as Happ. pose proof (seek_split_before s b) as Hbef.
  pose proof (seek_split_rest_ge s b Hks) as Hge. destruct (seek_split_rest_sorted s b Hks) as [Hrs Hbs].
  destruct (seek_split s b) as [before rest]. cbn [fst snd] in *.
  rewrite Forall_forall in Hbef, Hge, Hval. rewrite <- Happ in Hx. apply in_app_or in Hx.
  assert (Hbefore : forall p, last_opt before = Some p -> eE p < a -> forall y, In y before -> eE y <> b /\ laminar_pair (mkE a b O) y).
  { intros p Hp Hpa y Hy. pose proof (last_opt_max before p Hbs Hp y Hy) as Hle. split; [lia|].
    unfold laminar_pair. cbn [eS eE]. right. left. lia. }
  destruct rest as [|f rest'].
  - destruct Hx as [Hx|[]]. destruct (last_opt before) as [l|] eqn:Hl.
    + injection Hn as Hn _. apply negb_false_iff in Hn. apply Z.ltb_lt in Hn. exact (Hbefore l eq_refl Hn x Hx).
    + apply last_opt_none in Hl. subst before. destruct Hx.
  - unfold straddled in Hn. destruct ((a <=? eS f) && (eS f <=? b)) eqn:Hsf; [discriminate|].
    set (hz0 := (eE f =? b) || existsb (fun e : NE => (a <=? eS e) && (eS e <=? b)) rest') in *.
    destruct ((fix_eqend c && (eE f =? b)) || (fix_encl c && existsb (fun e : NE => (a <=? eS e) && (eS e <=? b)) rest')) eqn:Hfix; [discriminate|].
    assert (Hhz : hz = hz0) by (destruct (last_opt before); injection Hn; intros; congruence).
    apply orb_false_iff in Hfix. destruct Hfix as [Hf1 Hf2].
    assert (Heq : (eE f =? b) = false).
    { destruct He as [He|He]; [rewrite He in Hf1; exact Hf1|]. rewrite Hhz in He. unfold hz0 in He. apply orb_false_iff in He. apply He. }
    assert (Hex : existsb (fun e : NE => (a <=? eS e) && (eS e <=? b)) rest' = false).
    { destruct Hc as [Hc|Hc]; [rewrite Hc in Hf2; exact Hf2|]. rewrite Hhz in Hc. unfold hz0 in Hc. apply orb_false_iff in Hc. apply Hc. }
    apply Z.eqb_neq in Heq.
    destruct Hx as [Hx|Hx].
    + destruct (last_opt before) as [p|] eqn:Hl.
      * injection Hn as Hn _. apply Z.leb_gt in Hn. exact (Hbefore p eq_refl Hn x Hx).
      * apply last_opt_none in Hl. subst before. destruct Hx.
    + assert (Hns : (a <=? eS x) && (eS x <=? b) = false).
      { destruct Hx as [Hfx|Hx]; [subst x; exact Hsf|]. rewrite <- not_true_iff_false. intros Ht.
        assert (existsb (fun e : NE => (a <=? eS e) && (eS e <=? b)) rest' = true) by (apply existsb_exists; exists x; split; assumption).
        congruence. }
      assert (Hxb : b < eE x).
      { destruct Hx as [Hfx|Hx]; [subst x; specialize (Hge f (or_introl eq_refl)); lia|].
        unfold ksorted in Hrs. inversion Hrs as [|? ? _ Hall]; subst. rewrite Forall_forall in Hall.
        specialize (Hall x Hx). specialize (Hge f (or_introl eq_refl)). lia. }
      split; [lia|]. unfold laminar_pair, strict_sub. cbn [eS eE].
      apply andb_false_iff in Hns. destruct Hns as [Hns|Hns]; [apply Z.leb_gt in Hns|apply Z.leb_gt in Hns]; lia.
Qed.

Definition entry_of (a b : Z) (v : nat) : NE := mkE a b v.

Lemma laminar_pair_value a b v x : laminar_pair (mkE a b O) x -> laminar_pair (mkE a b v) x.
Proof. unfold laminar_pair, strict_sub. cbn [eS eE]. tauto. Qed.

Lemma set_ok_tset (s : list NE) a b v :
  set_ok s -> a <= b -> (forall x, In x s -> eE x <> b /\ laminar_pair (mkE a b O) x) ->
  set_ok (tset s (mkE a b v)) /\ Permutation (tset s (mkE a b v)) (mkE a b v :: s).
Proof.
  intros [Hks [Hval Hlam]] Hab Hacc. split; [split; [|split]|].
  - apply tset_ksorted. exact Hks.
  - apply tset_Forall; [exact Hval|exact Hab].
  - intros x y Hx Hy Hne. apply tset_In_1 in Hx. apply tset_In_1 in Hy.
    destruct Hx as [->|Hx]; destruct Hy as [->|Hy].
    + contradiction.
    + apply laminar_pair_value. apply Hacc. exact Hy.
    + apply laminar_pair_sym, laminar_pair_value. apply Hacc. exact Hx.
    + apply Hlam; assumption.
  - apply tset_perm. intros x Hx. cbn [eE]. apply Hacc. exact Hx.
Qed.

Lemma ninsert_ok c : forall sets a b v sets' hz,
  Forall set_ok sets -> a <= b -> ninsert c sets a b v = (sets', hz) ->
  fix_eqend c = true \/ hz = false -> fix_encl c = true \/ hz = false ->
  Forall set_ok sets' /\ Permutation (concat sets') (mkE a b v :: concat sets).
Proof.
  induction sets as [|s r IH]; intros a b v sets' hz Hall Hab Hn He Hc; cbn [ninsert] in Hn.
  - injection Hn as <- _. split.
    + constructor; [|constructor]. split; [|split].
      * constructor; constructor.
      * constructor; [exact Hab|constructor].
      * intros x y [<-|[]] [<-|[]] Hne. contradiction.
    + cbn [concat app]. apply Permutation_refl.
  - inversion Hall as [|? ? Hs Hr]; subst.
    destruct (nconflict c s a b) as [cf hz1] eqn:Hcf. destruct cf.
    + destruct (ninsert c r a b v) as [r' hz2] eqn:Hrec. injection Hn as <- <-.
      assert (He2 : fix_eqend c = true \/ hz2 = false) by (destruct He as [H|H]; [left; exact H|right; apply orb_false_iff in H; apply H]).
      assert (Hc2 : fix_encl c = true \/ hz2 = false) by (destruct Hc as [H|H]; [left; exact H|right; apply orb_false_iff in H; apply H]).
      destruct (IH a b v r' hz2 Hr Hab Hrec He2 Hc2) as [Hok Hperm]. split; [constructor; assumption|].
      cbn [concat]. eapply Permutation_trans; [apply Permutation_app_head, Hperm|].
      apply Permutation_sym, Permutation_middle.
    + injection Hn as <- <-.
      pose proof (nconflict_accepts c s a b hz1 Hs Hab Hcf He Hc) as Hacc.
      destruct (set_ok_tset s a b v Hs Hab Hacc) as [Hok Hperm]. split; [constructor; assumption|].
      cbn [concat]. apply (Permutation_app_tail (concat r)) in Hperm. exact Hperm.
Qed.

Lemma nrun_hz_mono c : forall ops sets hz0 sets' hz, nrun c sets ops hz0 = (sets', hz) -> hz = false -> hz0 = false.
Proof.
  induction ops as [|[[a b] v] r IH]; intros sets hz0 sets' hz Hr Hz; cbn [nrun] in Hr.
  - injection Hr as _ <-. exact Hz.
  - destruct (ninsert c sets a b v) as [s1 hz1]. specialize (IH _ _ _ _ Hr Hz). apply orb_false_iff in IH. apply IH.
Qed.

Lemma nrun_ok c : forall ops sets hz0 sets' hz,
  Forall set_ok sets -> Forall valid_op ops -> nrun c sets ops hz0 = (sets', hz) ->
  fix_eqend c = true \/ hz = false -> fix_encl c = true \/ hz = false ->
  Forall set_ok sets' /\ Permutation (concat sets') (rev (map op_entry ops) ++ concat sets).
Proof.
  induction ops as [|[[a b] v] r IH]; intros sets hz0 sets' hz Hall Hv Hr He Hc; cbn [nrun] in Hr.
  - injection Hr as <- _. split; [exact Hall|apply Permutation_refl].
  - inversion Hv as [|? ? Hop Hv']; subst. cbn [valid_op] in Hop.
    destruct (ninsert c sets a b v) as [s1 hz1] eqn:Hins.
    assert (Hz1 : hz = false -> hz1 = false).
    { intros Hz. pose proof (nrun_hz_mono _ _ _ _ _ _ Hr Hz) as H0. apply orb_false_iff in H0. apply H0. }
    assert (He1 : fix_eqend c = true \/ hz1 = false) by (destruct He as [H|H]; [left; exact H|right; exact (Hz1 H)]).
    assert (Hc1 : fix_encl c = true \/ hz1 = false) by (destruct Hc as [H|H]; [left; exact H|right; exact (Hz1 H)]).
    destruct (ninsert_ok c sets a b v s1 hz1 Hall Hop Hins He1 Hc1) as [Hok1 Hp1].
    destruct (IH s1 (hz0 || hz1) sets' hz Hok1 Hv' Hr He Hc) as [Hok Hp]. split; [exact Hok|].
    eapply Permutation_trans; [exact Hp|]. cbn [map rev op_entry]. rewrite <- app_assoc. cbn [app].
    apply Permutation_app_head. eapply Permutation_trans; [exact Hp1|apply Permutation_refl].
Qed.

Definition nesting_ok (ops : list (Z * Z * nat)) (sets : list (list NE)) : Prop :=
  Forall laminar sets /\ Permutation (concat sets) (map op_entry ops).

Lemma nesting_guarded_lemma c ops sets hz :
  Forall valid_op ops -> nest_run c ops = (sets, hz) ->
  fix_eqend c = true \/ hz = false -> fix_encl c = true \/ hz = false -> nesting_ok ops sets.
Proof.
  intros Hv Hr He Hc. unfold nest_run in Hr.
  destruct (nrun_ok c ops [] false sets hz (Forall_nil _) Hv Hr He Hc) as [Hok Hp]. split.
  - rewrite Forall_forall in *. intros s Hs. apply (Hok s Hs).
  - cbn [concat] in Hp. rewrite app_nil_r in Hp. eapply Permutation_trans; [exact Hp|]. apply Permutation_sym, Permutation_rev.
Qed.

Lemma nesting_partial_lemma : forall ops sets, Forall valid_op ops -> nest_run asis ops = (sets, false) -> nesting_ok ops sets.
Proof. intros ops sets Hv Hr. eapply nesting_guarded_lemma; [exact Hv|exact Hr|right; reflexivity|right; reflexivity]. Qed.

Lemma nesting_repaired_lemma : forall ops, Forall valid_op ops -> nesting_ok ops (fst (nest_run repaired ops)).
Proof.
  intros ops Hv. destruct (nest_run repaired ops) as [sets hz] eqn:Hr. cbn [fst].
  eapply nesting_guarded_lemma; [exact Hv|exact Hr|left; reflexivity|left; reflexivity].
Qed.

(* ------------------------------------------------------------------ the code as it is: refutations *)
Lemma nesting_sets_laminar_refuted_lemma :
  exists ops, Forall valid_op ops /\ ~ Forall laminar (fst (nest_run asis ops)).
Proof.
  exists [(3, 10, 1%nat); (5, 6, 2%nat); (2, 4, 3%nat)]. split; [repeat constructor; cbn; lia|].
  vm_compute. intros H. inversion H as [|? ? Hl _]; subst.
  specialize (Hl (mkE 2 4 3%nat) (mkE 3 10 1%nat)).
  assert (Hp : laminar_pair (mkE 2 4 3%nat) (mkE 3 10 1%nat)).
  { apply Hl; [left; reflexivity|right; right; left; reflexivity|discriminate]. }
  unfold laminar_pair, strict_sub in Hp. cbn [eS eE] in Hp. lia.
Qed.

Lemma nesting_partition_refuted_lemma :
  exists ops, Forall valid_op ops /\ ~ Permutation (concat (fst (nest_run asis ops))) (map op_entry ops).
Proof.
  exists [(0, 10, 1%nat); (5, 10, 2%nat)]. split; [repeat constructor; cbn; lia|].
  vm_compute. intros H. apply Permutation_length in H. discriminate.
Qed.

Lemma nesting_examples :
  nest_run asis [(1, 10, 1%nat); (5, 15, 2%nat); (4, 9, 3%nat); (9, 11, 4%nat)]
  = ([[mkE 4 9 3%nat; mkE 1 10 1%nat]; [mkE 9 11 4%nat; mkE 5 15 2%nat]], false)
  /\ snd (nest_run asis [(0, 10, 1%nat); (5, 10, 2%nat)]) = true
  /\ snd (nest_run asis [(3, 10, 1%nat); (5, 6, 2%nat); (2, 4, 3%nat)]) = true.
Proof. repeat split; vm_compute; reflexivity. Qed.

Lemma nesting_sets_laminar_repaired_lemma : forall ops, Forall valid_op ops -> Forall laminar (fst (nest_run repaired ops)).
Proof. intros ops Hv. apply (nesting_repaired_lemma ops Hv). Qed.

Lemma nesting_partition_repaired_lemma : forall ops, Forall valid_op ops ->
  Permutation (concat (fst (nest_run repaired ops))) (map op_entry ops).
Proof. intros ops Hv. apply (nesting_repaired_lemma ops Hv). Qed.
