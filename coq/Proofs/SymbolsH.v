(* The model with the handler kind explicit (Model/Symbols.v part 2b): the fail-fast instance is
   the sequential model of part 2; a failed import under either kind of handler; the first
   failure of a sequence of imports does not depend on the kind of handler. *)
From Coq Require Import List NArith ZArith Bool Lia.
From PV Require Import Common.Corr Model.Symbols Proofs.Symbols Proofs.SymbolsSpec.
Import ListNotations.

Definition rep (r : res) : hstate := match r with Err e => [e] | Ok => [] end.
Definition repP (r : pkres) : hstate := match r with PkgErr e => [e] | PkgOk _ => [] end.

Definition importH_body (m : hmode) (fid : N) (pkg : name) (deps : list file) (syms : list name)
           (exts : list (name * name * Z)) (T : table) (hs : hstate) : table * hstate * res :=
  match import_packagesH m hs T fid pkg with
  | (T1, hs1, PkgErr e) => (T1, hs1, Err e)
  | (T1, hs1, PkgOk None) => (T1, hs1, Ok)
  | (T1, hs1, PkgOk (Some p)) =>
    if mem_N fid (n_files (get_node T1 p)) then (T1, hs1, Ok)
    else
      match import_listH m deps T1 hs1 with
      | (T2, hs2, Err e) => (T2, hs2, Err e)
      | (T2, hs2, Ok) =>
        match import_file_nodeH m hs2 T2 p fid syms with
        | (T3, hs3, _, Err e) => (T3, hs3, Err e)
        | (T3, hs3, false, Ok) => (T3, hs3, Ok)
        | (T3, hs3, true, Ok) => add_extsH m hs3 T3 fid exts
        end
      end
  end.

Lemma importH_unfold m fid pkg deps syms exts T hs :
  importH m (File fid pkg deps syms exts) T hs = importH_body m fid pkg deps syms exts T hs.
Proof.
  cbn [importH]. unfold importH_body.
  destruct (import_packagesH m hs T fid pkg) as [[T1 hs1] [[p|]|e]]; try reflexivity.
  destruct (mem_N fid (n_files (get_node T1 p))); [reflexivity|].
  assert (E : forall ds T0 h0,
             (fix import_deps (ds : list file) (T : table) (hs : hstate) {struct ds} : table * hstate * res :=
                match ds with
                | [] => (T, hs, Ok)
                | d :: r => match importH m d T hs with
                            | (T', hs', Ok) => import_deps r T' hs'
                            | (T', hs', Err e) => (T', hs', Err e)
                            end
                end) ds T0 h0 = import_listH m ds T0 h0).
  { induction ds as [|d ds IH]; intros T0 h0; [reflexivity|]. cbn [import_listH].
    destruct (importH m d T0 h0) as [[T' hs'] [|e]]; [apply IH|reflexivity]. }
  rewrite E. reflexivity.
Qed.

(* ------------------------------------------------------------------------------------------ *)
(* (a) the fail-fast handler gives the sequential model of part 2 *)

Lemma import_packageH_abort T cur o p :
  import_packageH HAbort [] T cur o p = let '(T', r) := import_package T cur o p in (T', repP r, r).
Proof.
  unfold import_packageH, import_package. destruct (sym_find p (n_symbols (get_node T cur))) as [e|]; [|reflexivity].
  destruct (e_pkg e); reflexivity.
Qed.

Lemma import_packages_loopH_abort o ps : forall T cur,
  import_packages_loopH HAbort [] T o cur ps = let '(T', r) := import_packages_loop T o cur ps in (T', repP r, r).
Proof.
  induction ps as [|p ps IH]; intros T cur; cbn [import_packages_loopH import_packages_loop]; [reflexivity|].
  rewrite import_packageH_abort. destruct (import_package T cur o p) as [T' [[c|]|e]]; cbn; [apply IH|reflexivity|reflexivity].
Qed.

Lemma check_symsH_abort syms tbl :
  check_symsH HAbort [] syms tbl = match check_syms syms tbl with Some e => ([e], Some e) | None => ([], None) end.
Proof.
  induction syms as [|x r IH]; cbn [check_symsH check_syms]; [reflexivity|].
  destruct (sym_find x tbl); [reflexivity|exact IH].
Qed.

Lemma import_file_nodeH_abort T p fid syms :
  import_file_nodeH HAbort [] T p fid syms = let '(T', b, r) := import_file_node T p fid syms in (T', rep r, b, r).
Proof.
  unfold import_file_nodeH, import_file_node. destruct (mem_N fid (n_files (get_node T p))); [reflexivity|].
  rewrite check_symsH_abort. destruct (check_syms syms (n_symbols (get_node T p))); reflexivity.
Qed.

Lemma add_extensionH_abort T pkg mn t o :
  add_extensionH HAbort [] T pkg mn t o = let '(T', r) := add_extension T pkg mn t o in (T', rep r, r).
Proof.
  unfold add_extensionH, add_extension, add_ext_node.
  destruct (negb (name_eqb pkg []) && negb (proper_prefix pkg mn)); [reflexivity|].
  destruct (get_package T pkg true) as [p|]; [|reflexivity].
  destruct (ext_find mn t (n_exts (get_node T p))); reflexivity.
Qed.

Lemma add_extsH_abort o exts : forall T,
  add_extsH HAbort [] T o exts = let '(T', r) := add_exts T o exts in (T', rep r, r).
Proof.
  induction exts as [|[[pkg mn] t] r IH]; intros T; cbn [add_extsH add_exts]; [reflexivity|].
  rewrite add_extensionH_abort. destruct (add_extension T pkg mn t o) as [T' [|e]]; cbn; [apply IH|reflexivity].
Qed.

Lemma importH_abort_lemma : forall f T,
  importH HAbort f T [] = let '(T', r) := import f T in (T', rep r, r).
Proof.
  induction f as [fid pkg deps syms exts IHd] using file_ind2. intros T.
  rewrite importH_unfold. unfold import. rewrite import_gen_unfold. fold import.
  unfold importH_body, import_body, import_packagesH, import_packages.
  rewrite import_packages_loopH_abort.
  destruct (import_packages_loop T fid [] (prefixes pkg)) as [T1 [[p|]|e]]; cbn [repP]; try reflexivity.
  destruct (mem_N fid (n_files (get_node T1 p))); [reflexivity|].
  assert (EL : forall T0, import_listH HAbort deps T0 [] =
                          let '(T', r) := import_list import deps T0 in (T', rep r, r)).
  { clear - IHd. induction IHd as [|d ds Hd _ IH]; intros T0; cbn [import_listH import_list]; [reflexivity|].
    rewrite Hd. destruct (import d T0) as [T' [|e]]; cbn; [apply IH|reflexivity]. }
  rewrite EL. destruct (import_list import deps T1) as [T2 [|e2]]; cbn [rep]; [|reflexivity].
  rewrite import_file_nodeH_abort. destruct (import_file_node T2 p fid syms) as [[T3 b] [|e3]]; cbn [rep].
  - destruct b; [apply add_extsH_abort|reflexivity].
  - destruct b; reflexivity.
Qed.

(* ------------------------------------------------------------------------------------------ *)
(* (b) C17 under either kind of handler *)

Lemma handle_in m hs e hs' x : handle m hs e = (hs', x) -> forall e', In e' hs' -> In e' hs \/ e' = e.
Proof.
  destruct m; cbn.
  - destruct hs as [|e0 hs0]; intros H; inversion H; subst; cbn; intros e' [H1|H1]; auto.
  - intros H; inversion H; subst. intros e' H1. apply in_app_iff in H1 as [H1|[H1|[]]]; auto.
Qed.

Lemma handler_error_none m hs : handler_error m hs = None -> hs = [].
Proof. destruct hs; [reflexivity|]. destruct m; discriminate. Qed.

Lemma of_handle_in m hs e T T' hs' r :
  of_handle T (handle m hs e) = (T', hs', r) -> T' = T /\ forall e', In e' hs' -> In e' hs \/ e' = e.
Proof.
  destruct (handle m hs e) as [h1 x] eqn:E. destruct x; cbn; intros H; inversion H; subst;
    (split; [reflexivity|exact (handle_in _ _ _ _ _ E)]).
Qed.

Definition not_sym (e : err) : Prop := forall n b, e <> ESym n b.

Lemma add_extensionH_in m hs T pkg mn t o T' hs' r :
  add_extensionH m hs T pkg mn t o = (T', hs', r) -> forall e, In e hs' -> In e hs \/ not_sym e.
Proof.
  unfold add_extensionH.
  destruct (negb (name_eqb pkg []) && negb (proper_prefix pkg mn)).
  { intros H e He. destruct (of_handle_in _ _ _ _ _ _ _ H) as [_ Hi]. destruct (Hi e He) as [H1| ->]; [now left|right; discriminate]. }
  destruct (get_package T pkg true) as [p|].
  2:{ intros H e He. destruct (of_handle_in _ _ _ _ _ _ _ H) as [_ Hi]. destruct (Hi e He) as [H1| ->]; [now left|right; discriminate]. }
  destruct (ext_find mn t (n_exts (get_node T p))).
  - intros H e He. destruct (of_handle_in _ _ _ _ _ _ _ H) as [_ Hi]. destruct (Hi e He) as [H1| ->]; [now left|right; discriminate].
  - intros H; inversion H; subst. auto.
Qed.

Lemma add_extsH_in m o exts : forall hs T T' hs' r,
  add_extsH m hs T o exts = (T', hs', r) -> forall e, In e hs' -> In e hs \/ not_sym e.
Proof.
  induction exts as [|[[pkg mn] t] rest IH]; intros hs T T' hs' r; cbn [add_extsH].
  - intros H; inversion H; subst. auto.
  - destruct (add_extensionH m hs T pkg mn t o) as [[T1 hs1] r1] eqn:E1. destruct r1 as [|e1].
    + intros H e He. destruct (IH _ _ _ _ _ H e He) as [H1|H1]; [|now right].
      exact (add_extensionH_in _ _ _ _ _ _ _ _ _ _ E1 e H1).
    + intros H; inversion H; subst. exact (add_extensionH_in _ _ _ _ _ _ _ _ _ _ E1).
Qed.

Lemma import_listH_settled m ds T :
  (forall d, In d ds -> importH m d T [] = (T, [], Ok)) -> import_listH m ds T [] = (T, [], Ok).
Proof.
  induction ds as [|d ds IH]; intros H; cbn [import_listH]; [reflexivity|].
  rewrite (H d (or_introl eq_refl)). apply IH. intros d' Hd. apply H. now right.
Qed.

(* under the guard, an import that reported a name collision has written nothing *)
Lemma failed_name_collision_keeps_tableH m T f T' hs r :
  deps_settledH m T f -> importH m f T [] = (T', hs, r) ->
  (exists n b, In (ESym n b) hs) -> T' = T.
Proof.
  destruct f as [fid pkg deps syms exts]. intros [[p Hp] Hd]. cbn [ffid fpkg fdeps] in *.
  rewrite importH_unfold. unfold importH_body. rewrite Hp.
  destruct (mem_N fid (n_files (get_node T p))) eqn:Hm; [intros H; now inversion H|].
  rewrite (import_listH_settled _ _ _ Hd). unfold import_file_nodeH. rewrite Hm.
  destruct (check_symsH m [] syms (n_symbols (get_node T p))) as [hs1 [e1|]] eqn:Ec.
  - intros H; now inversion H.
  - destruct (handler_error m hs1) as [e1|] eqn:Eh; [intros H; now inversion H|].
    apply handler_error_none in Eh. subst hs1. intros H [n [b Hin]]. exfalso.
    destruct (add_extsH_in _ _ _ _ _ _ _ _ H _ Hin) as [[]|Hs]. exact (Hs n b eq_refl).
Qed.

Lemma observeH_eq m T T' : T' = T -> forall q, observeH m T' q = observeH m T q.
Proof. intros ->; reflexivity. Qed.

Lemma failed_import_is_noop_partialH_lemma m T f T' hs r :
  deps_settledH m T f -> importH m f T [] = (T', hs, r) -> (exists n b, In (ESym n b) hs) ->
  T' = T /\ (forall q, observeH m T' q = observeH m T q) /\ importH m f T' [] = (T', hs, r).
Proof.
  intros Hg H Hs. assert (E : T' = T) by (eapply failed_name_collision_keeps_tableH; eauto).
  subst T'. repeat split; auto.
Qed.

(* witnesses under the collecting handler: the three defect classes are there as well *)
Lemma refuted_extnum_collect_lemma :
  exists f T' hs r q, deps_settledH HCollect [] f /\ importH HCollect f [] [] = (T', hs, r) /\ hs <> [] /\
                      observeH HCollect T' q <> observeH HCollect [] q /\
                      importH HCollect f T' [] = (T', [], Ok).
Proof.
  exists wX, (fst (fst (importH HCollect wX [] []))), [EExt [7%N] 100%Z], Ok, (QLookup [20%N]).
  split; [split; [exists []; reflexivity|intros d []]|].
  split; [vm_compute; reflexivity|]. split; [discriminate|]. split; [vm_compute; discriminate|vm_compute; reflexivity].
Qed.

Lemma refuted_deps_collect_lemma :
  exists h f T' hs r q,
    let T := fst (run_opsH HCollect [] h) in
    importH HCollect f T [] = (T', hs, r) /\ hs <> [] /\ observeH HCollect T' q <> observeH HCollect T q.
Proof.
  exists [OImport wD0], wA, (fst (fst (importH HCollect wA (fst (fst (importH HCollect wD0 [] []))) []))),
    [ESym [4%N; 7%N] false], (Err EInvalid), (QLookup [14%N; 25%N]).
  cbn zeta. split; [vm_compute; reflexivity|]. split; [discriminate|vm_compute; discriminate].
Qed.

Lemma refuted_packages_collect_lemma :
  exists h f T' hs r g,
    let T := fst (run_opsH HCollect [] h) in
    importH HCollect f T [] = (T', hs, r) /\ hs <> [] /\
    observeH HCollect T (QImport g) = AHRes [] Ok /\
    observeH HCollect T' (QImport g) = AHRes [ESym [18%N; 17%N] true] (Err EInvalid).
Proof.
  exists [OImport wD0], wA2, (fst (fst (importH HCollect wA2 (fst (fst (importH HCollect wD0 [] []))) []))),
    [ESym [4%N; 7%N] false], (Err EInvalid), wB.
  cbn zeta. split; [vm_compute; reflexivity|]. split; [discriminate|]. split; vm_compute; reflexivity.
Qed.

Lemma partialH_nonvacuous :
  let T := fst (fst (importH HCollect wD0 [] [])) in
  deps_settledH HCollect T wD1 /\ importH HCollect wD1 T [] = (T, [ESym [4%N; 7%N] false], Err EInvalid).
Proof.
  cbn zeta. split; [split|].
  - exists [4%N]. vm_compute. reflexivity.
  - intros d [].
  - vm_compute. reflexivity.
Qed.

(* ------------------------------------------------------------------------------------------ *)
(* (c) C16: until something is reported the collecting handler behaves like the fail-fast one,
   and it reports something exactly when the fail-fast one fails *)

Lemma handle_nonempty m hs e : fst (handle m hs e) <> [].
Proof.
  destruct m; cbn.
  - destruct hs; discriminate.
  - destruct hs; discriminate.
Qed.

Lemma handle_keeps m hs e : hs <> [] -> fst (handle m hs e) <> [].
Proof. intros _. apply handle_nonempty. Qed.

Lemma of_handle_nonempty m hs e T T' hs' r : of_handle T (handle m hs e) = (T', hs', r) -> hs' <> [].
Proof.
  pose proof (handle_nonempty m hs e) as Hn. destruct (handle m hs e) as [h1 [x|]]; cbn in *;
    intros H; inversion H; subst; exact Hn.
Qed.

(* once something was reported it stays reported *)
Lemma import_packages_loopH_keeps m o ps : forall hs T cur T' hs' r,
  hs <> [] -> import_packages_loopH m hs T o cur ps = (T', hs', r) -> hs' <> [].
Proof.
  induction ps as [|p ps IH]; intros hs T cur T' hs' r Hn; cbn [import_packages_loopH].
  - intros H; inversion H; subst; exact Hn.
  - unfold import_packageH. destruct (sym_find p (n_symbols (get_node T cur))) as [e|].
    + destruct (e_pkg e).
      * destruct (mem_name p (n_children (get_node T cur))); [apply IH; exact Hn|].
        intros H; inversion H; subst; exact Hn.
      * pose proof (handle_nonempty m hs (ESym p false)) as Hh.
        destruct (handle m hs (ESym p false)) as [h1 [x|]]; cbn in Hh; intros H; inversion H; subst; exact Hh.
    + apply IH. exact Hn.
Qed.

Lemma check_symsH_keeps m syms tbl : forall hs hs' x,
  hs <> [] -> check_symsH m hs syms tbl = (hs', x) -> hs' <> [].
Proof.
  induction syms as [|y r IH]; intros hs hs' x Hn; cbn [check_symsH].
  - intros H; inversion H; subst; exact Hn.
  - destruct (sym_find y tbl) as [e|]; [|apply IH; exact Hn].
    pose proof (handle_nonempty m hs (ESym y (e_pkg e))) as Hh.
    destruct (handle m hs (ESym y (e_pkg e))) as [h1 [x1|]]; cbn in Hh.
    + intros H; inversion H; subst; exact Hh.
    + apply IH. exact Hh.
Qed.

Lemma import_file_nodeH_keeps m hs T p fid syms T' hs' b r :
  hs <> [] -> import_file_nodeH m hs T p fid syms = (T', hs', b, r) -> hs' <> [].
Proof.
  intros Hn. unfold import_file_nodeH. destruct (mem_N fid (n_files (get_node T p))).
  - intros H; inversion H; subst; exact Hn.
  - destruct (check_symsH m hs syms (n_symbols (get_node T p))) as [hs1 x] eqn:Ec.
    pose proof (check_symsH_keeps _ _ _ _ _ _ Hn Ec) as H1.
    destruct x; [intros H; inversion H; subst; exact H1|].
    destruct (handler_error m hs1); intros H; inversion H; subst; exact H1.
Qed.

Lemma add_extensionH_keeps m hs T pkg mn t o T' hs' r :
  hs <> [] -> add_extensionH m hs T pkg mn t o = (T', hs', r) -> hs' <> [].
Proof.
  intros Hn. unfold add_extensionH.
  destruct (negb (name_eqb pkg []) && negb (proper_prefix pkg mn)); [apply of_handle_nonempty|].
  destruct (get_package T pkg true) as [p|]; [|apply of_handle_nonempty].
  destruct (ext_find mn t (n_exts (get_node T p))); [apply of_handle_nonempty|].
  intros H; inversion H; subst; exact Hn.
Qed.

Lemma add_extsH_keeps m o exts : forall hs T T' hs' r,
  hs <> [] -> add_extsH m hs T o exts = (T', hs', r) -> hs' <> [].
Proof.
  induction exts as [|[[pkg mn] t] rest IH]; intros hs T T' hs' r Hn; cbn [add_extsH].
  - intros H; inversion H; subst; exact Hn.
  - destruct (add_extensionH m hs T pkg mn t o) as [[T1 hs1] r1] eqn:E1.
    pose proof (add_extensionH_keeps _ _ _ _ _ _ _ _ _ _ Hn E1) as H1.
    destruct r1; [apply IH; exact H1|]. intros H; inversion H; subst; exact H1.
Qed.

Lemma importH_keeps m : forall f hs T T' hs' r,
  hs <> [] -> importH m f T hs = (T', hs', r) -> hs' <> [].
Proof.
  induction f as [fid pkg deps syms exts IHd] using file_ind2. intros hs T T' hs' r Hn.
  rewrite importH_unfold. unfold importH_body, import_packagesH.
  destruct (import_packages_loopH m hs T fid [] (prefixes pkg)) as [[T1 hs1] r1] eqn:Ep.
  pose proof (import_packages_loopH_keeps _ _ _ _ _ _ _ _ _ Hn Ep) as H1.
  destruct r1 as [[p|]|e]; try (intros H; inversion H; subst; exact H1).
  destruct (mem_N fid (n_files (get_node T1 p))); [intros H; inversion H; subst; exact H1|].
  assert (HL : forall hs0 T0 T2 hs2 r2, hs0 <> [] -> import_listH m deps T0 hs0 = (T2, hs2, r2) -> hs2 <> []).
  { clear - IHd. induction IHd as [|d ds Hd _ IH]; intros hs0 T0 T2 hs2 r2 Hn; cbn [import_listH].
    - intros H; inversion H; subst; exact Hn.
    - destruct (importH m d T0 hs0) as [[Td hd] rd] eqn:Ed.
      pose proof (Hd _ _ _ _ _ Hn Ed) as H1. destruct rd; [apply IH; exact H1|].
      intros H; inversion H; subst; exact H1. }
  destruct (import_listH m deps T1 hs1) as [[T2 hs2] r2] eqn:Ed.
  pose proof (HL _ _ _ _ _ H1 Ed) as H2.
  destruct r2; [|intros H; inversion H; subst; exact H2].
  destruct (import_file_nodeH m hs2 T2 p fid syms) as [[[T3 hs3] b] r3] eqn:Ef.
  pose proof (import_file_nodeH_keeps _ _ _ _ _ _ _ _ _ _ H2 Ef) as H3.
  destruct r3.
  - destruct b; [apply add_extsH_keeps; exact H3|intros H; inversion H; subst; exact H3].
  - destruct b; intros H; inversion H; subst; exact H3.
Qed.

(* the collecting handler against the sequential (fail-fast) model, started with nothing reported *)
Lemma import_packages_loop_collect o ps : forall T cur,
  match import_packages_loop T o cur ps with
  | (T1, PkgOk x) => import_packages_loopH HCollect [] T o cur ps = (T1, [], PkgOk x)
  | (T1, PkgErr e) => exists hs r, import_packages_loopH HCollect [] T o cur ps = (T1, hs, PkgOk r) /\ hs <> [] /\ r = None
  end.
Proof.
  induction ps as [|p ps IH]; intros T cur; cbn [import_packages_loop import_packages_loopH]; [reflexivity|].
  unfold import_package, import_packageH.
  destruct (sym_find p (n_symbols (get_node T cur))) as [e|].
  - destruct (e_pkg e).
    + destruct (mem_name p (n_children (get_node T cur))); [apply IH|reflexivity].
    + cbn. eexists _, None. repeat split. discriminate.
  - apply IH.
Qed.

Lemma check_syms_collect syms tbl :
  match check_syms syms tbl with
  | None => check_symsH HCollect [] syms tbl = ([], None)
  | Some _ => exists hs, check_symsH HCollect [] syms tbl = (hs, None) /\ hs <> []
  end.
Proof.
  induction syms as [|x r IH]; cbn [check_syms check_symsH]; [reflexivity|].
  destruct (sym_find x tbl) as [e|]; [|exact IH]. cbn [handle app].
  assert (G : forall hs, hs <> [] -> exists hs', check_symsH HCollect hs r tbl = (hs', None) /\ hs' <> []).
  { clear. induction r as [|y r IH]; intros hs Hn; cbn [check_symsH]; [eauto|].
    destruct (sym_find y tbl) as [e|]; [|apply IH; exact Hn]. cbn [handle]. apply IH. destruct hs; discriminate. }
  apply G. discriminate.
Qed.

Lemma add_exts_collect o exts : forall T,
  match add_exts T o exts with
  | (T', Ok) => add_extsH HCollect [] T o exts = (T', [], Ok)
  | (_, Err _) => exists T'' hs r, add_extsH HCollect [] T o exts = (T'', hs, r) /\ hs <> []
  end.
Proof.
  induction exts as [|[[pkg mn] t] rest IH]; intros T; cbn [add_exts add_extsH]; [reflexivity|].
  unfold add_extension, add_extensionH, add_ext_node.
  assert (K : forall e, exists T'' hs r,
             match of_handle T (handle HCollect [] e) with
             | (T', hs', Ok) => add_extsH HCollect hs' T' o rest
             | (T', hs', Err e0) => (T', hs', Err e0)
             end = (T'', hs, r) /\ hs <> []).
  { intros e. cbn. destruct (add_extsH HCollect [e] T o rest) as [[T2 h2] r2] eqn:E2.
    exists T2, h2, r2. split; [reflexivity|]. eapply add_extsH_keeps; [|exact E2]. discriminate. }
  destruct (negb (name_eqb pkg []) && negb (proper_prefix pkg mn)); [apply K|].
  destruct (get_package T pkg true) as [p|]; [|apply K].
  destruct (ext_find mn t (n_exts (get_node T p))); [apply K|]. apply IH.
Qed.

Lemma import_collect : forall f T,
  match import f T with
  | (T', Ok) => importH HCollect f T [] = (T', [], Ok)
  | (_, Err _) => exists T'' hs r, importH HCollect f T [] = (T'', hs, r) /\ hs <> []
  end.
Proof.
  induction f as [fid pkg deps syms exts IHd] using file_ind2. intros T.
  unfold import. rewrite import_gen_unfold. fold import. rewrite importH_unfold.
  unfold import_body, importH_body, import_packages, import_packagesH.
  pose proof (import_packages_loop_collect fid (prefixes pkg) T []) as LP.
  destruct (import_packages_loop T fid [] (prefixes pkg)) as [T1 [[p|]|e]].
  3:{ destruct LP as [hs [r [E1 [Hn ->]]]]. rewrite E1. eauto. }
  2:{ rewrite LP. reflexivity. }
  rewrite LP. destruct (mem_N fid (n_files (get_node T1 p))) eqn:Em; [reflexivity|].
  assert (LD : forall T0,
             match import_list import deps T0 with
             | (T2, Ok) => import_listH HCollect deps T0 [] = (T2, [], Ok)
             | (_, Err _) => exists T'' hs r, import_listH HCollect deps T0 [] = (T'', hs, r) /\ hs <> []
             end).
  { clear - IHd. induction IHd as [|d ds Hd _ IH]; intros T0; cbn [import_list import_listH]; [reflexivity|].
    specialize (Hd T0). destruct (import d T0) as [Td [|ed]].
    - rewrite Hd. apply IH.
    - destruct Hd as [T'' [hs [r [E1 Hn]]]]. rewrite E1. destruct r.
      + destruct (import_listH HCollect ds T'' hs) as [[T3 h3] r3] eqn:E3. exists T3, h3, r3. split; [reflexivity|].
        revert E3. clear - Hn. revert T'' hs Hn. induction ds as [|d ds IH]; intros T'' hs Hn; cbn [import_listH].
        * intros H; inversion H; subst; exact Hn.
        * destruct (importH HCollect d T'' hs) as [[Td hd] rd] eqn:Ed.
          pose proof (importH_keeps _ _ _ _ _ _ _ Hn Ed) as H1. destruct rd; [apply IH; exact H1|].
          intros H; inversion H; subst; exact H1.
      + eauto. }
  specialize (LD T1). destruct (import_list import deps T1) as [T2 [|e2]].
  2:{ destruct LD as [T'' [hs [r [E1 Hn]]]]. rewrite E1. destruct r.
      - destruct (import_file_nodeH HCollect hs T'' p fid syms) as [[[T3 h3] b] r3] eqn:Ef.
        pose proof (import_file_nodeH_keeps _ _ _ _ _ _ _ _ _ _ Hn Ef) as H3.
        destruct r3.
        + destruct b; [|eauto]. destruct (add_extsH HCollect h3 T3 fid exts) as [[T4 h4] r4] eqn:Ea.
          exists T4, h4, r4. split; [reflexivity|]. eapply add_extsH_keeps; eauto.
        + destruct b; eauto.
      - eauto. }
  rewrite LD. unfold import_file_node, import_file_nodeH.
  destruct (mem_N fid (n_files (get_node T2 p))); [reflexivity|].
  pose proof (check_syms_collect syms (n_symbols (get_node T2 p))) as LC.
  destruct (check_syms syms (n_symbols (get_node T2 p))) as [e|].
  - destruct LC as [hs [E1 Hn]]. rewrite E1. destruct hs as [|e0 hs]; [congruence|]. cbn [handler_error]. eauto.
  - rewrite LC. cbn [handler_error]. apply add_exts_collect.
Qed.

(* sequences of imports, a fresh handler each: the collecting handler reports a failure exactly
   when the fail-fast handler fails, and while nothing failed the tables are the same *)
Lemma run_collect_lemma : forall fs T,
  any_failH (snd (run_opsH HCollect T (map OImport fs))) = any_err (snd (run_ops T (map OImport fs))) /\
  (any_err (snd (run_ops T (map OImport fs))) = false ->
   fst (run_opsH HCollect T (map OImport fs)) = fst (run_ops T (map OImport fs))).
Proof.
  unfold run_ops. induction fs as [|f fs IH]; intros T; cbn [map run_opsH run_ops_with]; [auto|].
  cbn [do_opH do_op_with]. pose proof (import_collect f T) as LI.
  destruct (import f T) as [T1 [|e]].
  - rewrite LI. destruct (IH T1) as [I1 I2].
    destruct (run_opsH HCollect T1 (map OImport fs)) as [Tc lc].
    destruct (run_ops_with import T1 (map OImport fs)) as [Ta la]. cbn [fst snd any_failH any_err] in *. auto.
  - destruct LI as [T'' [hs [r [E1 Hn]]]]. rewrite E1.
    destruct (run_opsH HCollect T'' (map OImport fs)) as [Tc lc].
    destruct (run_ops_with import T1 (map OImport fs)) as [Ta la]. cbn [fst snd any_failH any_err].
    destruct hs as [|e0 hs]; [congruence|]. split; [reflexivity|discriminate].
Qed.

Lemma run_abort_lemma : forall fs T,
  any_failH (snd (run_opsH HAbort T (map OImport fs))) = any_err (snd (run_ops T (map OImport fs))) /\
  fst (run_opsH HAbort T (map OImport fs)) = fst (run_ops T (map OImport fs)).
Proof.
  unfold run_ops. induction fs as [|f fs IH]; intros T; cbn [map run_opsH run_ops_with]; [auto|].
  cbn [do_opH do_op_with]. rewrite importH_abort_lemma. destruct (import f T) as [T1 r1].
  destruct (IH T1) as [I1 I2].
  destruct (run_opsH HAbort T1 (map OImport fs)) as [Tc lc].
  destruct (run_ops_with import T1 (map OImport fs)) as [Ta la]. cbn [fst snd] in *.
  split; [|exact I2]. destruct r1; cbn [rep any_failH any_err]; [exact I1|reflexivity].
Qed.

(* hence C16 for either kind of handler *)
Lemma failed_eq_has_collisionH_lemma m fs :
  wf_universe (closure_list fs) ->
  any_failH (snd (run_opsH m [] (map OImport fs))) = has_collision fs.
Proof.
  intros HW. destruct (run_ops [] (map OImport fs)) as [T l] eqn:Hr.
  pose proof (reported_eq_has_collision_lemma fs T l HW Hr) as HC.
  destruct m.
  - rewrite (proj1 (run_abort_lemma fs [])), Hr. exact HC.
  - rewrite (proj1 (run_collect_lemma fs [])), Hr. exact HC.
Qed.

Lemma import_commutesH_lemma m fs fs' :
  wf_universe (closure_list fs) -> Permutation.Permutation fs fs' -> ~ collides (closure_list fs) ->
  (forall n, lookup (fst (run_opsH m [] (map OImport fs'))) n = lookup (fst (run_opsH m [] (map OImport fs))) n) /\
  (forall mn t, lookup_ext (fst (run_opsH m [] (map OImport fs'))) mn t = lookup_ext (fst (run_opsH m [] (map OImport fs))) mn t).
Proof.
  intros HW HP Hnc.
  destruct (run_ops [] (map OImport fs)) as [T1 l1] eqn:H1.
  destruct (run_ops [] (map OImport fs')) as [T2 l2] eqn:H2.
  pose proof (import_commutes_lemma fs fs' T1 l1 T2 l2 HW HP Hnc H1 H2) as HC.
  assert (E1 : any_err l1 = false) by (apply (collision_iff_reported_lemma fs T1 l1 HW H1); exact Hnc).
  assert (HW' : wf_universe (closure_list fs')) by (eapply wf_universe_ext; [apply closure_list_perm; exact HP|exact HW]).
  assert (E2 : any_err l2 = false).
  { apply (collision_iff_reported_lemma fs' T2 l2 HW' H2). intros Hc. apply Hnc.
    eapply collides_ext; [|exact Hc]. intros x. symmetry. apply closure_list_perm. exact HP. }
  destruct m.
  - rewrite (proj2 (run_abort_lemma fs [])), (proj2 (run_abort_lemma fs' [])), H1, H2. exact HC.
  - rewrite (proj2 (run_collect_lemma fs [])) by (rewrite H1; exact E1).
    rewrite (proj2 (run_collect_lemma fs' [])) by (rewrite H2; exact E2). rewrite H1, H2. exact HC.
Qed.
