(* Proofs for the prefix trie part of C41 (Model/Trie.v).

   Plan:
   - list facts about upd / nth / slot / set_slot;
   - ghost paths: every hi node and every lo node carries the nybble path that leads to it
     (invariant WF); a walk from the root along a key ends in a node whose path is the nybbles
     of the key, hence two keys reaching the same node are equal;
   - insert_loop preserves WF, reaches a node by walking the inserted key and never changes a
     slot that was already set;
   - trie invariant: lookup (walk, has bit, value) agrees with last_value of the history;
   - the searcher (step / prefixes_loop) enumerates, for arbitrary tables, the prefixes whose
     lookup succeeds, by increasing length. *)
From Coq Require Import List Arith NArith Bool Lia.
From PV Require Import Model.Trie.
Import ListNotations.

(* ------------------------------------------------------------------ byte facts *)
Lemma hi4_lt b : (b < 256)%N -> hi4 b < 16.
Proof.
  intros Hb. unfold hi4.
  assert (Hd : (b / 16 < 16)%N) by (apply N.div_lt_upper_bound; lia).
  lia.
Qed.

Lemma lo4_lt b : lo4 b < 16.
Proof.
  unfold lo4. assert (Hm : (b mod 16 < 16)%N) by (apply N.mod_lt; lia). lia.
Qed.

Lemma nyb_inj a b : hi4 a = hi4 b -> lo4 a = lo4 b -> a = b.
Proof.
  unfold hi4, lo4. intros H1 H2.
  apply N2Nat.inj in H1. apply N2Nat.inj in H2.
  rewrite (N.div_mod a 16), (N.div_mod b 16) by lia.
  rewrite H1, H2. reflexivity.
Qed.

Lemma all_ones_length : length all_ones = 16.
Proof. reflexivity. Qed.

Lemma nth_repeat_default {A} (d : A) m k : nth k (repeat d m) d = d.
Proof.
  revert k. induction m as [|m IH]; intros [|k]; cbn [repeat nth]; auto.
Qed.

Lemma all_ones_nth k : nth k all_ones None = None.
Proof. unfold all_ones. apply nth_repeat_default. Qed.

Local Opaque hi4 lo4 all_ones.

(* ------------------------------------------------------------------ upd / nth *)
Lemma upd_length {A} (l : list A) i x : length (upd l i x) = length l.
Proof.
  revert i. induction l as [|y r IH]; intros [|j]; cbn [upd length]; auto.
Qed.

Lemma nth_upd_same {A} (l : list A) i x d : i < length l -> nth i (upd l i x) d = x.
Proof.
  revert i. induction l as [|y r IH]; intros [|j] H; cbn [upd nth length] in *; try lia; auto.
  apply IH. lia.
Qed.

Lemma nth_upd_other {A} (l : list A) i j x d : i <> j -> nth j (upd l i x) d = nth j l d.
Proof.
  revert i j. induction l as [|y r IH]; intros [|i] [|j] H; cbn [upd nth]; try reflexivity; try lia.
  apply IH. lia.
Qed.

Lemma upd_overflow {A} (l : list A) i x : length l <= i -> upd l i x = l.
Proof.
  revert i. induction l as [|y r IH]; intros [|j] H; cbn [upd length] in *; try reflexivity; try lia.
  f_equal. apply IH. lia.
Qed.

(* grow with the default up to index n, then set: the shape of set_has and set_value *)
Definition grow_set {A} (d : A) (l : list A) (n : nat) (v : A) : list A :=
  upd (if length l <=? n then l ++ repeat d (S n - length l) else l) n v.

Lemma nth_grow_set {A} (d : A) l n v x :
  nth x (grow_set d l n v) d = if x =? n then v else nth x l d.
Proof.
  unfold grow_set.
  set (l' := if length l <=? n then l ++ repeat d (S n - length l) else l).
  assert (Hlen : n < length l').
  { unfold l'. destruct (Nat.leb_spec (length l) n) as [Hle|Hlt].
    - rewrite app_length, repeat_length. lia.
    - exact Hlt. }
  assert (Hnth : forall y, nth y l' d = nth y l d).
  { intros y. unfold l'. destruct (Nat.leb_spec (length l) n) as [Hle|Hlt]; [|reflexivity].
    destruct (lt_dec y (length l)) as [Hy|Hy].
    - apply app_nth1. exact Hy.
    - rewrite app_nth2 by lia. rewrite nth_repeat_default.
      symmetry. apply nth_overflow. lia. }
  destruct (Nat.eqb_spec x n) as [->|Hne].
  - apply nth_upd_same. exact Hlen.
  - rewrite nth_upd_other by lia. apply Hnth.
Qed.

Lemma nth_set_has hv n x : nth x (set_has hv n) false = if x =? n then true else nth x hv false.
Proof. apply (nth_grow_set false hv n true x). Qed.

Lemma nth_set_value vs n v x : nth x (set_value vs n v) 0 = if x =? n then v else nth x vs 0.
Proof. apply (nth_grow_set 0 vs n v x). Qed.

(* ------------------------------------------------------------------ slots *)
Lemma slot_overflow t n k : length t <= n -> slot t n k = None.
Proof.
  intros H. unfold slot. rewrite (nth_overflow t [] H). destruct k; reflexivity.
Qed.

Lemma slot_some_lt t n k m : slot t n k = Some m -> n < length t.
Proof.
  intros H. destruct (lt_dec n (length t)) as [Hl|Hl]; [exact Hl|].
  rewrite slot_overflow in H by lia. discriminate.
Qed.

Lemma slot_set_same t n k v :
  n < length t -> k < length (nth n t []) -> slot (set_slot t n k v) n k = Some v.
Proof.
  intros Hn Hk. unfold slot, set_slot.
  rewrite nth_upd_same by exact Hn. apply nth_upd_same. exact Hk.
Qed.

Lemma slot_set_other t n k v n0 k0 :
  n0 <> n \/ k0 <> k -> slot (set_slot t n k v) n0 k0 = slot t n0 k0.
Proof.
  intros Hne. unfold slot, set_slot.
  destruct (Nat.eq_dec n n0) as [<-|Hn].
  - destruct (lt_dec n (length t)) as [Hl|Hl].
    + rewrite nth_upd_same by exact Hl. apply nth_upd_other. lia.
    + rewrite upd_overflow by lia. reflexivity.
  - rewrite nth_upd_other by exact Hn. reflexivity.
Qed.

Lemma slot_app_old t r n k : n < length t -> slot (t ++ [r]) n k = slot t n k.
Proof. intros H. unfold slot. rewrite app_nth1 by exact H. reflexivity. Qed.

Lemma slot_app_new t n k : length t <= n -> slot (t ++ [all_ones]) n k = None.
Proof.
  intros H. unfold slot. rewrite app_nth2 by lia.
  destruct (n - length t) as [|j]; cbn [nth].
  - apply all_ones_nth.
  - destruct j; destruct k; reflexivity.
Qed.

(* ------------------------------------------------------------------ walks and ghost paths *)
Fixpoint nybs (k : key) : list nat :=
  match k with
  | [] => []
  | b :: r => hi4 b :: lo4 b :: nybs r
  end.

Lemma nybs_inj k1 : forall k2, nybs k1 = nybs k2 -> k1 = k2.
Proof.
  induction k1 as [|a r IH]; intros [|b s] H; cbn [nybs] in H; try discriminate; auto.
  injection H as H1 H2 H3. f_equal.
  - apply nyb_inj; assumption.
  - apply IH. exact H3.
Qed.

Fixpoint walk (h l : list row) (n : nat) (k : key) : option nat :=
  match k with
  | [] => Some n
  | b :: r =>
    match slot h n (hi4 b) with
    | None => None
    | Some m =>
      match slot l m (lo4 b) with
      | None => None
      | Some n' => walk h l n' r
      end
    end
  end.

Lemma walk_app h l a : forall n b,
  walk h l n (a ++ b) = match walk h l n a with Some x => walk h l x b | None => None end.
Proof.
  induction a as [|c r IH]; intros n b; cbn [app walk]; [reflexivity|].
  destruct (slot h n (hi4 c)) as [m|]; [|reflexivity].
  destruct (slot l m (lo4 c)) as [n'|]; [|reflexivity].
  apply IH.
Qed.

Definition Rows (t : list row) : Prop := forall n, n < length t -> length (nth n t []) = 16.

(* every set slot of t points into t', and the target's path is the source's path plus the slot *)
Definition Links (t t' : list row) (kt kt' : list (list nat)) : Prop :=
  forall n k m, slot t n k = Some m -> m < length t' /\ nth m kt' [] = nth n kt [] ++ [k].

Definition Half (t t' : list row) (kt kt' : list (list nat)) : Prop :=
  Rows t /\ length kt = length t /\ Links t t' kt kt'.

Definition Core (h l : list row) (kh kl : list (list nat)) : Prop :=
  Half h l kh kl /\ Half l h kl kh.

Definition WF (h l : list row) (kh kl : list (list nat)) : Prop :=
  Core h l kh kl /\ nth 0 kh [] = [] /\ 1 <= length h.

Lemma walk_path h l kh kl : Core h l kh kl ->
  forall k n n', walk h l n k = Some n' -> nth n' kh [] = nth n kh [] ++ nybs k.
Proof.
  intros [[_ [_ Lh]] [_ [_ Ll]]].
  induction k as [|b r IH]; intros n n' H; cbn [walk nybs] in *.
  - injection H as <-. rewrite app_nil_r. reflexivity.
  - destruct (slot h n (hi4 b)) as [m|] eqn:E1; [|discriminate].
    destruct (slot l m (lo4 b)) as [n1|] eqn:E2; [|discriminate].
    apply Lh in E1. apply Ll in E2. destruct E1 as [_ E1]. destruct E2 as [_ E2].
    rewrite (IH _ _ H), E2, E1. rewrite <- !app_assoc. reflexivity.
Qed.

Lemma walk_inj h l kh kl k1 k2 x : WF h l kh kl ->
  walk h l 0 k1 = Some x -> walk h l 0 k2 = Some x -> k1 = k2.
Proof.
  intros [HC [H0 _]] W1 W2.
  apply (walk_path _ _ _ _ HC) in W1. apply (walk_path _ _ _ _ HC) in W2.
  rewrite H0 in W1, W2. cbn [app] in W1, W2.
  apply nybs_inj. congruence.
Qed.

(* slots that are set stay as they are *)
Definition ext (t t1 : list row) : Prop := forall n k m, slot t n k = Some m -> slot t1 n k = Some m.

Lemma ext_refl t : ext t t.
Proof. intros n k m H. exact H. Qed.

Lemma ext_trans a b c : ext a b -> ext b c -> ext a c.
Proof. intros H1 H2 n k m H. apply H2, H1, H. Qed.

Lemma walk_ext h l h' l' : ext h h' -> ext l l' ->
  forall k n x, walk h l n k = Some x -> walk h' l' n k = Some x.
Proof.
  intros Eh El. induction k as [|b r IH]; intros n x H; cbn [walk] in *; [exact H|].
  destruct (slot h n (hi4 b)) as [m|] eqn:E1; [|discriminate].
  destruct (slot l m (lo4 b)) as [n1|] eqn:E2; [|discriminate].
  rewrite (Eh _ _ _ E1), (El _ _ _ E2). apply IH. exact H.
Qed.

(* ------------------------------------------------------------------ one half-step of insert *)
Definition stage (t t' : list row) (n c : nat) : list row * list row * nat :=
  if free (length t') (slot t n c)
  then (set_slot t n c (length t'), t' ++ [all_ones], length t')
  else (t, t', match slot t n c with Some i => i | None => 0 end).

Lemma insert_loop_cons h l n b r :
  insert_loop h l n (b :: r) =
  let '(h1, l1, i1) := stage h l n (hi4 b) in
  let '(l2, h2, i2) := stage l1 h1 i1 (lo4 b) in
  insert_loop h2 l2 i2 r.
Proof.
  cbn [insert_loop]. unfold stage.
  destruct (free (length l) (slot h n (hi4 b)));
    match goal with |- context [free ?a ?b] => destruct (free a b) end; reflexivity.
Qed.

Lemma Rows_set_slot t n k v : Rows t -> Rows (set_slot t n k v).
Proof.
  intros R j Hj. unfold set_slot in *. rewrite upd_length in Hj.
  destruct (Nat.eq_dec n j) as [<-|Hne].
  - rewrite nth_upd_same by exact Hj. rewrite upd_length. apply R. exact Hj.
  - rewrite nth_upd_other by exact Hne. apply R. exact Hj.
Qed.

Lemma Rows_app t : Rows t -> Rows (t ++ [all_ones]).
Proof.
  intros R j Hj. rewrite app_length in Hj. cbn [length] in Hj.
  destruct (lt_dec j (length t)) as [Hl|Hl].
  - rewrite app_nth1 by exact Hl. apply R. exact Hl.
  - assert (j = length t) as -> by lia.
    rewrite app_nth2 by lia. rewrite Nat.sub_diag. cbn [nth]. apply all_ones_length.
Qed.

Lemma set_slot_length t n k v : length (set_slot t n k v) = length t.
Proof. unfold set_slot. apply upd_length. Qed.

Lemma stage_spec t t' kt kt' n c t1 t1' i :
  Half t t' kt kt' -> Half t' t kt' kt -> n < length t -> c < 16 ->
  stage t t' n c = (t1, t1', i) ->
  exists kt1', Half t1 t1' kt kt1' /\ Half t1' t1 kt1' kt /\
     slot t1 n c = Some i /\ i < length t1' /\ ext t t1 /\ ext t' t1' /\
     length t1 = length t /\ length t' <= length t1' /\
     (forall j, j < length t' -> nth j kt1' [] = nth j kt' []).
Proof.
  intros H1 H2 Hn Hc. unfold stage.
  destruct H1 as [R [Lk L]]. destruct H2 as [R' [Lk' L']].
  destruct (slot t n c) as [m|] eqn:Hs.
  - (* the slot is set: nothing changes *)
    destruct (L _ _ _ Hs) as [Hm _]. cbn [free].
    destruct (Nat.leb_spec (length t') m) as [Hle|_]; [lia|].
    intros E. injection E as <- <- <-.
    exists kt'.
    split; [exact (conj R (conj Lk L))|]. split; [exact (conj R' (conj Lk' L'))|].
    split; [exact Hs|]. split; [exact Hm|].
    split; [apply ext_refl|]. split; [apply ext_refl|].
    split; [reflexivity|]. split; [lia|]. intros j _. reflexivity.
  - (* the slot is empty: append a row to t' and set the slot *)
    cbn [free]. intros E. injection E as <- <- <-.
    assert (Hrow : c < length (nth n t [])) by (rewrite R by exact Hn; exact Hc).
    exists (kt' ++ [nth n kt [] ++ [c]]).
    assert (Hslot : forall n0 k0 m, slot (set_slot t n c (length t')) n0 k0 = Some m ->
              (n0 = n /\ k0 = c /\ m = length t') \/ ((n0 <> n \/ k0 <> c) /\ slot t n0 k0 = Some m)).
    { intros n0 k0 m H.
      destruct (Nat.eq_dec n0 n) as [->|Hn0].
      - destruct (Nat.eq_dec k0 c) as [->|Hk0].
        + rewrite slot_set_same in H by assumption. injection H as <-. left. auto.
        + rewrite slot_set_other in H by (right; exact Hk0). right. auto.
      - rewrite slot_set_other in H by (left; exact Hn0). right. auto. }
    split; [|split; [|split; [|split; [|split; [|split; [|split; [|split]]]]]]].
    + (* Half t1 t1' *)
      split; [apply Rows_set_slot; exact R|]. split; [rewrite set_slot_length; exact Lk|].
      intros n0 k0 m H. rewrite app_length. cbn [length].
      destruct (Hslot _ _ _ H) as [[-> [-> ->]]|[_ H0]].
      * split; [lia|]. rewrite app_nth2 by lia. rewrite Lk', Nat.sub_diag. reflexivity.
      * destruct (L _ _ _ H0) as [Hm Hp]. split; [lia|].
        rewrite app_nth1 by lia. exact Hp.
    + (* Half t1' t1 *)
      split; [apply Rows_app; exact R'|].
      split; [rewrite !app_length, Lk'; reflexivity|].
      intros m0 k0 n0 H. rewrite set_slot_length.
      destruct (lt_dec m0 (length t')) as [Hl|Hl].
      * rewrite slot_app_old in H by exact Hl.
        destruct (L' _ _ _ H) as [Hm Hp]. split; [exact Hm|].
        rewrite app_nth1 by lia. exact Hp.
      * rewrite slot_app_new in H by lia. discriminate.
    + apply slot_set_same; assumption.
    + rewrite app_length. cbn [length]. lia.
    + intros n0 k0 m H.
      destruct (Nat.eq_dec n0 n) as [->|Hn0].
      * destruct (Nat.eq_dec k0 c) as [->|Hk0]; [congruence|].
        rewrite slot_set_other by (right; exact Hk0). exact H.
      * rewrite slot_set_other by (left; exact Hn0). exact H.
    + intros m0 k0 n0 H. rewrite slot_app_old; [exact H|]. eapply slot_some_lt. exact H.
    + apply set_slot_length.
    + rewrite app_length. lia.
    + intros j Hj. apply app_nth1. lia.
Qed.

(* ------------------------------------------------------------------ insert_loop *)
Lemma insert_loop_spec k : Bytes_key k ->
  forall h l kh kl n h' l' n',
  Core h l kh kl -> n < length h ->
  insert_loop h l n k = (h', l', n') ->
  exists kh' kl', Core h' l' kh' kl' /\ n' < length h' /\
     walk h' l' n k = Some n' /\ ext h h' /\ ext l l' /\
     length h <= length h' /\ (forall j, j < length h -> nth j kh' [] = nth j kh []).
Proof.
  induction 1 as [|b r Hb Hr IH]; intros h l kh kl n h' l' n' [Hh Hl] Hn E.
  - cbn [insert_loop] in E. injection E as <- <- <-.
    exists kh, kl. cbn [walk].
    split; [exact (conj Hh Hl)|]. split; [exact Hn|]. split; [reflexivity|].
    split; [apply ext_refl|]. split; [apply ext_refl|]. split; [lia|]. intros j _. reflexivity.
  - rewrite insert_loop_cons in E.
    destruct (stage h l n (hi4 b)) as [[h1 l1] i1] eqn:E1.
    destruct (stage l1 h1 i1 (lo4 b)) as [[l2 h2] i2] eqn:E2.
    destruct (stage_spec _ _ _ _ _ _ _ _ _ Hh Hl Hn (hi4_lt _ Hb) E1)
      as [kl1 [Hh1 [Hl1 [S1 [Hi1 [Xh1 [Xl1 [Len1 [_ _]]]]]]]]].
    destruct (stage_spec _ _ _ _ _ _ _ _ _ Hl1 Hh1 Hi1 (lo4_lt b) E2)
      as [kh2 [Hl2 [Hh2 [S2 [Hi2 [Xl2 [Xh2 [_ [Len2 K2]]]]]]]]].
    destruct (IH _ _ _ _ _ _ _ _ (conj Hh2 Hl2) Hi2 E)
      as [kh' [kl' [HC [Hn' [W [Xh [Xl [Len K]]]]]]]].
    exists kh', kl'.
    split; [exact HC|]. split; [exact Hn'|].
    split.
    { cbn [walk]. rewrite (Xh _ _ _ (Xh2 _ _ _ S1)). rewrite (Xl _ _ _ S2). exact W. }
    split; [exact (ext_trans _ _ _ Xh1 (ext_trans _ _ _ Xh2 Xh))|].
    split; [exact (ext_trans _ _ _ Xl1 (ext_trans _ _ _ Xl2 Xl))|].
    split; [lia|].
    intros j Hj. rewrite K by lia. apply K2. lia.
Qed.

(* ------------------------------------------------------------------ the table invariant *)
Definition lookup (h l : list row) (hv : list bool) (vs : list nat) (k : key) : option nat :=
  match walk h l 0 k with
  | Some n => if nth n hv false then Some (nth n vs 0) else None
  | None => None
  end.

Definition Inv4 (h l : list row) (hv : list bool) (vs : list nat) (f : key -> option nat) : Prop :=
  (exists kh kl, WF h l kh kl) /\
  (forall x, nth x hv false = true -> exists k, walk h l 0 k = Some x) /\
  (forall k, lookup h l hv vs k = f k).

Lemma Inv4_insert h l hv vs f k v h' l' n :
  Inv4 h l hv vs f -> Bytes_key k -> insert_loop h l 0 k = (h', l', n) ->
  Inv4 h' l' (set_has hv n) (set_value vs n v)
       (fun k' => if key_eqb k k' then Some v else f k').
Proof.
  intros [[kh [kl [HC [H0 Hlen]]]] [I2 I1]] Hk E.
  destruct (insert_loop_spec k Hk _ _ _ _ _ _ _ _ HC Hlen E)
    as [kh' [kl' [HC' [Hn' [W [Xh [Xl [Len K]]]]]]]].
  assert (HWF : WF h' l' kh' kl').
  { split; [exact HC'|]. split; [rewrite K by lia; exact H0|lia]. }
  split; [exists kh', kl'; exact HWF|]. split.
  - intros x Hx. rewrite nth_set_has in Hx.
    destruct (Nat.eqb_spec x n) as [Heq|Hne].
    + subst x. exists k. exact W.
    + destruct (I2 _ Hx) as [k0 W0]. exists k0. exact (walk_ext _ _ _ _ Xh Xl _ _ _ W0).
  - intros k'. unfold key_eqb. destruct (list_eq_dec N.eq_dec k k') as [<-|Hne].
    + unfold lookup. rewrite W, nth_set_has, nth_set_value, Nat.eqb_refl. reflexivity.
    + rewrite <- I1. unfold lookup.
      destruct (walk h l 0 k') as [x|] eqn:W0.
      * rewrite (walk_ext _ _ _ _ Xh Xl _ _ _ W0).
        assert (Hx : x <> n).
        { intros ->. apply Hne. eapply walk_inj; [exact HWF|exact W|].
          exact (walk_ext _ _ _ _ Xh Xl _ _ _ W0). }
        rewrite nth_set_has, nth_set_value.
        destruct (Nat.eqb_spec x n) as [Heq|_]; [contradiction|reflexivity].
      * destruct (walk h' l' 0 k') as [x|] eqn:W1; [|reflexivity].
        assert (Hx : x <> n).
        { intros ->. apply Hne. eapply walk_inj; [exact HWF|exact W|exact W1]. }
        rewrite nth_set_has.
        destruct (Nat.eqb_spec x n) as [Heq|_]; [contradiction|].
        destruct (nth x hv false) eqn:Hh; [|reflexivity].
        destruct (I2 _ Hh) as [k0 W2].
        assert (k0 = k').
        { eapply walk_inj; [exact HWF| |exact W1]. exact (walk_ext _ _ _ _ Xh Xl _ _ _ W2). }
        subst k0. congruence.
Qed.

Lemma Inv4_ext h l hv vs f g : (forall k, f k = g k) -> Inv4 h l hv vs f -> Inv4 h l hv vs g.
Proof.
  intros Hfg [Hw [I2 I1]]. split; [exact Hw|]. split; [exact I2|].
  intros k. rewrite <- Hfg. apply I1.
Qed.

Lemma slot_root_empty n k : slot [all_ones] n k = None.
Proof. apply (slot_app_new [] n k). cbn [length]. lia. Qed.

Lemma slot_nil n k : slot [] n k = None.
Proof. apply slot_overflow. cbn [length]. lia. Qed.

Lemma Inv4_init vs f : (forall k, f k = None) -> Inv4 [all_ones] [] [] vs f.
Proof.
  intros Hf. split; [|split].
  - exists [[]], []. split; [|split; [reflexivity|cbn [length]; lia]].
    split.
    + split; [apply (Rows_app []); intros j Hj; cbn [length] in Hj; lia|].
      split; [reflexivity|]. intros n k m H. rewrite slot_root_empty in H. discriminate.
    + split; [intros j Hj; cbn [length] in Hj; lia|].
      split; [reflexivity|]. intros n k m H. rewrite slot_nil in H. discriminate.
  - intros x Hx. destruct x; discriminate.
  - intros k. rewrite Hf. unfold lookup. destruct k as [|b r]; cbn [walk].
    + reflexivity.
    + rewrite slot_root_empty. reflexivity.
Qed.

(* ------------------------------------------------------------------ the trie invariant *)
Definition TInv (t : trie) (f : key -> option nat) : Prop :=
  match impl t with
  | None => forall k, f k = None
  | Some im => Inv4 (hi im) (lo im) (hasv im) (values t) f
  end.

Lemma TInv_ext t f g : (forall k, f k = g k) -> TInv t f -> TInv t g.
Proof.
  intros Hfg. unfold TInv. destruct (impl t) as [im|].
  - apply Inv4_ext. exact Hfg.
  - intros H k. rewrite <- Hfg. apply H.
Qed.

Lemma TInv_insert t f k v : TInv t f -> Bytes_key k ->
  TInv (trie_insert t k v) (fun k' => if key_eqb k k' then Some v else f k').
Proof.
  intros HT Hk. unfold trie_insert, nyb_insert.
  set (im := match impl t with None => nyb_empty | Some x => x end).
  set (h0 := match hi im with [] => [all_ones] | _ :: _ => hi im end).
  assert (H0 : Inv4 h0 (lo im) (hasv im) (values t) f).
  { unfold TInv in HT. unfold h0, im. destruct (impl t) as [x|].
    - destruct HT as [[kh [kl HW]] HR].
      destruct (hi x) as [|r0 rs] eqn:Ehi.
      + destruct HW as [_ [_ Hlen]]. cbn [length] in Hlen. lia.
      + split; [exists kh, kl; exact HW|exact HR].
    - cbn [hi lo hasv nyb_empty]. apply Inv4_init. exact HT. }
  destruct (insert_loop h0 (lo im) 0 k) as [[h' l'] n] eqn:E.
  unfold TInv. cbn [impl values hi lo hasv].
  eapply Inv4_insert; eassumption.
Qed.

Lemma trie_run_inv kvs : forall t f,
  Forall (fun kv => Bytes_key (fst kv)) kvs -> TInv t f ->
  TInv (trie_run t kvs) (fun k => match last_value kvs k with Some x => Some x | None => f k end).
Proof.
  induction kvs as [|[k v] r IH]; intros t f HB HT.
  - cbn [trie_run last_value]. exact HT.
  - cbn [trie_run]. inversion HB as [|x y Hk Hr]. subst. cbn [fst] in Hk.
    eapply TInv_ext; [|apply (IH _ _ Hr (TInv_insert t f k v HT Hk))].
    intros k0. cbn [last_value]. destruct (last_value r k0); [reflexivity|].
    destruct (key_eqb k k0); reflexivity.
Qed.

Lemma trie_run_empty_inv kvs : Forall (fun kv => Bytes_key (fst kv)) kvs ->
  TInv (trie_run trie_empty kvs) (last_value kvs).
Proof.
  intros HB. eapply TInv_ext; [|apply (trie_run_inv kvs trie_empty (fun _ => None) HB)].
  - intros k. cbn beta. destruct (last_value kvs k); reflexivity.
  - unfold TInv. cbn [impl trie_empty]. reflexivity.
Qed.

(* ------------------------------------------------------------------ the searcher *)
(* the two length tests of step are implied by the slot tests *)
Lemma step_loop_cons t b r i n :
  step_loop t (b :: r) i n =
  match slot (hi t) n (hi4 b) with
  | None => None
  | Some m =>
    match slot (lo t) m (lo4 b) with
    | None => None
    | Some n' => if has t n' then Some (S i, n') else step_loop t r (S i) n'
    end
  end.
Proof.
  cbn [step_loop].
  destruct (Nat.leb_spec (length (hi t)) n) as [Hle|_].
  { rewrite slot_overflow by exact Hle. reflexivity. }
  destruct (slot (hi t) n (hi4 b)) as [m|]; [|reflexivity].
  destruct (Nat.leb_spec (length (lo t)) m) as [Hle|_]; [|reflexivity].
  rewrite slot_overflow by exact Hle. reflexivity.
Qed.

(* the walk from n along k ends in a node that has a value *)
Definition hit (t : nyb) (n : nat) (k : key) : bool :=
  match walk (hi t) (lo t) n k with Some x => has t x | None => false end.

Lemma step_loop_spec t : forall rest i n,
  match step_loop t rest i n with
  | Some (i', n') =>
      exists d, i' = i + S d /\ S d <= length rest /\
        walk (hi t) (lo t) n (firstn (S d) rest) = Some n' /\ has t n' = true /\
        forall e, 1 <= e -> e <= d -> hit t n (firstn e rest) = false
  | None => forall e, 1 <= e -> e <= length rest -> hit t n (firstn e rest) = false
  end.
Proof.
  induction rest as [|b r IH]; intros i n.
  - cbn [step_loop length]. intros e H1 H2. lia.
  - rewrite step_loop_cons.
    destruct (slot (hi t) n (hi4 b)) as [m|] eqn:E1.
    2:{ intros [|e] H1 H2; [lia|]. unfold hit. cbn [firstn walk]. rewrite E1. reflexivity. }
    destruct (slot (lo t) m (lo4 b)) as [n1|] eqn:E2.
    2:{ intros [|e] H1 H2; [lia|]. unfold hit. cbn [firstn walk]. rewrite E1, E2. reflexivity. }
    destruct (has t n1) eqn:Hh.
    + exists 0. cbn [firstn walk length]. rewrite E1, E2.
      split; [lia|]. split; [lia|]. split; [reflexivity|]. split; [exact Hh|].
      intros e H1 H2. lia.
    + specialize (IH (S i) n1).
      destruct (step_loop t r (S i) n1) as [[i' n']|].
      * destruct IH as [d [Hi [Hd [W [Hn' Hdead]]]]].
        exists (S d). cbn [length].
        split; [lia|]. split; [lia|]. split.
        { change (firstn (S (S d)) (b :: r)) with (b :: firstn (S d) r).
          cbn [walk]. rewrite E1, E2. exact W. }
        split; [exact Hn'|].
        intros [|e] H1 H2; [lia|].
        unfold hit. cbn [firstn walk]. rewrite E1, E2.
        destruct e as [|e].
        { cbn [firstn walk]. exact Hh. }
        apply (Hdead (S e)); lia.
      * intros [|e] H1 H2; [lia|]. cbn [length] in H2.
        unfold hit. cbn [firstn walk]. rewrite E1, E2.
        destruct e as [|e].
        { cbn [firstn walk]. exact Hh. }
        apply (IH (S e)); lia.
Qed.

Lemma firstn_add {A} a e : forall (q : list A),
  firstn (a + e) q = firstn a q ++ firstn e (skipn a q).
Proof.
  induction a as [|a IH]; intros q; [reflexivity|].
  destruct q as [|x q].
  - cbn [Nat.add firstn skipn app]. destruct e; reflexivity.
  - cbn [Nat.add firstn skipn app]. f_equal. apply IH.
Qed.

Lemma flat_map_nil {A B} (f : A -> list B) l : (forall x, In x l -> f x = []) -> flat_map f l = [].
Proof.
  induction l as [|a r IH]; intros H; cbn [flat_map]; [reflexivity|].
  rewrite (H a) by (left; reflexivity). rewrite IH; [reflexivity|].
  intros x Hx. apply H. right. exact Hx.
Qed.

(* what Prefixes should yield for the prefix of length j *)
Definition out (t : nyb) (vs : list nat) (q : key) (j : nat) : list (key * nat) :=
  match lookup (hi t) (lo t) (hasv t) vs (firstn j q) with
  | Some v => [(firstn j q, v)]
  | None => []
  end.

Lemma out_dead t vs q a n e :
  walk (hi t) (lo t) 0 (firstn a q) = Some n ->
  hit t n (firstn e (skipn a q)) = false -> out t vs q (a + e) = [].
Proof.
  intros W H. unfold out, lookup. rewrite firstn_add, walk_app, W.
  unfold hit, has in H.
  destruct (walk (hi t) (lo t) n (firstn e (skipn a q))) as [x|]; [|reflexivity].
  rewrite H. reflexivity.
Qed.

Lemma out_hit t vs q a n e n' :
  walk (hi t) (lo t) 0 (firstn a q) = Some n ->
  walk (hi t) (lo t) n (firstn e (skipn a q)) = Some n' -> has t n' = true ->
  out t vs q (a + e) = [(firstn (a + e) q, nth n' vs 0)].
Proof.
  intros W W' H. unfold out, lookup. rewrite (firstn_add a e q) at 1.
  rewrite walk_app, W, W'. unfold has in H. rewrite H. reflexivity.
Qed.

Lemma prefixes_loop_S f im vs k s :
  prefixes_loop (S f) im vs k s =
  match step im k s with
  | None => Some []
  | Some (i, n) =>
    match prefixes_loop f im vs k (i, n) with
    | None => None
    | Some r => Some ((firstn (i - 1) k, nth n vs 0) :: r)
    end
  end.
Proof. reflexivity. Qed.

Lemma prefixes_loop_spec t vs q : forall fuel i n,
  1 <= i -> i <= S (length q) ->
  walk (hi t) (lo t) 0 (firstn (i - 1) q) = Some n ->
  S (length q) - i < fuel ->
  prefixes_loop fuel t vs q (i, n) = Some (flat_map (out t vs q) (seq i (S (length q) - i))).
Proof.
  induction fuel as [|f IH]; intros i n Hi1 Hi2 W Hf; [lia|].
  rewrite prefixes_loop_S.
  assert (Hstep : step t q (i, n) = step_loop t (skipn (i - 1) q) i n).
  { unfold step. destruct (Nat.eqb_spec i 0) as [Hz|_]; [lia|reflexivity]. }
  rewrite Hstep.
  pose proof (step_loop_spec t (skipn (i - 1) q) i n) as Hs.
  rewrite skipn_length in Hs.
  destruct (step_loop t (skipn (i - 1) q) i n) as [[i' n']|].
  - destruct Hs as [d [Hi' [Hd [W' [Hn' Hdead]]]]].
    assert (Hidx : i' - 1 = (i - 1) + S d) by lia.
    rewrite IH; [|lia|lia| |lia].
    2:{ rewrite Hidx, firstn_add, walk_app, W. exact W'. }
    f_equal.
    replace (S (length q) - i) with (d + S (S (length q) - i')) by lia.
    rewrite seq_app, flat_map_app. cbn [seq flat_map].
    rewrite (flat_map_nil (out t vs q) (seq i d)).
    2:{ intros x Hx. apply in_seq in Hx.
        replace x with ((i - 1) + (x - i + 1)) by lia.
        apply (out_dead t vs q (i - 1) n); [exact W|]. apply Hdead; lia. }
    cbn [app].
    replace (i + d) with ((i - 1) + S d) by lia.
    rewrite (out_hit t vs q (i - 1) n (S d) n' W W' Hn').
    cbn [app]. rewrite Hidx.
    replace (S (i - 1 + S d)) with i' by lia. reflexivity.
  - f_equal. symmetry. apply flat_map_nil.
    intros x Hx. apply in_seq in Hx.
    replace x with ((i - 1) + (x - i + 1)) by lia.
    apply (out_dead t vs q (i - 1) n); [exact W|]. apply Hs; lia.
Qed.

Lemma prefixes_loop_step_eq f t vs q s s' :
  step t q s = step t q s' -> prefixes_loop f t vs q s = prefixes_loop f t vs q s'.
Proof. intros H. destruct f as [|f]; [reflexivity|]. rewrite !prefixes_loop_S, H. reflexivity. Qed.

Lemma prefixes_top t vs q :
  prefixes_loop (length q + 2) t vs q (0, 0) = Some (flat_map (out t vs q) (seq 0 (S (length q)))).
Proof.
  replace (length q + 2) with (S (S (length q))) by lia.
  assert (W0 : walk (hi t) (lo t) 0 (firstn (1 - 1) q) = Some 0) by reflexivity.
  assert (Hrest : forall fuel, length q < fuel ->
            prefixes_loop fuel t vs q (1, 0) = Some (flat_map (out t vs q) (seq 1 (length q)))).
  { intros fuel Hf. rewrite (prefixes_loop_spec t vs q fuel 1 0); [|lia|lia|exact W0|lia].
    replace (S (length q) - 1) with (length q) by lia. reflexivity. }
  assert (Hout0 : out t vs q 0 = if has t 0 then [([], nth 0 vs 0)] else []).
  { unfold out, lookup, has. cbn [firstn walk]. destruct (nth 0 (hasv t) false); reflexivity. }
  change (seq 0 (S (length q))) with (0 :: seq 1 (length q)). cbn [flat_map].
  rewrite Hout0.
  destruct (has t 0) eqn:Hh.
  - rewrite prefixes_loop_S.
    assert (Hstep : step t q (0, 0) = Some (1, 0)).
    { unfold step. cbn [Nat.eqb]. rewrite Hh. reflexivity. }
    rewrite Hstep, Hrest by lia. reflexivity.
  - rewrite (prefixes_loop_step_eq _ t vs q (0, 0) (1, 0)).
    2:{ unfold step. cbn [Nat.eqb Nat.sub skipn]. rewrite Hh. reflexivity. }
    rewrite Hrest by lia. reflexivity.
Qed.

(* ------------------------------------------------------------------ the theorems *)
Lemma trie_prefixes_total_lemma : forall kvs q, trie_prefixes (trie_run trie_empty kvs) q <> None.
Proof.
  intros kvs q. unfold trie_prefixes.
  destruct (impl (trie_run trie_empty kvs)) as [im|]; [|discriminate].
  rewrite prefixes_top. discriminate.
Qed.

Lemma Bytes_key_firstn q n : Bytes_key q -> Bytes_key (firstn n q).
Proof.
  intros H. revert n. induction H as [|b r Hb Hr IH]; intros [|n]; cbn [firstn]; try constructor; auto.
  apply IH.
Qed.

Lemma trie_prefixes_all_in_order_lemma : forall kvs q,
  Forall (fun kv => Bytes_key (fst kv)) kvs -> Bytes_key q ->
  trie_prefixes (trie_run trie_empty kvs) q = Some (spec_prefixes kvs q).
Proof.
  intros kvs q HB _.
  pose proof (trie_run_empty_inv kvs HB) as HT.
  unfold trie_prefixes, TInv in *.
  destruct (impl (trie_run trie_empty kvs)) as [im|].
  - rewrite prefixes_top. f_equal. unfold spec_prefixes.
    apply flat_map_ext. intros j. unfold out.
    destruct HT as [_ [_ I1]]. rewrite I1. reflexivity.
  - f_equal. symmetry. unfold spec_prefixes. apply flat_map_nil.
    intros j _. rewrite HT. reflexivity.
Qed.

(* the last element of a list built from at most one item per index *)
Lemma last_flat (F : nat -> option nat) (P : nat -> key) : forall len,
  ((forall n, n < len -> F n = None) /\
   flat_map (fun n => match F n with Some v => [(P n, v)] | None => [] end) (seq 0 len) = [])
  \/ (exists n v, n < len /\ F n = Some v /\
        last (flat_map (fun n => match F n with Some v => [(P n, v)] | None => [] end) (seq 0 len))
             ([], 0) = (P n, v) /\
        forall m, n < m -> m < len -> F m = None).
Proof.
  induction len as [|len IH].
  - left. split; [intros n Hn; lia|reflexivity].
  - rewrite seq_S, flat_map_app. cbn [Nat.add flat_map].
    destruct (F len) as [v|] eqn:E.
    + right. exists len, v. split; [lia|]. split; [exact E|]. split.
      * cbn [app]. apply last_last.
      * intros m H1 H2. lia.
    + cbn [app]. rewrite app_nil_r.
      destruct IH as [[Hall Hnil]|[n [v [Hn [Hv [Hlast Hafter]]]]]].
      * left. split; [|exact Hnil].
        intros n Hn. destruct (Nat.eq_dec n len) as [->|Hne]; [exact E|]. apply Hall. lia.
      * right. exists n, v. split; [lia|]. split; [exact Hv|]. split; [exact Hlast|].
        intros m H1 H2. destruct (Nat.eq_dec m len) as [->|Hne]; [exact E|]. apply Hafter; lia.
Qed.

Lemma spec_last kvs q :
  ((forall n, n < S (length q) -> last_value kvs (firstn n q) = None) /\ spec_prefixes kvs q = [])
  \/ (exists n v, n < S (length q) /\ last_value kvs (firstn n q) = Some v /\
        last (spec_prefixes kvs q) ([], 0) = (firstn n q, v) /\
        forall m, n < m -> m < S (length q) -> last_value kvs (firstn m q) = None).
Proof.
  exact (last_flat (fun n => last_value kvs (firstn n q)) (fun n => firstn n q) (S (length q))).
Qed.

Lemma trie_get_longest_prefix_lemma : forall kvs q,
  Forall (fun kv => Bytes_key (fst kv)) kvs -> Bytes_key q ->
  exists p v, trie_get (trie_run trie_empty kvs) q = Some (p, v) /\
    (((forall n, last_value kvs (firstn n q) = None) /\ p = [] /\ v = 0)
     \/ (exists n, n <= length q /\ p = firstn n q /\ last_value kvs p = Some v
                   /\ forall m, n < m -> m <= length q -> last_value kvs (firstn m q) = None)).
Proof.
  intros kvs q HB Hq. unfold trie_get.
  rewrite (trie_prefixes_all_in_order_lemma kvs q HB Hq).
  destruct (spec_last kvs q) as [[Hall Hnil]|[n [v [Hn [Hv [Hlast Hafter]]]]]].
  - exists [], 0. rewrite Hnil. split; [reflexivity|].
    left. split; [|split; reflexivity].
    intros n. destruct (le_dec n (length q)) as [Hle|Hgt].
    + apply Hall. lia.
    + rewrite firstn_all2 by lia. rewrite <- (firstn_all q). apply Hall. lia.
  - exists (firstn n q), v. rewrite Hlast. split; [reflexivity|].
    right. exists n. split; [lia|]. split; [reflexivity|]. split; [exact Hv|].
    intros m H1 H2. apply Hafter; lia.
Qed.

Lemma trie_examples :
  let kvs := [([97]%N, 1); ([97; 98]%N, 2); ([], 3); ([97; 99]%N, 4); ([97]%N, 5)] in
  Forall (fun kv => Bytes_key (fst kv)) kvs /\
  trie_prefixes (trie_run trie_empty kvs) [97; 98; 99]%N = Some [([], 3); ([97]%N, 5); ([97; 98]%N, 2)]
  /\ trie_get (trie_run trie_empty kvs) [98]%N = Some ([], 3).
Proof.
  cbv zeta. split; [|split].
  - repeat (constructor; try reflexivity).
  - vm_compute. reflexivity.
  - vm_compute. reflexivity.
Qed.
