(* Proofs for property C41, toposort part: the iterative three-state DFS of Model/Toposort.v
   terminates within its fuel, yields exactly the reachable nodes once with children first when
   it completes, and panics exactly when a cycle is reachable from the roots. *)
From Coq Require Import List Arith Bool Lia.
From PV Require Import Model.Toposort.
Import ListNotations.

(* ------------------------------------------------------------------ marks *)
Lemma set_mark_same : forall m k x, set_mark m k x k = x.
Proof. intros m k x. unfold set_mark. rewrite Nat.eqb_refl. reflexivity. Qed.

Lemma set_mark_other : forall m k x j, j <> k -> set_mark m k x j = m j.
Proof.
  intros m k x j Hne. unfold set_mark.
  destruct (Nat.eqb_spec j k) as [E|_]; [contradiction|reflexivity].
Qed.

(* ------------------------------------------------------------------ push_all *)
Lemma push_all_spec : forall m cs stk,
  match push_all m stk cs with
  | Pushed stk' => exists pushed, stk' = pushed ++ stk /\ length pushed <= length cs
      /\ (forall c, In c pushed -> In c cs /\ m c = Unsorted)
      /\ (forall c, In c cs -> m c = Sorted \/ In c pushed)
  | PPanic _ v => In v cs /\ m v = Walking
  end.
Proof.
  intros m cs. induction cs as [|c r IH]; intros stk; cbn [push_all].
  - exists []. split; [reflexivity|]. split; [cbn [length]; lia|]. split.
    + intros c [].
    + intros c [].
  - unfold push. destruct (m c) eqn:Hc.
    + specialize (IH (c :: stk)).
      destruct (push_all m (c :: stk) r) as [stk'|sfx v].
      * destruct IH as (pushed & E & L & P1 & P2).
        exists (pushed ++ [c]). split; [rewrite <- app_assoc; exact E|].
        split; [rewrite app_length; cbn [length]; lia|]. split.
        -- intros c0 H. apply in_app_or in H. destruct H as [H|[H|[]]].
           ++ destruct (P1 _ H) as [A B]. split; [right; exact A|exact B].
           ++ subst c0. split; [left; reflexivity|exact Hc].
        -- intros c0 [H|H].
           ++ subst c0. right. apply in_or_app. right. left. reflexivity.
           ++ destruct (P2 _ H) as [S|I]; [left; exact S|right; apply in_or_app; left; exact I].
      * destruct IH as [I W]. split; [right; exact I|exact W].
    + split; [left; reflexivity|exact Hc].
    + specialize (IH stk).
      destruct (push_all m stk r) as [stk'|sfx v].
      * destruct IH as (pushed & E & L & P1 & P2).
        exists pushed. split; [exact E|]. split; [cbn [length]; lia|]. split.
        -- intros c0 H. destruct (P1 _ H) as [A B]. split; [right; exact A|exact B].
        -- intros c0 [H|H].
           ++ subst c0. left. exact Hc.
           ++ apply (P2 _ H).
      * destruct IH as [I W]. split; [right; exact I|exact W].
Qed.

(* ------------------------------------------------------------------ fuel *)
Definition wt (x : mark) : nat := match x with Unsorted => 2 | _ => 1 end.

Fixpoint wsum (m : marks) (s : list nat) : nat :=
  match s with [] => 0 | x :: r => wt (m x) + wsum m r end.

Fixpoint usum (m : marks) (k : nat) (gs : graph) : nat :=
  match gs with
  | [] => 0
  | l :: r => (match m k with Unsorted => length l | _ => 0 end) + usum m (S k) r
  end.

Definition phi (g : graph) (m : marks) (s : list nat) : nat := wsum m s + 2 * usum m 0 g.

Lemma wsum_app : forall m a b, wsum m (a ++ b) = wsum m a + wsum m b.
Proof.
  intros m a b. induction a as [|x a IH]; cbn [app wsum]; [reflexivity|rewrite IH; lia].
Qed.

Lemma wsum_le2 : forall m s, wsum m s <= 2 * length s.
Proof.
  intros m s. induction s as [|x s IH]; cbn [wsum length]; [lia|].
  assert (wt (m x) <= 2) by (destruct (m x); cbn [wt]; lia). lia.
Qed.

Lemma wsum_mono : forall m m' s, (forall x, wt (m' x) <= wt (m x)) -> wsum m' s <= wsum m s.
Proof.
  intros m m' s H. induction s as [|x s IH]; cbn [wsum]; [lia|].
  specialize (H x). lia.
Qed.

Lemma usum_set_lt : forall m v x gs k, v < k -> usum (set_mark m v x) k gs = usum m k gs.
Proof.
  intros m v x gs. induction gs as [|l r IH]; intros k Hlt; cbn [usum]; [reflexivity|].
  rewrite set_mark_other by lia. rewrite IH by lia. reflexivity.
Qed.

Lemma usum_set_unsorted : forall m v x gs k, m v = Unsorted -> x <> Unsorted -> k <= v ->
  usum (set_mark m v x) k gs + length (nth (v - k) gs []) = usum m k gs.
Proof.
  intros m v x gs. induction gs as [|l r IH]; intros k Hm Hx Hle; cbn [usum].
  - destruct (v - k); reflexivity.
  - destruct (Nat.eq_dec k v) as [E|Hne].
    + subst k. rewrite set_mark_same, Hm. rewrite usum_set_lt by lia.
      rewrite Nat.sub_diag. cbn [nth]. destruct x; [contradiction| |]; lia.
    + rewrite set_mark_other by exact Hne.
      replace (v - k) with (S (v - S k)) by lia. cbn [nth].
      specialize (IH (S k) Hm Hx). lia.
Qed.

Lemma usum_set_same : forall m v x gs k, m v <> Unsorted -> x <> Unsorted ->
  usum (set_mark m v x) k gs = usum m k gs.
Proof.
  intros m v x gs. induction gs as [|l r IH]; intros k Hm Hx; cbn [usum]; [reflexivity|].
  rewrite IH by assumption.
  destruct (Nat.eq_dec k v) as [E|Hne].
  - subst k. rewrite set_mark_same. destruct x; [contradiction| |]; destruct (m v); try contradiction; reflexivity.
  - rewrite set_mark_other by exact Hne. reflexivity.
Qed.

Lemma usum_le_edges : forall m gs k, usum m k gs <= edges gs.
Proof.
  intros m gs. induction gs as [|l r IH]; intros k; cbn [usum]; [cbn; lia|].
  unfold edges in *. cbn [fold_right]. specialize (IH (S k)).
  destruct (m k); lia.
Qed.

Lemma loop_fuel : forall g fuel m s out, phi g m s < fuel -> loop fuel g m s out <> LOutOfFuel.
Proof.
  intros g fuel. induction fuel as [|f IH]; intros m s out Hphi; [lia|].
  cbn [loop]. destruct s as [|x rest]; [discriminate|].
  unfold phi in Hphi. cbn [wsum] in Hphi.
  destruct (m x) eqn:Hx; cbn [wt] in Hphi.
  - pose proof (push_all_spec (set_mark m x Walking) (children g x) (x :: rest)) as HP.
    destruct (push_all (set_mark m x Walking) (x :: rest) (children g x)) as [stk'|sfx v]; [|discriminate].
    destruct HP as (pushed & E & L & _ & _). subst stk'.
    apply IH. unfold phi. rewrite wsum_app. cbn [wsum]. rewrite set_mark_same. cbn [wt].
    pose proof (wsum_le2 (set_mark m x Walking) pushed) as H1.
    assert (H2 : wsum (set_mark m x Walking) rest <= wsum m rest).
    { apply wsum_mono. intros y. destruct (Nat.eq_dec y x) as [->|Hne].
      - rewrite set_mark_same, Hx. cbn [wt]. lia.
      - rewrite set_mark_other by exact Hne. lia. }
    assert (HW : Walking <> Unsorted) by discriminate.
    pose proof (usum_set_unsorted m x Walking g 0 Hx HW (Nat.le_0_l x)) as H3.
    rewrite Nat.sub_0_r in H3. unfold children in L. lia.
  - apply IH. unfold phi.
    assert (H2 : wsum (set_mark m x Sorted) rest <= wsum m rest).
    { apply wsum_mono. intros y. destruct (Nat.eq_dec y x) as [->|Hne].
      - rewrite set_mark_same, Hx. cbn [wt]. lia.
      - rewrite set_mark_other by exact Hne. lia. }
    rewrite usum_set_same; [lia| rewrite Hx; discriminate | discriminate].
  - apply IH. unfold phi. lia.
Qed.

Lemma sort_roots_fuel : forall g fuel rs m out, 2 + 2 * edges g < fuel ->
  sort_roots fuel g m out rs <> TOutOfFuel.
Proof.
  intros g fuel rs. induction rs as [|r rs IH]; intros m out Hf; cbn [sort_roots]; [discriminate|].
  pose proof (usum_le_edges m g 0) as HU.
  unfold push. destruct (m r) eqn:Hr.
  - destruct (loop fuel g m [r] out) as [m' out'|sfx v|] eqn:HL.
    + apply IH. exact Hf.
    + discriminate.
    + exfalso. revert HL. apply loop_fuel. unfold phi. cbn [wsum]. rewrite Hr. cbn [wt]. lia.
  - discriminate.
  - destruct (loop fuel g m [] out) as [m' out'|sfx v|] eqn:HL.
    + apply IH. exact Hf.
    + discriminate.
    + exfalso. revert HL. apply loop_fuel. unfold phi. cbn [wsum]. lia.
Qed.

Lemma sort_terminates_lemma : forall g roots, sort g roots <> TOutOfFuel.
Proof.
  intros g roots. unfold sort. apply sort_roots_fuel. unfold sort_fuel. lia.
Qed.

(* ------------------------------------------------------------------ paths *)
Lemma path_snoc : forall g a b c, path g a b -> edge g b c -> path g a c.
Proof.
  intros g a b c HP. induction HP as [a b E|a b d E HP IH]; intros Hbc.
  - apply (path_cons g a b c E). apply path_one. exact Hbc.
  - apply (path_cons g a b c E). apply IH. exact Hbc.
Qed.

(* elements of a stack (top first) strictly above the topmost occurrence of v *)
Fixpoint above (v : nat) (s : list nat) : list nat :=
  match s with
  | [] => []
  | x :: r => if Nat.eqb x v then [] else x :: above v r
  end.

Lemma above_app : forall v l1 l2, ~ In v l1 -> above v (l1 ++ l2) = l1 ++ above v l2.
Proof.
  intros v l1 l2. induction l1 as [|x l1 IH]; intros Hn; cbn [app above]; [reflexivity|].
  destruct (Nat.eqb_spec x v) as [E|Hne].
  - exfalso. apply Hn. left. exact E.
  - rewrite IH; [reflexivity|]. intros H. apply Hn. right. exact H.
Qed.

Lemma above_head : forall v s, above v (v :: s) = [].
Proof. intros v s. cbn [above]. rewrite Nat.eqb_refl. reflexivity. Qed.

Lemma above_cons_ne : forall v x s, x <> v -> above v (x :: s) = x :: above v s.
Proof.
  intros v x s Hne. cbn [above]. destruct (Nat.eqb_spec x v) as [E|_]; [contradiction|reflexivity].
Qed.

(* ------------------------------------------------------------------ the loop invariant *)
Section Invariant.
Variable g : graph.
Variable roots : list nat.

(* the new top x hangs below the current innermost Walking frame *)
Definition cond (p : list nat) (x : nat) : Prop :=
  match p with w :: _ => edge g w x | [] => True end.

(* stack (top first) against the ghost list of Walking frames (innermost first): each stack entry
   is either a pending copy or the frame of its node *)
Inductive Stk : list nat -> list nat -> Prop :=
| Stk_nil : Stk [] []
| Stk_pend s p x : Stk s p -> cond p x -> ~ In x p -> Stk (x :: s) p
| Stk_frame s p x : Stk s p -> cond p x -> ~ In x p -> Stk (x :: s) (x :: p).

Fixpoint chain (p : list nat) : Prop :=
  match p with [] => True | x :: r => cond r x /\ chain r end.

(* out is latest first: every node has all its children later in the list, i.e. yielded earlier *)
Fixpoint Ordered (l : list nat) : Prop :=
  match l with [] => True | v :: r => Ordered r /\ incl (children g v) r end.

Lemma Stk_chain : forall s p, Stk s p -> chain p.
Proof.
  intros s p H. induction H as [|s p x HS IH HC HN|s p x HS IH HC HN]; cbn [chain].
  - exact I.
  - exact IH.
  - split; [exact HC|exact IH].
Qed.

Lemma Stk_nil_inv : forall p, Stk [] p -> p = [].
Proof. intros p H. inversion H. reflexivity. Qed.

Lemma chain_path : forall p x c, chain (x :: p) -> In c p -> path g c x.
Proof.
  induction p as [|w p IH]; intros x c HC HI; [destruct HI|].
  cbn [chain] in HC. destruct HC as [HE HC']. cbn [cond] in HE.
  destruct HI as [E|HI].
  - subst c. apply path_one. exact HE.
  - apply (path_snoc g c w x); [|exact HE]. apply IH; [|exact HI]. cbn [chain]. exact HC'.
Qed.

Lemma Stk_push : forall pushed s w p, Stk s (w :: p) ->
  (forall c, In c pushed -> edge g w c /\ ~ In c (w :: p)) -> Stk (pushed ++ s) (w :: p).
Proof.
  induction pushed as [|c pushed IH]; intros s w p HS HP; cbn [app]; [exact HS|].
  destruct (HP c (or_introl eq_refl)) as [HE HN].
  apply Stk_pend; [|exact HE|exact HN].
  apply IH; [exact HS|]. intros c0 H0. apply HP. right. exact H0.
Qed.

Lemma Ordered_closed : forall l v c, Ordered l -> In v l -> edge g v c -> In c l.
Proof.
  induction l as [|x l IH]; intros v c HO HI HE; [destruct HI|].
  cbn [Ordered] in HO. destruct HO as [HO Hincl]. destruct HI as [E|HI].
  - subst x. right. apply Hincl. exact HE.
  - right. apply (IH v c HO HI HE).
Qed.

Record Inv (m : marks) (s out p : list nat) : Prop := {
  inv_stk : Stk s p;
  inv_walk : forall v, m v = Walking <-> In v p;
  inv_sorted : forall v, m v = Sorted <-> In v out;
  inv_nodup : NoDup out;
  inv_ord : Ordered out;
  inv_child : forall v c, In v p -> edge g v c -> m c = Sorted \/ In c (above v s);
  inv_reach_s : forall x, In x s -> reach g roots x;
  inv_reach_o : forall x, In x out -> reach g roots x }.

Lemma step_sorted : forall m x s out p, Inv m (x :: s) out p -> m x = Sorted -> Inv m s out p.
Proof.
  intros m x s out p HI Hx. destruct HI as [HStk HW HSo HND HOrd HCh HRs HRo].
  inversion HStk as [|s0 p0 x0 HS HC HN|s0 p0 x0 HS HC HN]; subst.
  - constructor; try assumption.
    + intros v c Hv He.
      assert (Hne : x <> v) by (intros E; subst v; contradiction).
      destruct (HCh v c Hv He) as [A|A]; [left; exact A|].
      rewrite above_cons_ne in A by exact Hne. destruct A as [A|A].
      * subst c. left. exact Hx.
      * right. exact A.
    + intros y Hy. apply HRs. right. exact Hy.
  - exfalso. assert (Hw : m x = Walking) by (apply HW; left; reflexivity). congruence.
Qed.

Lemma step_walking : forall m x s out p, Inv m (x :: s) out p -> m x = Walking ->
  exists p', Inv (set_mark m x Sorted) s (x :: out) p'.
Proof.
  intros m x s out p HI Hx. destruct HI as [HStk HW HSo HND HOrd HCh HRs HRo].
  inversion HStk as [|s0 p0 x0 HS HC HN|s0 p0 x0 HS HC HN]; subst.
  - exfalso. apply HN. apply HW. exact Hx.
  - exists p0. constructor.
    + exact HS.
    + intros v. destruct (Nat.eq_dec v x) as [->|Hne].
      * rewrite set_mark_same. split; [discriminate|]. intros H. contradiction.
      * rewrite set_mark_other by exact Hne. rewrite HW. split.
        -- intros [E|H]; [exfalso; apply Hne; symmetry; exact E|exact H].
        -- intros H. right. exact H.
    + intros v. destruct (Nat.eq_dec v x) as [->|Hne].
      * rewrite set_mark_same. split; [intros _; left; reflexivity|reflexivity].
      * rewrite set_mark_other by exact Hne. rewrite HSo. split.
        -- intros H. right. exact H.
        -- intros [E|H]; [exfalso; apply Hne; symmetry; exact E|exact H].
    + constructor; [|exact HND]. intros H. apply HSo in H. congruence.
    + cbn [Ordered]. split; [exact HOrd|]. intros c Hc.
      destruct (HCh x c (or_introl eq_refl) Hc) as [A|A].
      * apply HSo. exact A.
      * rewrite above_head in A. destruct A.
    + intros v c Hv He.
      assert (Hne : x <> v) by (intros E; subst v; contradiction).
      destruct (Nat.eq_dec c x) as [->|Hcx]; [left; apply set_mark_same|].
      rewrite set_mark_other by exact Hcx.
      destruct (HCh v c (or_intror Hv) He) as [A|A]; [left; exact A|].
      rewrite above_cons_ne in A by exact Hne. destruct A as [A|A].
      * exfalso. apply Hcx. symmetry. exact A.
      * right. exact A.
    + intros y Hy. apply HRs. right. exact Hy.
    + intros y [E|Hy]; [subst y; apply HRs; left; reflexivity|apply HRo; exact Hy].
Qed.

Lemma step_unsorted : forall m x s out p, Inv m (x :: s) out p -> m x = Unsorted ->
  match push_all (set_mark m x Walking) (x :: s) (children g x) with
  | Pushed stk' => Inv (set_mark m x Walking) stk' out (x :: p) /\ incl (x :: s) stk'
  | PPanic _ v => reach g roots v /\ path g v v
  end.
Proof.
  intros m x s out p HI Hx. destruct HI as [HStk HW HSo HND HOrd HCh HRs HRo].
  assert (Hrx : reach g roots x) by (apply HRs; left; reflexivity).
  inversion HStk as [|s0 p0 x0 HS HC HN|s0 p0 x0 HS HC HN]; subst.
  2:{ exfalso. assert (Hw : m x = Walking) by (apply HW; left; reflexivity). congruence. }
  set (m' := set_mark m x Walking).
  assert (HW' : forall v, m' v = Walking <-> In v (x :: p)).
  { intros v. unfold m'. destruct (Nat.eq_dec v x) as [->|Hne].
    - rewrite set_mark_same. split; [intros _; left; reflexivity|reflexivity].
    - rewrite set_mark_other by exact Hne. rewrite HW. split.
      + intros H. right. exact H.
      + intros [E|H]; [exfalso; apply Hne; symmetry; exact E|exact H]. }
  assert (HSo' : forall v, m' v = Sorted <-> In v out).
  { intros v. unfold m'. destruct (Nat.eq_dec v x) as [->|Hne].
    - rewrite set_mark_same. split; [discriminate|]. intros H. apply HSo in H. congruence.
    - rewrite set_mark_other by exact Hne. apply HSo. }
  pose proof (push_all_spec m' (children g x) (x :: s)) as HP.
  destruct (push_all m' (x :: s) (children g x)) as [stk'|sfx v].
  - destruct HP as (pushed & E & _ & P1 & P2). subst stk'.
    assert (Hnp : forall v, m' v = Walking -> ~ In v pushed).
    { intros v Hv Hin. destruct (P1 v Hin) as [_ U]. congruence. }
    split.
    + constructor.
      * apply Stk_push.
        -- apply Stk_frame; assumption.
        -- intros c Hc. destruct (P1 c Hc) as [A B]. split; [exact A|].
           intros Hin. apply HW' in Hin. congruence.
      * exact HW'.
      * exact HSo'.
      * exact HND.
      * exact HOrd.
      * intros v c Hv He.
        assert (Hvp : ~ In v pushed) by (apply Hnp; apply HW'; exact Hv).
        rewrite above_app by exact Hvp.
        destruct Hv as [Ev|Hv].
        -- subst v. destruct (P2 c He) as [A|A]; [left; exact A|].
           right. apply in_or_app. left. exact A.
        -- destruct (HCh v c Hv He) as [A|A].
           ++ left. apply HSo'. apply HSo. exact A.
           ++ right. apply in_or_app. right. exact A.
      * intros y Hy. apply in_app_or in Hy. destruct Hy as [Hy|Hy].
        -- destruct (P1 y Hy) as [A _]. apply (reach_step g roots x y Hrx A).
        -- apply HRs. exact Hy.
      * exact HRo.
    + intros y Hy. apply in_or_app. right. exact Hy.
  - destruct HP as [Hc Hv]. split.
    + apply (reach_step g roots x v Hrx Hc).
    + apply HW' in Hv. destruct Hv as [E|Hv].
      * subst v. apply path_one. exact Hc.
      * apply (path_snoc g v x v); [|exact Hc].
        apply (chain_path p x v); [|exact Hv].
        cbn [chain]. split; [exact HC|]. apply (Stk_chain _ _ HS).
Qed.

Lemma loop_inv : forall fuel m s out p, Inv m s out p ->
  match loop fuel g m s out with
  | LDone m' out' => Inv m' [] out' []
      /\ (forall v, m v = Sorted -> m' v = Sorted) /\ (forall x, In x s -> m' x = Sorted)
  | LPanic _ v => reach g roots v /\ path g v v
  | LOutOfFuel => True
  end.
Proof.
  induction fuel as [|f IH]; intros m s out p HI; cbn [loop]; [exact I|].
  destruct s as [|x rest].
  - assert (E : p = []) by (apply Stk_nil_inv; apply (inv_stk _ _ _ _ HI)). subst p.
    split; [exact HI|]. split; [intros v H; exact H|intros x []].
  - destruct (m x) eqn:Hx.
    + pose proof (step_unsorted m x rest out p HI Hx) as HS.
      destruct (push_all (set_mark m x Walking) (x :: rest) (children g x)) as [stk'|sfx v]; [|exact HS].
      destruct HS as [HI' Hincl]. specialize (IH _ _ _ _ HI').
      destruct (loop f g (set_mark m x Walking) stk' out) as [m2 out2|sfx v|]; [|exact IH|exact I].
      destruct IH as (HI2 & Hmono & Hall). split; [exact HI2|]. split.
      * intros v Hv. apply Hmono. rewrite set_mark_other; [exact Hv|]. intros E. subst v. congruence.
      * intros y Hy. apply Hall. apply Hincl. exact Hy.
    + destruct (step_walking m x rest out p HI Hx) as [p' HI'].
      specialize (IH _ _ _ _ HI').
      destruct (loop f g (set_mark m x Sorted) rest (x :: out)) as [m2 out2|sfx v|]; [|exact IH|exact I].
      destruct IH as (HI2 & Hmono & Hall). split; [exact HI2|]. split.
      * intros v Hv. apply Hmono. destruct (Nat.eq_dec v x) as [->|Hne].
        -- apply set_mark_same.
        -- rewrite set_mark_other by exact Hne. exact Hv.
      * intros y [E|Hy].
        -- subst y. apply Hmono. apply set_mark_same.
        -- apply Hall. exact Hy.
    + pose proof (step_sorted m x rest out p HI Hx) as HI'.
      specialize (IH _ _ _ _ HI').
      destruct (loop f g m rest out) as [m2 out2|sfx v|]; [|exact IH|exact I].
      destruct IH as (HI2 & Hmono & Hall). split; [exact HI2|]. split.
      * exact Hmono.
      * intros y [E|Hy].
        -- subst y. apply Hmono. exact Hx.
        -- apply Hall. exact Hy.
Qed.

Lemma sort_roots_inv : forall fuel rs m out, Inv m [] out [] -> incl rs roots ->
  match sort_roots fuel g m out rs with
  | TOk res => exists m' out', res = rev out' /\ Inv m' [] out' []
      /\ (forall v, m v = Sorted -> m' v = Sorted) /\ (forall r, In r rs -> m' r = Sorted)
  | TPanic _ v => reach g roots v /\ path g v v
  | TOutOfFuel => True
  end.
Proof.
  intros fuel rs. induction rs as [|r rs IH]; intros m out HI Hincl; cbn [sort_roots].
  - exists m, out. split; [reflexivity|]. split; [exact HI|]. split; [intros v H; exact H|intros r []].
  - assert (Hrr : reach g roots r) by (apply reach_root; apply Hincl; left; reflexivity).
    assert (Hincl' : incl rs roots) by (intros y Hy; apply Hincl; right; exact Hy).
    unfold push. destruct (m r) eqn:Hr.
    + assert (HI' : Inv m [r] out []).
      { destruct HI as [HStk HW HSo HND HOrd HCh HRs HRo]. constructor; try assumption.
        - apply Stk_pend; [exact Stk_nil|exact I|intros []].
        - intros v c [].
        - intros y [E|[]]. subst y. exact Hrr. }
      pose proof (loop_inv fuel m [r] out [] HI') as HL.
      destruct (loop fuel g m [r] out) as [m1 out1|sfx v|]; [|exact HL|exact I].
      destruct HL as (HI1 & Hmono1 & Hall1).
      specialize (IH m1 out1 HI1 Hincl').
      destruct (sort_roots fuel g m1 out1 rs) as [res|sfx v|]; [|exact IH|exact I].
      destruct IH as (m2 & out2 & E & HI2 & Hmono2 & Hall2).
      exists m2, out2. split; [exact E|]. split; [exact HI2|]. split.
      * intros v Hv. apply Hmono2. apply Hmono1. exact Hv.
      * intros r0 [E0|H0].
        -- subst r0. apply Hmono2. apply Hall1. left. reflexivity.
        -- apply Hall2. exact H0.
    + exfalso. apply (inv_walk _ _ _ _ HI) in Hr. destruct Hr.
    + pose proof (loop_inv fuel m [] out [] HI) as HL.
      destruct (loop fuel g m [] out) as [m1 out1|sfx v|]; [|exact HL|exact I].
      destruct HL as (HI1 & Hmono1 & Hall1).
      specialize (IH m1 out1 HI1 Hincl').
      destruct (sort_roots fuel g m1 out1 rs) as [res|sfx v|]; [|exact IH|exact I].
      destruct IH as (m2 & out2 & E & HI2 & Hmono2 & Hall2).
      exists m2, out2. split; [exact E|]. split; [exact HI2|]. split.
      * intros v Hv. apply Hmono2. apply Hmono1. exact Hv.
      * intros r0 [E0|H0].
        -- subst r0. apply Hmono2. apply Hmono1. exact Hr.
        -- apply Hall2. exact H0.
Qed.
End Invariant.

(* ------------------------------------------------------------------ consequences of Ordered *)
Lemma Ordered_split : forall g l1 a l2, Ordered g (l1 ++ a :: l2) -> incl (children g a) l2.
Proof.
  intros g l1 a l2. induction l1 as [|x l1 IH]; cbn [app Ordered]; intros [HO Hincl].
  - exact Hincl.
  - apply IH. exact HO.
Qed.

Lemma Ordered_path_closed : forall g l a b, Ordered g l -> path g a b -> In a l -> In b l.
Proof.
  intros g l a b HO HP. induction HP as [a b E|a b c E HP IH]; intros Ha.
  - apply (Ordered_closed g l a b HO Ha E).
  - apply IH. apply (Ordered_closed g l a b HO Ha E).
Qed.

Lemma Ordered_acyclic : forall g l a, Ordered g l -> NoDup l -> In a l -> ~ path g a a.
Proof.
  intros g l. induction l as [|x l IH]; intros a HO HND Ha HP; [destruct Ha|].
  cbn [Ordered] in HO. destruct HO as [HO Hincl].
  inversion HND as [|x0 l0 Hx HND']; subst.
  destruct Ha as [E|Ha].
  - subst a. apply Hx. inversion HP as [a b E|a b c E HP']; subst.
    + apply Hincl. exact E.
    + apply (Ordered_path_closed g l b x HO HP'). apply Hincl. exact E.
  - apply (IH a HO HND' Ha HP).
Qed.

(* ------------------------------------------------------------------ the final theorems *)
Lemma Inv_init : forall g roots, Inv g roots (fun _ => Unsorted) [] [] [].
Proof.
  intros g roots. constructor.
  - apply Stk_nil.
  - intros v. split; [discriminate|intros []].
  - intros v. split; [discriminate|intros []].
  - constructor.
  - exact I.
  - intros v c [].
  - intros x [].
  - intros x [].
Qed.

Lemma sort_ok_core : forall g roots res, sort g roots = TOk res ->
  exists out, res = rev out /\ NoDup out /\ Ordered g out /\ (forall v, In v out <-> reach g roots v).
Proof.
  intros g roots res Hs. unfold sort in Hs.
  pose proof (sort_roots_inv g roots (sort_fuel g) roots _ _ (Inv_init g roots) (incl_refl roots)) as H.
  rewrite Hs in H. destruct H as (m' & out & E & HI & _ & Hall).
  exists out. split; [exact E|]. split; [apply (inv_nodup _ _ _ _ _ _ HI)|].
  split; [apply (inv_ord _ _ _ _ _ _ HI)|].
  intros v. split.
  - apply (inv_reach_o _ _ _ _ _ _ HI).
  - intros Hr. induction Hr as [r Hr|a b Hr IH Eab].
    + apply (inv_sorted _ _ _ _ _ _ HI). apply Hall. exact Hr.
    + apply (Ordered_closed g out a b (inv_ord _ _ _ _ _ _ HI) IH Eab).
Qed.

Lemma sort_panic_core : forall g roots s v, sort g roots = TPanic s v ->
  reach g roots v /\ path g v v.
Proof.
  intros g roots s v Hs. unfold sort in Hs.
  pose proof (sort_roots_inv g roots (sort_fuel g) roots _ _ (Inv_init g roots) (incl_refl roots)) as H.
  rewrite Hs in H. exact H.
Qed.

Lemma sort_ok_spec_lemma : forall g roots out, sort g roots = TOk out ->
  NoDup out /\ (forall v, In v out <-> reach g roots v)
  /\ (forall a b, In a out -> edge g a b -> before out b a).
Proof.
  intros g roots res Hs. destruct (sort_ok_core g roots res Hs) as (out & E & HND & HO & HR).
  subst res. split; [|split].
  - apply NoDup_rev. exact HND.
  - intros v. rewrite <- in_rev. apply HR.
  - intros a b Ha He. rewrite <- in_rev in Ha.
    destruct (in_split a out Ha) as (l1 & l2 & E1).
    assert (Hb : In b l2).
    { rewrite E1 in HO. apply (Ordered_split g l1 a l2 HO). exact He. }
    destruct (in_split b l2 Hb) as (l3 & l4 & E2).
    exists (rev l4), (rev l3), (rev l1).
    rewrite E1, E2. rewrite rev_app_distr. cbn [rev]. rewrite rev_app_distr. cbn [rev].
    repeat rewrite <- app_assoc. cbn [app]. reflexivity.
Qed.

Lemma sort_no_cycle_when_ok : forall g roots out, sort g roots = TOk out -> ~ reachable_cycle g roots.
Proof.
  intros g roots res Hs (v & Hr & HP).
  destruct (sort_ok_core g roots res Hs) as (out & E & HND & HO & HR).
  apply (Ordered_acyclic g out v HO HND); [apply HR; exact Hr|exact HP].
Qed.

Lemma sort_cyclic_panics_iff_lemma : forall g roots,
  (reachable_cycle g roots <-> exists s v, sort g roots = TPanic s v)
  /\ (forall s v, sort g roots = TPanic s v -> reach g roots v /\ path g v v).
Proof.
  intros g roots. split; [split|].
  - intros HC. destruct (sort g roots) as [out|s v|] eqn:Hs.
    + exfalso. apply (sort_no_cycle_when_ok g roots out Hs). exact HC.
    + exists s, v. reflexivity.
    + exfalso. apply (sort_terminates_lemma g roots). exact Hs.
  - intros (s & v & Hs). exists v. apply (sort_panic_core g roots s v Hs).
  - apply sort_panic_core.
Qed.

Lemma sort_dag_spec_lemma : forall g roots, ~ reachable_cycle g roots ->
  exists out, sort g roots = TOk out /\ NoDup out /\ (forall v, In v out <-> reach g roots v)
              /\ (forall a b, In a out -> edge g a b -> before out b a).
Proof.
  intros g roots HN. destruct (sort g roots) as [out|s v|] eqn:Hs.
  - exists out. split; [reflexivity|]. apply (sort_ok_spec_lemma g roots out Hs).
  - exfalso. apply HN. exists v. apply (sort_panic_core g roots s v Hs).
  - exfalso. apply (sort_terminates_lemma g roots). exact Hs.
Qed.

Lemma sort_cyclic_yields_all_refuted_lemma :
  ~ (forall g roots, exists out, sort g roots = TOk out /\ NoDup out
                                 /\ forall v, In v out <-> reach g roots v).
Proof.
  intros H. destruct (H [[0]] [0]) as (out & Hs & _).
  vm_compute in Hs. discriminate Hs.
Qed.

Lemma sort_examples :
  sort [[1; 2]; [3]; [3]; []] [0] = TOk [3; 2; 1; 0]
  /\ sort [[1]; [2]; [0]] [0] = TPanic [0; 1; 2] 0
  /\ ~ reachable_cycle [[1; 2]; [3]; [3]; []] [0] /\ reachable_cycle [[1]; [2]; [0]] [0].
Proof.
  assert (H1 : sort [[1; 2]; [3]; [3]; []] [0] = TOk [3; 2; 1; 0]) by (vm_compute; reflexivity).
  split; [exact H1|]. split; [vm_compute; reflexivity|]. split.
  - apply (sort_no_cycle_when_ok _ _ _ H1).
  - exists 0. split.
    + apply reach_root. left. reflexivity.
    + apply (path_cons _ 0 1 0); [left; reflexivity|].
      apply (path_cons _ 1 2 0); [left; reflexivity|].
      apply path_one. left. reflexivity.
Qed.

(* ------------------------------------------------------------------ the Sorter as a reusable object *)
(* the deferred reset: whatever happened during a use - it completed, the consumer stopped it after
   any number of elements, it panicked - the Sorter is back in its initial state *)
Lemma sorter_state_reset_after_any_prefix_lemma : forall s g roots lim,
  snd (sorter_use s g roots lim) = sorter_init.
Proof. intros. reflexivity. Qed.

Lemma sorter_history_fresh_lemma : forall g uses,
  sorter_history sorter_init g uses
  = map (fun u : list nat * option nat => fst (sorter_use sorter_init g (fst u) (snd u))) uses.
Proof.
  intros g uses. induction uses as [|[roots lim] r IH]; [reflexivity|].
  cbn [sorter_history map fst snd]. unfold sorter_use at 1. cbn [fst snd]. rewrite IH. reflexivity.
Qed.

(* the loop with an unlimited consumer is the loop of the plain model *)
Lemma loop_lim_none g : forall fuel m stack out,
  match loop fuel g m stack out with
  | LDone m' o => loop_lim fuel g m stack out None = LLDone m' o None
  | LPanic s v => loop_lim fuel g m stack out None = LLPanic out s v \/ exists o, loop_lim fuel g m stack out None = LLPanic o s v
  | LOutOfFuel => loop_lim fuel g m stack out None = LLOutOfFuel
  end.
Proof.
  induction fuel as [|f IH]; intros m stack out; cbn [loop loop_lim]; [reflexivity|].
  destruct stack as [|node rest]; [reflexivity|].
  destruct (m node).
  - destruct (push_all (set_mark m node Walking) (node :: rest) (children g node)) as [st'|s v].
    + specialize (IH (set_mark m node Walking) st' out).
      destruct (loop f g (set_mark m node Walking) st' out); [exact IH| |exact IH].
      right. destruct IH as [IH|[o IH]]; eexists; exact IH.
    + left. reflexivity.
  - cbn [lim_next]. specialize (IH (set_mark m node Sorted) rest (node :: out)).
    destruct (loop f g (set_mark m node Sorted) rest (node :: out)); [exact IH| |exact IH].
    right. destruct IH as [IH|[o IH]]; eexists; exact IH.
  - specialize (IH m rest out).
    destruct (loop f g m rest out); [exact IH| |exact IH].
    right. destruct IH as [IH|[o IH]]; eexists; exact IH.
Qed.

Lemma sort_roots_lim_none g fuel : forall roots m out,
  match sort_roots fuel g m out roots with
  | TOk o => sort_roots_lim fuel g m [] out roots None = UDone o
  | TPanic s v => exists o, sort_roots_lim fuel g m [] out roots None = UPanic o s v
  | TOutOfFuel => sort_roots_lim fuel g m [] out roots None = UOutOfFuel
  end.
Proof.
  induction roots as [|r rs IH]; intros m out; cbn [sort_roots sort_roots_lim]; [reflexivity|].
  destruct (push m [] r) as [st|s v]; [|eexists; reflexivity].
  pose proof (loop_lim_none g fuel m st out) as H.
  destruct (loop fuel g m st out) as [m' o'|s v|].
  - rewrite H. apply IH.
  - destruct H as [H|[o H]]; rewrite H; eexists; reflexivity.
  - rewrite H. reflexivity.
Qed.

Lemma sorter_use_complete_lemma : forall g roots,
  match sort g roots with
  | TOk o => fst (sorter_use sorter_init g roots None) = UDone o
  | TPanic s v => exists o, fst (sorter_use sorter_init g roots None) = UPanic o s v
  | TOutOfFuel => False
  end.
Proof.
  intros g roots. pose proof (sort_terminates_lemma g roots) as Ht.
  unfold sorter_use, sorter_init. cbn [fst s_marks s_stack length]. rewrite Nat.mul_0_r, Nat.add_0_r.
  pose proof (sort_roots_lim_none g (sort_fuel g) roots (fun _ => Unsorted) []) as H. fold (sort g roots) in H.
  destruct (sort g roots); [exact H|exact H|apply Ht; reflexivity].
Qed.

(* a consumer that breaks on its k-th element sees the first k elements of the complete iteration *)
Lemma loop_lim_cut g : forall fuel m stack out k, 1 <= k ->
  match loop_lim fuel g m stack out None with
  | LLDone m' o' _ =>
    exists new, o' = new ++ out /\
      (if k <=? length new then loop_lim fuel g m stack out (Some k) = LLStopped (skipn (length new - k) new ++ out)
       else loop_lim fuel g m stack out (Some k) = LLDone m' o' (Some (k - length new)))
  | LLPanic o' s v =>
    exists new, o' = new ++ out /\
      (if k <=? length new then loop_lim fuel g m stack out (Some k) = LLStopped (skipn (length new - k) new ++ out)
       else loop_lim fuel g m stack out (Some k) = LLPanic o' s v)
  | _ => True
  end.
Proof.
  induction fuel as [|f IH]; intros m stack out k Hk; cbn [loop_lim]; [exact I|].
  destruct stack as [|node rest].
  - exists []. split; [reflexivity|]. cbn [length]. destruct (Nat.leb_spec k 0); [lia|]. rewrite Nat.sub_0_r. reflexivity.
  - destruct (m node).
    + destruct (push_all (set_mark m node Walking) (node :: rest) (children g node)) as [st'|s v].
      * apply IH. exact Hk.
      * exists []. split; [reflexivity|]. cbn [length]. destruct (Nat.leb_spec k 0); [lia|reflexivity].
    + cbn [lim_next]. destruct (Nat.leb_spec k 1) as [Hk1|Hk1].
      * (* the consumer stops on this element *)
        assert (k = 1) by lia. subst k.
        destruct (loop_lim f g (set_mark m node Sorted) rest (node :: out) None) as [m' o' l'|o'|o' s v|] eqn:Hfull; try exact I.
        -- specialize (IH (set_mark m node Sorted) rest (node :: out) 1 Hk). rewrite Hfull in IH.
           destruct IH as [new [Ho _]]. exists (new ++ [node]). split; [rewrite <- app_assoc; exact Ho|].
           rewrite app_length. cbn [length]. destruct (Nat.leb_spec 1 (length new + 1)); [|lia].
           replace (length new + 1 - 1) with (length new) by lia.
           rewrite skipn_app, skipn_all, Nat.sub_diag. reflexivity.
        -- specialize (IH (set_mark m node Sorted) rest (node :: out) 1 Hk). rewrite Hfull in IH.
           destruct IH as [new [Ho _]]. exists (new ++ [node]). split; [rewrite <- app_assoc; exact Ho|].
           rewrite app_length. cbn [length]. destruct (Nat.leb_spec 1 (length new + 1)); [|lia].
           replace (length new + 1 - 1) with (length new) by lia.
           rewrite skipn_app, skipn_all, Nat.sub_diag. reflexivity.
      * specialize (IH (set_mark m node Sorted) rest (node :: out) (k - 1) ltac:(lia)).
        destruct (loop_lim f g (set_mark m node Sorted) rest (node :: out) None) as [m' o' l'|o'|o' s v|]; try exact I.
        -- destruct IH as [new [Ho IH]]. exists (new ++ [node]). split; [rewrite <- app_assoc; exact Ho|].
           rewrite app_length. cbn [length].
           destruct (Nat.leb_spec (k - 1) (length new)); destruct (Nat.leb_spec k (length new + 1)); try lia.
           ++ rewrite IH. f_equal. replace (length new + 1 - k) with (length new - (k - 1)) by lia.
              rewrite skipn_app. replace (length new - (k - 1) - length new) with 0 by lia. cbn [skipn].
              rewrite <- app_assoc. reflexivity.
           ++ rewrite IH. f_equal. f_equal. lia.
        -- destruct IH as [new [Ho IH]]. exists (new ++ [node]). split; [rewrite <- app_assoc; exact Ho|].
           rewrite app_length. cbn [length].
           destruct (Nat.leb_spec (k - 1) (length new)); destruct (Nat.leb_spec k (length new + 1)); try lia.
           ++ rewrite IH. f_equal. replace (length new + 1 - k) with (length new - (k - 1)) by lia.
              rewrite skipn_app. replace (length new - (k - 1) - length new) with 0 by lia. cbn [skipn].
              rewrite <- app_assoc. reflexivity.
           ++ exact IH.
    + apply IH. exact Hk.
Qed.

Lemma loop_lim_none_shape g : forall fuel m stack out,
  match loop_lim fuel g m stack out None with
  | LLDone _ _ l => l = None
  | LLStopped _ => False
  | _ => True
  end.
Proof.
  induction fuel as [|f IH]; intros m stack out; cbn [loop_lim]; [exact I|].
  destruct stack as [|node rest]; [reflexivity|].
  destruct (m node).
  - destruct (push_all (set_mark m node Walking) (node :: rest) (children g node)); [apply IH|exact I].
  - cbn [lim_next]. apply IH.
  - apply IH.
Qed.

Lemma rev_cut (new out : list nat) k : k <= length new ->
  rev (skipn (length new - k) new ++ out) = firstn (length out + k) (rev (new ++ out)).
Proof.
  intros Hk. rewrite !rev_app_distr. rewrite <- (rev_length out). rewrite firstn_app_2.
  f_equal. rewrite firstn_rev. reflexivity.
Qed.

Lemma roots_prefix g fuel : forall roots m stack out,
  match sort_roots_lim fuel g m stack out roots None with
  | UDone o => exists tail, o = rev out ++ tail
  | UPanic o _ _ => exists tail, o = rev out ++ tail
  | UStopped _ => False
  | UOutOfFuel => True
  end.
Proof.
  induction roots as [|r rs IH]; intros m stack out; cbn [sort_roots_lim].
  - exists []. symmetry. apply app_nil_r.
  - destruct (push m stack r) as [st|s v]; [|exists []; symmetry; apply app_nil_r].
    pose proof (loop_lim_cut g fuel m st out 1 (le_n 1)) as Hc.
    pose proof (loop_lim_none_shape g fuel m st out) as Hs.
    destruct (loop_lim fuel g m st out None) as [m' o' l'|o'|o' s v|]; [|contradiction| |exact I].
    + subst l'. destruct Hc as [new [Ho _]]. specialize (IH m' [] o').
      destruct (sort_roots_lim fuel g m' [] o' rs None) as [o|o|o s v|]; try exact IH.
      * destruct IH as [tail Ht]. subst o'. rewrite rev_app_distr, <- app_assoc in Ht. eexists. exact Ht.
      * destruct IH as [tail Ht]. subst o'. rewrite rev_app_distr, <- app_assoc in Ht. eexists. exact Ht.
    + destruct Hc as [new [Ho _]]. subst o'. rewrite rev_app_distr. eexists. reflexivity.
Qed.

Lemma roots_cut g fuel : forall roots m stack out k, 1 <= k ->
  sort_roots_lim fuel g m stack out roots None <> UOutOfFuel ->
  sort_roots_lim fuel g m stack out roots (Some k) = cut (length out + k) (sort_roots_lim fuel g m stack out roots None).
Proof.
  induction roots as [|r rs IH]; intros m stack out k Hk Hoof; cbn [sort_roots_lim] in *.
  - cbn [cut]. rewrite rev_length. destruct (Nat.leb_spec (length out + k) (length out)); [lia|reflexivity].
  - destruct (push m stack r) as [st|s v].
    2:{ cbn [cut]. rewrite rev_length. destruct (Nat.leb_spec (length out + k) (length out)); [lia|reflexivity]. }
    pose proof (loop_lim_cut g fuel m st out k Hk) as Hc.
    pose proof (loop_lim_none_shape g fuel m st out) as Hs.
    destruct (loop_lim fuel g m st out None) as [m' o' l'|o'|o' s v|]; [|contradiction| |contradiction].
    + subst l'. destruct Hc as [new [Ho Hc]].
      destruct (Nat.leb_spec k (length new)) as [Hle|Hgt].
      * rewrite Hc. pose proof (roots_prefix g fuel rs m' [] o') as Hp.
        destruct (sort_roots_lim fuel g m' [] o' rs None) as [o|o|o s v|]; [|contradiction| |contradiction].
        -- destruct Hp as [tail Ht]. cbn [cut]. subst o o'.
           rewrite app_length, rev_length, app_length.
           destruct (Nat.leb_spec (length out + k) (length new + length out + length tail)); [|lia].
           f_equal. rewrite rev_cut by exact Hle. rewrite firstn_app.
           rewrite rev_length, app_length. replace (length out + k - (length new + length out)) with 0 by lia.
           cbn [firstn]. rewrite app_nil_r. reflexivity.
        -- destruct Hp as [tail Ht]. cbn [cut]. subst o o'.
           rewrite app_length, rev_length, app_length.
           destruct (Nat.leb_spec (length out + k) (length new + length out + length tail)); [|lia].
           f_equal. rewrite rev_cut by exact Hle. rewrite firstn_app.
           rewrite rev_length, app_length. replace (length out + k - (length new + length out)) with 0 by lia.
           cbn [firstn]. rewrite app_nil_r. reflexivity.
      * rewrite Hc. rewrite (IH m' [] o' (k - length new) ltac:(lia) Hoof). f_equal.
        subst o'. rewrite app_length. lia.
    + destruct Hc as [new [Ho Hc]]. cbn [cut]. subst o'. rewrite rev_length, app_length. revert Hc.
      destruct (Nat.leb_spec k (length new)); destruct (Nat.leb_spec (length out + k) (length new + length out)); try lia; intros Hc; rewrite Hc.
      * f_equal. apply rev_cut. assumption.
      * reflexivity.
Qed.

Lemma sorter_use_cut_lemma : forall g roots k, 1 <= k ->
  fst (sorter_use sorter_init g roots (Some k)) = cut k (fst (sorter_use sorter_init g roots None)).
Proof.
  intros g roots k Hk. pose proof (sorter_use_complete_lemma g roots) as Hfull.
  unfold sorter_use in *. cbn [fst] in *.
  assert (Hoof : sort_roots_lim (sort_fuel g + 2 * length (s_stack sorter_init)) g (s_marks sorter_init) (s_stack sorter_init) [] roots None <> UOutOfFuel).
  { intros Ho. rewrite Ho in Hfull. destruct (sort g roots); [discriminate|destruct Hfull; discriminate|exact Hfull]. }
  rewrite (roots_cut g _ roots _ _ [] k Hk Hoof). reflexivity.
Qed.

Lemma sorter_examples :
  sorter_history sorter_init [[1]; [2]; [3]; []] [([0], Some 2); ([3], None); ([0], None)]
  = [UStopped [3; 2]; UDone [3]; UDone [3; 2; 1; 0]]
  /\ sorter_history sorter_init [[1]; [0]; []] [([0], None); ([2], None)] = [UPanic [] [0; 1] 0; UDone [2]].
Proof. split; vm_compute; reflexivity. Qed.
