(* Proofs about Model/XLexer.v, part B: the scanners (takeWhile, numbers, identifiers, strings)
   terminate within their fuel, stay inside the text and leave the cursor on a rune boundary. *)
From Coq Require Import List NArith ZArith Bool Lia ZifyBool ZifyN ZifyNat.
From PV Require Import Model.XLexer Proofs.XLexerUtf8.
Import ListNotations.

Local Open Scope nat_scope.

(* ========================================================================================== *)
(* B1. the generic rune loop                                                                    *)
(* ========================================================================================== *)
Section RLoopSpec.
  Context {S : Type}.
  Variable body : S -> list N -> lstep S.
  Variable Q : S -> list N -> Prop.     (* invariant: state and remaining text at the loop head *)
  Variable R : S -> list N -> Prop.     (* what holds when the loop is left *)
  Hypothesis Hend : forall st, Q st [] -> R st [].
  Hypothesis Hadv : forall st rest st' n, rest <> [] -> Q st rest -> body st rest = Adv st' n ->
      1 <= n /\ n <= length rest /\ Q st' (skipn n rest).
  Hypothesis Hbrk : forall st rest st' n, rest <> [] -> Q st rest -> body st rest = Brk st' n ->
      n <= length rest /\ R st' (skipn n rest).

  Lemma rloop_spec : forall fuel st rest, length rest <= fuel -> Q st rest ->
    exists st' n, rloop body fuel st rest = Some (st', n) /\ n <= length rest /\ R st' (skipn n rest).
  Proof.
    induction fuel as [|k IH]; intros st rest Hf HQ.
    - destruct rest; [|cbn in Hf; lia]. exists st, 0. cbn. repeat split; auto.
    - destruct rest as [|b t].
      + exists st, 0. cbn. repeat split; auto.
      + assert (Hne : b :: t <> []) by discriminate.
        cbn [rloop].
        destruct (body st (b :: t)) as [st1 n|st1 n] eqn:Eb.
        * destruct (Hadv _ _ _ _ Hne HQ Eb) as (H1 & H2 & H3).
          destruct (IH st1 (skipn n (b :: t))) as (st2 & m & Hr & Hm & HR); [rewrite skipn_length; lia|exact H3|].
          rewrite Hr. exists st2, (n + m). rewrite skipn_length in Hm.
          repeat split; [lia|]. now rewrite <- skipn_skipn.
        * destruct (Hbrk _ _ _ _ Hne HQ Eb) as (H1 & H2).
          exists st1, n. repeat split; auto.
  Qed.
End RLoopSpec.

(* the first iteration, when it advances *)
Lemma rloop_first_adv {S} (body : S -> list N -> lstep S) k st rest st1 n :
  rest <> [] -> body st rest = Adv st1 n ->
  rloop body (Datatypes.S k) st rest =
  match rloop body k st1 (skipn n rest) with Some (st2, m) => Some (st2, n + m) | None => None end.
Proof. intros Hne Hb. destruct rest; [congruence|]. cbn [rloop]. now rewrite Hb. Qed.

Lemma rloop_first_brk {S} (body : S -> list N -> lstep S) k st rest st1 n :
  rest <> [] -> body st rest = Brk st1 n -> rloop body (Datatypes.S k) st rest = Some (st1, n).
Proof. intros Hne Hb. destruct rest; [congruence|]. cbn [rloop]. now rewrite Hb. Qed.

Lemma length_pos_S {A} (l : list A) : l <> [] -> exists k, length l = Datatypes.S k.
Proof. destruct l; [congruence|]. intros _. cbn. eauto. Qed.

(* ========================================================================================== *)
(* B2. takeWhile                                                                                *)
(* ========================================================================================== *)
Lemma take_while_spec f rest : Valid rest ->
  exists n, take_while f rest = Some n /\ n <= length rest /\ Valid (skipn n rest).
Proof.
  intros Hv. unfold take_while.
  destruct (rloop_spec (tw_body f) (fun _ r => Valid r) (fun _ r => Valid r)) with (fuel := length rest) (st := tt) (rest := rest)
    as (st' & n & Hr & Hn & HR); auto.
  - intros st r st' n Hne HQ Hb. unfold tw_body in Hb.
    destruct (Valid_peek r HQ Hne) as (ru & w & _ & Hp & Hw & H1 & H2 & H3 & _).
    destruct ((peek r =? -1)%Z || negb (f (peek r))); inversion Hb; subst. repeat split; auto.
  - intros st r st' n Hne HQ Hb. unfold tw_body in Hb.
    destruct ((peek r =? -1)%Z || negb (f (peek r))); inversion Hb; subst. split; [lia|exact HQ].
  - rewrite Hr. exists n. auto.
Qed.

Lemma take_while_progress f rest n : Valid rest -> rest <> [] -> f (peek rest) = true ->
  take_while f rest = Some n -> 1 <= n.
Proof.
  intros Hv Hne Hf. unfold take_while.
  destruct (length_pos_S rest Hne) as (k & Hk). rewrite Hk.
  destruct (Valid_peek rest Hv Hne) as (ru & w & _ & Hp & Hw & H1 & H2 & H3 & H4 & _).
  assert (Hb : tw_body f tt rest = Adv tt w).
  { unfold tw_body. rewrite Hf, Hw. destruct (Z.eqb_spec (peek rest) (-1)); [lia|reflexivity]. }
  rewrite (rloop_first_adv _ _ _ _ _ _ Hne Hb).
  destruct (rloop (tw_body f) k tt (skipn w rest)) as [[st2 m]|]; [|discriminate].
  intros H; inversion H; subst. lia.
Qed.

(* ========================================================================================== *)
(* B3. ASCII runes                                                                              *)
(* ========================================================================================== *)
Lemma decode_width1 s r : decode_rune s = Some (r, 1) ->
  exists b t, s = b :: t /\ (b < 128)%N /\ r = Z.of_N b.
Proof.
  unfold decode_rune. destruct s as [|b0 t]; [discriminate|].
  destruct (N.ltb b0 128) eqn:E1.
  { intros H; inversion H; subst. apply N.ltb_lt in E1. eauto. }
  destruct (N.ltb b0 194); [discriminate|].
  destruct (N.ltb b0 224).
  { destruct t as [|b1 t]; [discriminate|]. destruct (in_rng 128 191 b1); discriminate. }
  destruct (N.ltb b0 240).
  { destruct t as [|b1 [|b2 t]]; try discriminate.
    destruct (in_rng _ _ b1 && in_rng 128 191 b2); discriminate. }
  destruct (N.ltb b0 245); [|discriminate].
  destruct t as [|b1 [|b2 [|b3 t]]]; try discriminate.
  destruct (in_rng _ _ b1 && in_rng 128 191 b2 && in_rng 128 191 b3); discriminate.
Qed.

(* a peeked rune below 128 is the first byte itself *)
Lemma peek_ascii rest : Valid rest -> rest <> [] -> (peek rest < 128)%Z ->
  exists b t, rest = b :: t /\ (b < 128)%N /\ peek rest = Z.of_N b /\ pop_len rest = 1 /\ Valid t.
Proof.
  intros Hv Hne Hlt.
  destruct (Valid_peek rest Hv Hne) as (r & w & Hd & Hp & Hw & H1 & H2 & H3 & H4 & H5).
  assert (Hw1 : w = 1).
  { rewrite Hp in Hlt. unfold rune_len in H5. revert H5. split_ifs; lia. }
  rewrite Hw1 in *. destruct (decode_width1 _ _ Hd) as (b & t & E & Hb & Hr).
  exists b, t. rewrite E in *. repeat split; auto; try congruence.
Qed.

Lemma peek_cons_ascii b t : (b < 128)%N -> peek (b :: t) = Z.of_N b.
Proof. intros H. unfold peek. now rewrite decode_ascii. Qed.

(* if the peeked rune equals an ASCII code, the text starts with that byte *)
Lemma peek_eq_ascii rest c : Valid rest -> (0 <= c < 128)%Z -> peek rest = c ->
  exists t, rest = Z.to_N c :: t /\ Valid t /\ pop_len rest = 1.
Proof.
  intros Hv Hc Hp. destruct rest as [|b0 t0] eqn:E; [rewrite peek_nil in Hp; lia|].
  rewrite <- E in *. assert (Hne : rest <> []) by (subst; discriminate).
  destruct (peek_ascii rest Hv Hne ltac:(lia)) as (b & t & -> & Hb & Hpb & Hw & Hvt).
  exists t. rewrite Hpb in Hp. assert (b = Z.to_N c) by lia. subst b. auto.
Qed.

(* ========================================================================================== *)
(* B4. numbers and identifiers                                                                  *)
(* ========================================================================================== *)
Section Scan.
Variable C : cfg.
Variable V : variant.

Lemma num_body_adv r st' n : Valid r -> r <> [] -> num_body C tt r = Adv st' n ->
  1 <= n /\ n <= length r /\ Valid (skipn n r).
Proof.
  intros Hv Hne Hb. unfold num_body in Hb.
  destruct ((peek r =? 101)%Z || (peek r =? 69)%Z) eqn:Ee.
  - assert (He : exists c, (0 <= c < 128)%Z /\ peek r = c) by (exists (peek r); lia).
    destruct He as (c & Hc & Hpc).
    destruct (peek_eq_ascii r c Hv Hc Hpc) as (t & -> & Hvt & _).
    cbn [skipn] in Hb.
    destruct ((peek t =? 43)%Z || (peek t =? 45)%Z) eqn:Es; inversion Hb; subst.
    + assert (Hs : exists c2, (0 <= c2 < 128)%Z /\ peek t = c2) by (exists (peek t); lia).
      destruct Hs as (c2 & Hc2 & Hpc2).
      destruct (peek_eq_ascii t c2 Hvt Hc2 Hpc2) as (t2 & -> & Hvt2 & _).
      cbn. repeat split; auto; lia.
    + cbn. repeat split; auto; lia.
  - destruct ((peek r =? 46)%Z || c_digit C (peek r) || c_letter C (peek r) || (peek r =? 95)%Z); [|discriminate].
    inversion Hb; subst.
    destruct (Valid_peek r Hv Hne) as (ru & w & _ & Hp & Hw & H1 & H2 & H3 & _).
    rewrite Hw. auto.
Qed.

Lemma raw_number_spec rest : Valid rest ->
  exists n, raw_number C rest = Some n /\ n <= length rest /\ Valid (skipn n rest).
Proof.
  intros Hv. unfold raw_number.
  destruct (rloop_spec (num_body C) (fun _ r => Valid r) (fun _ r => Valid r)) with (fuel := length rest) (st := tt) (rest := rest)
    as (st' & n & Hr & Hn & HR); auto.
  - intros [] r st' n Hne HQ Hb. now apply num_body_adv with (st' := st').
  - intros [] r st' n Hne HQ Hb. unfold num_body in Hb.
    destruct ((peek r =? 101)%Z || (peek r =? 69)%Z).
    { destruct ((peek (skipn 1 r) =? 43)%Z || (peek (skipn 1 r) =? 45)%Z); discriminate. }
    destruct ((peek r =? 46)%Z || c_digit C (peek r) || c_letter C (peek r) || (peek r =? 95)%Z); [discriminate|].
    inversion Hb; subst. split; [lia|exact HQ].
  - rewrite Hr. exists n. auto.
Qed.

(* the first rune is a dot or a digit: the number is not empty *)
Lemma raw_number_progress rest n : Valid rest -> rest <> [] ->
  ((peek rest =? 46)%Z || c_digit C (peek rest) = true) ->
  raw_number C rest = Some n -> 1 <= n.
Proof.
  intros Hv Hne Hf. unfold raw_number.
  destruct (length_pos_S rest Hne) as (k & Hk). rewrite Hk.
  destruct (num_body C tt rest) as [st1 m|st1 m] eqn:Hb.
  - destruct (num_body_adv rest st1 m Hv Hne Hb) as (H1 & _).
    rewrite (rloop_first_adv _ _ _ _ _ _ Hne Hb).
    destruct (rloop (num_body C) k st1 (skipn m rest)) as [[st2 m2]|]; [|discriminate].
    intros H; inversion H; subst. lia.
  - exfalso. unfold num_body in Hb.
    destruct ((peek rest =? 101)%Z || (peek rest =? 69)%Z).
    { destruct ((peek (skipn 1 rest) =? 43)%Z || (peek (skipn 1 rest) =? 45)%Z); discriminate. }
    destruct ((peek rest =? 46)%Z) eqn:E1; cbn [orb] in *; [discriminate|].
    rewrite Hf in Hb. cbn [orb] in Hb. discriminate.
Qed.

(* identifiers: [raw] bytes of XID_Continue runes, of which the first [idl] end in a printable rune *)
Lemma raw_ident_spec rest : Valid rest ->
  exists raw idl, raw_ident C rest = Some (raw, idl) /\ idl <= raw /\ raw <= length rest
                  /\ Valid (skipn raw rest) /\ Valid (skipn idl rest).
Proof.
  intros Hv. unfold raw_ident.
  set (Q := fun (st : nat * nat) (r : list N) =>
              fst st <= length rest /\ r = skipn (fst st) rest /\ snd st <= fst st /\ Valid r /\ Valid (skipn (snd st) rest)).
  destruct (rloop_spec (id_body C) Q Q) with (fuel := length rest) (st := (0, 0)) (rest := rest)
    as (st' & n & Hr & Hn & HR); auto.
  - intros st r st' n Hne (Q1 & Q2 & Q3 & Q4 & Q5) Hb. unfold id_body in Hb.
    destruct (Valid_peek r Q4 Hne) as (ru & w & _ & Hp & Hw & H1 & H2 & H3 & _).
    destruct ((peek r =? -1)%Z || negb (c_xidc C (peek r))); [discriminate|].
    injection Hb as <- <-. rewrite Hw in *.
    assert (Hlen : length r = length rest - fst st) by (rewrite Q2, skipn_length; reflexivity).
    assert (Hsk : skipn w r = skipn (fst st + w) rest).
    { rewrite Q2. now rewrite skipn_skipn. }
    split; [exact H1|]. split; [exact H2|].
    unfold Q. cbn [fst snd].
    split; [lia|]. split; [exact Hsk|]. split; [destruct (c_print C (peek r)); lia|]. split; [exact H3|].
    destruct (c_print C (peek r)); [rewrite <- Hsk; exact H3|exact Q5].
  - intros st r st' n Hne HQ Hb. unfold id_body in Hb.
    destruct ((peek r =? -1)%Z || negb (c_xidc C (peek r))); inversion Hb; subst. split; [lia|exact HQ].
  - unfold Q. cbn. repeat split; auto; lia.
  - rewrite Hr. destruct HR as (Q1 & Q2 & Q3 & Q4 & Q5).
    assert (n = fst st').
    { assert (length (skipn n rest) = length (skipn (fst st') rest)) by now rewrite <- Q2.
      rewrite !skipn_length in H. lia. }
    subst n. exists (fst st'), (snd st'). repeat split; auto.
Qed.

Lemma raw_ident_progress rest raw idl : Valid rest -> rest <> [] -> c_xidc C (peek rest) = true ->
  raw_ident C rest = Some (raw, idl) -> 1 <= raw.
Proof.
  intros Hv Hne Hf. unfold raw_ident.
  destruct (length_pos_S rest Hne) as (k & Hk). rewrite Hk.
  destruct (Valid_peek rest Hv Hne) as (ru & w & _ & Hp & Hw & H1 & H2 & H3 & H4 & _).
  assert (Hb : id_body C (0, 0) rest =
               Adv (0 + w, if c_print C (peek rest) then 0 + w else 0) w).
  { unfold id_body. rewrite Hf, Hw. cbn [fst snd negb orb].
    destruct (Z.eqb_spec (peek rest) (-1)); [lia|reflexivity]. }
  rewrite (rloop_first_adv _ _ _ _ _ _ Hne Hb).
  destruct (rloop (id_body C) k _ (skipn w rest)) as [[st2 m]|]; [|discriminate].
  intros H; inversion H; subst. lia.
Qed.

(* ========================================================================================== *)
(* B5. strings                                                                                  *)
(* ========================================================================================== *)
Definition span_within (a b : nat) (sp : nat * nat) : Prop := a <= fst sp /\ fst sp <= snd sp /\ snd sp <= b.
Definition diag_within (a b : nat) (d : diag) : Prop := Forall (span_within a b) (d_spans d).

Lemma diag_within_mono a b a' b' d : a' <= a -> b <= b' -> diag_within a b d -> diag_within a' b' d.
Proof.
  intros H1 H2. unfold diag_within. apply Forall_impl. intros sp (X & Y & Z). unfold span_within. lia.
Qed.

Lemma take_digits_spec isd k rest : Valid rest -> (forall b, isd b = true -> (b < 128)%N) ->
  take_digits isd k rest <= length rest /\ take_digits isd k rest <= k /\ Valid (skipn (take_digits isd k rest) rest).
Proof.
  intros Hv Hisd. revert rest Hv. induction k as [|k IH]; intros rest Hv; cbn [take_digits].
  - repeat split; auto; lia.
  - destruct rest as [|b t]; [repeat split; auto; lia|].
    destruct (isd b) eqn:E; [|repeat split; auto; lia].
    assert (Hvt : Valid t).
    { apply (Valid_after_ascii (b :: t) Hv 0); [cbn; lia|cbn; auto]. }
    destruct (IH t Hvt) as (H1 & H2 & H3). cbn [length skipn]. repeat split; auto; lia.
Qed.

Lemma is_octal_ascii b : is_octal_b b = true -> (b < 128)%N.
Proof. unfold is_octal_b. rewrite in_rng_spec. lia. Qed.
Lemma is_hex_ascii b : is_hex_b b = true -> (b < 128)%N.
Proof. unfold is_hex_b. rewrite !orb_true_iff, !in_rng_spec. lia. Qed.

Lemma escape_scan_nil : escape_scan C [] = EInvalid 0.
Proof. reflexivity. Qed.

Lemma escape_scan_spec rest1 : Valid rest1 -> rest1 <> [] ->
  exists m, (escape_scan C rest1 = EOk m \/ escape_scan C rest1 = EInvalid m)
            /\ 1 <= m /\ m <= length rest1 /\ Valid (skipn m rest1).
Proof.
  intros Hv Hne.
  destruct (Valid_peek rest1 Hv Hne) as (r2 & n1 & _ & Hp & Hw & H1 & H2 & H3 & _).
  pose proof (take_digits_spec is_octal_b 2 (skipn n1 rest1) H3 is_octal_ascii) as (O1 & O2 & O3).
  assert (HX : forall k, n1 + take_digits is_hex_b k (skipn n1 rest1) <= length rest1
                         /\ Valid (skipn (n1 + take_digits is_hex_b k (skipn n1 rest1)) rest1)).
  { intros k. pose proof (take_digits_spec is_hex_b k (skipn n1 rest1) H3 is_hex_ascii) as (X1 & X2 & X3).
    rewrite skipn_length in X1. split; [lia|]. now rewrite <- skipn_skipn. }
  rewrite skipn_length in O1. rewrite skipn_skipn in O3.
  unfold escape_scan. rewrite Hw. cbv zeta.
  repeat match goal with
         | |- context [if ?c then _ else _] => destruct c
         end;
  try (exists n1; split; [first [left; reflexivity|right; reflexivity]|repeat split; auto; lia]);
  try (exists (n1 + take_digits is_octal_b 2 (skipn n1 rest1));
       split; [first [left; reflexivity|right; reflexivity]|repeat split; auto; lia]);
  match goal with
  | |- context [take_digits is_hex_b ?k _] =>
    exists (n1 + take_digits is_hex_b k (skipn n1 rest1));
    split; [first [left; reflexivity|right; reflexivity]|destruct (HX k); repeat split; auto; lia]
  end.
Qed.

Lemma content_pre_within p n0 r : Forall (diag_within p (p + n0)) (content_pre C p n0 r).
Proof.
  unfold content_pre. split_ifs; repeat constructor; unfold span_within; cbn; lia.
Qed.

Lemma invalid_escape_diag_long a text : 2 <= length text ->
  snd (invalid_escape_diag V a text) = false /\ diag_within a (a + length text) (fst (invalid_escape_diag V a text)).
Proof.
  intros H. unfold invalid_escape_diag.
  destruct (Nat.ltb_spec (length text) 2); [lia|].
  split_ifs; cbn [fst snd]; (split; [reflexivity|]); unfold diag_within; cbn [d_spans mkd];
    repeat constructor; unfold span_within; cbn; lia.
Qed.

Lemma invalid_escape_diag_short a text : length text < 2 ->
  snd (invalid_escape_diag V a text) = negb (fix_esc V)
  /\ diag_within a (a + length text) (fst (invalid_escape_diag V a text)).
Proof.
  intros H. unfold invalid_escape_diag.
  destruct (Nat.ltb_spec (length text) 2); [|lia].
  cbn [fst snd]. split; [reflexivity|]. unfold diag_within; cbn [d_spans mkd].
  repeat constructor; unfold span_within; cbn; lia.
Qed.

(* one logical rune of string content *)
Lemma string_content_spec p r : Valid r -> r <> [] ->
  forall n ds esc pn, string_content C V p r = (n, ds, esc, pn) ->
  n <= length r /\ Forall (diag_within p (p + n)) ds
  /\ (pn = false -> 1 <= n /\ Valid (skipn n r))
  /\ (pn = true -> fix_esc V = false /\ r = [92%N] /\ n = 1).
Proof.
  intros Hv Hne n ds esc pn. unfold string_content.
  destruct (Valid_peek r Hv Hne) as (r0 & n0 & _ & Hp & Hw & H1 & H2 & H3 & H4 & _).
  rewrite Hw, Hp. cbv zeta.
  pose proof (content_pre_within p n0 r0) as Hpre.
  destruct (Z.eqb_spec r0 92) as [E92|N92]; cbn [negb].
  2:{ intros H; inversion H; subst. repeat split; auto; discriminate. }
  (* a backslash: one byte *)
  assert (Hb : exists t, r = 92%N :: t /\ Valid t /\ n0 = 1).
  { destruct (peek_eq_ascii r 92 Hv ltac:(lia) ltac:(congruence)) as (t & -> & Hvt & Hpl).
    exists t. repeat split; auto; congruence. }
  destruct Hb as (t & -> & Hvt & ->). cbn [skipn].
  destruct t as [|b2 t2] eqn:Et.
  - (* the backslash is the last byte of the text *)
    rewrite escape_scan_nil. cbn [firstn plus].
    destruct (invalid_escape_diag V p [92%N]) as [d pnn] eqn:Ed.
    pose proof (invalid_escape_diag_short p [92%N] ltac:(cbn; lia)) as (S1 & S2).
    rewrite Ed in S1, S2. cbn [fst snd length] in S1, S2.
    intros H. injection H as <- <- <- <-. cbn [length]. split; [lia|]. split.
    + apply Forall_app. split; [exact Hpre|]. constructor; [exact S2|constructor].
    + rewrite S1. split.
      * intros Hf. split; [lia|]. cbn. constructor.
      * intros Hf. split; [|split; reflexivity]. now destruct (fix_esc V).
  - rewrite <- Et in *. assert (Hnt : t <> []) by (subst; discriminate).
    destruct (escape_scan_spec t Hvt Hnt) as (m & [Em|Em] & M1 & M2 & M3); rewrite Em.
    + intros H. injection H as <- <- <- <-. cbn [length]. split; [lia|]. split.
      * eapply Forall_impl; [|exact Hpre]. intros d. apply diag_within_mono; lia.
      * split; [|discriminate]. intros _. split; [lia|exact M3].
    + destruct (invalid_escape_diag V p (firstn (1 + m) (92%N :: t))) as [d pnn] eqn:Ed.
      assert (Hlen : length (firstn (1 + m) (92%N :: t)) = 1 + m).
      { rewrite firstn_length. cbn [length]. lia. }
      pose proof (invalid_escape_diag_long p (firstn (1 + m) (92%N :: t)) ltac:(lia)) as (S1 & S2).
      rewrite Ed in S1, S2. cbn [fst snd] in S1, S2. rewrite Hlen in S2.
      intros H. injection H as <- <- <- <-. cbn [length]. split; [lia|]. split.
      * apply Forall_app. split.
        -- eapply Forall_impl; [|exact Hpre]. intros d0. apply diag_within_mono; lia.
        -- constructor; [exact S2|constructor].
      * split; [|congruence]. intros _. split; [lia|exact M3].
Qed.


Lemma last_byte_suffix rest k x : skipn k rest = [x] -> last_byte rest = Some x.
Proof.
  intros H. unfold last_byte. rewrite <- (firstn_skipn k rest), H, rev_app_distr. reflexivity.
Qed.

Lemma skipn_nth_cons {A} (l : list A) n d : n < length l -> skipn n l = nth n l d :: skipn (S n) l.
Proof.
  revert l. induction n as [|n IH]; intros l H; destruct l as [|a l]; cbn in H; try lia; [reflexivity|].
  cbn [skipn nth]. apply IH. lia.
Qed.

(* lexString from [cur] on [rest] whose byte number [sigil] is a quote character *)
Lemma lex_string_spec cur rest sigil :
  Valid rest -> sigil < length rest -> Valid (skipn sigil rest) ->
  (nth sigil rest 0 = 34 \/ nth sigil rest 0 = 39)%N ->
  exists acts n pn, lex_string C V cur rest sigil = Some (acts, n, pn) /\ sigil + 1 <= n /\ n <= length rest
    /\ (pn = false -> Valid (skipn n rest) /\ exists ds meta td,
          acts = map ADiag ds ++ [APush n K_String 0 meta false td]
          /\ Forall (diag_within cur (cur + n)) ds /\ (forall sg, meta = Some sg -> sg <= n))
    /\ (pn = true -> fix_esc V = false /\ n = length rest /\ last_byte rest = Some 92%N
          /\ exists ds, acts = map ADiag ds /\ Forall (diag_within cur (cur + n)) ds).
Proof.
  intros Hv Hs Hvs Hq. unfold lex_string.
  assert (E0 : skipn sigil rest = nth sigil rest 0%N :: skipn (S sigil) rest) by (apply skipn_nth_cons; exact Hs).
  remember (nth sigil rest 0%N) as q eqn:Hq0. remember (skipn (S sigil) rest) as t0 eqn:Ht0.
  rewrite E0. change (nth 0 (q :: t0) 0%N) with q.
  assert (Hqa : (q < 128)%N) by lia.
  assert (Hr0len : length (q :: t0) = length rest - sigil) by (rewrite <- E0; now rewrite skipn_length).
  set (r0 := q :: t0) in *.
  set (quote := if Nat.leb 3 (length r0) && N.eqb (nth 1 r0 0%N) q && N.eqb (nth 2 r0 0%N) q
                then [q; q; q] else [q]).
  assert (Hquote : is_prefix quote r0 = true /\ ascii quote /\ 1 <= length quote).
  { unfold quote, r0.
    destruct (Nat.leb 3 (length (q :: t0)) && N.eqb (nth 1 (q :: t0) 0%N) q && N.eqb (nth 2 (q :: t0) 0%N) q) eqn:E3.
    - apply andb_true_iff in E3. destruct E3 as [E3 E3c]. apply andb_true_iff in E3. destruct E3 as [E3a E3b].
      destruct t0 as [|a1 [|a2 t2]]; cbn in E3a; try discriminate.
      cbn [nth] in E3b, E3c. apply N.eqb_eq in E3b. apply N.eqb_eq in E3c. subst a1 a2.
      split; [cbn; now rewrite !N.eqb_refl|]. split; [repeat constructor; auto|cbn; lia].
    - split; [cbn; now rewrite N.eqb_refl|]. split; [repeat constructor; auto|cbn; lia]. }
  destruct Hquote as (Hpre & Hasc & Hql).
  pose proof Hpre as Hpre'. apply is_prefix_spec in Hpre'. destruct Hpre' as [_ Hqle].
  set (hd := sigil + length quote).
  assert (Hhd : hd <= length rest) by (unfold hd; lia).
  assert (Hvh : Valid (skipn hd rest)).
  { unfold hd. rewrite <- skipn_skipn. rewrite E0. apply Valid_skip_prefix; auto. now rewrite <- E0. }
  set (Q := fun (st : sstate) (r : list N) =>
              r = skipn (sb_pos st - cur) rest /\ cur + hd <= sb_pos st /\ sb_pos st <= cur + length rest
              /\ Valid r /\ Forall (diag_within cur (sb_pos st)) (sb_diags st) /\ sb_panic st = false).
  set (R := fun (st : sstate) (r : list N) =>
              r = skipn (sb_pos st - cur) rest /\ cur + hd <= sb_pos st /\ sb_pos st <= cur + length rest
              /\ Forall (diag_within cur (sb_pos st)) (sb_diags st)
              /\ (sb_panic st = false -> Valid r)
              /\ (sb_panic st = true -> fix_esc V = false /\ r = [] /\ last_byte rest = Some 92%N)).
  set (st0 := {| sb_pos := cur + hd; sb_diags := []; sb_esc := false; sb_term := false; sb_panic := false |}).
  assert (Hlen_of : forall st r, r = skipn (sb_pos st - cur) rest -> cur + hd <= sb_pos st ->
                                sb_pos st <= cur + length rest -> length r = cur + length rest - sb_pos st).
  { intros st r -> A B. rewrite skipn_length. lia. }
  destruct (rloop_spec (str_body C V quote) Q R) with (fuel := length (skipn hd rest)) (st := st0) (rest := skipn hd rest)
    as (st & n & Hr & Hn & HR).
  - (* end of text *)
    intros st (Q1 & Q2 & Q3 & Q4 & Q5 & Q6). unfold R. repeat split; auto; congruence.
  - (* one more logical rune *)
    intros st r st' n Hne (Q1 & Q2 & Q3 & Q4 & Q5 & Q6) Hb. unfold str_body in Hb.
    destruct (is_prefix quote r); [discriminate|].
    destruct (string_content C V (sb_pos st) r) as [[[n' ds] esc] pn] eqn:Esc.
    destruct (string_content_spec (sb_pos st) r Q4 Hne _ _ _ _ Esc) as (S1 & S2 & S3 & S4).
    destruct pn; [discriminate|]. injection Hb as <- <-.
    destruct (S3 eq_refl) as (S5 & S6).
    pose proof (Hlen_of st r Q1 Q2 Q3) as Hl.
    split; [exact S5|]. split; [exact S1|]. unfold Q. cbn [sb_pos sb_diags sb_panic].
    split. { rewrite Q1 at 1. rewrite skipn_skipn. f_equal. lia. }
    split; [lia|]. split; [lia|]. split; [exact S6|]. split; [|reflexivity].
    apply Forall_app. split.
    + eapply Forall_impl; [|exact Q5]. intros d. apply diag_within_mono; lia.
    + eapply Forall_impl; [|exact S2]. intros d. apply diag_within_mono; lia.
  - (* leaving the loop: the closing quote, or the panic *)
    intros st r st' n Hne (Q1 & Q2 & Q3 & Q4 & Q5 & Q6) Hb. unfold str_body in Hb.
    pose proof (Hlen_of st r Q1 Q2 Q3) as Hl.
    destruct (is_prefix quote r) eqn:Epq.
    + injection Hb as <- <-. pose proof Epq as Epq'. apply is_prefix_spec in Epq'. destruct Epq' as [_ Hle].
      split; [exact Hle|]. unfold R. cbn [sb_pos sb_diags sb_panic].
      split. { rewrite Q1 at 1. rewrite skipn_skipn. f_equal. lia. }
      split; [lia|]. split; [lia|]. split.
      { eapply Forall_impl; [|exact Q5]. intros d. apply diag_within_mono; lia. }
      split; [|discriminate]. intros _. apply Valid_skip_prefix; auto.
    + destruct (string_content C V (sb_pos st) r) as [[[n' ds] esc] pn] eqn:Esc.
      destruct (string_content_spec (sb_pos st) r Q4 Hne _ _ _ _ Esc) as (S1 & S2 & S3 & S4).
      destruct pn; [|discriminate]. injection Hb as <- <-.
      destruct (S4 eq_refl) as (S5 & S6 & S7). subst n'.
      split; [exact S1|]. unfold R. cbn [sb_pos sb_diags sb_panic].
      assert (Hsk : skipn 1 r = skipn (sb_pos st + 1 - cur) rest).
      { rewrite Q1 at 1. rewrite skipn_skipn. f_equal. lia. }
      split; [exact Hsk|]. rewrite S6 in Hl. cbn [length] in Hl.
      split; [lia|]. split; [lia|]. split.
      { apply Forall_app. split.
        - eapply Forall_impl; [|exact Q5]. intros d. apply diag_within_mono; lia.
        - eapply Forall_impl; [|exact S2]. intros d. apply diag_within_mono; lia. }
      split; [discriminate|]. intros _. split; [exact S5|]. split; [now rewrite S6|].
      apply (last_byte_suffix rest (sb_pos st - cur)). now rewrite <- Q1.
  - lia.
  - unfold Q, st0. cbn [sb_pos sb_diags sb_panic]. split; [f_equal; lia|].
    split; [lia|]. split; [lia|]. split; [exact Hvh|]. split; [constructor|reflexivity].
  - rewrite Hr. destruct HR as (R1 & R2 & R3 & R4 & R5 & R6).
    rewrite skipn_length in Hn.
    assert (Hpos : sb_pos st = cur + hd + n).
    { assert (Hl : length (skipn n (skipn hd rest)) = length (skipn (sb_pos st - cur) rest)) by now rewrite <- R1.
      rewrite !skipn_length in Hl. lia. }
    assert (Hsk : skipn n (skipn hd rest) = skipn (hd + n) rest) by apply skipn_skipn.
    destruct (sb_panic st) eqn:Epn.
    + destruct (R6 eq_refl) as (P1 & P2 & P3).
      exists (map ADiag (sb_diags st)), (hd + n), true.
      assert (Hall : hd + n = length rest).
      { rewrite Hsk in P2. apply (f_equal (@length N)) in P2. rewrite skipn_length in P2. cbn in P2. lia. }
      split; [reflexivity|]. split; [unfold hd; lia|]. split; [lia|]. split; [discriminate|].
      intros _. split; [exact P1|]. split; [exact Hall|]. split; [exact P3|].
      exists (sb_diags st). split; [reflexivity|]. rewrite Hpos in R4.
      eapply Forall_impl; [|exact R4]. intros d. apply diag_within_mono; lia.
    + eexists. exists (hd + n), false.
      split; [reflexivity|]. split; [unfold hd; lia|]. split; [lia|]. split; [|discriminate].
      intros _. split; [rewrite <- Hsk; auto|].
      do 3 eexists. split; [reflexivity|]. split.
      * rewrite Hpos in R4. eapply Forall_impl; [|exact R4]. intros d. apply diag_within_mono; lia.
      * intros sg. split_ifs; intros Hm; inversion Hm; subst; unfold hd; lia.
Qed.

End Scan.
