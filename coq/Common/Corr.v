(* Helpers for the correspondence check: the harness writes the observations it made on the
   implementation into a cases file; the model is evaluated on the same inputs inside Coq and
   the indices of disagreeing cases are printed. *)
From Coq Require Import List NArith Bool.
Import ListNotations.

Fixpoint mismatches_from {A} (chk : A -> bool) (i : nat) (cases : list A) : list nat :=
  match cases with
  | [] => []
  | c :: r => if chk c then mismatches_from chk (S i) r else i :: mismatches_from chk (S i) r
  end.
Definition mismatches {A} (chk : A -> bool) (cases : list A) : list nat := mismatches_from chk 0 cases.

Definition list_N_eqb (a b : list N) : bool := if list_eq_dec N.eq_dec a b then true else false.
Definition opt_list_N_eqb (a b : option (list N)) : bool :=
  match a, b with
  | Some x, Some y => list_N_eqb x y
  | None, None => true
  | _, _ => false
  end.
