(* Shared conventions: a byte string is a [list N] whose elements are below 256. *)
From Coq Require Import List NArith Bool Lia.
Import ListNotations.
Open Scope N_scope.

Definition byte_ok (c : N) : bool := c <? 256.
Definition bytes_ok (s : list N) : bool := forallb byte_ok s.
Definition Bytes (s : list N) : Prop := Forall (fun c => c < 256) s.

(* all 256 byte values, used for finite sweeps whose bound (256) is part of the statement *)
Definition all_bytes : list N := map N.of_nat (seq 0 256).

Lemma in_all_bytes c : c < 256 -> In c all_bytes.
Proof.
  intros H. unfold all_bytes. apply in_map_iff. exists (N.to_nat c). split.
  - apply N2Nat.id.
  - apply in_seq. lia.
Qed.

Lemma sweep_bytes (P : N -> bool) :
  forallb P all_bytes = true -> forall c, c < 256 -> P c = true.
Proof.
  intros H c Hc. rewrite forallb_forall in H. apply H. now apply in_all_bytes.
Qed.

Lemma Bytes_bytes_ok s : Bytes s <-> bytes_ok s = true.
Proof.
  unfold Bytes, bytes_ok, byte_ok. rewrite forallb_forall, Forall_forall.
  split; intros H x Hx; specialize (H x Hx); [apply N.ltb_lt|apply N.ltb_lt in H]; assumption.
Qed.

(* UTF-8 encoding of a code point as Go's utf8.EncodeRune / AppendRune does it:
   surrogates and values above 0x10FFFF become U+FFFD. *)
Definition encode_rune (r : N) : list N :=
  if r <? 128 then [r]
  else if r <? 2048 then [192 + r / 64; 128 + r mod 64]
  else if ((55296 <=? r) && (r <=? 57343)) || (1114111 <? r) then [239; 191; 189]
  else if r <? 65536 then [224 + r / 4096; 128 + (r / 64) mod 64; 128 + r mod 64]
  else [240 + r / 262144; 128 + (r / 4096) mod 64; 128 + (r / 64) mod 64; 128 + r mod 64].
