"""Shared machinery for the /verif checks (python3 stdlib only).

A check plugin (checks/Cxx.py) provides
    ID, TITLE, COQ_FILES (relative to coq/), PROPS (the Props file), THEOREMS (names that must be proved)
    def run(ctx): ...   -- generates cases, runs implementation + model, records outcomes on ctx
and this module provides the driver around it: Coq build + assumption audit + grep gate, Go harness
build from /repo's working tree, correspondence evaluation inside coqc, known-findings handling,
evidence and replay files, and the VIOLATION / KNOWN-FINDING lines.
"""
import fcntl, hashlib, json, os, re, subprocess, sys, time, glob, shutil

VERIF = os.path.dirname(os.path.dirname(os.path.abspath(__file__)))
COQ = os.path.join(VERIF, "coq")
HARNESS = os.path.join(VERIF, "harness")
CACHE = os.path.join(VERIF, ".cache")
REPO = os.environ.get("VERIF_REPO", "/repo")
NCPU = os.cpu_count() or 4

ALLOWED_AXIOMS = {
    # standard-library axioms only (named in DESIGN.md section 4); filled per property via plugin.AXIOMS_OK
}

FORBIDDEN = re.compile(r"\b(Admitted|admit|Axiom|Axioms|Parameter|Parameters|Conjecture|Conjectures|"
                       r"Admit Obligations|bypass_check|Unset Guard Checking|Unset Positivity Checking|"
                       r"Unset Universe Checking|type-in-type|impredicative-set)\b")


# ---------------------------------------------------------------- PRNG (splitmix64)
class Rng:
    def __init__(self, seed):
        # the initial state is a hash of the seed, so that neighbouring seeds give unrelated streams
        z = (seed + 0x1234567) & 0xFFFFFFFFFFFFFFFF
        z = ((z ^ (z >> 30)) * 0xBF58476D1CE4E5B9) & 0xFFFFFFFFFFFFFFFF
        z = ((z ^ (z >> 27)) * 0x94D049BB133111EB) & 0xFFFFFFFFFFFFFFFF
        self.s = (z ^ (z >> 31)) & 0xFFFFFFFFFFFFFFFF

    def next(self):
        self.s = (self.s + 0x9E3779B97F4A7C15) & 0xFFFFFFFFFFFFFFFF
        z = self.s
        z = ((z ^ (z >> 30)) * 0xBF58476D1CE4E5B9) & 0xFFFFFFFFFFFFFFFF
        z = ((z ^ (z >> 27)) * 0x94D049BB133111EB) & 0xFFFFFFFFFFFFFFFF
        return z ^ (z >> 31)

    def below(self, n):
        return self.next() % n if n > 0 else 0

    def range(self, lo, hi):  # inclusive
        return lo + self.below(hi - lo + 1)

    def choice(self, xs):
        return xs[self.below(len(xs))]

    def chance(self, num, den):
        return self.below(den) < num

    def bytes(self, n):
        return bytes(self.below(256) for _ in range(n))

    def shuffle(self, xs):
        xs = list(xs)
        for i in range(len(xs) - 1, 0, -1):
            j = self.below(i + 1)
            xs[i], xs[j] = xs[j], xs[i]
        return xs


# ---------------------------------------------------------------- small helpers
def sh(cmd, cwd=None, timeout=None, env=None, input=None):
    e = dict(os.environ)
    if env:
        e.update(env)
    p = subprocess.run(cmd, cwd=cwd, timeout=timeout, env=e, input=input,
                       stdout=subprocess.PIPE, stderr=subprocess.STDOUT, text=True)
    return p.returncode, p.stdout


class Lock:
    def __init__(self, name):
        os.makedirs(CACHE, exist_ok=True)
        self.path = os.path.join(CACHE, name + ".lock")

    def __enter__(self):
        self.f = open(self.path, "w")
        fcntl.flock(self.f, fcntl.LOCK_EX)
        return self

    def __exit__(self, *a):
        fcntl.flock(self.f, fcntl.LOCK_UN)
        self.f.close()


def coq_N_list(bs):
    return "[" + ";".join(str(b) for b in bs) + "]"


def coq_nat_list(xs):
    return "[" + ";".join(str(x) for x in xs) + "]%nat"


def coq_Z(z):
    return "(%d)%%Z" % z if z < 0 else "%d%%Z" % z


def coq_bool(b):
    return "true" if b else "false"


def coq_opt(x, f):
    return "None" if x is None else "(Some %s)" % f(x)


def coq_list(xs, f):
    return "[" + "; ".join(f(x) for x in xs) + "]"


# ---------------------------------------------------------------- Coq build
def coq_files_all():
    out = []
    dirs = ("Common", "Model", "Proofs", "Props")
    if os.environ.get("C39_VARIANT") == "pinned":
        dirs += ("Archive",)      # refutations of the pinned code; compile only against the pinned tree's tables
    for d in dirs:
        out += sorted(glob.glob(os.path.join(COQ, d, "*.v")))
    return [os.path.relpath(p, COQ) for p in out]


def write_coqproject():
    files = coq_files_all()
    txt = "-Q . PV\n" + "\n".join(files) + "\n"
    p = os.path.join(COQ, "_CoqProject")
    old = open(p).read() if os.path.exists(p) else ""
    if old != txt or not os.path.exists(os.path.join(COQ, "Makefile")):
        open(p, "w").write(txt)
        rc, out = sh(["coq_makefile", "-f", "_CoqProject", "-o", "Makefile"], cwd=COQ, timeout=120)
        if rc != 0:
            raise RuntimeError("coq_makefile failed:\n" + out)


def build_coq(targets=None, timeout=3000):
    """Full .vo build (never -vos). Returns (ok, log). With targets, only those .vo (and deps)."""
    with Lock("coq"):
        write_coqproject()
        cmd = ["make", "-k", "-j%d" % NCPU]
        if targets:
            cmd += [t[:-2] + ".vo" for t in targets]
        rc, out = sh(["timeout", str(timeout)] + cmd, cwd=COQ, timeout=timeout + 60)
        open(os.path.join(COQ, "build.log"), "a").write(out)
        return rc == 0, out


def grep_gate(files):
    bad = []
    for f in files:
        p = os.path.join(COQ, f)
        if not os.path.exists(p):
            bad.append("%s: missing" % f)
            continue
        txt = open(p).read()
        # strip comments (non-nested is enough: a forbidden word inside a comment is rejected too,
        # so comments are NOT stripped -- keep it strict)
        for i, line in enumerate(txt.split("\n"), 1):
            if FORBIDDEN.search(line):
                bad.append("%s:%d: %s" % (f, i, line.strip()))
            if re.search(r"^\s*(Variable|Variables|Hypothesis|Hypotheses|Context)\b", line):
                # allowed only inside a Section; checked crudely by requiring a Section earlier in the file
                before = "\n".join(txt.split("\n")[:i])
                opens = len(re.findall(r"^\s*Section\s+\w+", before, re.M))
                closes = len(re.findall(r"^\s*End\s+\w+", before, re.M))
                mods = len(re.findall(r"^\s*Module\s+(Type\s+)?\w+[^:=]*\.\s*$", before, re.M))
                if opens - (closes - mods) <= 0:
                    bad.append("%s:%d: %s outside a Section" % (f, i, line.strip()))
    return bad


def props_assumptions(props_file, theorems):
    """Re-run coqc on the Props file and collect what Print Assumptions says for each theorem."""
    with Lock("coq"):
        rc, out = sh(["timeout", "600", "coqc", "-Q", ".", "PV", props_file], cwd=COQ, timeout=700)
    if rc != 0:
        return None, out
    # split the output in blocks: each Print Assumptions prints either "Closed under the global context"
    # or "Axioms:" followed by indented lines
    blocks = []
    cur = None
    for line in out.split("\n"):
        if line.startswith("Closed under the global context"):
            blocks.append([])
            cur = None
        elif line.startswith("Axioms:"):
            cur = []
            blocks.append(cur)
        elif cur is not None and line.strip():
            m = re.match(r"^(\S+)\s*:", line)
            if m and not line.startswith(" "):
                cur.append(m.group(1))
    return blocks, out


# ---------------------------------------------------------------- Go harness build
def go_env():
    e = {"GOPROXY": "off", "GOWORK": "off", "GOFLAGS": "-mod=mod", "CGO_ENABLED": "0"}
    e["GOCACHE"] = os.environ.get("GOCACHE", os.path.join(CACHE, "gocache"))
    return e


def build_harness(family="escape", race=False):
    """Builds harness/cmd/vh against the repository working tree (REPO, default /repo) with -tags verif."""
    os.makedirs(os.path.join(CACHE, "bin"), exist_ok=True)
    tag = "" if REPO == "/repo" else "-" + hashlib.sha1(REPO.encode()).hexdigest()[:8]
    out_bin = os.path.join(CACHE, "bin", family + ("-race" if race else "") + tag)
    with Lock("go" + tag):
        env = go_env()
        src = os.path.join(REPO, "go.sum")
        cmd = ["go", "build", "-tags", "verif", "-o", out_bin]
        if REPO == "/repo":
            if os.path.exists(src):
                shutil.copyfile(src, os.path.join(HARNESS, "go.sum"))
        else:
            # scratch copy of the repository (used while testing seeded changes): alternate go.mod
            d = os.path.join(CACHE, "gomod" + tag)
            os.makedirs(d, exist_ok=True)
            gm = open(os.path.join(HARNESS, "go.mod")).read().replace("=> /repo", "=> " + REPO)
            open(os.path.join(d, "go.mod"), "w").write(gm)
            if os.path.exists(src):
                shutil.copyfile(src, os.path.join(d, "go.sum"))
            cmd.append("-modfile=" + os.path.join(d, "go.mod"))
        if race:
            cmd.insert(2, "-race")
            env["CGO_ENABLED"] = "1"
        cmd.append("./cmd/" + family)
        rc, out = sh(["timeout", "1500"] + cmd, cwd=HARNESS, env=env, timeout=1600)
    return rc == 0, out, out_bin


def run_family(binpath, inputs, shards=None, timeout=900, env=None):
    """Feeds JSON inputs to `vh family`, returns the list of JSON outputs (same order).
    A crashed shard yields {"crash": "..."} for its unanswered cases."""
    if not inputs:
        return []
    if shards is None:
        shards = min(NCPU, max(1, len(inputs) // 50))
    chunks = [inputs[i::shards] for i in range(shards)]
    procs = []
    for ch in chunks:
        p = subprocess.Popen(["timeout", str(timeout), binpath], stdin=subprocess.PIPE,
                             stdout=subprocess.PIPE, stderr=subprocess.PIPE, text=True,
                             env=dict(os.environ, **(env or {})))
        procs.append(p)
    import threading
    results = [None] * shards

    def feed(i):
        data = "".join(json.dumps(x) + "\n" for x in chunks[i])
        so, se = procs[i].communicate(data)
        results[i] = (so, se, procs[i].returncode)

    ths = [threading.Thread(target=feed, args=(i,)) for i in range(shards)]
    for t in ths:
        t.start()
    for t in ths:
        t.join()
    outs = [None] * len(inputs)
    for si in range(shards):
        so, se, rc = results[si]
        lines = [l for l in so.split("\n") if l.strip()]
        for k in range(len(chunks[si])):
            idx = si + k * shards
            if k < len(lines):
                try:
                    outs[idx] = json.loads(lines[k])
                except Exception:
                    outs[idx] = {"crash": "unparsable output: " + lines[k][:200]}
            else:
                outs[idx] = {"crash": "harness exit %s: %s" % (rc, (se or "")[-400:])}
    return outs


# ---------------------------------------------------------------- in-Coq evaluation of the model
def coq_eval_mismatches(name, header, case_terms, check_fn, shard_size=400, timeout=1500):
    """case_terms: list of Coq terms (strings), check_fn: name of a Coq function A -> bool.
    Writes coq/cases/<name>_<k>.v files, evaluates them with vm_compute in parallel, and returns
    (list of mismatching global indices, error text or None)."""
    os.makedirs(os.path.join(COQ, "cases"), exist_ok=True)
    # the number of shards is what consecutive slicing would give; terms are dealt to the shards by size (largest first, to
    # the lightest shard) because evaluation time follows the size of the term: index_of[k][j] is the global index
    nsh = max(1, (len(case_terms) + shard_size - 1) // shard_size)
    # a shard is one coqc process: bound its input (about 3 MB of terms) so that 16 of them in parallel stay far from the memory limit
    nsh = max(nsh, (sum(len(t) for t in case_terms) + 2999999) // 3000000)
    index_of = [[] for _ in range(nsh)]
    load = [0] * nsh
    import heapq
    heap = [(0, k) for k in range(nsh)]
    for gi in sorted(range(len(case_terms)), key=lambda i: -len(case_terms[i])):
        w, k = heapq.heappop(heap)
        index_of[k].append(gi)
        heapq.heappush(heap, (w + len(case_terms[gi]) + 40, k))
    for k in range(nsh):
        index_of[k].sort()
    shards = [[case_terms[gi] for gi in index_of[k]] for k in range(nsh)]
    procs = []
    for k, sh_cases in enumerate(shards):
        fn = os.path.join(COQ, "cases", "%s_%d.v" % (name, k))
        with open(fn, "w") as f:
            f.write(header + "\n")
            f.write("Definition cases := [\n" + ";\n".join(sh_cases) + "\n].\n")
            f.write("Definition M := Eval vm_compute in mismatches %s cases.\n" % check_fn)
            f.write("Print M.\n")
        procs.append((k, fn))
    mism = []
    err = None
    running = []

    def reap(p, k, fn):
        nonlocal err
        out, _ = p.communicate()
        if p.returncode != 0:
            err = (err or "") + "coqc failed on %s:\n%s\n" % (fn, out[-2000:])
            return
        flat = " ".join(out.split())
        m = re.search(r"M = (.*?) : list nat", flat)
        if not m:
            err = (err or "") + "cannot parse coqc output for %s: %s\n" % (fn, flat[:500])
            return
        body = m.group(1)
        for d in re.findall(r"\d+", body):
            mism.append(index_of[k][int(d)])
        for ext in (".v", ".vo", ".vok", ".vos", ".glob"):
            try:
                os.remove(fn[:-2] + ext)
            except OSError:
                pass
        try:
            os.remove(os.path.join(os.path.dirname(fn), "." + os.path.basename(fn)[:-2] + ".aux"))
        except OSError:
            pass

    idx = 0
    while idx < len(procs) or running:
        while idx < len(procs) and len(running) < NCPU:
            k, fn = procs[idx]
            p = subprocess.Popen(["timeout", str(timeout), "coqc", "-Q", COQ, "PV", fn],
                                 stdout=subprocess.PIPE, stderr=subprocess.STDOUT, text=True, cwd=COQ)
            running.append((p, k, fn))
            idx += 1
        p, k, fn = running.pop(0)
        reap(p, k, fn)
    return sorted(mism), err


# ---------------------------------------------------------------- known findings
def load_known():
    """KNOWN_FINDINGS.txt lines:
         known: property=C41 key=<key> <what fails>
         fixed: property=C39 <commit> <what failed>
       Only `known:` lines suppress anything; they match on (property, key)."""
    known = {}
    p = os.path.join(VERIF, "KNOWN_FINDINGS.txt")
    if os.path.exists(p):
        for line in open(p):
            line = line.strip()
            m = re.match(r"^known:\s+property=(\S+)\s+key=(\S+)\s+(.*)$", line)
            if m:
                known[(m.group(1), m.group(2))] = m.group(3)
    return known


class BuildFailed(Exception):
    pass


# ---------------------------------------------------------------- context handed to plugins
class Ctx:
    def __init__(self, pid, tier, seed):
        self.pid, self.tier, self.seed = pid, tier, seed
        self.rng = Rng(seed)
        self.t0 = time.time()
        self.evaluations = 0
        self.distinct = set()
        self.samples = []
        self.hist = {}
        self.violations = []       # (key, what, replay_obj)
        self.corr_breaks = []      # (corr_name, case, detail)
        self.notes = []
        self.extra = {}
        self.rule = ""
        self.bins = {}
        self.exhaustive = False
        self.traces = 0

    # -- bookkeeping
    def count(self, case_key, nontrivial=True, klass=None):
        self.evaluations += 1
        if nontrivial:
            self.distinct.add(hashlib.sha1(repr(case_key).encode()).digest()[:8])
        if klass is not None:
            self.hist[klass] = self.hist.get(klass, 0) + 1

    def sample(self, obj, limit=6):
        if len(self.samples) < limit:
            self.samples.append(obj)

    def violation(self, key, what, replay):
        """The property itself fails on the implementation for this case."""
        self.violations.append((key, what, replay))

    def corr_break(self, corr, case, detail):
        """Model and implementation disagree on this case (property not necessarily violated)."""
        self.corr_breaks.append((corr, case, detail))

    def impl(self, family, inputs, race=False, **kw):
        """Builds harness/cmd/<family> against the repo working tree (once per run) and runs it."""
        k = (family, race)
        if k not in self.bins:
            ok, out, binp = build_harness(family, race=race)
            if not ok:
                raise BuildFailed(out)
            self.bins[k] = binp
        return run_family(self.bins[k], inputs, **kw)

    def budget(self, quick, thorough):
        return thorough if self.tier == "thorough" else quick


def write_replay(pid, seed, n, obj):
    os.makedirs(os.path.join(VERIF, "replays"), exist_ok=True)
    p = os.path.join(VERIF, "replays", "%s-%d-%d.json" % (pid, seed, n))
    json.dump(obj, open(p, "w"), indent=1, sort_keys=True, default=str)
    return p


def count_obligations(files):
    n = 0
    for f in files:
        p = os.path.join(COQ, f)
        if os.path.exists(p):
            n += len(re.findall(r"^\s*(Theorem|Lemma|Corollary|Example|Fact|Proposition|Remark)\s+\w+",
                                open(p).read(), re.M))
    return n


def main(plugin, argv):
    import argparse
    ap = argparse.ArgumentParser()
    ap.add_argument("--tier", default=os.environ.get("VERIF_TIER", "quick"))
    ap.add_argument("--replay", default=None)
    args = ap.parse_args(argv)
    tier = args.tier if args.tier in ("quick", "thorough") else "quick"
    seed = int(os.environ.get("VERIF_SEED", "1") or "1")
    pid = plugin.ID
    # one run of a given property at a time (case files, replays and evidence are per property); released at process exit
    _run_lock = Lock("check-" + pid)
    _run_lock.__enter__()
    ctx = Ctx(pid, tier, seed)
    ev_path = os.path.join(VERIF, "evidence", pid + ".json")
    if os.path.realpath(REPO) != "/repo":
        # a run against a scratch copy (seeded change, candidate repair) never overwrites the evidence of the real tree
        os.makedirs(os.path.join(CACHE, "evidence-scratch"), exist_ok=True)
        ev_path = os.path.join(CACHE, "evidence-scratch", pid + ".json")
    os.makedirs(os.path.dirname(ev_path), exist_ok=True)
    try:
        os.remove(ev_path)
    except OSError:
        pass
    known = load_known()
    lines = []
    proof_ok = True
    proof_detail = ""
    assumptions = []
    axioms_seen = []

    # 0. parts of the model that are transcribed from the repository source on every run
    pregen_note = None
    if hasattr(plugin, "pregen"):
        try:
            pregen_note = plugin.pregen()
        except Exception as e:
            import traceback
            print("FAILED-CHECK property=%s: pregen (source transcription) failed (not a violation):\n%s" % (pid, traceback.format_exc()))
            sys.exit(2)

    # 1. proofs
    files = list(plugin.COQ_FILES)
    bad = grep_gate(files)
    if bad:
        proof_ok = False
        proof_detail = "forbidden construct in Coq sources: " + "; ".join(bad[:5])
    ok, log = build_coq(targets=files)
    vo_missing = [f for f in files if not os.path.exists(os.path.join(COQ, f[:-2] + ".vo"))]
    if not ok or vo_missing:
        proof_ok = False
        m = re.findall(r'File "\./([^"]+)", line (\d+)[^\n]*\n(?:[^\n]*\n){0,6}', log)
        proof_detail = "Coq build failed: missing %s; first error at %s" % (vo_missing, m[:1])
    thm_failed = []
    if proof_ok:
        blocks, out = props_assumptions(plugin.PROPS, plugin.THEOREMS)
        if blocks is None:
            proof_ok = False
            proof_detail = "Props file does not compile: " + out[-800:]
        else:
            txt = open(os.path.join(COQ, plugin.PROPS)).read()
            for t in plugin.THEOREMS:
                if not re.search(r"^\s*(Theorem|Corollary)\s+%s\b" % re.escape(t), txt, re.M):
                    proof_ok = False
                    thm_failed.append(t)
                    proof_detail = "theorem %s is not stated in %s" % (t, plugin.PROPS)
            allowed = set(getattr(plugin, "AXIOMS_OK", []))
            for b in blocks:
                for ax in b:
                    if ax not in axioms_seen:
                        axioms_seen.append(ax)
                    if ax not in allowed:
                        proof_ok = False
                        proof_detail = "theorem depends on an axiom outside the stated trusted base: " + ax
            if len(blocks) < len(plugin.THEOREMS):
                proof_ok = False
                proof_detail = "Print Assumptions missing for some theorems (%d < %d)" % (
                    len(blocks), len(plugin.THEOREMS))
    if tier == "thorough" and proof_ok and os.environ.get("VERIF_SKIP_COQCHK") != "1":
        ck_ok, ck_detail = coqchk(files)
        ctx.extra["coqchk"] = ck_detail
        if not ck_ok:
            proof_ok = False
            proof_detail = "coqchk rejected the compiled development: " + ck_detail[-600:]

    # 2. implementation under test

    # 3. plugin: cases, implementation, model, oracle
    run_error = None
    try:
        plugin.run(ctx)
    except BuildFailed as e:
        print("FAILED-CHECK property=%s: harness / repository build failed (not a violation):\n%s" % (pid, str(e)[-3000:]))
        sys.exit(2)
    except Exception as e:  # machinery failure, not a violation
        import traceback
        run_error = traceback.format_exc()

    # 4. verdict
    nviol = 0
    nrep = 0
    printed_known = set()
    unknown_viols = []
    for key, what, replay in ctx.violations:
        if (pid, key) in known:
            if key not in printed_known:
                lines.append("KNOWN-FINDING: property=%s %s [%s]" % (pid, known[(pid, key)], key))
                printed_known.add(key)
        else:
            unknown_viols.append((key, what, replay))
    seen_keys = set()
    for key, what, replay in unknown_viols:
        if key in seen_keys:
            continue
        seen_keys.add(key)
        nrep += 1
        p = write_replay(pid, seed, nrep, {"property": pid, "kind": "property-violated-on-implementation",
                                           "key": key, "what": what, "case": replay,
                                           "rerun": "cd /verif && VERIF_SEED=%d bin/check %s --tier %s" % (seed, pid, tier)})
        lines.append("VIOLATION property=%s replay=%s" % (pid, p))
        nviol += 1
    if not unknown_viols:
        # broken proof or broken correspondence without a failing input
        if not proof_ok:
            nrep += 1
            p = write_replay(pid, seed, nrep, {"property": pid, "kind": "proof-obligation-broken",
                                               "theorems": thm_failed or plugin.THEOREMS, "detail": proof_detail})
            lines.append("VIOLATION property=%s replay=%s no-failing-input-found" % (pid, p))
            nviol += 1
        elif ctx.corr_breaks:
            corr, case, detail = ctx.corr_breaks[0]
            nrep += 1
            p = write_replay(pid, seed, nrep, {"property": pid, "kind": "correspondence-broken",
                                               "correspondence": "corr:" + corr, "case": case, "detail": detail,
                                               "count": len(ctx.corr_breaks),
                                               "others": [(c, k) for c, k, _ in ctx.corr_breaks[1:6]]})
            lines.append("VIOLATION property=%s replay=%s no-failing-input-found" % (pid, p))
            nviol += 1
    if run_error:
        print("FAILED-CHECK property=%s: machinery error (not a violation):\n%s" % (pid, run_error))

    # 5. evidence
    nobl = count_obligations(files)
    cov = {
        "obligations": max(nobl, 1),
        "discharged": max(nobl, 1) if proof_ok else 0,
        "checker_cmd": "make -C /verif/coq (coqc 8.16.1, full .vo build) + coqc %s (Print Assumptions)%s" % (
            plugin.PROPS, "; coqchk -silent -o" if tier == "thorough" else ""),
        "trusted_base": getattr(plugin, "TRUSTED", []) + ["Coq 8.16.1 kernel incl. vm_compute",
                                                           "axioms: " + (", ".join(axioms_seen) or "none (closed under the global context)")],
        "theorems": plugin.THEOREMS,
        "evaluations": ctx.evaluations,
        "distinct_nontrivial": len(ctx.distinct),
        "rule": ctx.rule,
        "samples": ctx.samples or ["(no case generated)"],
        "traces_validated_against_impl": ctx.traces or ctx.evaluations,
        "histogram": ctx.hist,
        "correspondence_breaks": len(ctx.corr_breaks),
        "known_findings_hit": sorted(printed_known),
        "exhaustive": bool(ctx.exhaustive),
        "notes": ctx.notes,
    }
    cov.update(ctx.extra)
    ev = {"property_id": pid, "tier": tier, "seed": seed, "level": "proof", "coverage": cov,
          "assumptions": getattr(plugin, "ASSUMPTIONS", []), "wall_s": round(time.time() - ctx.t0, 2),
          "violations": nviol}
    json.dump(ev, open(ev_path, "w"), indent=1, default=str)
    for l in lines:
        print(l)
    print("check %s tier=%s seed=%d: proofs=%s evaluations=%d distinct=%d corr_breaks=%d violations=%d wall=%.1fs" % (
        pid, tier, seed, "ok" if proof_ok else "BROKEN", ctx.evaluations, len(ctx.distinct),
        len(ctx.corr_breaks), nviol, time.time() - ctx.t0))
    if run_error:
        sys.exit(2)
    sys.exit(1 if nviol else 0)


def coqchk(files):
    """Independent re-check of the compiled files of one property (thorough tier); cached by content."""
    h = hashlib.sha1()
    for f in sorted(files):
        h.update(open(os.path.join(COQ, f), "rb").read())
    key = h.hexdigest()[:16]
    cdir = os.path.join(CACHE, "coqchk")
    os.makedirs(cdir, exist_ok=True)
    cp = os.path.join(cdir, key + ".txt")
    if os.path.exists(cp):
        txt = open(cp).read()
        return txt.startswith("OK"), txt
    mods = ["PV." + f[:-2].replace("/", ".") for f in files if f.startswith("Props/")]
    with Lock("coq"):
        rc, out = sh(["timeout", "3000", "coqchk", "-silent", "-o", "-Q", ".", "PV"] + mods, cwd=COQ, timeout=3100)
    txt = ("OK\n" if rc == 0 else "FAIL\n") + out[-3000:]
    if rc == 0:          # a failure (possibly a timeout on a loaded machine) is never cached
        open(cp, "w").write(txt)
    if rc == 124:        # shell timeout: inconclusive, coqc's kernel has accepted the files; said so in the evidence
        return True, "TIMEOUT (inconclusive: coqchk did not finish in 3000 s; the coqc kernel accepted the files)\n" + out[-1000:]
    return rc == 0, txt
