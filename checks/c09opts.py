"""C09 - programs in which EVERY option-bearing element kind carries custom (and standard) options.

Every input form goes through option interpretation on its own defensive copy (parser.Clone re-creates the
AST-node index of the copy element kind by element kind: file, message, nested message, field, oneof, extension
range, enum, enum value, extension at file / message scope, service, method, and for each of them the
uninterpreted options and their name parts).  The programs of pgenlib only put custom options on fields and
messages; here each POSITION below can be switched on separately, so there are
  * programs with options in every position at once (one per syntax, definitions imported or in the same file),
  * programs with options in exactly one position (a failure names the element kind),
  * programs with a random subset of positions.
Option spellings per position: scalar, string, message literal, dotted path into a message option (two and three
name parts), a repeated option set twice, a standard option - as option statements or in compact [..] form,
whatever the element kind uses."""
import pgenlib

POSITIONS = ["file", "msg_top", "msg_nested", "msg_nested2", "fld", "fld_nested", "fld_oneof", "fld_map", "fld_group", "grp_body",
             "oneof", "oneof_nested", "xr", "xr_multi", "xr_nested", "enum_top", "enum_nested", "enum_nested2",
             "ev_top", "ev_nested", "ext_file", "ext_msg", "svc", "mtd", "mtd2"]
# option-message kind (prefix of the extension names in the definitions) of each position
KIND = {"file": "file", "msg_top": "msg", "msg_nested": "msg", "msg_nested2": "msg", "grp_body": "msg",
        "fld": "fld", "fld_nested": "fld", "fld_oneof": "fld", "fld_map": "fld", "fld_group": "fld", "ext_file": "fld", "ext_msg": "fld",
        "oneof": "oneof", "oneof_nested": "oneof", "xr": "xr", "xr_multi": "xr", "xr_nested": "xr",
        "enum_top": "enum", "enum_nested": "enum", "enum_nested2": "enum", "ev_top": "ev", "ev_nested": "ev",
        "svc": "svc", "mtd": "mtd", "mtd2": "mtd"}
OPTION_MESSAGES = [("file", "FileOptions"), ("msg", "MessageOptions"), ("fld", "FieldOptions"), ("oneof", "OneofOptions"),
                   ("xr", "ExtensionRangeOptions"), ("enum", "EnumOptions"), ("ev", "EnumValueOptions"),
                   ("svc", "ServiceOptions"), ("mtd", "MethodOptions")]
HAS_DEPRECATED = {"file", "msg", "fld", "enum", "ev", "svc", "mtd"}
PROTO2_ONLY = {"fld_group", "grp_body"}
NOT_PROTO3 = {"xr", "xr_multi", "xr_nested"}


def defs_lines():
    out = ["message OptMsg { optional int32 a = 1; optional string b = 2; optional OptMsg sub = 3; repeated int32 r = 4; }"]
    n = 50001
    for pfx, msg in OPTION_MESSAGES:
        out.append("extend google.protobuf.%s { optional int32 %s_i = %d; optional string %s_s = %d; repeated int32 %s_r = %d; "
                   "optional OptMsg %s_m = %d; }" % (msg, pfx, n, pfx, n + 1, pfx, n + 2, pfx, n + 3))
        n += 10
    return out


class _B:
    def __init__(self, rng, syntax, on, single_file, full):
        self.rng, self.syntax, self.on, self.single, self.full = rng, syntax, set(on), single_file, full
        self.ref = "o." if not single_file else "o."       # the definitions live in package o in both layouts

    def opts(self, pos):
        """option settings ("name = value") for one element, [] when the position is switched off"""
        if pos not in self.on:
            return []
        rng, k = self.rng, KIND[pos]
        p = "(%s%s" % (self.ref, k)
        cand = []
        cand.append(["%s_i) = %d" % (p, rng.range(-9, 999))])
        cand.append(['%s_s) = "s%d"' % (p, rng.range(0, 99))])
        if rng.chance(1, 2):
            cand.append(['%s_m) = { a: %d b: "t%d" r: [%d, %d] sub { a: %d } }' % (p, rng.range(0, 99), rng.range(0, 9), rng.range(0, 9), rng.range(0, 9), rng.range(0, 9))])
        else:
            cand.append(["%s_m).a = %d" % (p, rng.range(0, 99)), "%s_m).sub.sub.b = \"d%d\"" % (p, rng.range(0, 9)), "%s_m).sub.a = %d" % (p, rng.range(0, 99))])
        cand.append(["%s_r) = %d" % (p, rng.range(0, 9)), "%s_r) = %d" % (p, rng.range(10, 19))])
        if k in HAS_DEPRECATED:
            cand.append(["deprecated = %s" % rng.choice(["true", "false"])])
        if self.full:
            pick = cand
        else:
            pick = [c for c in cand if rng.chance(1, 2)] or [rng.choice(cand)]
        return [o for c in pick for o in c]

    def stmts(self, pos, ind):
        return ["%soption %s;" % ("  " * ind, o) for o in self.opts(pos)]

    def compact(self, pos):
        o = self.opts(pos)
        return (" [" + ", ".join(o) + "]") if o else ""

    def text(self):
        s = self.syntax
        p2, p3 = s == "proto2", s == "proto3"
        L = "optional " if p2 else ""
        out = ['edition = "2023";' if s == "editions" else 'syntax = "%s";' % s]
        out.append("package o;" if self.single else "package m;")
        out.append('import "google/protobuf/descriptor.proto";')
        if not self.single:
            out.append('import "opts.proto";')
        out += self.stmts("file", 0)
        if self.single:
            out += defs_lines()
        out.append("message Top {")
        out += self.stmts("msg_top", 1)
        out.append("  %sint32 a = 1%s;" % (L, self.compact("fld")))
        out.append("  map<string, int32> mp = 2%s;" % self.compact("fld_map"))
        out.append("  oneof ch {")
        out += self.stmts("oneof", 2)
        out.append("    int32 x = 3%s;" % self.compact("fld_oneof"))
        out.append("    string y = 4;")
        out.append("  }")
        if p2:
            out.append("  optional group Grp = 5%s {" % self.compact("fld_group"))
            out += self.stmts("grp_body", 2)
            out.append("    optional int32 g = 1;")
            out.append("  }")
        if not p3:
            out.append("  extensions 100 to 199%s;" % self.compact("xr"))
            out.append("  extensions 300, 400 to 500, 600 to max%s;" % self.compact("xr_multi"))
        out.append("  message Inner {")
        out += self.stmts("msg_nested", 2)
        out.append("    %sint32 b = 1%s;" % (L, self.compact("fld_nested")))
        out.append("    oneof ich {")
        out += self.stmts("oneof_nested", 3)
        out.append("      int32 ix = 2;")
        out.append("    }")
        if not p3:
            out.append("    extensions 10 to 20%s;" % self.compact("xr_nested"))
        out.append("    message Deep {")
        out += self.stmts("msg_nested2", 3)
        out.append("      %sint32 c = 1;" % L)
        out.append("      enum DE {")
        out += self.stmts("enum_nested2", 4)
        out.append("        DE_Z = 0;")
        out.append("      }")
        out.append("    }")
        out.append("    enum IE {")
        out += self.stmts("enum_nested", 3)
        out.append("      IE_Z = 0%s;" % self.compact("ev_nested"))
        out.append("      IE_A = 1;")
        out.append("    }")
        out.append("  }")
        if not p3:
            out.append("  extend Top { %sint32 ext_in_msg = 100%s; }" % (L, self.compact("ext_msg")))
        else:
            out.append("  extend google.protobuf.MessageOptions { int32 p3_in_msg = 50902%s; }" % self.compact("ext_msg"))
        out.append("}")
        out.append("enum TE {")
        out += self.stmts("enum_top", 1)
        out.append("  TE_Z = 0%s;" % self.compact("ev_top"))
        out.append("  TE_A = 1;")
        out.append("}")
        if not p3:
            out.append("extend Top { %sint32 ext_at_file = 101%s; }" % (L, self.compact("ext_file")))
        else:
            out.append("extend google.protobuf.FieldOptions { int32 p3_at_file = 50901%s; }" % self.compact("ext_file"))
        out.append("service Svc {")
        out += self.stmts("svc", 1)
        out.append("  rpc Do(Top) returns (Top) {")
        out += self.stmts("mtd", 2)
        out.append("  }")
        out.append("  rpc Plain(Top) returns (Top);")
        out.append("  rpc Strm(stream Top) returns (stream Top.Inner) {")
        out += self.stmts("mtd2", 2)
        out.append("  }")
        out.append("}")
        return "\n".join(out) + "\n"


def usable(pos, syntax):
    if pos in PROTO2_ONLY:
        return syntax == "proto2"
    if pos in NOT_PROTO3:
        return syntax != "proto3"
    return True


def make(rng, syntax, on, single_file=False, full=True):
    """A pgenlib.Program (files, order with dependencies first, meta) with options at the positions `on`."""
    single_file = single_file and syntax == "proto2"
    on = [p for p in on if usable(p, syntax)]
    prog = pgenlib.Program()
    if not single_file:
        d = pgenlib._File("opts.proto", "proto2", "o")
        prog.files["opts.proto"] = "\n".join(['syntax = "proto2";', "package o;", 'import "google/protobuf/descriptor.proto";'] + defs_lines()) + "\n"
        prog.order.append("opts.proto")
        prog.meta["opts.proto"] = d
    f = pgenlib._File("main.proto", syntax, "o" if single_file else "m")
    if not single_file:
        f.imports.append(("opts.proto", ""))
    prog.files["main.proto"] = _B(rng, syntax, on, single_file, full).text()
    prog.order.append("main.proto")
    prog.meta["main.proto"] = f
    prog.positions = sorted(on)
    return prog


SYNTAXES = ["proto2", "proto3", "editions"]


def programs(rng, n_single, n_random):
    """[(label, Program)]: all positions at once (4 layouts); n_single programs with exactly one position switched on
    (None: every usable (position, syntax)); n_random programs with a random subset."""
    out = []
    out.append(("all", make(rng, "proto2", POSITIONS, single_file=True)))
    for s in SYNTAXES:
        out.append(("all", make(rng, s, POSITIONS)))
    singles = [(p, s) for p in POSITIONS for s in SYNTAXES if usable(p, s)]
    if n_single is not None:
        singles = rng.shuffle(singles)[:n_single]
    for p, s in singles:
        out.append(("only-" + p, make(rng, s, [p], single_file=rng.chance(1, 4), full=rng.chance(1, 2))))
    for _ in range(n_random):
        s = rng.choice(SYNTAXES)
        on = [p for p in POSITIONS if rng.chance(1, 3)] or [rng.choice(POSITIONS)]
        out.append(("some", make(rng, s, on, single_file=rng.chance(1, 4), full=False)))
    return out
