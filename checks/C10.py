"""C10 - Re-linking compiled output is a fixpoint."""
import glob, os, re
from vlib import *
import pgenlib

ID = "C10"
COQ_FILES = ["Common/Corr.v", "Model/Relink.v", "Proofs/Relink.v", "Model/JsonNames.v", "Proofs/JsonNames.v",
             "Model/MapRelink.v", "Proofs/MapRelink.v", "Props/C10.v"]
PROPS = "Props/C10.v"
THEOREMS = ["C10_resolve_absolute_idempotent", "C10_link_absolute_unchanged", "C10_link_idempotent", "C10_linked_refs_absolute",
            "C10_relink_json_errors_subset", "C10_relink_json_no_new_errors",
            "C10_relink_map_fields_partial", "C10_relink_map_fields_refuted", "C10_relink_map_fields_repaired"]
AXIOMS_OK = []
TRUSTED = ["hand-written Gallina model Model/Relink.v of linker/resolve.go (resolve, resolveElement, resolveInFile order, resolveElementInFile, resolveElementRelative, fileScope, messageScope, and the rewriting of type_name / extendee / input_type / output_type) over a flattened file: visible symbols + references with their scopes",
           "hand-written Gallina model Model/JsonNames.v of linker/validate.go validateFieldJSONNames / hasCustomJSONName with and without the AST (a collecting reporter), validated on every run against the JSON-name warnings and errors the real source compilation and the real re-link report per file",
           "hand-written Gallina model Model/MapRelink.v of the no-AST branch of linker/resolve.go resolveFieldTypes for references to map-entry messages (isValidMap and the scan of the earlier fields), validated on every run against the number of map-entry errors the real re-link reports per file; internal.MapEntry is read, not re-implemented",
           "correspondence harness harness/cmd/relink (public API only; internal.JSONName is read, not re-implemented) and the program generators checks/pgenlib.py and gen_warned in checks/C10.py"]
ASSUMPTIONS = ["the theorems are about the reference-rewriting part of linking and about the JSON-name validation of message fields on the second pass; that every other part of the second compilation (symbol registration, option interpretation of already-interpreted options, validation, descriptor.proto handling) is the identity on a compiled proto is established by the direct oracle only (byte-identical deterministic marshal on every generated program and every compilable file of the repository's testdata), not proved",
               "for imported google/protobuf/*.proto files only messages and enums are put into the visible-symbol table of the correspondence (their fields are never the first component of a type reference)",
               "the serialised-and-decoded variant is compared after decoding both sides against the compiled extension types, because protobuf-go emits known extensions before unknown fields"]

KIND = {"M": "KMessage", "E": "KEnum", "S": "KService", "O": "KOther"}


# Name components are interned to short tokens before they are written as Coq strings: resolution only ever
# compares components for equality, the map is injective, and Coq strings are expensive to parse and check.
_TOK = {}
_DIGITS = "0123456789abcdefghijklmnopqrstuvwxyz"


def c_str(s):
    if s not in _TOK:
        n, t = len(_TOK), ""
        while True:
            t = _DIGITS[n % 36] + t
            n //= 36
            if n == 0:
                break
        _TOK[s] = t
    return '"%s"' % _TOK[s]


def c_name(parts):
    return "[" + "; ".join(c_str(p) for p in parts) + "]"


def c_ref(text):
    if text.startswith("."):
        return "(mkref true %s)" % c_name(text[1:].split("."))
    return "(mkref false %s)" % c_name(text.split(".") if text else [])


def c_vis(vis):
    return "[" + "; ".join("mkfs %s [%s]" % (c_name(v["pkg"]), "; ".join("(%s, %s)" % (c_name(n), KIND[k]) for n, k in v["decls"]))
                          for v in vis) + "]"


def testdata_cases():
    """Every .proto of the repository's testdata, against the root it is written for."""
    out = []
    td = os.path.join(REPO, "internal", "testdata")
    roots = [td] + [d for d in sorted(glob.glob(os.path.join(td, "*"))) if os.path.isdir(d)]
    for root in roots:
        files = {}
        for p in glob.glob(os.path.join(root, "**", "*.proto"), recursive=True):
            try:
                files[os.path.relpath(p, root)] = open(p, encoding="utf-8").read()
            except Exception:
                pass
        if not files:
            continue
        tops = sorted(n for n in files if not n.startswith("google/protobuf/"))
        for n in tops:
            out.append({"files": files, "order": [n], "origin": "repo:%s:%s" % (os.path.relpath(root, REPO), n)})
    return out


# ------------------------------------------------------------------------------------------------
# Programs whose compilation from source succeeds WITH WARNINGS, and pseudo-options. Every condition the compiler only
# warns about is a decision taken with the source at hand; the re-link takes it again from the descriptor proto alone.
JSON_GROUPS = [["foo_bar", "fooBar"], ["foo_bar", "fooBar", "foo__bar"], ["a_b_c", "aB_c"], ["x__y", "x_y"], ["_z", "Z"],
               ["long_name_1", "longName1", "long__name_1"], ["v_2", "v2"]]
ENUM_GROUPS = [["%s_FOO_BAR", "FOO_BAR"], ["%s_FOO_BAR", "foo_bar", "Foo_Bar"], ["A_B", "%s_A_B", "a_b"], ["X__Y", "X_Y"]]
UNUSED_STD = ["google/protobuf/any.proto", "google/protobuf/timestamp.proto", "google/protobuf/descriptor.proto", "google/protobuf/empty.proto"]


def gen_warned(rng, want=None):
    """A program of 1-3 files; each file takes one or more warning-only ingredients: no syntax declaration, unused imports
    (of an earlier file, public or not, or of a standard file), default JSON names of fields that collide in a message that is
    not JSON compliant (proto2; editions with json_format = LEGACY_BEST_EFFORT on the file or the message; also with one side
    renamed by a custom json_name, inside oneofs, with map fields and groups), enum values whose camel-case names collide (same
    conditions), a deprecated feature (pb.go legacy_unmarshal_json_enum). Plus the pseudo-options json_name (also spelled equal
    to the default name) and default. `want` forces one ingredient."""
    files, order, exported = {}, [], []
    uid = [0]

    def nid():
        uid[0] += 1
        return uid[0]
    nfiles = rng.range(1, 3)
    forced_at = rng.below(nfiles)
    for i in range(nfiles):
        syn = rng.choice(["proto2", "proto2", "nosyntax", "editions", "editions", "proto3"])
        ing = set(x for x in ("unused", "json", "enum", "samejson", "deprecated") if rng.chance(1, 3))
        forced = None
        if i == forced_at:
            forced = want or rng.choice(["unused", "json", "enum", "nosyntax", "deprecated"])
            ing.add(forced)
            if forced in ("json", "enum") and syn == "proto3":
                syn = "proto2"
        if "nosyntax" in ing:
            syn = "nosyntax"
        if "deprecated" in ing:
            syn = "editions"
        if syn == "proto3":
            ing -= {"json", "enum"}       # errors there
        p2 = syn in ("proto2", "nosyntax")
        lab = "optional " if p2 else ""
        name = "w%d.proto" % i
        pkg = rng.choice(["", "w%d" % i, "w.sub%d" % i])
        head, body = [], []
        if syn == "editions":
            head.append('edition = "2023";')
        elif syn != "nosyntax":
            head.append('syntax = "%s";' % syn)
        if pkg:
            head.append("package %s;" % pkg)
        file_legacy = syn == "editions" and rng.chance(1, 2)
        force_msg_legacy = syn == "editions" and not file_legacy and forced in ("json", "enum")
        # imports: used and unused
        used = []
        for (fn, fpkg, msgs) in exported:
            r = rng.below(4)
            if r == 0 and msgs:
                head.append('import %s"%s";' % ("public " if rng.chance(1, 4) else "", fn))
                used.append("." + (fpkg + "." if fpkg else "") + rng.choice(msgs))
            elif r == 1 or ("unused" in ing and r == 2):
                head.append('import %s"%s";' % ("public " if rng.chance(1, 4) else "", fn))
        if "unused" in ing:
            for std in rng.shuffle(UNUSED_STD)[: rng.range(1, 2)]:
                head.append('import "%s";' % std)
        if "deprecated" in ing:
            head.append('import "google/protobuf/go_features.proto";')
            if rng.chance(1, 2):
                head.append("option features.(pb.go).legacy_unmarshal_json_enum = true;")
        if file_legacy:
            head.append("option features.json_format = LEGACY_BEST_EFFORT;")
        my_msgs = []
        for _ in range(rng.range(1, 3)):
            mname = "W%d" % nid()
            my_msgs.append(mname)
            lines = ["message %s {" % mname]
            msg_legacy = False
            if syn == "editions" and not file_legacy and (force_msg_legacy or rng.chance(1, 2)):
                lines.append("  option features.json_format = LEGACY_BEST_EFFORT;")
                msg_legacy = True
            tolerant = p2 or file_legacy or msg_legacy
            num = [0]

            def fld(fname, typ="int32", opts=None, ind="  ", label=None):
                num[0] += rng.range(1, 3)
                o = " [%s]" % ", ".join(opts) if opts else ""
                return "%s%s%s %s = %d%s;" % (ind, lab if label is None else label, typ, fname, num[0], o)
            stmts = []
            if "json" in ing and tolerant:
                grp = list(rng.choice(JSON_GROUPS))
                k = rng.below(6)
                fl = []
                for j, fname in enumerate(rng.shuffle(grp)):
                    opts = []
                    if k == 0 and j == 0:
                        opts.append('json_name = "renamed%d"' % nid())      # one side custom: the defaults still collide
                    typ = rng.choice(["int32", "string", "bool", "bytes", "uint64"])
                    fl.append((fname, typ, opts))
                if k == 1 and len(fl) >= 2:
                    # two of them inside a oneof
                    stmts.append(fld(fl[0][0], fl[0][1], fl[0][2]))
                    inner = [fld(f[0], f[1], f[2], ind="    ", label="") for f in fl[1:]]
                    stmts.append("  oneof o%d {\n%s\n  }" % (nid(), "\n".join(inner)))
                elif k == 2:
                    # a map field on one side
                    stmts.append(fld(fl[0][0], "map<string, int32>", fl[0][2], label=""))
                    stmts += [fld(f[0], f[1], f[2]) for f in fl[1:]]
                elif k == 3:
                    stmts += [fld(f[0], f[1], f[2], label="repeated ") for f in fl]
                else:
                    stmts += [fld(f[0], f[1], f[2]) for f in fl]
            if "samejson" in ing or rng.chance(1, 3):
                stmts.append(fld("q_r%d" % nid(), "string", ['json_name = "qR%d"' % uid[0]]))      # explicit, equal to the default
            if rng.chance(1, 3):
                stmts.append(fld("c_d%d" % nid(), "int32", ['json_name = "other%d"' % uid[0]]))
            if syn != "proto3" and rng.chance(1, 2):
                k = rng.below(4)
                typ, dv = [("int32", "-7"), ("string", '"a\\"b"'), ("double", "-inf"), ("uint64", "0xFFFFFFFFFFFFFFFF")][k]
                stmts.append(fld("d%d" % nid(), typ, ["default = %s" % dv] + (['json_name = "D%d"' % uid[0]] if rng.chance(1, 3) else [])))
            if used and rng.chance(2, 3):
                stmts.append(fld("u%d" % nid(), rng.choice(used)))
            if p2 and rng.chance(1, 4):
                num[0] += 1
                stmts.append("  optional group Grp%d = %d { optional int32 g_x = 1; optional int32 gX = 2; }" % (nid(), num[0]))
            if "enum" in ing and tolerant and (forced == "enum" or rng.chance(1, 2)):
                ename = "N%d" % nid()
                vals = [v % ename if "%s" in v else v for v in rng.choice(ENUM_GROUPS)]
                stmts.append("  enum %s { %s }" % (ename, " ".join("%s = %d;" % (v, j) for j, v in enumerate(vals))))
            if not stmts:
                stmts.append(fld("only%d" % nid()))
            lines += rng.shuffle(stmts)
            lines.append("}")
            body += lines
        if "enum" in ing and (p2 or file_legacy):
            ename = "T%d" % nid()
            vals = [v % ename if "%s" in v else v for v in rng.choice(ENUM_GROUPS)]
            extra = ""
            if "deprecated" in ing:
                extra = " option features.(pb.go).legacy_unmarshal_json_enum = true;"
            body.append("enum %s {%s %s }" % (ename, extra, " ".join("%s = %d;" % (v, j) for j, v in enumerate(vals))))
        elif "deprecated" in ing:
            body.append("enum T%d { option features.(pb.go).legacy_unmarshal_json_enum = true; T%d_Z = 0; }" % (nid(), uid[0]))
        files[name] = "\n".join(head + body) + "\n"
        order.append(name)
        exported.append((name, pkg, my_msgs))
    return files, order


# ------------------------------------------------------------------------------------------------
# Synthetic constructs x options. Map fields (a synthesized FooEntry message), groups (a synthesized message and a
# lower-cased field), proto3 optional fields (a synthesized oneof), editions fields that look like groups: what the
# source compilation synthesizes from the declaration, the re-link has to recognise again from the descriptor proto
# alone (isValidMap, synthetic-oneof rules, group-likeness), whatever pseudo-options (json_name, default) and options
# (deprecated, packed, lazy, jstype, ctype, retention, targets, debug_redact, custom options with scalar and message
# values, features) the declaration carries and however its name is spelled.
#
# TWINS: a repeated non-map field declared BEFORE a map field whose name gives the same map-entry name
# (`repeated int32 Foo_bar = 1; map<string, string> foo_bar = 2;`, both FooBarEntry) compiled from source and failed to
# re-link on the pinned tree (genuine defect: corpus/C10/map-entry-twin-*.proto, repaired by the /repo fix commit recorded in
# KNOWN_FINDINGS.txt, fixes/C10-map-entry-twin.diff). The stratum is on by default (VERIF_C10_MAP_TWINS=0 turns it off).
MAP_TWINS = os.environ.get("VERIF_C10_MAP_TWINS", "1") == "1"
# the tree under test has fixes/C10-map-entry-twin.diff applied: the correspondence uses the model of the repaired scan
MAP_REPAIRED = os.environ.get("VERIF_C10_REPAIRED", "1") == "1"
NAME_SHAPES = ["attrs%d", "foo_bar%d", "fooBar%d", "foo__bar%d", "_foo%d", "foo%d_", "foo1_2x%d", "FOO_BAR%d", "Foo%d", "a%d", "x_Y_z%d",
               "foo_Bar%d", "f%d_b_c", "__x%d", "X%dEntry", "entry%d"]
TWIN_SHAPES = [("Foo_bar%d", "foo_bar%d"), ("foo_Bar%d", "foo_bar%d"), ("foo_bar%d", "fooBar%d"), ("Ab%d", "ab%d"), ("a_b%d", "a__b%d")]
MAP_KEYS = ["string", "int32", "int64", "uint32", "bool", "sint64", "fixed32"]


def gen_synth(rng, want=None, twins=False):
    """A program of 1-2 files. Every message takes some of: map fields, groups (proto2), proto3 optional fields, group-like
    delimited fields (editions), real oneofs around them; every one of them with a random subset of the options that are
    legal on it and a name of one of NAME_SHAPES. `want` forces one construct into the first message of the last file."""
    files, order = {}, []
    uid = [0]

    def nid():
        uid[0] += 1
        return uid[0]
    nfiles = rng.range(1, 2)
    prev = None
    for i in range(nfiles):
        last = i == nfiles - 1
        syn = rng.choice(["proto2", "proto3", "editions"])
        if last and want == "group":
            syn = "proto2"
        if last and want == "p3opt":
            syn = "proto3"
        if last and want == "grouplike":
            syn = "editions"
        p2, p3, ed = syn == "proto2", syn == "proto3", syn == "editions"
        lab = "optional " if p2 else ""
        pkg = rng.choice(["", "s%d" % i, "s.t%d" % i])
        pfx = "." + (pkg + "." if pkg else "")
        head = ['edition = "2023";' if ed else 'syntax = "%s";' % syn]
        if pkg:
            head.append("package %s;" % pkg)
        head.append('import "google/protobuf/descriptor.proto";')
        if prev and rng.chance(2, 3):
            head.append('import "%s";' % prev[0])
        else:
            prev = None if i == 0 else prev
        imported = prev[1] if (prev and 'import "%s";' % prev[0] in head) else []
        if ed and rng.chance(1, 4):
            head.append("option features.message_encoding = DELIMITED;")
        if ed and rng.chance(1, 4):
            head.append("option features.field_presence = IMPLICIT;")
        k0 = nid()
        base = 50000 + 100 * i
        body = ["message Opt%d { %sint32 a = 1; %sstring b = 2; map<string, int32> m = 3; }" % (k0, lab, lab),
                "enum En%d { EN%d_ZERO = 0; EN%d_ONE = 1; }" % (k0, k0, k0),
                "extend google.protobuf.FieldOptions { %sint32 fo%d = %d; %sOpt%d fmo%d = %d; repeated string frs%d = %d; }" % (lab, k0, base + 1, lab, k0, k0, base + 2, k0, base + 3),
                "extend google.protobuf.MessageOptions { %sint32 mo%d = %d; %sOpt%d mmo%d = %d; }" % (lab, k0, base + 4, lab, k0, k0, base + 5),
                "extend google.protobuf.OneofOptions { %sint32 oo%d = %d; }" % (lab, k0, base + 6)]
        opt_pfx = (pkg + "." if pkg else "")
        msg_types = [pfx + "Opt%d" % k0] + imported
        exported = [pfx + "Opt%d" % k0]

        def field_opts(kind, typ, name, allow_default=False, strs=False, in_oneof=False):
            """kind: map | group | msg | scalar | repeated; strs: a map with a string key or value"""
            o = []
            if rng.chance(1, 2):
                o.append('json_name = "%s"' % rng.choice(["attributes%d" % nid(), "j%d" % nid(), name, name.upper(), name.replace("_", ""), "%sEntry" % name]))
            if rng.chance(1, 4):
                o.append("deprecated = true")
            if rng.chance(1, 3):
                o.append("(%sfo%d) = %d" % (opt_pfx, k0, rng.range(-9, 999)))
            if rng.chance(1, 4):
                o.append(rng.choice(['(%sfmo%d) = { a: %d b: "x" m: { key: "k" value: 2 } }' % (opt_pfx, k0, rng.range(0, 99)), "(%sfmo%d).a = %d" % (opt_pfx, k0, rng.range(0, 99))]))
            if rng.chance(1, 6):
                o += ['(%sfrs%d) = "p"' % (opt_pfx, k0), '(%sfrs%d) = "q"' % (opt_pfx, k0)]
            if rng.chance(1, 8):
                o.append("retention = %s" % rng.choice(["RETENTION_SOURCE", "RETENTION_RUNTIME"]))
            if rng.chance(1, 8):
                o.append("targets = TARGET_TYPE_FIELD")
            if rng.chance(1, 8):
                o.append("debug_redact = true")
            if kind == "msg" and not ed and rng.chance(1, 5):
                o.append("lazy = true")
            if typ == "string" and kind != "map" and rng.chance(1, 4):
                o.append("ctype = %s" % rng.choice(["CORD", "STRING_PIECE"]))
            if typ in ("int64", "uint64", "sint64", "fixed64") and kind != "map" and rng.chance(1, 3):
                o.append("jstype = %s" % rng.choice(["JS_STRING", "JS_NUMBER"]))
            if kind == "repeated" and typ in ("int32", "int64", "bool", "sint64", "fixed32") and not ed and rng.chance(1, 2):
                o.append("packed = %s" % rng.choice(["true", "false"]))
            if allow_default and rng.chance(1, 2):
                dv = {"int32": "-7", "string": '"a\\"b"', "int64": "0x7FFFFFFFFFFFFFFF", "bool": "true", "bytes": '"\\001\\xff"'}.get(typ)
                if dv:
                    o.append("default = %s" % dv)
            if ed:
                if kind == "map" and strs and rng.chance(1, 3):
                    o.append("features.utf8_validation = %s" % rng.choice(["NONE", "VERIFY"]))
                if kind == "msg" and rng.chance(1, 2):
                    o.append("features.message_encoding = %s" % rng.choice(["DELIMITED", "LENGTH_PREFIXED"]))
                if kind == "scalar" and not in_oneof and rng.chance(1, 3):
                    o.append("features.field_presence = %s" % rng.choice(["EXPLICIT", "IMPLICIT", "LEGACY_REQUIRED"]))
            o = rng.shuffle(o)
            return " [%s]" % ", ".join(o) if o else ""

        def msg_opts(ind):
            o = []
            if rng.chance(1, 4):
                o.append(ind + "option deprecated = true;")
            if rng.chance(1, 3):
                o.append(ind + "option (%smo%d) = %d;" % (opt_pfx, k0, rng.range(0, 99)))
            if rng.chance(1, 4):
                o.append(ind + "option (%smmo%d) = { a: 1 m: { key: \"z\" value: 1 } };" % (opt_pfx, k0))
            return o

        def gen_msg(depth, forced):
            mname = "S%d" % nid()
            lines = ["message %s {" % mname] + msg_opts("  ")
            num = [0]
            stmts = []

            def nxt():
                num[0] += rng.range(1, 3)
                return num[0]
            kinds = [k for k in ("map", "map", "group", "p3opt", "grouplike", "plain", "oneof", "nested") if rng.chance(1, 2)]
            if forced:
                kinds.append(forced)
            if twins:
                kinds.append("twin")
            for kind in kinds:
                shape = rng.choice(NAME_SHAPES)
                name = shape % nid()
                if kind == "map":
                    kt = rng.choice(MAP_KEYS)
                    vt = rng.choice(["string", "int32", "bytes", "double", rng.choice(msg_types), pfx + "En%d" % k0, mname])
                    stmts.append("  map<%s, %s> %s = %d%s;" % (kt, vt, name, nxt(), field_opts("map", vt, name, strs="string" in (kt, vt))))
                elif kind == "twin":
                    a, b = rng.choice(TWIN_SHAPES)
                    k = nid()
                    # a twin pair whose default JSON names collide is only a warning in proto2
                    if (a, b) in (("foo_bar%d", "fooBar%d"), ("a_b%d", "a__b%d"), ("foo_Bar%d", "foo_bar%d")) and not p2:
                        a, b = "Foo_bar%d", "foo_bar%d"
                    stmts.append("  repeated int32 %s = %d;\n  map<string, string> %s = %d;" % (a % k, nxt(), b % k, nxt()))
                elif kind == "group" and p2:
                    gname = rng.choice(["Grp%d", "G%d", "My_Group%d", "GRP%d", "Gr%dEntry"]) % nid()
                    glabel = rng.choice(["optional", "repeated", "required"])
                    inner = msg_opts("    ")
                    inner.append("    optional int32 g_x%d = 1%s;" % (nid(), field_opts("scalar", "int32", "g_x", allow_default=True)))
                    if rng.chance(1, 2):
                        inner.append("    map<string, %s> in_grp%d = 2%s;" % (rng.choice(["int32", mname]), nid(), field_opts("map", "x", "in_grp", strs=True)))
                    if rng.chance(1, 3):
                        inner.append("    optional group Inner%d = 3%s { optional int32 y = 1; }" % (nid(), field_opts("group", "g", "inner")))
                    stmts.append("  %s group %s = %d%s {\n%s\n  }" % (glabel, gname, nxt(), field_opts("group", "g", gname.lower()), "\n".join(inner)))
                elif kind == "p3opt" and p3:
                    typ = rng.choice(["int32", "string", "int64", "bool", rng.choice(msg_types), pfx + "En%d" % k0])
                    stmts.append("  optional %s %s = %d%s;" % (typ, name, nxt(), field_opts("msg" if typ.startswith(".") and "En" not in typ else "scalar", typ, name)))
                    if rng.chance(1, 3) and name[0].islower():
                        # a name the synthetic oneof of `name` would take
                        stmts.append("  %s _%s = %d;" % (rng.choice(["int32", "optional int32", "repeated string"]), name, nxt()))
                elif kind == "grouplike" and ed:
                    tn = rng.choice(["Grp%d", "MyGroup%d", "grp%d", "GRP%d"]) % nid()
                    fname = rng.choice([tn.lower(), tn.lower(), tn.upper() if tn.upper() != tn else tn.lower(), "x" + tn.lower()])
                    if fname == tn:
                        fname = "x" + fname
                    stmts.append("  message %s { int32 v = 1; map<int32, int32> mm = 2; }\n  %s%s %s = %d%s;" % (
                        tn, rng.choice(["", "", "repeated "]), tn, fname, nxt(), field_opts("msg", tn, fname)))
                elif kind == "oneof":
                    members = []
                    for _ in range(rng.range(1, 3)):
                        typ = rng.choice(["int32", "string", rng.choice(msg_types)])
                        n2 = rng.choice(NAME_SHAPES) % nid()
                        members.append("    %s %s = %d%s;" % (typ, n2, nxt(), field_opts("msg" if typ.startswith(".") else "scalar", typ, n2, in_oneof=True)))
                    if p2 and rng.chance(1, 2):
                        members.append("    group OG%d = %d%s { optional int32 z = 1; }" % (nid(), nxt(), field_opts("group", "g", "og")))
                    oo = ["    option (%soo%d) = %d;" % (opt_pfx, k0, rng.range(0, 9))] if rng.chance(1, 2) else []
                    stmts.append("  oneof %s {\n%s\n  }" % (rng.choice(["o%d", "_o%d", "X_o%d"]) % nid(), "\n".join(oo + members)))
                elif kind == "nested" and depth < 2:
                    stmts.append("\n".join("  " + ln for ln in gen_msg(depth + 1, None)[1]))
                else:
                    typ = rng.choice(["int32", "string", "int64", "bool", "bytes"])
                    rep = rng.chance(1, 3)
                    has_pres = not rep and (p2 or (ed and 'field_presence = IMPLICIT' not in "\n".join(head)))
                    fo = field_opts("repeated" if rep else "scalar", typ, name, allow_default=has_pres)
                    if "default =" in fo and ("IMPLICIT" in fo):
                        fo = ""
                    if "LEGACY_REQUIRED" in fo and "default" in fo:
                        fo = ""
                    stmts.append("  %s%s %s = %d%s;" % ("repeated " if rep else lab, typ, name, nxt(), fo))
            if not stmts:
                stmts.append("  %sint32 only%d = 1;" % (lab, nid()))
            lines += rng.shuffle(stmts)
            lines.append("}")
            return mname, lines
        for j in range(rng.range(1, 3)):
            mname, lines = gen_msg(0, want if (last and j == 0) else None)
            body += lines
            exported.append(pfx + mname)
            msg_types.append(pfx + mname)
        name = "s%d.proto" % i
        files[name] = "\n".join(head + body) + "\n"
        order.append(name)
        prev = (name, exported)
    return files, order


CORPUS_SYNTH = [
    # map fields with a custom json_name and other options, names of several shapes
    'syntax = "proto3";\npackage demo;\nmessage Config { string name = 1; map<string, string> attrs = 2 [json_name = "attributes"]; map<int32, Config> foo_bar = 3 [deprecated = true, json_name = "FOO"]; '
    'map<string, int32> _lead = 4 [json_name = "lead"]; map<string, int32> trail_ = 5 [json_name = "trail_"]; map<string, int32> x__y = 6 [json_name = "xy"]; map<bool, bytes> fooBar2 = 7 [json_name = "foo_bar2"]; }\n',
    'syntax = "proto2";\nimport "google/protobuf/descriptor.proto";\nextend google.protobuf.FieldOptions { optional int32 fo = 50001; optional O fmo = 50002; }\nmessage O { optional int32 a = 1; map<string, int32> m = 2 [json_name = "M"]; }\n'
    'message M { map<string, O> m1 = 1 [(fo) = 3, json_name = "one", (fmo) = { a: 1 m: { key: "k" value: 1 } }, lazy = true]; '
    'optional group Grp = 2 [json_name = "G", deprecated = true, (fo) = 4] { option deprecated = true; map<string, int32> in_grp = 1 [json_name = "ig"]; optional int32 d = 2 [default = -7, json_name = "D"]; } '
    'repeated group Rep_Grp = 3 [json_name = "rep_grp"] { optional group Inner = 1 [json_name = "i"] { optional int32 y = 1; } } '
    'oneof o { group OG = 4 [json_name = "og2"] { optional int32 z = 1; } int32 plain = 5 [json_name = "P"]; } extensions 100 to 199; extend M { optional group ExtG = 100 [deprecated = true] { optional int32 e = 1; } } }\n',
    # proto3 optional: synthetic oneofs next to real ones and to names they would take, with options
    'syntax = "proto3";\nimport "google/protobuf/descriptor.proto";\nextend google.protobuf.FieldOptions { optional int32 fo = 50001; }\nextend google.protobuf.OneofOptions { optional int32 oo = 50001; }\n'
    'message P { optional int32 foo = 1 [json_name = "FOO", deprecated = true, (fo) = 1]; int32 _foo = 2; oneof X_foo { option (oo) = 1; int32 a = 3 [json_name = "A"]; } optional P _bar = 4 [json_name = "bar"]; '
    'optional string __x = 5 [json_name = "x"]; oneof real { string r1 = 6; } optional bool fooBar = 7 [json_name = "foo_bar_7"]; map<string, P> mp = 8 [json_name = "MP"]; }\n',
    # editions: group-like delimited fields with options, maps inside, file-level delimited encoding
    'edition = "2023";\noption features.message_encoding = DELIMITED;\nmessage E { message Grp { int32 v = 1; map<int32, E> mm = 2 [json_name = "MM"]; } Grp grp = 1 [json_name = "GRP", deprecated = true]; Grp gRP = 2 [json_name = "grp2"]; '
    'repeated Grp grps = 3 [features.message_encoding = LENGTH_PREFIXED, json_name = "g"]; map<string, Grp> by_name = 4 [json_name = "byname", features.utf8_validation = NONE]; '
    'oneof o { Grp in_o = 5 [json_name = "io"]; } int32 req = 6 [features.field_presence = LEGACY_REQUIRED, json_name = "R"]; }\n',
]


CORPUS_WARNED = [
    # the shape of the defect class: default JSON names collide in proto2 (warning from source)
    'syntax = "proto2";\nmessage M { optional string foo_bar = 1; optional string fooBar = 2; }\n',
    'message NoSyntax { optional int32 a_b = 1; optional int32 aB = 2; optional int32 a__b = 3; }\n',
    'edition = "2023";\noption features.json_format = LEGACY_BEST_EFFORT;\nmessage M { int32 foo_bar = 1; int32 fooBar = 2; enum E { E_A_B = 0; A_B = 1; } }\n',
    'edition = "2023";\nmessage M { option features.json_format = LEGACY_BEST_EFFORT; int32 foo_bar = 1 [json_name = "x"]; int32 fooBar = 2; message Strict { int32 p_q = 1 [json_name = "pQ"]; } }\n',
    'syntax = "proto2";\nimport "google/protobuf/any.proto";\nimport public "google/protobuf/empty.proto";\nenum E { E_FOO_BAR = 0; FOO_BAR = 1; foo_bar = 2; }\nmessage M { oneof o { int32 x_y = 1; int32 xY = 2; } map<string, int32> x__y = 3; }\n',
    'edition = "2023";\nimport "google/protobuf/go_features.proto";\noption features.(pb.go).legacy_unmarshal_json_enum = true;\nenum E { option features.(pb.go).legacy_unmarshal_json_enum = true; A = 0; }\n',
    # explicit json_name equal to the default name: custom for the source compilation, default for the re-link
    'syntax = "proto3";\nmessage M { int32 foo_bar = 1 [json_name = "fooBar"]; int32 baz = 2 [json_name = "baz"]; }\n',
]


def corpus_dir():
    """/verif/corpus/C10/*.proto: inputs kept from findings. map-entry-twin-*.proto need the repair fixes/C10-map-entry-twin.diff
    and are read only with VERIF_C10_MAP_TWINS=1."""
    out = []
    for p in sorted(glob.glob(os.path.join(VERIF, "corpus", "C10", "*.proto"))):
        if os.path.basename(p).startswith("map-entry-twin") and not MAP_TWINS:
            continue
        out.append(open(p).read())
    return out


SYNTH_FLOORS = {
    "map-custom-json": r"map<[^>]*>\s+\w+\s*=\s*\d+\s*\[[^\]]*json_name",
    "group-options": r"group\s+\w+\s*=\s*\d+\s*\[",
    "p3opt-options": r"optional\s+\S+\s+\w+\s*=\s*\d+\s*\[",
    "grouplike-options": r"message_encoding = DELIMITED",
}


def twin_predicted(o):
    """Mirror of Model/MapRelink.relink_errors on the harness dump: does the code as it is reject a map field of this
    program because an EARLIER repeated field of the message has a name with the same map-entry name?"""
    for d in o.get("mcorr") or []:
        for m in d["msgs"]:
            fs = m["fields"]
            for i, f in enumerate(fs):
                if f[3] and f[2] and f[3] == f[1] and any(g[2] and g[1] == f[3] for g in fs[:i]):
                    return True
    return False


def c_mfile(d):
    msgs = "; ".join("[%s]" % "; ".join("mkmf %s %s %s %s" % (c_str(f[0]), c_str(f[1]), coq_bool(f[2]), "(Some %s)" % c_str(f[3]) if f[3] else "None")
                                        for f in m["fields"]) for m in d["msgs"])
    return "MFile [%s] %d" % (msgs, d["rl_err"])


def c_jfile(d):
    msgs = "; ".join("(%s, [%s])" % (coq_bool(m["compliant"]), "; ".join("mkjf %s %s %s %s" % (c_str(f[0]), c_str(f[1]), c_str(f[2]), coq_bool(f[3])) for f in m["fields"]))
                     for m in d["msgs"])
    return "JFile [%s] %d %d %d" % (msgs, d["src_warn"], d["rl_warn"], d["rl_err"])


def run(ctx):
    import time as _t0
    ctx.extra["t_run_start"] = round(_t0.time() - ctx.t0, 1)
    rng = ctx.rng
    nprog = ctx.budget(160, 3000)
    nwarn = ctx.budget(70, 1200)    # programs that compile from source with warnings
    ncorr = ctx.budget(30, 400)     # programs whose references are also run through the Coq model
    nsynth = ctx.budget(60, 1000)   # synthetic constructs x options (gen_synth)
    ctx.rule = ("hand-written programs with shadowing names + every compilable .proto of the repository's internal/testdata (each against the root directory it is written for) + %d generated "
                "multi-file programs (proto2/proto3/editions, imports incl. public, type references spelled absolute / fully qualified / relative to an enclosing "
                "message or package prefix, maps, groups, extensions, custom options with message values, services, feature overrides); each compiled and its "
                "output protos fed back (all files incl. dependencies) as the objects themselves, as serialised-and-decoded copies and as linked descriptors, "
                "and in a mixed form (a random subset of the files as protos, the rest from source), "
                "under source-info modes {none, standard, extra} with the same or a different mode for the second compilation; + %d programs that compile from "
                "source WITH WARNINGS (every warning-only condition of the compiler: no syntax declaration, unused imports, colliding default JSON names of fields "
                "and camel-case names of enum values in proto2 / LEGACY_BEST_EFFORT scopes, deprecated features) and carry the pseudo-options json_name (also equal to "
                "the default) and default; the JSON-name validation of their messages goes through the Coq model with and without the AST; one evaluation = one program x "
                "modes; + %d programs of synthetic constructs x options (map fields, proto2 groups also nested / in oneofs / in extend blocks, proto3 optional fields next "
                "to real oneofs and to the names their synthetic oneofs would take, editions group-like delimited fields; each with a random subset of json_name - custom, equal to "
                "the default, upper-cased, the entry name -, default, deprecated, packed, lazy, ctype, jstype, retention, targets, debug_redact, scalar / message-valued / repeated "
                "custom options, features, and names of 16 shapes: leading / trailing / double underscores, digits, mixed and upper case, ...Entry), each construct forced in turn; "
                "the run fails if fewer than five accepted programs have a map field with a custom json_name, a group with options, a proto3 optional field with options or a "
                "group-like field with options "
                "(the first %d generated programs and all testdata files also go through the Coq model of name resolution); non-trivial = the program has at least one message/enum-typed reference "
                "or compiled with a warning" % (nprog, nwarn, nsynth, ncorr))
    cases = []
    cfg = pgenlib.Cfg(max_depth=3)
    for k in range(nprog):
        p = pgenlib.gen_program(rng, cfg)
        mode = rng.choice([0, 1, 1, 3, 7])
        c = {"files": p.files, "order": p.order, "mode": mode, "corr": k < ncorr, "origin": "generated"}
        if rng.chance(1, 4):
            c["mode2"] = rng.choice([0, 1, 3])
        cases.append(c)
    for t in pgenlib.CORPUS_SHADOW:
        cases.insert(0, {"files": {"c.proto": t}, "order": ["c.proto"], "mode": 1, "corr": True, "origin": "corpus"})
    for t in CORPUS_WARNED + CORPUS_SYNTH + corpus_dir() + pgenlib.CORPUS_C04 + pgenlib.CORPUS_C04_LOOKUPS:
        cases.insert(0, {"files": {"c.proto": t}, "order": ["c.proto"], "mode": rng.choice([0, 1, 7]), "corr": False, "jcorr": True, "origin": "corpus"})
    classes = ["unused", "json", "enum", "nosyntax", "deprecated"]
    for k in range(nwarn):
        files, order = gen_warned(rng, classes[k % len(classes)])
        c = {"files": files, "order": order, "mode": rng.choice([0, 1, 1, 3, 7]), "corr": False, "jcorr": True, "origin": "warned"}
        if rng.chance(1, 4):
            c["mode2"] = rng.choice([0, 1, 3])
        cases.append(c)
    synth_wants = [None, "map", "group", "p3opt", "grouplike"]
    for k in range(nsynth):
        files, order = gen_synth(rng, synth_wants[k % len(synth_wants)], twins=MAP_TWINS and k % 3 == 0)
        c = {"files": files, "order": order, "mode": rng.choice([0, 1, 1, 3, 7]), "corr": False, "jcorr": True, "origin": "synth"}
        if rng.chance(1, 4):
            c["mode2"] = rng.choice([0, 1, 3])
        cases.append(c)
    # mixed input forms: a random non-empty subset of the files as protos
    for c in cases:
        names = list(c["order"])
        if c["origin"] in ("generated", "warned", "corpus", "synth"):
            sub = [n for n in names if rng.chance(1, 2)] or [rng.choice(names)]
            c["asproto"] = sub
    tcases = testdata_cases()
    for c in tcases:
        c["mode"] = 1
        c["corr"] = True
    seen_td = set()
    for c in tcases:
        # the same file appears under several roots; keep each (root, file) once
        if c["origin"] in seen_td:
            continue
        seen_td.add(c["origin"])
        cases.append(c)
    outs = ctx.impl("relink", [{k: c[k] for k in c if k != "origin"} for c in cases], shards=NCPU)
    terms, meta = [], []
    jterms = {}
    mterms = {}
    stats = {"accepted": 0, "rejected": 0, "testdata_accepted": 0, "testdata_rejected": 0, "refs": 0, "relative_refs": 0,
             "bytewise_equal_after_reserialising": 0, "corr_skipped": 0}
    for c, o in zip(cases, outs):
        td = c["origin"].startswith("repo:")
        rep = {"origin": c["origin"], "order": c["order"], "mode": c["mode"], "mode2": c.get("mode2", c["mode"])}
        if not td or len(c["files"]) <= 6:
            rep["files"] = c["files"]
        else:
            rep["files"] = {n: c["files"][n] for n in c["order"]}
            rep["note"] = "remaining files: the repository's testdata under " + c["origin"].split(":")[1]
        if "crash" in o or "panic" in o:
            ctx.violation("panic", "compiling or re-linking panicked / crashed", dict(rep, observed=o))
            continue
        if "err" in o:
            stats["testdata_rejected" if td else "rejected"] += 1
            ctx.count((c["origin"], tuple(c["order"]), c["mode"], hash(c["files"][c["order"][0]])), False, "rejected" + ("-testdata" if td else ""))
            continue
        stats["testdata_accepted" if td else "accepted"] += 1
        if c["origin"] == "synth":
            text = "\n".join(c["files"].values())
            for fk, pat in SYNTH_FLOORS.items():
                if fk == "p3opt-options" and 'syntax = "proto3"' not in text:
                    continue
                if re.search(pat, text):
                    stats["synth:" + fk] = stats.get("synth:" + fk, 0) + 1
        nrefs = o.get("nrefs", 0)
        warned = sorted(k for k, n in (o.get("warnings") or {}).items() if n)
        for w in warned:
            stats["warned:" + w] = stats.get("warned:" + w, 0) + 1
        ctx.count((c["origin"], tuple(c["order"]), c["mode"], c.get("mode2"), hash(c["files"][c["order"][0]])), nrefs > 0 or bool(warned),
                  ("testdata" if td else c["origin"]) + ("-mode-change" if "mode2" in c and c["mode2"] != c["mode"] else "")
                  + ("-warned" if warned else ""))
        rep["warnings_of_the_first_compilation"] = o.get("warnings")
        if "asproto" in c:
            rep["asproto"] = c["asproto"]
        # ---- direct oracle
        for variant, what in (("object", "the output FileDescriptorProto objects"), ("bytes", "serialised and decoded copies of the output protos"),
                              ("desc", "the linked descriptors"), ("mixed", "the output protos of some files and the source of the others")):
            if variant not in o:
                continue
            v = o[variant]
            if "err" in v and "synthetic map entry" in v["err"] and twin_predicted(o):
                ctx.violation("relink-fails-map-entry-twin", "compiling again from %s fails because an earlier repeated field has a name with the same map-entry "
                              "name as a map field: %s" % (what, v["err"]), dict(rep, variant=variant, error=v["err"], errors=v.get("errors")))
            elif "err" in v:
                ctx.violation("relink-fails:" + variant, "compiling again from %s fails: %s" % (what, v["err"]),
                              dict(rep, variant=variant, error=v["err"], errors=v.get("errors")))
            elif v["diff"]:
                d = v["diff"][0]
                ctx.violation("relink-differs:" + variant, "compiling again from %s gives a different descriptor proto for %s" % (what, d["file"]),
                              dict(rep, variant=variant, file=d["file"], first=d.get("first", "")[:4000], second=d.get("second", "")[:4000]))
            if v.get("mutated"):
                ctx.violation("relink-mutates-input", "the protos handed to the second compilation were modified: %s" % ", ".join(v["mutated"]),
                              dict(rep, variant=variant))
        stats["bytewise_equal_after_reserialising"] += o["bytes"].get("bytewise_equal", 0)
        # ---- correspondence terms
        for d in o.get("corr", []):
            if "corr_err" in d:
                stats["corr_skipped"] += 1
                continue
            refs = d["refs"]
            if not refs:
                continue
            try:
                t = "RC %s %s [%s] [%s]" % (
                    c_vis(d["vis"]), c_name(d["pkg"]),
                    "; ".join("(%s, %s, %s)" % ("[" + "; ".join(c_name(x) for x in r["chain"]) + "]",
                                                "WType" if r["want"] == "T" else "WMessage", c_ref(r["before"])) for r in refs),
                    "; ".join(c_ref(r["after"]) for r in refs))
            except ValueError:
                stats["corr_skipped"] += 1
                continue
            stats["refs"] += len(refs)
            stats["relative_refs"] += sum(1 for r in refs if not r["before"].startswith("."))
            terms.append(t)
            meta.append(dict(rep, file=d["name"], refs=refs[:40]))
        for d in o.get("mcorr") or []:
            if d.get("rl_all_err", 0) != d["rl_err"]:
                # errors elsewhere: a file that depends on a failed file is not linked at all, its count says nothing
                stats["map_corr_skipped"] = stats.get("map_corr_skipped", 0) + 1
                continue
            mt = c_mfile(d)
            if mt not in mterms:
                mterms[mt] = dict(rep, file=d["name"], map_facts=d)
        # the JSON-name counts of the re-link presuppose that it got as far as validation: not after an error of another kind
        aborted = any("JSON name" not in x for x in (o.get("object") or {}).get("errors") or [])
        if aborted and o.get("jcorr"):
            stats["json_corr_skipped"] = stats.get("json_corr_skipped", 0) + 1
        for d in ([] if aborted else o.get("jcorr") or []):
            jt = c_jfile(d)
            if jt not in jterms:
                jterms[jt] = dict(rep, file=d["name"], json_facts=d)
        if len(ctx.samples) < 5 and c["origin"] == "warned" and warned and len(c["files"][c["order"][-1]]) < 700:
            ctx.sample({"order": c["order"], "mode": c["mode"], "warnings": o.get("warnings"), "last_file": c["files"][c["order"][-1]]})
        if len(ctx.samples) < 3 and not td and len(c["files"][c["order"][-1]]) < 700:
            ctx.sample({"order": c["order"], "mode": c["mode"], "last_file": c["files"][c["order"][-1]]})
    ctx.extra["c10_stats"] = stats
    if stats["accepted"] < 20:
        raise RuntimeError("too few accepted programs: %r" % stats)
    for w in ("no-syntax", "unused-import", "json-field", "json-enum", "deprecated-feature"):
        if stats.get("warned:" + w, 0) < 5:
            raise RuntimeError("too few accepted programs with a %s warning: %r" % (w, stats))
    for fk in SYNTH_FLOORS:
        if stats.get("synth:" + fk, 0) < 5:
            raise RuntimeError("too few accepted programs of the synthetic-construct stratum %s: %r" % (fk, stats))
    header = ("From Coq Require Import List Bool String.\nImport ListNotations.\n"
              "From PV Require Import Common.Corr Model.Relink.\nOpen Scope string_scope.\nOpen Scope list_scope.\n")
    uniq = {}
    for t, m in zip(terms, meta):
        uniq.setdefault(t, m)
    uterms = list(uniq)
    import time as _t
    ctx.extra["t_before_coq"] = round(_t.time() - ctx.t0, 1)
    ctx.extra["coq_terms"] = len(uterms)
    ctx.extra["coq_bytes"] = sum(len(t) for t in uterms)
    mism, err = coq_eval_mismatches("cases_C10", header, uterms, "relink_chk", shard_size=ctx.budget(10, 25))
    ctx.extra["t_after_coq"] = round(_t.time() - ctx.t0, 1)
    if err:
        raise RuntimeError(err)
    for k in mism:
        ctx.corr_break("relink:resolve", uniq[uterms[k]], {"file": uniq[uterms[k]]["file"]})
    # ---- JSON-name validation with and without the AST against Model/JsonNames.v
    jlist = list(jterms)
    ctx.extra["json_terms"] = len(jlist)
    for jt in jlist:
        ctx.count(("json", jt), " true" in jt, "json-names-file")
    jheader = ("From Coq Require Import List Bool String.\nImport ListNotations.\n"
               "From PV Require Import Common.Corr Model.JsonNames.\nOpen Scope string_scope.\nOpen Scope list_scope.\n")
    jm, err = coq_eval_mismatches("cases_C10j", jheader, jlist, "json_chk", shard_size=ctx.budget(60, 150))
    if err:
        raise RuntimeError(err)
    for k in jm:
        ctx.corr_break("relink:json-names", jterms[jlist[k]], {"file": jterms[jlist[k]]["file"], "term": jlist[k][:600]})
    # ---- references to map entries on the no-AST path against Model/MapRelink.v
    mlist = list(mterms)
    ctx.extra["map_terms"] = len(mlist)
    for mt in mlist:
        ctx.count(("map", mt), True, "map-fields-file")
    mheader = ("From Coq Require Import List Bool String.\nImport ListNotations.\n"
               "From PV Require Import Common.Corr Model.MapRelink.\nOpen Scope string_scope.\nOpen Scope list_scope.\n")
    mm, err = coq_eval_mismatches("cases_C10m", mheader, mlist, "map_chk_repaired" if MAP_REPAIRED else "map_chk", shard_size=ctx.budget(60, 150))
    if err:
        raise RuntimeError(err)
    for k in mm:
        ctx.corr_break("relink:map-entry-ref", mterms[mlist[k]], {"file": mterms[mlist[k]]["file"], "term": mlist[k][:600]})
