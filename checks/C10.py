"""C10 - Re-linking compiled output is a fixpoint."""
import glob, os, re
from vlib import *
import pgenlib

ID = "C10"
COQ_FILES = ["Common/Corr.v", "Model/Relink.v", "Proofs/Relink.v", "Model/JsonNames.v", "Proofs/JsonNames.v", "Props/C10.v"]
PROPS = "Props/C10.v"
THEOREMS = ["C10_resolve_absolute_idempotent", "C10_link_absolute_unchanged", "C10_link_idempotent", "C10_linked_refs_absolute",
            "C10_relink_json_errors_subset", "C10_relink_json_no_new_errors"]
AXIOMS_OK = []
TRUSTED = ["hand-written Gallina model Model/Relink.v of linker/resolve.go (resolve, resolveElement, resolveInFile order, resolveElementInFile, resolveElementRelative, fileScope, messageScope, and the rewriting of type_name / extendee / input_type / output_type) over a flattened file: visible symbols + references with their scopes",
           "hand-written Gallina model Model/JsonNames.v of linker/validate.go validateFieldJSONNames / hasCustomJSONName with and without the AST (a collecting reporter), validated on every run against the JSON-name warnings and errors the real source compilation and the real re-link report per file",
           "correspondence harness harness/cmd/relink (public API only; internal.JSONName is read, not re-implemented) and the program generators checks/pgenlib.py and gen_warned in checks/C10.py"]
ASSUMPTIONS = ["the theorems are about the reference-rewriting part of linking and about the JSON-name validation of message fields on the second pass; that every other part of the second compilation (symbol registration, option interpretation of already-interpreted options, validation, descriptor.proto handling) is the identity on a compiled proto is established by the direct oracle only (byte-identical deterministic marshal on every generated program and every compilable file of the repository's testdata), not proved",
               "for imported google/protobuf/*.proto files only messages and enums are put into the visible-symbol table of the correspondence (their fields are never the first component of a type reference)",
               "the serialised-and-decoded variant is compared after decoding both sides against the compiled extension types, because protobuf-go emits known extensions before unknown fields"]

KIND = {"M": "KMessage", "E": "KEnum", "S": "KService", "O": "KOther"}


# Name components are interned to short tokens before they are written as Coq strings: resolution only ever
# compares components for equality, the map is injective, and Coq strings are expensive to parse and check.
_TOK = {}
_DIGITS = "0123456789abcdefghijklmnopqrstuvwxyz"


def c_str(s):
    if s not in _TOK:
        n, t = len(_TOK), ""
        while True:
            t = _DIGITS[n % 36] + t
            n //= 36
            if n == 0:
                break
        _TOK[s] = t
    return '"%s"' % _TOK[s]


def c_name(parts):
    return "[" + "; ".join(c_str(p) for p in parts) + "]"


def c_ref(text):
    if text.startswith("."):
        return "(mkref true %s)" % c_name(text[1:].split("."))
    return "(mkref false %s)" % c_name(text.split(".") if text else [])


def c_vis(vis):
    return "[" + "; ".join("mkfs %s [%s]" % (c_name(v["pkg"]), "; ".join("(%s, %s)" % (c_name(n), KIND[k]) for n, k in v["decls"]))
                          for v in vis) + "]"


def testdata_cases():
    """Every .proto of the repository's testdata, against the root it is written for."""
    out = []
    td = os.path.join(REPO, "internal", "testdata")
    roots = [td] + [d for d in sorted(glob.glob(os.path.join(td, "*"))) if os.path.isdir(d)]
    for root in roots:
        files = {}
        for p in glob.glob(os.path.join(root, "**", "*.proto"), recursive=True):
            try:
                files[os.path.relpath(p, root)] = open(p, encoding="utf-8").read()
            except Exception:
                pass
        if not files:
            continue
        tops = sorted(n for n in files if not n.startswith("google/protobuf/"))
        for n in tops:
            out.append({"files": files, "order": [n], "origin": "repo:%s:%s" % (os.path.relpath(root, REPO), n)})
    return out


# ------------------------------------------------------------------------------------------------
# Programs whose compilation from source succeeds WITH WARNINGS, and pseudo-options. Every condition the compiler only
# warns about is a decision taken with the source at hand; the re-link takes it again from the descriptor proto alone.
JSON_GROUPS = [["foo_bar", "fooBar"], ["foo_bar", "fooBar", "foo__bar"], ["a_b_c", "aB_c"], ["x__y", "x_y"], ["_z", "Z"],
               ["long_name_1", "longName1", "long__name_1"], ["v_2", "v2"]]
ENUM_GROUPS = [["%s_FOO_BAR", "FOO_BAR"], ["%s_FOO_BAR", "foo_bar", "Foo_Bar"], ["A_B", "%s_A_B", "a_b"], ["X__Y", "X_Y"]]
UNUSED_STD = ["google/protobuf/any.proto", "google/protobuf/timestamp.proto", "google/protobuf/descriptor.proto", "google/protobuf/empty.proto"]


def gen_warned(rng, want=None):
    """A program of 1-3 files; each file takes one or more warning-only ingredients: no syntax declaration, unused imports
    (of an earlier file, public or not, or of a standard file), default JSON names of fields that collide in a message that is
    not JSON compliant (proto2; editions with json_format = LEGACY_BEST_EFFORT on the file or the message; also with one side
    renamed by a custom json_name, inside oneofs, with map fields and groups), enum values whose camel-case names collide (same
    conditions), a deprecated feature (pb.go legacy_unmarshal_json_enum). Plus the pseudo-options json_name (also spelled equal
    to the default name) and default. `want` forces one ingredient."""
    files, order, exported = {}, [], []
    uid = [0]

    def nid():
        uid[0] += 1
        return uid[0]
    nfiles = rng.range(1, 3)
    forced_at = rng.below(nfiles)
    for i in range(nfiles):
        syn = rng.choice(["proto2", "proto2", "nosyntax", "editions", "editions", "proto3"])
        ing = set(x for x in ("unused", "json", "enum", "samejson", "deprecated") if rng.chance(1, 3))
        forced = None
        if i == forced_at:
            forced = want or rng.choice(["unused", "json", "enum", "nosyntax", "deprecated"])
            ing.add(forced)
            if forced in ("json", "enum") and syn == "proto3":
                syn = "proto2"
        if "nosyntax" in ing:
            syn = "nosyntax"
        if "deprecated" in ing:
            syn = "editions"
        if syn == "proto3":
            ing -= {"json", "enum"}       # errors there
        p2 = syn in ("proto2", "nosyntax")
        lab = "optional " if p2 else ""
        name = "w%d.proto" % i
        pkg = rng.choice(["", "w%d" % i, "w.sub%d" % i])
        head, body = [], []
        if syn == "editions":
            head.append('edition = "2023";')
        elif syn != "nosyntax":
            head.append('syntax = "%s";' % syn)
        if pkg:
            head.append("package %s;" % pkg)
        file_legacy = syn == "editions" and rng.chance(1, 2)
        force_msg_legacy = syn == "editions" and not file_legacy and forced in ("json", "enum")
        # imports: used and unused
        used = []
        for (fn, fpkg, msgs) in exported:
            r = rng.below(4)
            if r == 0 and msgs:
                head.append('import %s"%s";' % ("public " if rng.chance(1, 4) else "", fn))
                used.append("." + (fpkg + "." if fpkg else "") + rng.choice(msgs))
            elif r == 1 or ("unused" in ing and r == 2):
                head.append('import %s"%s";' % ("public " if rng.chance(1, 4) else "", fn))
        if "unused" in ing:
            for std in rng.shuffle(UNUSED_STD)[: rng.range(1, 2)]:
                head.append('import "%s";' % std)
        if "deprecated" in ing:
            head.append('import "google/protobuf/go_features.proto";')
            if rng.chance(1, 2):
                head.append("option features.(pb.go).legacy_unmarshal_json_enum = true;")
        if file_legacy:
            head.append("option features.json_format = LEGACY_BEST_EFFORT;")
        my_msgs = []
        for _ in range(rng.range(1, 3)):
            mname = "W%d" % nid()
            my_msgs.append(mname)
            lines = ["message %s {" % mname]
            msg_legacy = False
            if syn == "editions" and not file_legacy and (force_msg_legacy or rng.chance(1, 2)):
                lines.append("  option features.json_format = LEGACY_BEST_EFFORT;")
                msg_legacy = True
            tolerant = p2 or file_legacy or msg_legacy
            num = [0]

            def fld(fname, typ="int32", opts=None, ind="  ", label=None):
                num[0] += rng.range(1, 3)
                o = " [%s]" % ", ".join(opts) if opts else ""
                return "%s%s%s %s = %d%s;" % (ind, lab if label is None else label, typ, fname, num[0], o)
            stmts = []
            if "json" in ing and tolerant:
                grp = list(rng.choice(JSON_GROUPS))
                k = rng.below(6)
                fl = []
                for j, fname in enumerate(rng.shuffle(grp)):
                    opts = []
                    if k == 0 and j == 0:
                        opts.append('json_name = "renamed%d"' % nid())      # one side custom: the defaults still collide
                    typ = rng.choice(["int32", "string", "bool", "bytes", "uint64"])
                    fl.append((fname, typ, opts))
                if k == 1 and len(fl) >= 2:
                    # two of them inside a oneof
                    stmts.append(fld(fl[0][0], fl[0][1], fl[0][2]))
                    inner = [fld(f[0], f[1], f[2], ind="    ", label="") for f in fl[1:]]
                    stmts.append("  oneof o%d {\n%s\n  }" % (nid(), "\n".join(inner)))
                elif k == 2:
                    # a map field on one side
                    stmts.append(fld(fl[0][0], "map<string, int32>", fl[0][2], label=""))
                    stmts += [fld(f[0], f[1], f[2]) for f in fl[1:]]
                elif k == 3:
                    stmts += [fld(f[0], f[1], f[2], label="repeated ") for f in fl]
                else:
                    stmts += [fld(f[0], f[1], f[2]) for f in fl]
            if "samejson" in ing or rng.chance(1, 3):
                stmts.append(fld("q_r%d" % nid(), "string", ['json_name = "qR%d"' % uid[0]]))      # explicit, equal to the default
            if rng.chance(1, 3):
                stmts.append(fld("c_d%d" % nid(), "int32", ['json_name = "other%d"' % uid[0]]))
            if syn != "proto3" and rng.chance(1, 2):
                k = rng.below(4)
                typ, dv = [("int32", "-7"), ("string", '"a\\"b"'), ("double", "-inf"), ("uint64", "0xFFFFFFFFFFFFFFFF")][k]
                stmts.append(fld("d%d" % nid(), typ, ["default = %s" % dv] + (['json_name = "D%d"' % uid[0]] if rng.chance(1, 3) else [])))
            if used and rng.chance(2, 3):
                stmts.append(fld("u%d" % nid(), rng.choice(used)))
            if p2 and rng.chance(1, 4):
                num[0] += 1
                stmts.append("  optional group Grp%d = %d { optional int32 g_x = 1; optional int32 gX = 2; }" % (nid(), num[0]))
            if "enum" in ing and tolerant and (forced == "enum" or rng.chance(1, 2)):
                ename = "N%d" % nid()
                vals = [v % ename if "%s" in v else v for v in rng.choice(ENUM_GROUPS)]
                stmts.append("  enum %s { %s }" % (ename, " ".join("%s = %d;" % (v, j) for j, v in enumerate(vals))))
            if not stmts:
                stmts.append(fld("only%d" % nid()))
            lines += rng.shuffle(stmts)
            lines.append("}")
            body += lines
        if "enum" in ing and (p2 or file_legacy):
            ename = "T%d" % nid()
            vals = [v % ename if "%s" in v else v for v in rng.choice(ENUM_GROUPS)]
            extra = ""
            if "deprecated" in ing:
                extra = " option features.(pb.go).legacy_unmarshal_json_enum = true;"
            body.append("enum %s {%s %s }" % (ename, extra, " ".join("%s = %d;" % (v, j) for j, v in enumerate(vals))))
        elif "deprecated" in ing:
            body.append("enum T%d { option features.(pb.go).legacy_unmarshal_json_enum = true; T%d_Z = 0; }" % (nid(), uid[0]))
        files[name] = "\n".join(head + body) + "\n"
        order.append(name)
        exported.append((name, pkg, my_msgs))
    return files, order


CORPUS_WARNED = [
    # the shape of the defect class: default JSON names collide in proto2 (warning from source)
    'syntax = "proto2";\nmessage M { optional string foo_bar = 1; optional string fooBar = 2; }\n',
    'message NoSyntax { optional int32 a_b = 1; optional int32 aB = 2; optional int32 a__b = 3; }\n',
    'edition = "2023";\noption features.json_format = LEGACY_BEST_EFFORT;\nmessage M { int32 foo_bar = 1; int32 fooBar = 2; enum E { E_A_B = 0; A_B = 1; } }\n',
    'edition = "2023";\nmessage M { option features.json_format = LEGACY_BEST_EFFORT; int32 foo_bar = 1 [json_name = "x"]; int32 fooBar = 2; message Strict { int32 p_q = 1 [json_name = "pQ"]; } }\n',
    'syntax = "proto2";\nimport "google/protobuf/any.proto";\nimport public "google/protobuf/empty.proto";\nenum E { E_FOO_BAR = 0; FOO_BAR = 1; foo_bar = 2; }\nmessage M { oneof o { int32 x_y = 1; int32 xY = 2; } map<string, int32> x__y = 3; }\n',
    'edition = "2023";\nimport "google/protobuf/go_features.proto";\noption features.(pb.go).legacy_unmarshal_json_enum = true;\nenum E { option features.(pb.go).legacy_unmarshal_json_enum = true; A = 0; }\n',
    # explicit json_name equal to the default name: custom for the source compilation, default for the re-link
    'syntax = "proto3";\nmessage M { int32 foo_bar = 1 [json_name = "fooBar"]; int32 baz = 2 [json_name = "baz"]; }\n',
]


def c_jfile(d):
    msgs = "; ".join("(%s, [%s])" % (coq_bool(m["compliant"]), "; ".join("mkjf %s %s %s %s" % (c_str(f[0]), c_str(f[1]), c_str(f[2]), coq_bool(f[3])) for f in m["fields"]))
                     for m in d["msgs"])
    return "JFile [%s] %d %d %d" % (msgs, d["src_warn"], d["rl_warn"], d["rl_err"])


def run(ctx):
    import time as _t0
    ctx.extra["t_run_start"] = round(_t0.time() - ctx.t0, 1)
    rng = ctx.rng
    nprog = ctx.budget(160, 3000)
    nwarn = ctx.budget(70, 1200)    # programs that compile from source with warnings
    ncorr = ctx.budget(30, 400)     # programs whose references are also run through the Coq model
    ctx.rule = ("hand-written programs with shadowing names + every compilable .proto of the repository's internal/testdata (each against the root directory it is written for) + %d generated "
                "multi-file programs (proto2/proto3/editions, imports incl. public, type references spelled absolute / fully qualified / relative to an enclosing "
                "message or package prefix, maps, groups, extensions, custom options with message values, services, feature overrides); each compiled and its "
                "output protos fed back (all files incl. dependencies) as the objects themselves, as serialised-and-decoded copies and as linked descriptors, "
                "and in a mixed form (a random subset of the files as protos, the rest from source), "
                "under source-info modes {none, standard, extra} with the same or a different mode for the second compilation; + %d programs that compile from "
                "source WITH WARNINGS (every warning-only condition of the compiler: no syntax declaration, unused imports, colliding default JSON names of fields "
                "and camel-case names of enum values in proto2 / LEGACY_BEST_EFFORT scopes, deprecated features) and carry the pseudo-options json_name (also equal to "
                "the default) and default; the JSON-name validation of their messages goes through the Coq model with and without the AST; one evaluation = one program x "
                "modes (the first %d generated programs and all testdata files also go through the Coq model of name resolution); non-trivial = the program has at least one message/enum-typed reference "
                "or compiled with a warning" % (nprog, nwarn, ncorr))
    cases = []
    cfg = pgenlib.Cfg(max_depth=3)
    for k in range(nprog):
        p = pgenlib.gen_program(rng, cfg)
        mode = rng.choice([0, 1, 1, 3, 7])
        c = {"files": p.files, "order": p.order, "mode": mode, "corr": k < ncorr, "origin": "generated"}
        if rng.chance(1, 4):
            c["mode2"] = rng.choice([0, 1, 3])
        cases.append(c)
    for t in pgenlib.CORPUS_SHADOW:
        cases.insert(0, {"files": {"c.proto": t}, "order": ["c.proto"], "mode": 1, "corr": True, "origin": "corpus"})
    for t in CORPUS_WARNED + pgenlib.CORPUS_C04 + pgenlib.CORPUS_C04_LOOKUPS:
        cases.insert(0, {"files": {"c.proto": t}, "order": ["c.proto"], "mode": rng.choice([0, 1, 7]), "corr": False, "jcorr": True, "origin": "corpus"})
    classes = ["unused", "json", "enum", "nosyntax", "deprecated"]
    for k in range(nwarn):
        files, order = gen_warned(rng, classes[k % len(classes)])
        c = {"files": files, "order": order, "mode": rng.choice([0, 1, 1, 3, 7]), "corr": False, "jcorr": True, "origin": "warned"}
        if rng.chance(1, 4):
            c["mode2"] = rng.choice([0, 1, 3])
        cases.append(c)
    # mixed input forms: a random non-empty subset of the files as protos
    for c in cases:
        names = list(c["order"])
        if c["origin"] in ("generated", "warned", "corpus"):
            sub = [n for n in names if rng.chance(1, 2)] or [rng.choice(names)]
            c["asproto"] = sub
    tcases = testdata_cases()
    for c in tcases:
        c["mode"] = 1
        c["corr"] = True
    seen_td = set()
    for c in tcases:
        # the same file appears under several roots; keep each (root, file) once
        if c["origin"] in seen_td:
            continue
        seen_td.add(c["origin"])
        cases.append(c)
    outs = ctx.impl("relink", [{k: c[k] for k in c if k != "origin"} for c in cases], shards=NCPU)
    terms, meta = [], []
    jterms = {}
    stats = {"accepted": 0, "rejected": 0, "testdata_accepted": 0, "testdata_rejected": 0, "refs": 0, "relative_refs": 0,
             "bytewise_equal_after_reserialising": 0, "corr_skipped": 0}
    for c, o in zip(cases, outs):
        td = c["origin"].startswith("repo:")
        rep = {"origin": c["origin"], "order": c["order"], "mode": c["mode"], "mode2": c.get("mode2", c["mode"])}
        if not td or len(c["files"]) <= 6:
            rep["files"] = c["files"]
        else:
            rep["files"] = {n: c["files"][n] for n in c["order"]}
            rep["note"] = "remaining files: the repository's testdata under " + c["origin"].split(":")[1]
        if "crash" in o or "panic" in o:
            ctx.violation("panic", "compiling or re-linking panicked / crashed", dict(rep, observed=o))
            continue
        if "err" in o:
            stats["testdata_rejected" if td else "rejected"] += 1
            ctx.count((c["origin"], tuple(c["order"]), c["mode"], hash(c["files"][c["order"][0]])), False, "rejected" + ("-testdata" if td else ""))
            continue
        stats["testdata_accepted" if td else "accepted"] += 1
        nrefs = o.get("nrefs", 0)
        warned = sorted(k for k, n in (o.get("warnings") or {}).items() if n)
        for w in warned:
            stats["warned:" + w] = stats.get("warned:" + w, 0) + 1
        ctx.count((c["origin"], tuple(c["order"]), c["mode"], c.get("mode2"), hash(c["files"][c["order"][0]])), nrefs > 0 or bool(warned),
                  ("testdata" if td else c["origin"]) + ("-mode-change" if "mode2" in c and c["mode2"] != c["mode"] else "")
                  + ("-warned" if warned else ""))
        rep["warnings_of_the_first_compilation"] = o.get("warnings")
        if "asproto" in c:
            rep["asproto"] = c["asproto"]
        # ---- direct oracle
        for variant, what in (("object", "the output FileDescriptorProto objects"), ("bytes", "serialised and decoded copies of the output protos"),
                              ("desc", "the linked descriptors"), ("mixed", "the output protos of some files and the source of the others")):
            if variant not in o:
                continue
            v = o[variant]
            if "err" in v:
                ctx.violation("relink-fails:" + variant, "compiling again from %s fails: %s" % (what, v["err"]),
                              dict(rep, variant=variant, error=v["err"], errors=v.get("errors")))
            elif v["diff"]:
                d = v["diff"][0]
                ctx.violation("relink-differs:" + variant, "compiling again from %s gives a different descriptor proto for %s" % (what, d["file"]),
                              dict(rep, variant=variant, file=d["file"], first=d.get("first", "")[:4000], second=d.get("second", "")[:4000]))
            if v.get("mutated"):
                ctx.violation("relink-mutates-input", "the protos handed to the second compilation were modified: %s" % ", ".join(v["mutated"]),
                              dict(rep, variant=variant))
        stats["bytewise_equal_after_reserialising"] += o["bytes"].get("bytewise_equal", 0)
        # ---- correspondence terms
        for d in o.get("corr", []):
            if "corr_err" in d:
                stats["corr_skipped"] += 1
                continue
            refs = d["refs"]
            if not refs:
                continue
            try:
                t = "RC %s %s [%s] [%s]" % (
                    c_vis(d["vis"]), c_name(d["pkg"]),
                    "; ".join("(%s, %s, %s)" % ("[" + "; ".join(c_name(x) for x in r["chain"]) + "]",
                                                "WType" if r["want"] == "T" else "WMessage", c_ref(r["before"])) for r in refs),
                    "; ".join(c_ref(r["after"]) for r in refs))
            except ValueError:
                stats["corr_skipped"] += 1
                continue
            stats["refs"] += len(refs)
            stats["relative_refs"] += sum(1 for r in refs if not r["before"].startswith("."))
            terms.append(t)
            meta.append(dict(rep, file=d["name"], refs=refs[:40]))
        for d in o.get("jcorr") or []:
            jt = c_jfile(d)
            if jt not in jterms:
                jterms[jt] = dict(rep, file=d["name"], json_facts=d)
        if len(ctx.samples) < 5 and c["origin"] == "warned" and warned and len(c["files"][c["order"][-1]]) < 700:
            ctx.sample({"order": c["order"], "mode": c["mode"], "warnings": o.get("warnings"), "last_file": c["files"][c["order"][-1]]})
        if len(ctx.samples) < 3 and not td and len(c["files"][c["order"][-1]]) < 700:
            ctx.sample({"order": c["order"], "mode": c["mode"], "last_file": c["files"][c["order"][-1]]})
    ctx.extra["c10_stats"] = stats
    if stats["accepted"] < 20:
        raise RuntimeError("too few accepted programs: %r" % stats)
    for w in ("no-syntax", "unused-import", "json-field", "json-enum", "deprecated-feature"):
        if stats.get("warned:" + w, 0) < 5:
            raise RuntimeError("too few accepted programs with a %s warning: %r" % (w, stats))
    header = ("From Coq Require Import List Bool String.\nImport ListNotations.\n"
              "From PV Require Import Common.Corr Model.Relink.\nOpen Scope string_scope.\nOpen Scope list_scope.\n")
    uniq = {}
    for t, m in zip(terms, meta):
        uniq.setdefault(t, m)
    uterms = list(uniq)
    import time as _t
    ctx.extra["t_before_coq"] = round(_t.time() - ctx.t0, 1)
    ctx.extra["coq_terms"] = len(uterms)
    ctx.extra["coq_bytes"] = sum(len(t) for t in uterms)
    mism, err = coq_eval_mismatches("cases_C10", header, uterms, "relink_chk", shard_size=ctx.budget(10, 25))
    ctx.extra["t_after_coq"] = round(_t.time() - ctx.t0, 1)
    if err:
        raise RuntimeError(err)
    for k in mism:
        ctx.corr_break("relink:resolve", uniq[uterms[k]], {"file": uniq[uterms[k]]["file"]})
    # ---- JSON-name validation with and without the AST against Model/JsonNames.v
    jlist = list(jterms)
    ctx.extra["json_terms"] = len(jlist)
    for jt in jlist:
        ctx.count(("json", jt), " true" in jt, "json-names-file")
    jheader = ("From Coq Require Import List Bool String.\nImport ListNotations.\n"
               "From PV Require Import Common.Corr Model.JsonNames.\nOpen Scope string_scope.\nOpen Scope list_scope.\n")
    jm, err = coq_eval_mismatches("cases_C10j", jheader, jlist, "json_chk", shard_size=ctx.budget(60, 150))
    if err:
        raise RuntimeError(err)
    for k in jm:
        ctx.corr_break("relink:json-names", jterms[jlist[k]], {"file": jterms[jlist[k]]["file"], "term": jlist[k][:600]})
