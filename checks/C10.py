"""C10 - Re-linking compiled output is a fixpoint."""
import glob, os, re
from vlib import *
import pgenlib

ID = "C10"
COQ_FILES = ["Common/Corr.v", "Model/Relink.v", "Proofs/Relink.v", "Props/C10.v"]
PROPS = "Props/C10.v"
THEOREMS = ["C10_resolve_absolute_idempotent", "C10_link_absolute_unchanged", "C10_link_idempotent", "C10_linked_refs_absolute"]
AXIOMS_OK = []
TRUSTED = ["hand-written Gallina model Model/Relink.v of linker/resolve.go (resolve, resolveElement, resolveInFile order, resolveElementInFile, resolveElementRelative, fileScope, messageScope, and the rewriting of type_name / extendee / input_type / output_type) over a flattened file: visible symbols + references with their scopes",
           "correspondence harness harness/cmd/relink (public API only) and the program generator checks/pgenlib.py"]
ASSUMPTIONS = ["the theorem is about the reference-rewriting part of linking; that every other part of the second compilation (symbol registration, option interpretation of already-interpreted options, validation, descriptor.proto handling) is the identity on a compiled proto is established by the direct oracle only (byte-identical deterministic marshal on every generated program and every compilable file of the repository's testdata), not proved",
               "for imported google/protobuf/*.proto files only messages and enums are put into the visible-symbol table of the correspondence (their fields are never the first component of a type reference)",
               "the serialised-and-decoded variant is compared after decoding both sides against the compiled extension types, because protobuf-go emits known extensions before unknown fields"]

KIND = {"M": "KMessage", "E": "KEnum", "S": "KService", "O": "KOther"}


# Name components are interned to short tokens before they are written as Coq strings: resolution only ever
# compares components for equality, the map is injective, and Coq strings are expensive to parse and check.
_TOK = {}
_DIGITS = "0123456789abcdefghijklmnopqrstuvwxyz"


def c_str(s):
    if s not in _TOK:
        n, t = len(_TOK), ""
        while True:
            t = _DIGITS[n % 36] + t
            n //= 36
            if n == 0:
                break
        _TOK[s] = t
    return '"%s"' % _TOK[s]


def c_name(parts):
    return "[" + "; ".join(c_str(p) for p in parts) + "]"


def c_ref(text):
    if text.startswith("."):
        return "(mkref true %s)" % c_name(text[1:].split("."))
    return "(mkref false %s)" % c_name(text.split(".") if text else [])


def c_vis(vis):
    return "[" + "; ".join("mkfs %s [%s]" % (c_name(v["pkg"]), "; ".join("(%s, %s)" % (c_name(n), KIND[k]) for n, k in v["decls"]))
                          for v in vis) + "]"


def testdata_cases():
    """Every .proto of the repository's testdata, against the root it is written for."""
    out = []
    td = os.path.join(REPO, "internal", "testdata")
    roots = [td] + [d for d in sorted(glob.glob(os.path.join(td, "*"))) if os.path.isdir(d)]
    for root in roots:
        files = {}
        for p in glob.glob(os.path.join(root, "**", "*.proto"), recursive=True):
            try:
                files[os.path.relpath(p, root)] = open(p, encoding="utf-8").read()
            except Exception:
                pass
        if not files:
            continue
        tops = sorted(n for n in files if not n.startswith("google/protobuf/"))
        for n in tops:
            out.append({"files": files, "order": [n], "origin": "repo:%s:%s" % (os.path.relpath(root, REPO), n)})
    return out


def run(ctx):
    import time as _t0
    ctx.extra["t_run_start"] = round(_t0.time() - ctx.t0, 1)
    rng = ctx.rng
    nprog = ctx.budget(180, 3000)
    ncorr = ctx.budget(30, 400)     # programs whose references are also run through the Coq model
    ctx.rule = ("hand-written programs with shadowing names + every compilable .proto of the repository's internal/testdata (each against the root directory it is written for) + %d generated "
                "multi-file programs (proto2/proto3/editions, imports incl. public, type references spelled absolute / fully qualified / relative to an enclosing "
                "message or package prefix, maps, groups, extensions, custom options with message values, services, feature overrides); each compiled and its "
                "output protos fed back (all files incl. dependencies) as the objects themselves, as serialised-and-decoded copies and as linked descriptors, "
                "under source-info modes {none, standard, extra} with the same or a different mode for the second compilation; one evaluation = one program x "
                "modes (the first %d generated programs and all testdata files also go through the Coq model of name resolution); non-trivial = the program has at least one message/enum-typed reference" % (nprog, ncorr))
    cases = []
    cfg = pgenlib.Cfg(max_depth=3)
    for k in range(nprog):
        p = pgenlib.gen_program(rng, cfg)
        mode = rng.choice([0, 1, 1, 3, 7])
        c = {"files": p.files, "order": p.order, "mode": mode, "corr": k < ncorr, "origin": "generated"}
        if rng.chance(1, 4):
            c["mode2"] = rng.choice([0, 1, 3])
        cases.append(c)
    for t in pgenlib.CORPUS_SHADOW:
        cases.insert(0, {"files": {"c.proto": t}, "order": ["c.proto"], "mode": 1, "corr": True, "origin": "corpus"})
    tcases = testdata_cases()
    for c in tcases:
        c["mode"] = 1
        c["corr"] = True
    seen_td = set()
    for c in tcases:
        # the same file appears under several roots; keep each (root, file) once
        if c["origin"] in seen_td:
            continue
        seen_td.add(c["origin"])
        cases.append(c)
    outs = ctx.impl("relink", [{k: c[k] for k in c if k != "origin"} for c in cases], shards=NCPU)
    terms, meta = [], []
    stats = {"accepted": 0, "rejected": 0, "testdata_accepted": 0, "testdata_rejected": 0, "refs": 0, "relative_refs": 0,
             "bytewise_equal_after_reserialising": 0, "corr_skipped": 0}
    for c, o in zip(cases, outs):
        td = c["origin"].startswith("repo:")
        rep = {"origin": c["origin"], "order": c["order"], "mode": c["mode"], "mode2": c.get("mode2", c["mode"])}
        if not td or len(c["files"]) <= 6:
            rep["files"] = c["files"]
        else:
            rep["files"] = {n: c["files"][n] for n in c["order"]}
            rep["note"] = "remaining files: the repository's testdata under " + c["origin"].split(":")[1]
        if "crash" in o or "panic" in o:
            ctx.violation("panic", "compiling or re-linking panicked / crashed", dict(rep, observed=o))
            continue
        if "err" in o:
            stats["testdata_rejected" if td else "rejected"] += 1
            ctx.count((c["origin"], tuple(c["order"]), c["mode"], hash(c["files"][c["order"][0]])), False, "rejected" + ("-testdata" if td else ""))
            continue
        stats["testdata_accepted" if td else "accepted"] += 1
        nrefs = o.get("nrefs", 0)
        ctx.count((c["origin"], tuple(c["order"]), c["mode"], c.get("mode2"), hash(c["files"][c["order"][0]])), nrefs > 0,
                  ("testdata" if td else "generated") + ("-mode-change" if "mode2" in c and c["mode2"] != c["mode"] else ""))
        # ---- direct oracle
        for variant, what in (("object", "the output FileDescriptorProto objects"), ("bytes", "serialised and decoded copies of the output protos"),
                              ("desc", "the linked descriptors")):
            v = o[variant]
            if "err" in v:
                ctx.violation("relink-fails:" + variant, "compiling again from %s fails: %s" % (what, v["err"]), dict(rep, variant=variant, error=v["err"]))
            elif v["diff"]:
                d = v["diff"][0]
                ctx.violation("relink-differs:" + variant, "compiling again from %s gives a different descriptor proto for %s" % (what, d["file"]),
                              dict(rep, variant=variant, file=d["file"], first=d.get("first", "")[:4000], second=d.get("second", "")[:4000]))
            if v.get("mutated"):
                ctx.violation("relink-mutates-input", "the protos handed to the second compilation were modified: %s" % ", ".join(v["mutated"]),
                              dict(rep, variant=variant))
        stats["bytewise_equal_after_reserialising"] += o["bytes"].get("bytewise_equal", 0)
        # ---- correspondence terms
        for d in o.get("corr", []):
            if "corr_err" in d:
                stats["corr_skipped"] += 1
                continue
            refs = d["refs"]
            if not refs:
                continue
            try:
                t = "RC %s %s [%s] [%s]" % (
                    c_vis(d["vis"]), c_name(d["pkg"]),
                    "; ".join("(%s, %s, %s)" % ("[" + "; ".join(c_name(x) for x in r["chain"]) + "]",
                                                "WType" if r["want"] == "T" else "WMessage", c_ref(r["before"])) for r in refs),
                    "; ".join(c_ref(r["after"]) for r in refs))
            except ValueError:
                stats["corr_skipped"] += 1
                continue
            stats["refs"] += len(refs)
            stats["relative_refs"] += sum(1 for r in refs if not r["before"].startswith("."))
            terms.append(t)
            meta.append(dict(rep, file=d["name"], refs=refs[:40]))
        if len(ctx.samples) < 3 and not td and len(c["files"][c["order"][-1]]) < 700:
            ctx.sample({"order": c["order"], "mode": c["mode"], "last_file": c["files"][c["order"][-1]]})
    ctx.extra["c10_stats"] = stats
    if stats["accepted"] < 20:
        raise RuntimeError("too few accepted programs: %r" % stats)
    header = ("From Coq Require Import List Bool String.\nImport ListNotations.\n"
              "From PV Require Import Common.Corr Model.Relink.\nOpen Scope string_scope.\nOpen Scope list_scope.\n")
    uniq = {}
    for t, m in zip(terms, meta):
        uniq.setdefault(t, m)
    uterms = list(uniq)
    import time as _t
    ctx.extra["t_before_coq"] = round(_t.time() - ctx.t0, 1)
    ctx.extra["coq_terms"] = len(uterms)
    ctx.extra["coq_bytes"] = sum(len(t) for t in uterms)
    mism, err = coq_eval_mismatches("cases_C10", header, uterms, "relink_chk", shard_size=ctx.budget(10, 25))
    ctx.extra["t_after_coq"] = round(_t.time() - ctx.t0, 1)
    if err:
        raise RuntimeError(err)
    for k in mism:
        ctx.corr_break("relink:resolve", uniq[uterms[k]], {"file": uniq[uterms[k]]["file"]})
