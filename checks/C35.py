"""C35 - Incremental recompilation equals batch compilation."""
from vlib import *

ID = "C35"
COQ_FILES = ["Model/IncExec.v", "Proofs/IncExec1.v", "Proofs/IncExec2.v", "Proofs/IncExec3.v", "Proofs/IncExec4.v",
             "Common/Corr.v", "Props/C35.v"]
PROPS = "Props/C35.v"
THEOREMS = ["C35_incremental_eq_batch", "C35_incremental_eq_batch_local"]
AXIOMS_OK = []
TRUSTED = ["hand-written small-step Gallina model of experimental/incremental (Model/IncExec.v), tied to the working tree by "
           "checks/C33.py / C34.py; C35_incremental_eq_batch is a corollary of C33_run_returns_fresh_values on that model",
           "harness harness/cmd/increcompile: real incremental.Executor with the real queries.File/AST/IR/Link on generated "
           ".proto workspaces and edit histories (edits of files and of the set / order of workspace members); the reference is a "
           "brand-new executor, session and opener on the same files and members"]
ASSUMPTIONS = ["the theorem's hypothesis (shape of a world): every query's result is a function of the opener's content for the path "
               "it names and of the results of the queries it resolved, and so is the sequence of its Resolve calls; after an edit the "
               "File keys (ReportError=false) of the changed paths are evicted.  The check tests this hypothesis on the real queries",
               "queries do not panic (C34) and imports are acyclic in the generated workspaces (cyclic imports are reported in a "
               "schedule-dependent way, a C36 finding); diagnostics are compared as a multiset of individually rendered diagnostics "
               "(their order is C36)",
               "descriptors are compared as bytes produced by fdp.DescriptorProtoBytes"]

SCALARS = ["int32", "int64", "uint32", "string", "bool", "bytes", "double", "sint32", "fixed64"]


class WS:
    """a small multi-file workspace: files f<i>.proto, package pk<i>, imports to lower-numbered files (acyclic)"""

    def __init__(self, rng, nfiles):
        self.rng = rng
        self.files = {}
        for i in range(nfiles):
            self.files[i] = self.new_file(i)

    def new_file(self, i):
        rng = self.rng
        older = [j for j in self.files if j < i]
        imports = [j for j in older if rng.chance(1, 2)]
        f = {"pkg": "pk%d" % i, "imports": imports, "public": [], "msgs": [], "enums": [], "broken": None, "comment": 0}
        if rng.chance(1, 3):
            f["enums"].append({"name": "E%d" % i, "vals": ["E%d_ZERO" % i, "E%d_ONE" % i]})
        for j in range(rng.range(1, 3)):
            f["msgs"].append({"name": "M%d_%d" % (i, j), "fields": []})
        for m in f["msgs"]:
            for k in range(rng.range(1, 4)):
                m["fields"].append(self.new_field(i, f, k + 1))
        return f

    def visible_types(self, i, f):
        out = []
        for m in f["msgs"]:
            out.append(m["name"])
        for e in f["enums"]:
            out.append(e["name"])
        for j in f["imports"]:
            g = self.files.get(j)
            if g:
                out += ["%s.%s" % (g["pkg"], m["name"]) for m in g["msgs"]]
                out += ["%s.%s" % (g["pkg"], e["name"]) for e in g["enums"]]
        return out

    def new_field(self, i, f, num):
        rng = self.rng
        vis = self.visible_types(i, f)
        ty = rng.choice(vis) if vis and rng.chance(1, 2) else rng.choice(SCALARS)
        return {"name": "f%d" % num, "type": ty, "num": num, "rep": rng.chance(1, 5)}

    def render(self, i):
        f = self.files[i]
        out = ["syntax = \"proto3\";", "package %s;" % f["pkg"]]
        for j in f["imports"]:
            out.append("import %s\"f%d.proto\";" % ("public " if j in f["public"] else "", j))
        if f["broken"] == "import":
            out.append("import \"missing_%d.proto\";" % i)
        for k in range(f["comment"]):
            out.append("// edit %d" % k)
        for e in f["enums"]:
            out.append("enum %s { %s }" % (e["name"], " ".join("%s = %d;" % (v, n) for n, v in enumerate(e["vals"]))))
        for m in f["msgs"]:
            fields = " ".join("%s%s %s = %d;" % ("repeated " if x["rep"] else "", x["type"], x["name"], x["num"]) for x in m["fields"])
            out.append("message %s { %s }" % (m["name"], fields))
        if f["broken"] == "syntax":
            out.append("message Broken { int32 x = ; ")
        return "\n".join(out) + "\n"

    def snapshot(self):
        return {"f%d.proto" % i: self.render(i) for i in self.files}

    def edit(self):
        """one random edit; returns the harness edit {set: {...}, del: [...]} and its class"""
        rng = self.rng
        before = self.snapshot()
        kinds = ["type", "type", "addfield", "delfield", "rename", "breakimport", "repair", "addfile", "delfile", "pkg", "syntax",
                 "comment", "dropimport", "number"]
        for _ in range(20):
            kind = rng.choice(kinds)
            ids = sorted(self.files)
            if not ids and kind != "addfile":
                continue
            i = rng.choice(ids) if ids else 0
            f = self.files.get(i)
            if kind == "type" and f["msgs"]:
                m = rng.choice(f["msgs"])
                if m["fields"]:
                    x = rng.choice(m["fields"])
                    vis = self.visible_types(i, f)
                    x["type"] = rng.choice(vis) if vis and rng.chance(1, 2) else rng.choice(SCALARS)
            elif kind == "addfield" and f["msgs"]:
                m = rng.choice(f["msgs"])
                num = max([x["num"] for x in m["fields"]] + [0]) + 1
                m["fields"].append(self.new_field(i, f, num))
            elif kind == "delfield" and f["msgs"]:
                m = rng.choice(f["msgs"])
                if len(m["fields"]) > 0:
                    m["fields"].pop(rng.below(len(m["fields"])))
            elif kind == "number" and f["msgs"]:
                m = rng.choice(f["msgs"])
                if m["fields"]:
                    rng.choice(m["fields"])["num"] = rng.range(1, 4)     # may collide: a diagnostic
            elif kind == "rename" and f["msgs"]:
                m = rng.choice(f["msgs"])
                m["name"] = m["name"].split("x")[0] + ("x" if not m["name"].endswith("x") else "")   # importers now dangle / are repaired
            elif kind == "breakimport":
                f["broken"] = "import"
            elif kind == "syntax":
                f["broken"] = "syntax"
            elif kind == "repair":
                f["broken"] = None
            elif kind == "comment":
                f["comment"] += 1
            elif kind == "dropimport" and f["imports"]:
                f["imports"].pop(rng.below(len(f["imports"])))    # its types may still be referenced
            elif kind == "pkg":
                f["pkg"] = "pk%d%s" % (i, "" if f["pkg"].endswith("b") else "b")
            elif kind == "addfile":
                n = (max(ids) + 1) if ids else 0
                if len(ids) >= 6:
                    continue
                self.files[n] = self.new_file(n)
            elif kind == "delfile" and len(ids) > 1:
                del self.files[i]
            after = self.snapshot()
            sets = {p: t for p, t in after.items() if before.get(p) != t}
            dels = [p for p in before if p not in after]
            if sets or dels:
                return {"set": sets, "del": dels}, kind
        return {"set": {}, "del": []}, "none"


class XWS:
    """a workspace whose SET OF MEMBERS is edited and whose files clash across files.

    The opener holds base.proto (an extendable message) and g<i>.proto (proto2).  Packages come from {p, q}, message / enum
    names from a small pool and extension numbers from a pool of four, so two files that do not import each other often declare
    the same fully-qualified symbol or the same extension number of p.Base: diagnostics that only the Link task can produce.
    The members of the workspace are a sub-list of the opener's files (any order); the others are compiled as imports or not
    at all."""
    NAMES = ["Dup", "N0", "N1", "N2"]
    EXTNUMS = [100, 100, 101, 102]

    def __init__(self, rng, nfiles):
        self.rng = rng
        self.files = {}
        self.next = 0
        for _ in range(nfiles):
            self.add_file()
        ids = sorted(self.files)
        force = rng.below(4)
        if force in (0, 2) and len(ids) >= 2:
            # two files that do not import each other declare p.Dup
            a, b = ids[0], ids[1]
            for i in (a, b):
                f = self.files[i]
                f["pkg"] = "p"
                if "Dup" not in [m["name"] for m in f["msgs"]] + f["enums"]:
                    f["msgs"][0]["name"] = "Dup"
            self.files[b]["imports"] = [j for j in self.files[b]["imports"] if j != a]
        if force in (1, 2) and len(ids) >= 2:
            # two files extend p.Base with the same number
            for i in (ids[-1], ids[-2]):
                f = self.files[i]
                f["base"] = True
                f["exts"] = [100] + [n for n in f["exts"] if n != 100][:1]
        self.members = [i for i in ids if rng.chance(2, 3)] or [ids[0]]
        if rng.chance(1, 4):
            self.members = rng.shuffle(self.members)

    def add_file(self):
        rng = self.rng
        i = self.next
        self.next += 1
        older = sorted(self.files)
        f = {"pkg": "p" if rng.chance(3, 4) else "q", "imports": [j for j in older if rng.chance(1, 3)], "base": rng.chance(1, 2),
             "msgs": [], "enums": [], "exts": [], "comment": 0}
        names = list(self.NAMES)
        names = rng.shuffle(names)
        for _ in range(rng.range(1, 3)):
            f["msgs"].append({"name": names.pop(), "uses": None})
        if rng.chance(1, 4):
            f["enums"].append(names.pop())
        if f["base"]:
            exts = []
            for _ in range(rng.range(1, 3)):
                n = rng.choice(self.EXTNUMS)
                if n not in exts:
                    exts.append(n)
            f["exts"] = exts
        if f["imports"] and rng.chance(1, 2):
            g = self.files[rng.choice(f["imports"])]
            if g["msgs"]:
                f["msgs"][0]["uses"] = "%s.%s" % (g["pkg"], rng.choice(g["msgs"])["name"])
        self.files[i] = f
        return i

    BASE = "syntax = \"proto2\";\npackage p;\nmessage Base { extensions 100 to 199; }\n"

    def render(self, i):
        f = self.files[i]
        out = ["syntax = \"proto2\";", "package %s;" % f["pkg"]]
        for j in f["imports"]:
            out.append("import \"g%d.proto\";" % j)
        if f["base"]:
            out.append("import \"base.proto\";")
        for k in range(f["comment"]):
            out.append("// edit %d" % k)
        for e in f["enums"]:
            out.append("enum %s { %s_G%d_ZERO = 0; }" % (e, e.upper(), i))
        for m in f["msgs"]:
            out.append("message %s { optional int32 x = 1;%s }" % (m["name"], (" optional .%s y = 2;" % m["uses"]) if m["uses"] else ""))
        if f["base"] and f["exts"]:
            out.append("extend p.Base { %s }" % " ".join("optional int32 e%d_%d = %d;" % (i, k, n) for k, n in enumerate(f["exts"])))
        return "\n".join(out) + "\n"

    def snapshot(self):
        out = {"g%d.proto" % i: self.render(i) for i in self.files}
        out["base.proto"] = self.BASE
        return out

    def member_paths(self):
        return ["g%d.proto" % i for i in self.members]

    def edit(self):
        """one random step; returns the harness edit {set, del, ws, relink} and its class"""
        rng = self.rng
        before, mbefore = self.snapshot(), list(self.members)
        kinds = ["ws-remove", "ws-remove", "ws-add", "ws-add", "ws-reorder", "relink", "x-delfile", "x-delfile", "x-addfile", "x-comment",
                 "x-rename", "x-extnum", "x-import", "x-pkg"]
        for _ in range(30):
            kind = rng.choice(kinds)
            ids = sorted(self.files)
            i = rng.choice(ids)
            f = self.files[i]
            relink = False
            if kind == "ws-remove" and len(self.members) > 1:
                self.members.pop(rng.below(len(self.members)))
            elif kind == "ws-add":
                out = [j for j in ids if j not in self.members]
                if out:
                    self.members.insert(rng.below(len(self.members) + 1), rng.choice(out))
            elif kind == "ws-reorder" and len(self.members) > 1:
                self.members = rng.shuffle(self.members)
            elif kind == "relink":
                relink = True
            elif kind == "x-delfile" and len(ids) > 2:
                del self.files[i]
                if i in self.members and (len(self.members) > 1) and not rng.chance(1, 8):
                    self.members.remove(i)            # else: a member that cannot be opened any more
                for g in self.files.values():
                    if i in g["imports"] and rng.chance(1, 2):
                        g["imports"].remove(i)        # else: a dangling import
            elif kind == "x-addfile" and len(ids) < 6:
                n = self.add_file()
                if rng.chance(1, 2):
                    self.members.append(n)
            elif kind == "x-comment":
                f["comment"] += 1
            elif kind == "x-rename":
                m = rng.choice(f["msgs"])
                free = [n for n in self.NAMES if n not in [x["name"] for x in f["msgs"]] + f["enums"]]
                if free:
                    m["name"] = rng.choice(free)
            elif kind == "x-extnum" and f["base"]:
                n = rng.choice(self.EXTNUMS)
                if n in f["exts"]:
                    f["exts"].remove(n)
                else:
                    f["exts"].append(n)
            elif kind == "x-import":
                lower = [j for j in ids if j < i]
                if lower:
                    j = rng.choice(lower)
                    if j in f["imports"]:
                        f["imports"].remove(j)
                    else:
                        f["imports"].append(j)
            elif kind == "x-pkg":
                f["pkg"] = "q" if f["pkg"] == "p" else "p"
            after = self.snapshot()
            sets = {p: t for p, t in after.items() if before.get(p) != t}
            dels = [p for p in before if p not in after]
            if sets or dels or relink or self.members != mbefore:
                e = {"set": sets, "del": dels, "ws": self.member_paths()}
                if relink:
                    e["relink"] = True
                return e, kind
        return {"set": {}, "del": [], "ws": self.member_paths()}, "none"


def run(ctx):
    rng = ctx.rng
    cases, kinds = [], []
    # corpus: a type change seen through an import, a deleted and re-added dependency, a file that appears later
    A = "syntax = \"proto3\";\npackage p;\nimport \"b.proto\";\nmessage A { B b = 1; }\n"
    B = "syntax = \"proto3\";\npackage p;\nmessage B { int32 x = 1; }\n"
    corpus = [
        {"par": 1, "files": {"a.proto": A, "b.proto": B},
         "edits": [{"set": {"b.proto": B.replace("int32 x", "string x")}},
                   {"set": {"b.proto": B.replace("message B", "message C")}},
                   {"del": ["b.proto"]}, {"set": {"b.proto": B}},
                   {"set": {"c.proto": "syntax = \"proto3\";\npackage q;\nimport \"a.proto\";\nmessage C { p.A a = 1; }\n"}}]},
        {"par": 2, "files": {"a.proto": A},
         "edits": [{"set": {"b.proto": B}}, {"set": {"a.proto": A.replace("B b = 1;", "B b = 1; B c = 1;")}}, {"set": {"a.proto": A}}]},
    ]
    # corpus for the member-set stratum: two members clash (symbol / extension number) while an unrelated member leaves, a file
    # compiled only as an import joins, the members are reordered, or nothing but the Workspace value changes
    P2 = "syntax = \"proto2\";\npackage p;\n"
    XB = XWS.BASE
    corpus += [
        {"par": 2, "files": {"a.proto": P2 + "message Dup { optional int32 x = 1; }\n", "b.proto": P2 + "message Dup { optional string y = 1; }\n",
                             "c.proto": "syntax = \"proto2\";\npackage q;\nmessage C {}\n"},
         "workspace": ["a.proto", "b.proto", "c.proto"],
         "edits": [{"ws": ["a.proto", "b.proto"]}, {"ws": ["b.proto", "a.proto"]}, {"ws": ["b.proto", "a.proto"], "relink": True},
                   {"del": ["c.proto"], "ws": ["b.proto", "a.proto"]}, {"set": {"c.proto": P2 + "message Dup {}\n"}, "ws": ["b.proto", "a.proto", "c.proto"]}]},
        {"par": 1, "files": {"a.proto": P2 + "import \"lib.proto\";\nmessage A { optional Dup d = 1; }\n", "b.proto": P2 + "message Dup { optional string y = 1; }\n",
                             "lib.proto": P2 + "message Dup { optional int32 x = 1; }\n"},
         "workspace": ["a.proto"],
         "edits": [{"ws": ["a.proto", "b.proto"]}, {"ws": ["a.proto", "b.proto", "lib.proto"]}, {"ws": ["b.proto", "lib.proto"]}]},
        {"par": 2, "files": {"base.proto": XB, "x.proto": P2 + "import \"base.proto\";\nextend Base { optional int32 ex = 100; }\n",
                             "y.proto": P2 + "import \"base.proto\";\nextend Base { optional int32 ey = 100; }\n",
                             "u.proto": P2 + "import \"x.proto\";\nmessage U {}\n", "v.proto": P2 + "import \"y.proto\";\nmessage V {}\n"},
         "workspace": ["u.proto"],
         "edits": [{"ws": ["u.proto", "v.proto"]}, {"ws": ["x.proto", "v.proto"]}, {"ws": ["x.proto", "y.proto"]}, {"ws": ["y.proto", "x.proto", "base.proto"]},
                   {"set": {"y.proto": P2 + "import \"base.proto\";\nextend Base { optional int32 ey = 101; }\n"}, "ws": ["y.proto", "x.proto", "base.proto"]},
                   {"ws": ["x.proto", "y.proto"]}]},
    ]
    cases += corpus
    kinds += [["corpus"]] * len(corpus)
    for _ in range(ctx.budget(90, 3000)):
        ws = WS(rng, rng.range(2, 4))
        files = ws.snapshot()
        edits, ks = [], []
        for _e in range(rng.range(3, 6)):
            e, k = ws.edit()
            edits.append(e)
            ks.append(k)
        cases.append({"par": rng.range(1, 3), "files": files, "edits": edits, "timeout_ms": 30000})
        kinds.append(ks)
    # member-set stratum (see XWS)
    for _ in range(ctx.budget(90, 3000)):
        ws = XWS(rng, rng.range(3, 5))
        files, members = ws.snapshot(), ws.member_paths()
        edits, ks = [], []
        for _e in range(rng.range(3, 6)):
            e, k = ws.edit()
            edits.append(e)
            ks.append(k)
        cases.append({"par": rng.range(1, 3), "files": files, "workspace": members, "edits": edits, "timeout_ms": 30000})
        kinds.append(ks)
    ctx.rule = ("generated workspaces of 2..4 proto3 files (packages, acyclic imports, messages with scalar / local / imported message and "
                "enum fields, enums) x histories of 3..6 edits drawn from {change a field type, add / delete a field, change a field number, "
                "rename a message, break / repair an import, drop an import, add / delete a file, rename the package, break / repair the "
                "syntax, comment-only change}; after every edit the File keys of the changed paths are evicted on the long-lived executor "
                "and queries.Link is compared with a brand-new executor + session + opener (descriptor bytes per file, multiset of rendered "
                "diagnostics); distinct = distinct (files, members, history); non-trivial = more than one file.  "
                "Member-set stratum: the opener holds base.proto (extendable message) and 3..5 proto2 files g<i> with packages from {p, q}, "
                "message / enum names from a pool of four and extension numbers of p.Base from a pool of three, so that files which do "
                "not import each other declare the same symbol or extension number (half of the workspaces are built with such a clash); "
                "the workspace members are a sub-list of the opener's files in any order (the rest is compiled only as imports or not at "
                "all) x histories of 3..6 steps drawn from {remove a member, add a member (possibly one already compiled as an import), "
                "reorder the members, new Workspace value with the same members, delete a file (member or imported; sometimes it stays a "
                "member / stays imported), add a file (member or not), comment-only change, rename a message into / out of a clash, add / "
                "remove an extension number, add / remove an import, change the package}; same comparison after every step; non-trivial "
                "there = some step links a different Workspace value while the batch compilation reports at least one diagnostic")
    # 8 harness processes (each case is independent); the default would be one process per 50 cases
    outs = ctx.impl("increcompile", cases, shards=min(NCPU, 8))
    for c, ks, o in zip(cases, kinds, outs):
        nontriv = len(c["files"]) > 1
        if "workspace" in c and "steps" in o:
            nontriv = any("workspace [" in st.get("label", "") and st.get("ndiags", 0) > 0 for st in o["steps"])
        ctx.count((sorted(c["files"].items()), c.get("workspace"), json.dumps(c["edits"], sort_keys=True)), nontriv, None)
        for k in ks:
            ctx.hist[k] = ctx.hist.get(k, 0) + 1
        if "crash" in o or "panic" in o or "steps" not in o:
            ctx.violation("harness-crash", "the harness process crashed", {"input": c, "observed": o})
            continue
        for si, st in enumerate(o["steps"]):
            ctx.traces += 1
            if not st.get("fresh_deterministic", True):
                # the reference is not a function of the files: not an incremental-compilation defect (C05/C36)
                ctx.notes.append("batch compilation itself differs between two brand-new executors at %s" % st["label"])
                break
            if not st["equal"]:
                why = st.get("why", "")
                key = ("incremental-hangs" if why == "hang" else
                       "incremental-descriptor-differs-from-batch" if "descriptor" in why else
                       "incremental-diagnostics-differ-from-batch" if "diagnostic" in why else
                       "incremental-result-differs-from-batch")
                ctx.violation(key, "after %s the long-lived executor and a brand-new one disagree: %s" % (st["label"], why),
                              {"input": c, "edit_kinds": ks, "step": si, "observed": st})
                break
    ctx.sample({"files": corpus[0]["files"], "edits": corpus[0]["edits"][:2]})
    nold = len(corpus) + ctx.budget(90, 3000)
    ctx.sample({"files": cases[nold - 1]["files"], "edit_kinds": kinds[nold - 1]})
    ctx.sample({"files": cases[-1]["files"], "workspace": cases[-1]["workspace"], "edits": cases[-1]["edits"], "edit_kinds": kinds[-1]})
