"""C35 - Incremental recompilation equals batch compilation."""
from vlib import *

ID = "C35"
COQ_FILES = ["Model/IncExec.v", "Proofs/IncExec1.v", "Proofs/IncExec2.v", "Proofs/IncExec3.v", "Proofs/IncExec4.v",
             "Common/Corr.v", "Props/C35.v"]
PROPS = "Props/C35.v"
THEOREMS = ["C35_incremental_eq_batch"]
AXIOMS_OK = []
TRUSTED = ["hand-written small-step Gallina model of experimental/incremental (Model/IncExec.v), tied to the working tree by "
           "checks/C33.py / C34.py; C35_incremental_eq_batch is a corollary of C33_run_returns_fresh_values on that model",
           "harness harness/cmd/increcompile: real incremental.Executor with the real queries.File/AST/IR/Link on generated "
           ".proto workspaces and edit histories; the reference is a brand-new executor, session and opener on the same files"]
ASSUMPTIONS = ["the theorem's hypothesis (shape of a world): every query's result is a function of the opener's content for the path "
               "it names and of the results of the queries it resolved, and so is the sequence of its Resolve calls; after an edit the "
               "File keys (ReportError=false) of the changed paths are evicted.  The check tests this hypothesis on the real queries",
               "queries do not panic (C34) and imports are acyclic in the generated workspaces (cyclic imports are reported in a "
               "schedule-dependent way, a C36 finding); diagnostics are compared as a multiset of individually rendered diagnostics "
               "(their order is C36)",
               "descriptors are compared as bytes produced by fdp.DescriptorProtoBytes"]

SCALARS = ["int32", "int64", "uint32", "string", "bool", "bytes", "double", "sint32", "fixed64"]


class WS:
    """a small multi-file workspace: files f<i>.proto, package pk<i>, imports to lower-numbered files (acyclic)"""

    def __init__(self, rng, nfiles):
        self.rng = rng
        self.files = {}
        for i in range(nfiles):
            self.files[i] = self.new_file(i)

    def new_file(self, i):
        rng = self.rng
        older = [j for j in self.files if j < i]
        imports = [j for j in older if rng.chance(1, 2)]
        f = {"pkg": "pk%d" % i, "imports": imports, "public": [], "msgs": [], "enums": [], "broken": None, "comment": 0}
        if rng.chance(1, 3):
            f["enums"].append({"name": "E%d" % i, "vals": ["E%d_ZERO" % i, "E%d_ONE" % i]})
        for j in range(rng.range(1, 3)):
            f["msgs"].append({"name": "M%d_%d" % (i, j), "fields": []})
        for m in f["msgs"]:
            for k in range(rng.range(1, 4)):
                m["fields"].append(self.new_field(i, f, k + 1))
        return f

    def visible_types(self, i, f):
        out = []
        for m in f["msgs"]:
            out.append(m["name"])
        for e in f["enums"]:
            out.append(e["name"])
        for j in f["imports"]:
            g = self.files.get(j)
            if g:
                out += ["%s.%s" % (g["pkg"], m["name"]) for m in g["msgs"]]
                out += ["%s.%s" % (g["pkg"], e["name"]) for e in g["enums"]]
        return out

    def new_field(self, i, f, num):
        rng = self.rng
        vis = self.visible_types(i, f)
        ty = rng.choice(vis) if vis and rng.chance(1, 2) else rng.choice(SCALARS)
        return {"name": "f%d" % num, "type": ty, "num": num, "rep": rng.chance(1, 5)}

    def render(self, i):
        f = self.files[i]
        out = ["syntax = \"proto3\";", "package %s;" % f["pkg"]]
        for j in f["imports"]:
            out.append("import %s\"f%d.proto\";" % ("public " if j in f["public"] else "", j))
        if f["broken"] == "import":
            out.append("import \"missing_%d.proto\";" % i)
        for k in range(f["comment"]):
            out.append("// edit %d" % k)
        for e in f["enums"]:
            out.append("enum %s { %s }" % (e["name"], " ".join("%s = %d;" % (v, n) for n, v in enumerate(e["vals"]))))
        for m in f["msgs"]:
            fields = " ".join("%s%s %s = %d;" % ("repeated " if x["rep"] else "", x["type"], x["name"], x["num"]) for x in m["fields"])
            out.append("message %s { %s }" % (m["name"], fields))
        if f["broken"] == "syntax":
            out.append("message Broken { int32 x = ; ")
        return "\n".join(out) + "\n"

    def snapshot(self):
        return {"f%d.proto" % i: self.render(i) for i in self.files}

    def edit(self):
        """one random edit; returns the harness edit {set: {...}, del: [...]} and its class"""
        rng = self.rng
        before = self.snapshot()
        kinds = ["type", "type", "addfield", "delfield", "rename", "breakimport", "repair", "addfile", "delfile", "pkg", "syntax",
                 "comment", "dropimport", "number"]
        for _ in range(20):
            kind = rng.choice(kinds)
            ids = sorted(self.files)
            if not ids and kind != "addfile":
                continue
            i = rng.choice(ids) if ids else 0
            f = self.files.get(i)
            if kind == "type" and f["msgs"]:
                m = rng.choice(f["msgs"])
                if m["fields"]:
                    x = rng.choice(m["fields"])
                    vis = self.visible_types(i, f)
                    x["type"] = rng.choice(vis) if vis and rng.chance(1, 2) else rng.choice(SCALARS)
            elif kind == "addfield" and f["msgs"]:
                m = rng.choice(f["msgs"])
                num = max([x["num"] for x in m["fields"]] + [0]) + 1
                m["fields"].append(self.new_field(i, f, num))
            elif kind == "delfield" and f["msgs"]:
                m = rng.choice(f["msgs"])
                if len(m["fields"]) > 0:
                    m["fields"].pop(rng.below(len(m["fields"])))
            elif kind == "number" and f["msgs"]:
                m = rng.choice(f["msgs"])
                if m["fields"]:
                    rng.choice(m["fields"])["num"] = rng.range(1, 4)     # may collide: a diagnostic
            elif kind == "rename" and f["msgs"]:
                m = rng.choice(f["msgs"])
                m["name"] = m["name"].split("x")[0] + ("x" if not m["name"].endswith("x") else "")   # importers now dangle / are repaired
            elif kind == "breakimport":
                f["broken"] = "import"
            elif kind == "syntax":
                f["broken"] = "syntax"
            elif kind == "repair":
                f["broken"] = None
            elif kind == "comment":
                f["comment"] += 1
            elif kind == "dropimport" and f["imports"]:
                f["imports"].pop(rng.below(len(f["imports"])))    # its types may still be referenced
            elif kind == "pkg":
                f["pkg"] = "pk%d%s" % (i, "" if f["pkg"].endswith("b") else "b")
            elif kind == "addfile":
                n = (max(ids) + 1) if ids else 0
                if len(ids) >= 6:
                    continue
                self.files[n] = self.new_file(n)
            elif kind == "delfile" and len(ids) > 1:
                del self.files[i]
            after = self.snapshot()
            sets = {p: t for p, t in after.items() if before.get(p) != t}
            dels = [p for p in before if p not in after]
            if sets or dels:
                return {"set": sets, "del": dels}, kind
        return {"set": {}, "del": []}, "none"


def run(ctx):
    rng = ctx.rng
    cases, kinds = [], []
    # corpus: a type change seen through an import, a deleted and re-added dependency, a file that appears later
    A = "syntax = \"proto3\";\npackage p;\nimport \"b.proto\";\nmessage A { B b = 1; }\n"
    B = "syntax = \"proto3\";\npackage p;\nmessage B { int32 x = 1; }\n"
    corpus = [
        {"par": 1, "files": {"a.proto": A, "b.proto": B},
         "edits": [{"set": {"b.proto": B.replace("int32 x", "string x")}},
                   {"set": {"b.proto": B.replace("message B", "message C")}},
                   {"del": ["b.proto"]}, {"set": {"b.proto": B}},
                   {"set": {"c.proto": "syntax = \"proto3\";\npackage q;\nimport \"a.proto\";\nmessage C { p.A a = 1; }\n"}}]},
        {"par": 2, "files": {"a.proto": A},
         "edits": [{"set": {"b.proto": B}}, {"set": {"a.proto": A.replace("B b = 1;", "B b = 1; B c = 1;")}}, {"set": {"a.proto": A}}]},
    ]
    cases += corpus
    kinds += [["corpus"]] * len(corpus)
    for _ in range(ctx.budget(90, 3000)):
        ws = WS(rng, rng.range(2, 4))
        files = ws.snapshot()
        edits, ks = [], []
        for _e in range(rng.range(3, 6)):
            e, k = ws.edit()
            edits.append(e)
            ks.append(k)
        cases.append({"par": rng.range(1, 3), "files": files, "edits": edits, "timeout_ms": 30000})
        kinds.append(ks)
    ctx.rule = ("generated workspaces of 2..4 proto3 files (packages, acyclic imports, messages with scalar / local / imported message and "
                "enum fields, enums) x histories of 3..5 edits drawn from {change a field type, add / delete a field, change a field number, "
                "rename a message, break / repair an import, drop an import, add / delete a file, rename the package, break / repair the "
                "syntax, comment-only change}; after every edit the File keys of the changed paths are evicted on the long-lived executor "
                "and queries.Link is compared with a brand-new executor + session + opener (descriptor bytes per file, multiset of rendered "
                "diagnostics); distinct = distinct (files, history); non-trivial = at least one edit changes a file that another file imports "
                "or is imported by")
    outs = ctx.impl("increcompile", cases)
    for c, ks, o in zip(cases, kinds, outs):
        nontriv = len(c["files"]) > 1
        ctx.count((sorted(c["files"].items()), json.dumps(c["edits"], sort_keys=True)), nontriv, None)
        for k in ks:
            ctx.hist[k] = ctx.hist.get(k, 0) + 1
        if "crash" in o or "panic" in o or "steps" not in o:
            ctx.violation("harness-crash", "the harness process crashed", {"input": c, "observed": o})
            continue
        for si, st in enumerate(o["steps"]):
            ctx.traces += 1
            if not st.get("fresh_deterministic", True):
                # the reference is not a function of the files: not an incremental-compilation defect (C05/C36)
                ctx.notes.append("batch compilation itself differs between two brand-new executors at %s" % st["label"])
                break
            if not st["equal"]:
                why = st.get("why", "")
                key = ("incremental-hangs" if why == "hang" else
                       "incremental-descriptor-differs-from-batch" if "descriptor" in why else
                       "incremental-diagnostics-differ-from-batch" if "diagnostic" in why else
                       "incremental-result-differs-from-batch")
                ctx.violation(key, "after %s the long-lived executor and a brand-new one disagree: %s" % (st["label"], why),
                              {"input": c, "edit_kinds": ks, "step": si, "observed": st})
                break
    ctx.sample({"files": corpus[0]["files"], "edits": corpus[0]["edits"][:2]})
    ctx.sample({"files": cases[-1]["files"], "edit_kinds": kinds[-1]})
