"""C21 - Lenient and unlinked interpretation agree with strict interpretation."""
import glob, json, os
from vlib import *
import optlib
from optlib import *

ID = "C21"
COQ_FILES = ["Common/Corr.v", "Model/Options.v", "Model/ProtocOptions.v", "Proofs/Options.v", "Props/C21.v"]
PROPS = "Props/C21.v"
THEOREMS = ["C21_strict_ok_implies_lenient_same", "C21_unlinked_values_subset_of_strict",
            "C21_unlinked_run_equals_strict_first_pass", "C21_uninterpreted_kept_verbatim", "C21_no_half_population"]
AXIOMS_OK = []
TRUSTED = ["hand-written Gallina mirror of options/options.go (interpretOptions with its remain list and the two passes, interpretField, "
           "setOptionField, fieldValue, messageLiteralValue, checkFieldUsage, enableLenience): coq/Model/Options.v",
           "correspondence harness harness/cmd/options (options.InterpretOptions, InterpretOptionsLenient, InterpretUnlinkedOptions on the "
           "same parsed file; canonical option trees; uninterpreted options compared as deterministic wire bytes) and the generator in checks/optlib.py"]
ASSUMPTIONS = ["lenience is modelled as the carry-on control flow of the same code (an error site returns or continues exactly as the Go code does "
               "when the handler swallowed the error); the strict run is the same computation cut at the first error",
               "unlinked = lenient with no resolvable extension; descriptor.proto overrides, required-field checks, feature validation and failures of "
               "the final conversion between dynamic and generated messages are outside the model (the pairwise oracle still runs on files that use them)",
               "the linker rewrites extension names in option names to fully-qualified form; uninterpreted options are compared modulo that leading dot"]

CHKS = ["opt_chk_strict", "opt_chk_lenient", "opt_chk_unlinked"]


def subtree(u, s):
    """every value in u is in s: fields a subset, scalars equal, messages recursively, lists a prefix"""
    if u == s:
        return True
    if not isinstance(u, dict) or not isinstance(s, dict):
        return False
    if "m" in u and "m" in s:
        sm = {n: v for n, v in s["m"]}
        return all(n in sm and subtree(v, sm[n]) for n, v in u["m"]) and ("unknown" not in u or u.get("unknown") == s.get("unknown"))
    if "l" in u and "l" in s:
        return len(u["l"]) <= len(s["l"]) and all(subtree(a, b) for a, b in zip(u["l"], s["l"]))
    if "p" in u and "p" in s:
        sp = {json.dumps(k): v for k, v in s["p"]}
        return all(json.dumps(k) in sp and subtree(v, sp[json.dumps(k)]) for k, v in u["p"])
    return False


def elems_by_name(res):
    return {e["el"]: e for e in (res.get("elems") or [])}


def empty_tree(t):
    return t is None or (t.get("m") == [] and "unknown" not in t)


def pairwise(ctx, label, files, o, replay_extra=None):
    """the direct oracle on one file: strict vs lenient vs unlinked, element by element"""
    rep = {"files": files, "proto": files.get("t.proto") or label}
    if replay_extra:
        rep.update(replay_extra)
    orig = elems_by_name(o["orig"])
    st, le, un = o["strictm"], o["lenient"], o["unlinked"]
    for mode, r in (("lenient", le), ("unlinked", un)):
        if not r.get("ok"):
            if r.get("errclass") == "panic":
                continue        # noted by the caller; C20 describes the panic
            if mode == "unlinked" and st.get("ok"):
                ctx.violation("unlinked-fails-on-accepted-file", "InterpretUnlinkedOptions returns an error on a file the strict interpreter accepts",
                              dict(rep, error=r.get("err")))
            if mode == "lenient" and st.get("ok"):
                ctx.violation("lenient-differs-from-strict", "InterpretOptionsLenient returns an error on a file the strict interpreter accepts",
                              dict(rep, error=r.get("err")))
            continue
        # the remainder is a subsequence of what the parser produced, byte for byte
        for el, e in elems_by_name(r).items():
            ou = (orig.get(el) or {"unint": []})["unint"]
            if remain_indices(ou, e["unint"]) is None:
                ctx.violation("remainder-not-verbatim", "%s interpretation: the uninterpreted options left on %s are not a subsequence of the original ones" % (mode, el),
                              dict(rep, mode=mode, element=el, original=ou, left=e["unint"]))
        # when every option of an element is kept, nothing may have been stored on it
        for el, e in elems_by_name(r).items():
            ou = (orig.get(el) or {"unint": []})["unint"]
            if ou and len(e["unint"]) == len(ou) and not empty_tree(e["tree"]):
                key, what = classify_half_hex(e["unint"])
                ctx.violation(key, "%s interpretation: %s (every option of %s is kept uninterpreted, yet its options message is not empty)" % (mode, what, el),
                              dict(rep, mode=mode, element=el, options_after=e["tree"]))
    if st.get("ok") and le.get("ok"):
        se, lel = elems_by_name(st), elems_by_name(le)
        for el in sorted(set(se) | set(lel)):
            a, b = se.get(el), lel.get(el)
            ta, tb = (a or {}).get("tree"), (b or {}).get("tree")
            if (ta != tb and not (empty_tree(ta) and empty_tree(tb))) or (b or {}).get("unint"):
                ctx.violation("lenient-differs-from-strict", "strict interpretation succeeds but lenient interpretation gives other options on %s" % el,
                              dict(rep, element=el, strict=a, lenient=b))
    if st.get("ok") and un.get("ok"):
        se, ue = elems_by_name(st), elems_by_name(un)
        for el, e in ue.items():
            s = (se.get(el) or {}).get("tree") or {"m": []}
            if not subtree(e["tree"], s):
                ctx.violation("unlinked-value-not-in-strict", "unlinked interpretation stored a value on %s that strict interpretation does not have" % el,
                              dict(rep, element=el, unlinked=e["tree"], strict=s))


def classify_half(kept):
    if any(len(p) > 1 for p, v in kept):
        return "failed-option-leaves-path-messages", "an option that fails below the first name part leaves the messages of its path in the options"
    if any(v[0] == "msg" for p, v in kept):
        return "failed-message-literal-stored", "a message literal with a failing field is stored without that field although the option is kept uninterpreted"
    return "failed-option-value-stored", "an option rejected for its target type is stored and also kept uninterpreted"


def classify_half_hex(unint):
    """the same classes, from the wire form of the kept options (UninterpretedOption: 2 = name parts, 8 = aggregate value)"""
    paths, lits = False, False
    for h in unint:
        b = bytes.fromhex(h)
        i, parts = 0, 0
        while i < len(b) and b[i] == 0x12:
            parts += 1
            i += 2 + b[i + 1]
        paths = paths or parts > 1
        lits = lits or (i < len(b) and b[i] == 0x42)
    if paths:
        return classify_half([((1, 2), ("int", 0))])
    if lits:
        return classify_half([((1,), ("msg", []))])
    return classify_half([((1,), ("int", 0))])


def real_files():
    """files of the repository's test data, for the pairwise oracle only: (label, files map, target)"""
    out = []
    td = os.path.join(REPO, "internal", "testdata")
    for d, targets in ((os.path.join(td, "options"), ["test.proto", "test_proto3.proto", "test_editions.proto", "options.proto"]),
                       (td, None), (os.path.join(td, "editions"), None)):
        files = {}
        for p in glob.glob(os.path.join(d, "**", "*.proto"), recursive=True):
            rel = os.path.relpath(p, d)
            if d == td and (rel.startswith("options") or rel.startswith("editions") or rel.startswith("more")):
                continue
            try:
                files[rel] = open(p, encoding="utf-8").read()
            except Exception:
                pass
        for t in (targets or sorted(f for f in files if "/" not in f)):
            if t in files:
                out.append((os.path.join(d, t), files, t))
    return out


HAND = [
    ("failing path, linked", 'syntax = "proto2";\nimport "google/protobuf/descriptor.proto";\nmessage O { optional int32 a = 1; optional O sub = 2; }\n'
     'extend google.protobuf.MessageOptions { optional O foo = 50001; }\nmessage M { option (foo).sub.a = "x"; }\n'),
    ("failing literal, linked", 'syntax = "proto2";\nimport "google/protobuf/descriptor.proto";\nmessage O { optional int32 a = 1; repeated int32 r = 3; }\n'
     'extend google.protobuf.MessageOptions { optional O foo = 50001; }\nmessage M { option (foo) = { a: 1 r: [1, 2, "x"] }; }\n'),
    ("target type, linked", 'syntax = "proto2";\nimport "google/protobuf/descriptor.proto";\n'
     'extend google.protobuf.MessageOptions { optional int32 onfield = 50001 [targets = TARGET_TYPE_FIELD]; }\nmessage M { option (onfield) = 1; }\n'),
    ("failing path below a standard option, unlinked", 'edition = "2023";\nimport "google/protobuf/go_features.proto";\n'
     'message M { option features.(pb.go).nosuch = true; int32 f = 1 [feature_support.nosuch = 1]; }\n'),
    ("pseudo-options", 'syntax = "proto2";\nimport "google/protobuf/descriptor.proto";\nextend google.protobuf.FieldOptions { optional int32 fx = 50001; }\n'
     'enum E { A = 0; B = 1; }\nmessage M { optional string s = 1 [default = "x\\001y", json_name = "S", (fx) = 3, deprecated = true];\n'
     ' optional E e = 2 [default = B, (fx) = 4]; optional double d = 3 [default = -inf, json_name = "dd"]; repeated int32 p = 4 [packed = true]; }\n'),
    ("features", 'edition = "2023";\nimport "google/protobuf/descriptor.proto";\noption features.field_presence = IMPLICIT;\n'
     'extend google.protobuf.MessageOptions { int32 mx = 50001; }\n'
     'message M { option features.message_encoding = DELIMITED; option (mx) = 7; int32 a = 1 [features.field_presence = EXPLICIT]; '
     'repeated int32 r = 2 [features.repeated_field_encoding = EXPANDED]; }\nenum E { option features.enum_type = CLOSED; Z = 0; }\n'),
    ("one repeated standard option next to one custom option",
     'syntax = "proto2";\nimport "google/protobuf/descriptor.proto";\nextend google.protobuf.FieldOptions { optional string owner = 50001; }\n'
     'message M { optional int32 a = 1 [targets = TARGET_TYPE_FIELD, (owner) = "x"]; }\n'),
    ("one custom option next to one repeated standard option, unresolvable custom option",
     'syntax = "proto2";\nimport "google/protobuf/descriptor.proto";\n'
     'message M { extensions 100 to 200 [(nosuch) = 1, declaration = { number: 100, full_name: ".b", type: "int32" }]; }\n'),
    ("repeated standard options next to custom options, every element kind that has them",
     'syntax = "proto2";\nimport "google/protobuf/descriptor.proto";\n'
     'extend google.protobuf.FieldOptions { optional string owner = 50001; repeated int32 tags = 50002; }\n'
     'extend google.protobuf.ExtensionRangeOptions { optional string rowner = 50001; }\n'
     'extend google.protobuf.MessageOptions { optional int32 tag = 50001 [targets = TARGET_TYPE_MESSAGE, targets = TARGET_TYPE_ENUM, (owner) = "me", (tags) = 1, (tags) = 2]; }\n'
     'message M { optional int32 a = 1 [(owner) = "x", targets = TARGET_TYPE_FIELD, edition_defaults = { edition: EDITION_2023, value: "1" }, '
     'edition_defaults = { edition: EDITION_PROTO2, value: "2" }, (tags) = 3, targets = TARGET_TYPE_FILE];\n'
     ' extensions 100 to 200 [declaration = { number: 100, full_name: ".b", type: "int32" }, (rowner) = "me", declaration = { number: 101, full_name: ".c", type: "string" }, verification = DECLARATION];\n'
     ' extensions 300 to 400 [(rowner) = 5, declaration = { number: 300, full_name: ".d", type: "int32" }]; }\n'),
    ("repeated standard options next to custom options, editions",
     'edition = "2023";\nimport "google/protobuf/descriptor.proto";\n'
     'extend google.protobuf.FieldOptions { string owner = 50001; }\n'
     'message M { int32 a = 1 [targets = TARGET_TYPE_FIELD, features.field_presence = IMPLICIT, (owner) = "x", targets = TARGET_TYPE_MESSAGE, '
     'feature_support = { edition_introduced: EDITION_2023 }, edition_defaults = { edition: EDITION_2023, value: "1" }];\n'
     ' int32 b = 2 [(owner) = "y", (nosuch) = 1, targets = TARGET_TYPE_FIELD, targets = TARGET_TYPE_FIELD]; }\n'),
    ("features-and-failures", 'edition = "2023";\nimport "google/protobuf/descriptor.proto";\n'
     'extend google.protobuf.MessageOptions { int32 mx = 50001; }\n'
     'message M { option deprecated = true; option (mx) = 7; option (mx) = 8; option nosuch = 1; int32 a = 1 [features.field_presence = EXPLICIT, nosuch = 2]; }\n'),
]


def run(ctx):
    rng = ctx.rng
    ctx.rule = ("a case = one generated file (custom-option schema + one target element with 1..7 option statements, about half of them "
                "failing; a stratum in which repeated and message-typed standard options (targets, edition_defaults, declaration, feature_support) "
                "stand next to custom options on one element, standard first / custom first / interleaved, on the fixed and on random schemas; "
                "a stratum in which one field descriptor is reached through several paths) interpreted by InterpretOptions, InterpretOptionsLenient and InterpretUnlinkedOptions; plus the repository's own "
                "option test files and hand-written files with pseudo-options and features (pairwise oracle only); distinct = distinct "
                "(schema, element kind, statements) or file; non-trivial = at least one option statement")
    # the repository's own files and hand-written files with pseudo-options and features: pairwise oracle
    extra = [(lab, {"t.proto": txt}, "t.proto") for lab, txt in HAND] + real_files()
    eouts = ctx.impl("options", [{"mode": "interp", "files": fs, "target": t} for _, fs, t in extra], shards=min(NCPU, 8))
    used = 0
    for (lab, fs, t), o in zip(extra, eouts):
        if "orig" not in o or o.get("strictm", {}).get("errclass") == "link":
            continue
        used += 1
        ctx.count(("file", lab), True, "file:strict-%s" % ("ok" if o["strictm"].get("ok") else "rejects"))
        pairwise(ctx, lab, {t: fs[t]}, o, {"file": lab})
    ctx.extra["real_files_compared"] = used

    eks = list(ELEMENTS)
    cases = []
    fixed = {ek: fixed_schema(ctx, ek) for ek in eks}
    for i, sts in enumerate(corpus("message")):
        if len(sts) > 1 or i % 5 == 0:
            c = make_case(rng, ctx, "message", 0, fixed=(fixed["message"], sts))
            c["sch_ref"] = "fx_message"
            cases.append(("corpus", c))
    for ek in eks:
        if ek != "message":
            for sts in corpus(ek)[-8:]:
                c = make_case(rng, ctx, ek, 0, fixed=(fixed[ek], sts))
                c["sch_ref"] = "fx_" + ek
                cases.append(("corpus", c))
    # repeated / message-typed standard options together with custom options on one element, in every order: the two passes
    # write the same options message, and the lenient branch hands its copy back at the end of each pass
    for ek in eks:
        for j, sts in enumerate(std_custom_corpus(ek)):
            if ek not in ("field", "extrange", "enumval") and j % 3 and ctx.tier != "thorough":
                continue        # kinds whose standard options are all singular scalars: a third of the list
            c = make_case(rng, ctx, ek, 0, fixed=(fixed[ek], sts))
            c["sch_ref"] = "fx_" + ek
            cases.append(("std+custom", c))
    mix = ["field", "extrange", "field", "extrange", "enumval"] + eks
    for i in range(ctx.budget(70, 3000)):
        ek = mix[i % len(mix)]
        if i % 2:
            sts = std_custom_stmts(rng, fixed[ek], wrong=(8 if i % 4 == 3 else 0))
            c = make_case(rng, ctx, ek, 0, fixed=(fixed[ek], sts))
            c["sch_ref"] = "fx_" + ek
        else:
            sch = gen_schema(ctx, rng, ek, rich=True)
            c = make_case(rng, ctx, ek, 0, fixed=(sch, std_custom_stmts(rng, sch, wrong=(8 if i % 4 == 2 else 0))))
        cases.append(("std+custom-random", c))
    # one field descriptor through several paths (the bookkeeping of fields without presence is per options message and pass)
    wsch = {ek: twin_schema(ctx, ek) for ek in eks}
    wcs = twin_corpus()
    for i in range(ctx.budget(24, 1500)):
        ek = eks[i % len(eks)]
        sts = wcs[-1 - (i % 26)] if i % 2 else same_field_stmts(rng, wsch[ek])
        c = make_case(rng, ctx, ek, 0, fixed=(wsch[ek], sts))
        c["sch_ref"] = "tw_" + ek
        cases.append(("same-field-paths", c))
    for i in range(ctx.budget(300, 10000)):
        ek = eks[i % len(eks)]
        if i % 3 == 0:
            cases.append(("random-accepted", make_case(rng, ctx, ek, rng.range(1, 5), rich=True, lits=True, wrong=0)))
        else:
            cases.append(("random", make_case(rng, ctx, ek, rng.range(2, 7), rich=True, lits=True, wrong=10)))
    outs = ctx.impl("options", [c["input"] for _, c in cases])
    terms, meta = [], []
    panics = 0
    reduced = []          # (mode, case index, reduced case)
    for (klass, c), o in zip(cases, outs):
        text = c["files"]["t.proto"]
        if "crash" in o or "panic" in o:
            ctx.corr_break("options:harness", {"proto": text}, o)
            continue
        try:
            terms.append(case_term(c, o))
        except Unmodelled as e:
            if "parse error" in str(e) or "parser produced" in str(e):
                ctx.corr_break("options:generator", {"proto": text}, {"why": str(e)})
            continue
        meta.append((klass, c, o))
        idx = len(meta) - 1
        st, le, un = o["strictm"], o["lenient"], o["unlinked"]
        if "panic" in (le.get("errclass"), st.get("errclass")):
            panics += 1
        kept_n = len((find_elem(le, c["key"]) or {"unint": []})["unint"]) if le.get("ok") else -1
        ctx.count((c["sch"].ek, c["sch"].coq(), tuple(stmt_coq(s) for s in c["stmts"])), len(c["stmts"]) > 0,
                  "%s:strict-%s:lenient-keeps-%s" % (klass, "ok" if st.get("ok") else "rejects", "none" if kept_n == 0 else ("some" if kept_n > 0 else "n/a")))
        pairwise(ctx, text, c["files"], o)
        # half population: the options after a lenient / unlinked run must be those of the same file without the options that were kept
        oe = find_elem(o["orig"], c["key"])
        orig = oe["unint"] if oe else []
        for mode, r in (("lenient", le), ("unlinked", un)):
            if not r.get("ok"):
                continue
            e = find_elem(r, c["key"]) or {"tree": {"m": []}, "unint": []}
            kidx = remain_indices(orig, e["unint"])
            if kidx == [] and mode == "lenient" and not st.get("ok") and st.get("errclass") != "panic":
                # everything was "interpreted", yet strict interpretation of the very same statements fails
                ctx.violation("failing-option-not-kept", "lenient interpretation keeps nothing uninterpreted although strict interpretation rejects the file",
                              {"proto": text, "files": c["files"], "strict_error": st.get("err")})
            if not kidx:
                continue
            rest = [s for j, s in enumerate(c["stmts"]) if j not in set(kidx)]
            rc = make_case(rng, ctx, c["sch"].ek, 0, fixed=(c["sch"], rest))
            reduced.append((mode, idx, rc, [c["stmts"][j] for j in kidx], e["tree"]))
    routs = ctx.impl("options", [rc["input"] for _, _, rc, _, _ in reduced])
    half = []
    for (mode, idx, rc, kept, tree), ro in zip(reduced, routs):
        r = ro.get(mode, {})
        rs = ro.get("strictm", {})
        if not rs.get("ok") and rs.get("errclass") not in ("panic", "link") and mode == "lenient":
            # what lenient interpretation did not keep must be interpretable
            klass, c, o = meta[idx]
            ctx.violation("failing-option-not-kept", "the options that lenient interpretation did not keep are rejected by strict interpretation",
                          {"proto": c["files"]["t.proto"], "files": c["files"], "kept_uninterpreted": [name_text(p) + " = " + val_text(v) for p, v in kept],
                           "without_the_kept_statements": rc["files"]["t.proto"], "strict_error": rs.get("err")})
        if not r.get("ok"):
            continue
        e = find_elem(r, rc["key"]) or {"tree": {"m": []}}
        if e["tree"] != tree and not (empty_tree(e["tree"]) and empty_tree(tree)):
            half.append((len(kept), len(meta[idx][1]["stmts"]), mode, idx, kept, tree, e["tree"], rc))
    half.sort(key=lambda x: (x[0], x[1]))
    for nk, ns, mode, idx, kept, tree, rtree, rc in half:
        klass, c, o = meta[idx]
        key, what = classify_half(kept)
        ctx.violation(key, "%s interpretation: %s (the options message differs from that of the same file without the uninterpreted options)" % (mode, what),
                      {"proto": c["files"]["t.proto"], "files": c["files"], "mode": mode,
                       "kept_uninterpreted": [name_text(p) + " = " + val_text(v) for p, v in kept],
                       "options_after": tree, "options_without_the_kept_statements": rtree})
    ctx.extra["half_population_cases"] = len(half)
    ctx.extra["reduced_reruns"] = len(reduced)

    # a kept option must be one that cannot be interpreted: strict interpretation of (the interpreted options + that one) fails
    probes = []
    for mode, idx, rc, kept, tree in reduced:
        if mode != "lenient" or len(kept) > 3 or len(probes) >= ctx.budget(200, 5000):
            continue
        klass, c, o = meta[idx]
        oe = find_elem(o["orig"], c["key"])
        kidx = remain_indices(oe["unint"], find_elem(o["lenient"], c["key"])["unint"])
        for j in kidx:
            sts = [s for i2, s in enumerate(c["stmts"]) if i2 == j or i2 not in set(kidx)]
            probes.append((idx, j, make_case(rng, ctx, c["sch"].ek, 0, fixed=(c["sch"], sts))))
    pouts = ctx.impl("options", [pc["input"] for _, _, pc in probes])
    for (idx, j, pc), po in zip(probes, pouts):
        if po.get("strictm", {}).get("ok"):
            klass, c, o = meta[idx]
            p, v = c["stmts"][j]
            ctx.violation("kept-although-interpretable", "lenient interpretation keeps an option uninterpreted that strict interpretation accepts in the same place",
                          {"proto": c["files"]["t.proto"], "files": c["files"], "kept": name_text(p) + " = " + val_text(v),
                           "accepted_here": pc["files"]["t.proto"]})
    ctx.extra["kept_probes"] = len(probes)

    if len(meta) >= 3:
        for k in (0, len(meta) // 2, len(meta) - 1):
            ctx.sample({"proto": meta[k][1]["files"]["t.proto"][-400:],
                        "lenient_keeps": len((find_elem(meta[k][2]["lenient"], meta[k][1]["key"]) or {"unint": []})["unint"]) if meta[k][2]["lenient"].get("ok") else None})
    import C20
    res, err = coq_eval_multi("cases_C21", HEADER, terms, CHKS, shard_size=ctx.budget(120, 400), defs=C20.fixed_defs(ctx))
    if err:
        raise RuntimeError(err)
    for name, corr in (("opt_chk_strict", "options:interpretField (strict)"),
                       ("opt_chk_lenient", "options:interpretOptions (lenient: remain list, messages after failures)"),
                       ("opt_chk_unlinked", "options:interpretOptions (unlinked)")):
        for i in res[name]:
            klass, c, o = meta[i]
            ctx.corr_break(corr, {"proto": c["files"]["t.proto"], "files": c["files"]},
                           {m: o[m] for m in ("strictm", "lenient", "unlinked")})
    ctx.extra["panics_observed"] = panics

