"""C12 - Parser is total and reports positions inside the file."""
from lexlib import *

ID = "C12"
COQ_FILES = COQ_LEX + ["Props/C12.v"]
PROPS = "Props/C12.v"
THEOREMS = ["C12_lex_total", "C12_lex_error_positions", "C12_lex_item_positions"]
AXIOMS_OK = []
TRUSTED = TRUSTED_LEX
ASSUMPTIONS = ["P-core: totality and error positions are proved for the lexer model; the goyacc-generated LALR automaton, its error "
               "productions and ResultFromAST are generated / large code that is exercised by the fuzz streams (no panic, non-nil AST, "
               "error iff reported, positions exist in the input), not modelled",
               "line/column of an offset inside the file is C13's theorem"]


def line_width(line):
    """number of columns of one line under ast.FileInfo.SourcePos's rule: a tab advances to the next multiple of 8, every
    byte that is not a UTF-8 continuation byte is one column"""
    col = 0
    for b in line:
        if b == 9:
            col += 8 - (col % 8)
        elif (b & 0xC0) != 0x80:
            col += 1
    return col


def pos_ok(data, e):
    """does (line, col) exist in the input: the offset lies inside the file, 1 <= line <= number of lines, and
    1 <= col <= width(line) + 1 (the position just after the last character of the line, where its line break or the
    end of the file sits)"""
    lines = data.split(b"\n")
    if not (0 <= e["off"] <= len(data) and 1 <= e["line"] <= len(lines) and e["col"] >= 1):
        return False
    return e["col"] <= line_width(lines[e["line"] - 1]) + 1


def run(ctx):
    ins = gen_inputs(ctx, ctx.budget(1500, 60000), ctx.budget(1200, 40000), ctx.budget(500, 20000))
    # truncations of a seed file at every offset (thorough) / every 7th offset (quick)
    import glob, os
    seeds = sorted(glob.glob(os.path.join(REPO, "internal", "testdata", "desc_test_comments.proto")))
    for p in seeds:
        t = open(p, "rb").read()[:1500]
        for k in range(0, len(t), ctx.budget(7, 1)):
            ins.append(t[:k])
    # deep nesting
    for depth in (10, 100, 1000, ctx.budget(3000, 10000)):
        ins.append(b"message A {" * depth)
        ins.append(b"option (a) = {" + b"x: {" * depth)
        ins.append(b"message A { repeated " + b"(" * depth)
    ctx.rule = ("byte strings: %d hand-written lexer edge fragments, random bytes (len 0..24), token soups over the fragments, byte-level "
                "mutants and truncations of the repository's testdata, deep nesting up to depth %d; each is lexed by the real lexer "
                "alone (compared with the model in coqc; in the quick tier one in five of the inputs longer than 64 bytes) and parsed by parser.Parse + ResultFromAST (direct oracle); distinct = distinct "
                "byte string; non-trivial = non-empty" % (len(FRAGS), ctx.budget(3000, 10000)))
    lex_outs = ctx.impl("lexer", [{"mode": "lex", "data": d.hex()} for d in ins])
    par_outs = ctx.impl("lexer", [{"mode": "parse", "data": d.hex()} for d in ins])
    terms, meta = [], []
    nlong = 0
    for d, lo, po in zip(ins, lex_outs, par_outs):
        ctx.count(d, len(d) > 0, "accepted" if (not po.get("err") and "panic" not in po) else "rejected")
        rep = {"data_hex": d.hex(), "data_text": d[:200].decode("latin1")}
        for which, o in (("lexer", lo), ("parser", po)):
            if "panic" in o or "crash" in o:
                ctx.violation("parser-panic", "%s panicked on this input" % which, dict(rep, observed=o))
        if "panic" in po or "crash" in po:
            continue
        if po["ast_nil"]:
            ctx.violation("nil-ast", "parser.Parse returned a nil AST", dict(rep, observed=po))
        nerr = len(po["errs"] or [])
        if po["err"] != (nerr > 0):
            ctx.violation("error-iff-reported", "Parse returned err=%s but %d errors were reported" % (po["err"], nerr), dict(rep, observed=po))
        for e in (po["errs"] or []):
            if not pos_ok(d[3:] if d[:3] == b"\xef\xbb\xbf" else d, e):
                ctx.violation("error-position-outside-file", "a reported error position does not exist in the input", dict(rep, error=e))
        if "panic" in lo or "crash" in lo:
            continue
        if len(d) <= 4000:
            # quick tier: every short input and one in five of the longer ones (mostly token-level mutants of whole files, which
            # exercise the parser rather than the lexer) are also evaluated on the model in coqc; the direct oracle sees them all
            nlong += len(d) > 64
            if len(d) <= 64 or ctx.tier != "quick" or nlong % 5 == 0:
                terms.append(coq_lex_case(d, lo))
                meta.append((d, lo))
    ctx.sample({"data": ins[len(FRAGS) + 3].hex()}); ctx.sample({"data_text": ins[len(FRAGS) + 2000].decode("latin1")})
    mism, err = coq_eval_mismatches("cases_C12", HEADER, terms, "lex_chk", shard_size=300)
    if err:
        raise RuntimeError(err)
    for k in mism:
        d, lo = meta[k]
        ctx.corr_break("lexer items / errors", {"data_hex": d.hex(), "data_text": d[:200].decode("latin1")}, {"observed": lo})
