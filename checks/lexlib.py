"""Shared pieces for the stable-lexer properties C11, C12, C14."""
import os, glob
from vlib import *

COQ_LEX = ["Common/Bytes.v", "Common/Corr.v", "Model/Utf8.v", "Model/Lexer.v", "Proofs/Lexer.v"]
HEADER = ("From Coq Require Import List NArith ZArith Bool.\nImport ListNotations.\n"
          "From PV Require Import Common.Corr Model.Lexer.\nOpen Scope N_scope.\n")
TRUSTED_LEX = ["hand-written Gallina model of parser/lexer.go (Model/Lexer.v) using the model of utf8.DecodeRune of Model/Utf8.v",
               "correspondence harness harness/cmd/lexer + verif hook parser.VerifLex (drives protoLex.Lex alone until EOF or _ERROR)"]

KCODE = {"name": 0, "int": 1, "float": 2, "string": 3, "rune": 4, "eof": 5, "comment": 6}


def err_class(msg):
    if msg.startswith("invalid control character"): return 0
    if msg.startswith("invalid character"): return 1
    if msg.startswith("value out of range for") or msg.startswith("invalid syntax in"): return 2
    if msg in ("unexpected EOF", "EOF"): return 3
    if msg.startswith("encountered end-of-line"): return 4
    if msg.startswith("block comment never terminates"): return 6
    for p in ("invalid hex escape", "invalid octal escape", "octal escape is out range", "invalid unicode escape",
              "unicode escape is out of range", "invalid escape sequence", "null character"):
        if msg.startswith(p): return 5
    return 99


def coq_lex_case(data, o):
    items = []
    for it in o["items"]:
        k = KCODE.get(it["k"], 98)
        v = 0
        s = b""
        if it["k"] == "int":
            v = int(it["int"], 16)
        elif it["k"] == "rune":
            v = it["rune"]
        elif it["k"] == "string":
            s = bytes.fromhex(it["str"])
        items.append("{| o_k := %d; o_off := %d; o_len := %d; o_v := %d; o_s := %s |}" % (k, it["off"], it["len"], v, coq_N_list(s)))
    errs = ["(%d%%nat, %s)" % (err_class(e["msg"]), coq_Z(e["off"])) for e in o["errs"]]
    return "{| lc_data := %s; lc_items := [%s]; lc_failed := %s; lc_errs := [%s] |}" % (
        coq_N_list(data), "; ".join(items), coq_bool(o["failed"]), "; ".join(errs))


FRAGS = [b"syntax", b"=", b"\"proto3\"", b";", b"message", b"Foo", b"{", b"}", b"int32", b"x", b"1", b"0x1F", b"077", b"08", b"1.5e+3", b".5",
         b"1e", b"12345678901234567890123", b"0xFFFFFFFFFFFFFFFFF", b"// c\n", b"/* b */", b"/* unterminated", b"/", b"'a\\n'", b"\"\\x41\\101\\u00e9\"",
         b"\"\\xZ\"", b"\"\\400\"", b"\"\\U00110000\"", b"\"\\q\"", b"\"abc", b"\"a\nb\"", b"\x00", b"\x7f", b"\xc3\xa9", b"\xff", b"\xe2\x82", b" ", b"\t", b"\r\n",
         b"\n", b"\x0c", b"\x0b", b".", b"..", b"-", b"+", b"(", b")", b"[", b"]", b"<", b">", b":", b",", b"_a1", b"1_0", b"1e+", b"0x", b"0X1f", b"9e999", b"\"\\x-f\"",
         b"\"\\u-123\"", b"\"\\x\xff\xff\"", b"\"\\U0010FFFF\"", b"\"\\ud800\"", b"'\\''", b"\"\\\"\"", b"\"\\", b"\"\\x", b"\"\\1", b"\"\\12", b"\"\\u12\"", b"\"\\?\\a\\b\\f\\v\\r\\t\""]


TEMPLATES = [
    [b"syntax", b"=", b"\"proto3\"", b";", b"package", b"a", b".", b"b", b";", b"message", b"M", b"{", b"int32", b"f", b"=", b"1", b";", b"repeated", b"string", b"g", b"=", b"2",
     b"[", b"json_name", b"=", b"'x\\n'", b"]", b";", b"}"],
    [b"syntax", b"=", b"\"proto2\"", b";", b"message", b"M", b"{", b"optional", b"bytes", b"b", b"=", b"1", b"[", b"default", b"=", b"\"\\x00\\377\\u00e9\"", b"]", b";",
     b"extensions", b"100", b"to", b"max", b";", b"optional", b"double", b"d", b"=", b"2", b"[", b"default", b"=", b"-", b"1.5e3", b"]", b";", b"}", b"extend", b"M", b"{",
     b"optional", b"int32", b"e", b"=", b"0x64", b";", b"}"],
    [b"syntax", b"=", b"\"proto3\"", b";", b"enum", b"E", b"{", b"A", b"=", b"0", b";", b"B", b"=", b"01", b";", b"}", b"service", b"S", b"{", b"rpc", b"R", b"(", b"M", b")",
     b"returns", b"(", b"stream", b"M", b")", b";", b"}", b"message", b"M", b"{", b"map", b"<", b"string", b",", b"E", b">", b"m", b"=", b"1", b";", b"oneof", b"o", b"{",
     b"int32", b"x", b"=", b"2", b";", b"}", b"}"],
    [b"edition", b"=", b"\"2023\"", b";", b"option", b"features", b".", b"field_presence", b"=", b"IMPLICIT", b";", b"message", b"M", b"{", b"int32", b"f", b"=", b"1", b";", b"}"],
    # every kind of numbered declaration of one message, a plain field first (validation positions its errors at the tag node
    # of the LATER of two clashing declarations, so the order of kinds matters)
    [b"syntax", b"=", b"\"proto2\"", b";", b"message", b"M", b"{", b"optional", b"int32", b"a", b"=", b"1", b";", b"map", b"<", b"string", b",", b"string", b">", b"b", b"=", b"2", b";",
     b"optional", b"group", b"G", b"=", b"3", b"{", b"optional", b"int32", b"c", b"=", b"1", b";", b"}", b"oneof", b"o", b"{", b"int32", b"x", b"=", b"4", b";", b"group", b"H", b"=", b"5", b"{", b"}", b"}",
     b"extensions", b"10", b"to", b"20", b";", b"reserved", b"6", b",", b"7", b"to", b"9", b";", b"reserved", b"\"q\"", b";", b"}"],
    [b"syntax", b"=", b"\"proto2\"", b";", b"message", b"M", b"{", b"oneof", b"o", b"{", b"int32", b"x", b"=", b"4", b";", b"group", b"H", b"=", b"5", b"{", b"}", b"}",
     b"optional", b"group", b"G", b"=", b"3", b"{", b"}", b"map", b"<", b"int32", b",", b"M", b">", b"b", b"=", b"2", b";", b"repeated", b"M", b"a", b"=", b"1", b";",
     b"enum", b"E", b"{", b"A", b"=", b"0", b";", b"B", b"=", b"1", b"[", b"deprecated", b"=", b"true", b"]", b";", b"}", b"}",
     b"extend", b"M", b"{", b"optional", b"int32", b"e", b"=", b"10", b";", b"optional", b"group", b"X", b"=", b"11", b"{", b"}", b"}"],
]



def token_mutants(ctx, n_random):
    """grammar-aware near-valid inputs: the token templates with single tokens (and adjacent pairs / triples, e.g. the
    `= 1` of a field) deleted, duplicated or swapped; exhaustive for deletions, random for the rest"""
    rng = ctx.rng
    out = []
    for toks in TEMPLATES:
        n = len(toks)
        for width in (1, 2, 3):
            for i in range(0, n - width + 1):
                out.append(b" ".join(toks[:i] + toks[i + width:]))
        for i in range(n):
            out.append(b" ".join(toks[:i] + [toks[i], toks[i]] + toks[i + 1:]))
        for i in range(n - 1):
            t = list(toks); t[i], t[i + 1] = t[i + 1], t[i]
            out.append(b" ".join(t))
    # drop the `= <number>` of several declarations at once (all of them, and random subsets)
    for toks in TEMPLATES:
        pairs = [i for i in range(len(toks) - 1) if toks[i] == b"=" and toks[i + 1][:1].isdigit()]
        for rep in range(24):
            drop = set(pairs) if rep == 0 else {i for i in pairs if rng.chance(1, 2)}
            t = [x for i, x in enumerate(toks) if i not in drop and (i - 1) not in drop]
            out.append(b" ".join(t))
        # every number dropped, kept or replaced by 0 (clashing tags: validation then walks the tag nodes)
        for rep in range(40):
            t = []
            i = 0
            while i < len(toks):
                if i in pairs:
                    k = rng.below(3)
                    if k == 0:
                        i += 2
                        continue
                    if k == 1:
                        t += [b"=", b"0"]
                        i += 2
                        continue
                t.append(toks[i])
                i += 1
            out.append(b" ".join(t))
        # exactly two numbers dropped / zeroed, every pair (the smallest clash)
        for a in range(len(pairs)):
            for b in range(a + 1, len(pairs)):
                for zero in (False, True):
                    sel = {pairs[a], pairs[b]}
                    t = []
                    i = 0
                    while i < len(toks):
                        if i in sel:
                            if zero:
                                t += [b"=", b"0"]
                            i += 2
                            continue
                        t.append(toks[i])
                        i += 1
                    out.append(b" ".join(t))
    for _ in range(n_random):
        t = list(rng.choice(TEMPLATES))
        for _ in range(rng.range(1, 3)):
            k = rng.below(4)
            i = rng.below(len(t))
            if k == 0 and len(t) > 2:
                del t[i:i + rng.range(1, 3)]
            elif k == 1:
                t.insert(i, rng.choice(t))
            elif k == 2:
                t[i] = rng.choice(rng.choice(TEMPLATES))
            else:
                j = rng.below(len(t)); t[i], t[j] = t[j], t[i]
        out.append(b" ".join(t))
    return out


def gen_inputs(ctx, n_random, n_soup, n_mutants):
    rng = ctx.rng
    out = []
    for f in FRAGS:
        out.append(f)
    out += token_mutants(ctx, n_mutants)
    # a raw line break right after (or inside) every kind of escape prefix, then a later error: the line table must have
    # seen the break whichever branch of the string scanner consumed it
    for q in (b'"', b"'"):
        for esc in (b"\\", b"\\x", b"\\X", b"\\x4", b"\\u", b"\\u1", b"\\u12", b"\\u123", b"\\U", b"\\U0010", b"\\1", b"\\12", b"\\123", b"\\q", b"a", b""):
            for nl in (b"\n", b"\r\n", b"\n\n"):
                for tail in (b" ; $", b" $ \n $", b""):
                    out.append(b"option x = " + q + b"abc" + esc + nl + b"def" + q + tail)
                    out.append(b"option x = " + q + b"abc" + esc + nl + q + tail)
    for _ in range(n_random):
        out.append(rng.bytes(rng.range(0, 24)))
    for _ in range(n_soup):
        k = rng.range(1, 14)
        out.append(b"".join(rng.choice(FRAGS) + (b" " if rng.chance(2, 3) else b"") for _ in range(k)))
    seeds = sorted(glob.glob(os.path.join(REPO, "internal", "testdata", "*.proto")))
    texts = [open(p, "rb").read() for p in seeds][:12]
    for _ in range(n_mutants):
        if not texts:
            break
        t = rng.choice(texts)
        a = rng.below(max(1, len(t) - 200))
        t = bytearray(t[a:a + rng.range(20, 400)])
        for _ in range(rng.range(0, 3)):
            if t:
                t[rng.below(len(t))] = rng.choice([0, 0x22, 0x5c, 0x2f, 0x2a, 0x0a, 0xff, 0xc3, 0x7b, 0x7d, 0x30])
        if rng.chance(1, 3) and len(t) > 5:
            t = t[:rng.below(len(t))]
        out.append(bytes(t))
    return out
