"""C34 - The incremental executor terminates on cycles and panics."""
from inclib import *

ID = "C34"
COQ_FILES = ["Model/IncExec.v", "Proofs/IncExec1.v", "Proofs/IncExec2.v", "Proofs/IncExec3.v", "Proofs/IncExec5.v",
             "Proofs/IncExec6.v", "Proofs/IncExec7.v", "Common/Corr.v", "Props/C34.v"]
PROPS = "Props/C34.v"
THEOREMS = ["C34_run_terminates_partial_steps_bounded", "C34_run_terminates_partial_no_deadlock", "C34_run_terminates_partial",
            "C34_run_terminates_refuted", "C34_run_terminates_refuted_overlapping", "C34_panic_fails_run_uncached_refuted",
            "C34_cycle_error_sound_partial", "C34_cycle_error_names_cycle_refuted", "C34_permits_all_released_partial",
            "C34_never_aborts_partial"]
AXIOMS_OK = []
TRUSTED = TRUSTED_INC
ASSUMPTIONS = ["the _partial theorems assume that no query panics (wpanic = None) and quantify over every dependency graph "
               "(cycles, self-loops), every schedule, every parallelism >= 1, overlapping Runs, Evict/Edit between Runs",
               "the code as it is fails the property as soon as a query panics: the _refuted theorems are reachable model states "
               "that the real executor reproduces (keys pending-task-leaked-by-cancelled-run, cancelled-run-result-cached, "
               "overlapping-run-waits-on-panicked-leader, cycle-error-written-to-shared-result)",
               "the repaired protocol is in the model (wfix = true) and checked on the witnesses (Example "
               "C34_repaired_on_the_witnesses) and by the correspondence once inclib.REPAIRED is set; its full termination "
               "theorem with panics is NOT proved",
               "cancellation of the context by the caller of Run and Task.abort are not modelled"]


def trunc_after_panic(n, deps, panic_at, ops):
    """cut a history after the first Run that has to execute a panicking query (later Runs can hang on the unrepaired tree,
    and each hang costs the whole watchdog)"""
    cached, out = set(), []
    pan = set(panic_at or {})
    for op in ops:
        out.append(op)
        if op["op"] in ("evict", "edit"):
            cached -= upward_closure(deps, cached, op["keys"])
            continue
        roots = op["keys"] if op["op"] == "run" else [k for s in op["runs"] for k in s]
        ex = reach(deps, roots, cached) - cached
        if ex & pan:
            break
        cached |= ex
    return out


def run(ctx):
    rng = ctx.rng
    cases = []
    # corpus: the witnesses of the _refuted theorems on the real executor (deterministic ones), and the repository's own shapes
    corpus = [
        # sequential: Run(0 panics, 1) with ONE permit leaves task 1 pending; the next Run(1) never returns
        mk_case(2, [[], []], [{"op": "run", "keys": [0, 1]}, {"op": "run", "keys": [1]}], 1, panic_at={0: 0}, timeout_ms=1000),
        # 0 -> 1, 1 panics: key 0 is memoized with the ErrPanic of the cancelled Run; the next Run(0) succeeds
        mk_case(2, [[[1]], []], [{"op": "run", "keys": [0]}, {"op": "run", "keys": [0]}], 2, panic_at={1: 0}, timeout_ms=1000),
        # overlapping: Run A leads key 0 (sleeps 60 ms, then panics), Run B starts 20 ms later and waits on it
        mk_case(1, [[]], [{"op": "par", "runs": [[0], [0]], "delays_us": [0, 20000]}], 2, panic_at={0: 0},
                slow_us={0: 60000}, timeout_ms=1000),
        # TestCyclic's ring, a self-dependency, two waiters on one pending result
        mk_case(5, [[[1]], [[2]], [[3]], [[4]], [[0]]], [{"op": "run", "keys": [3]}, {"op": "run", "keys": [0, 1, 2, 3, 4]}], 4),
        mk_case(1, [[[0]]], [{"op": "run", "keys": [0]}], 1),
        mk_case(3, [[[1, 2]], [[0]], [[0]]], [{"op": "run", "keys": [0]}, {"op": "evict", "keys": [1]}, {"op": "run", "keys": [0]}], 3),
        # TestPanic's shape: a panicking query next to a memoized one
        mk_case(2, [[], []], [{"op": "run", "keys": [1]}, {"op": "run", "keys": [0, 1]}, {"op": "run", "keys": [1, 0]}], 4,
                panic_at={0: 0}),
    ]
    for c in corpus[:3]:
        c["hang_extra_ms"] = 1500
    cases += corpus
    # exhaustive: every digraph on <= 2 keys x every panic set x parallelism 1..3, every digraph on 3 keys without panics and
    # with each single panicking key; one Run of every key (and of key 0 only)
    nmax = 3
    for n in range(1, nmax + 1):
        for deps in all_digraphs(n):
            if n <= 2:
                pansets = [[k for k in range(n) if m >> k & 1] for m in range(1 << n)]
            elif ctx.tier == "quick":
                pansets = [[]] + ([[rng.below(n)]] if rng.chance(1, 4) else [])
            else:
                pansets = [[]] + [[k] for k in range(n)]
            for ps in pansets:
                for par in ((1, 2) if ctx.tier == "quick" else (1, 2, 3)):
                    for req in ([list(range(n))] + ([[0]] if (n == 2 or (n > 2 and ctx.tier != "quick")) else [])):
                        ops = [{"op": "run", "keys": req}]
                        if not ps:
                            ops.append({"op": "run", "keys": list(range(n))})
                        cases.append(mk_case(n, deps, ops, par, panic_at={k: 0 for k in ps}))
    nexh = len(cases)
    # random digraphs: cycles, several Resolve calls per query, panics at random points, overlapping Runs, evictions, jitter
    for _ in range(ctx.budget(300, 40000)):
        n = rng.range(2, 7)
        deps = random_digraph(rng, n, rng.range(10, 50)) if rng.chance(2, 3) else random_dag(rng, n, rng.range(20, 70))
        pa = {k: rng.below(len(deps[k]) + 1) for k in range(n) if rng.chance(1, 7)} if rng.chance(1, 2) else {}
        ops = trunc_after_panic(n, deps, pa, random_history(rng, n, rng.range(1, 5)))
        cases.append(mk_case(n, deps, ops, rng.range(1, 4), inputs=[rng.below(1000) for _ in range(n)], panic_at=pa,
                             jitter=rng.range(1, 1 << 30) if rng.chance(3, 4) else 0))
        cases[-1]["hang_extra_ms"] = 2500
    ctx.rule = ("directed dependency graphs (cycles and self-loops included) of counting queries x sets of panicking queries x "
                "parallelism: every digraph on <= 2 keys x every panic set x parallelism {1,2%s} x Run of all keys (and of key 0 alone); every "
                "digraph on 3 keys without panics (%s single panicking keys); random digraphs on 2..7 keys with 1..3 Resolve calls per "
                "query, panics before a random Resolve call, histories with overlapping Runs and evictions (cut after the first Run "
                "that must panic), schedule jitter; watchdog 1.5 s + 6 s; distinct = distinct (graph, panics, history, parallelism); "
                "non-trivial = a cycle or a panicking key is reachable"
                % ("" if ctx.tier == "quick" else ",3", "a sample of" if ctx.tier == "quick" else "all"))
    outs = ctx.impl("incremental", cases)
    terms, meta = [], []
    stride = ctx.budget(4, 1)
    for ci, (c, o) in enumerate(zip(cases, outs)):
        rc = reaches_cycle(c["n"], c["deps"])
        nontriv = any(rc) or bool(c.get("panic_at"))
        klass = ("cyclic" if any(rc) else "acyclic") + ("+panic" if c.get("panic_at") else "")
        ctx.count((c["n"], c["deps"], c["inputs"], c["ops"], c["par"], sorted(c.get("panic_at", {}).items())), nontriv, klass)
        if "crash" in o or "panic" in o:
            ctx.violation("harness-crash", "the harness process crashed", {"input": c, "observed": o})
            continue
        for key, what in oracle(c, o):
            ctx.violation(key, what, {"input": c, "observed": o})
        t = coq_case(c, o, after_cancel=(ci < 2)) if (ci < len(corpus) or ci % stride == 0) else None
        if t is not None:
            terms.append(t)
            meta.append((c, o))
    ctx.sample(corpus[0]); ctx.sample(corpus[2]); ctx.sample(cases[nexh // 2]); ctx.sample(cases[-1])
    mism, err = coq_eval_mismatches("cases_C34", HEADER, terms, "inc_chk", shard_size=max(60, len(terms) // 48 + 1))
    if err:
        raise RuntimeError(err)
    for k in mism:
        c, o = meta[k]
        ctx.corr_break("incremental executor: run verdict / cycle errors / Changed / execute counts / Keys() / hang", c, {"observed": o})
    ctx.extra["model_protocol"] = "repaired (wfix = true)" if REPAIRED else "as is (wfix = false)"
    # thorough: the write into the shared pending result is a data race
    if ctx.tier == "thorough":
        rc_cases = [mk_case(3, [[[1, 2]], [[0]], [[0]]], [{"op": "run", "keys": [0]}], 3, jitter=s + 1) for s in range(40)]
        routs = ctx.impl("incremental", rc_cases, race=True, shards=4, env={"GORACE": "halt_on_error=1"})
        for c, o in zip(rc_cases, routs):
            ctx.count(("race", c["jitter"]), True, "race-build")
            if "crash" in o and ("DATA RACE" in str(o["crash"]) or "harness exit 66" in str(o["crash"])):   # 66 = the race detector's exit code
                ctx.violation("cycle-error-written-to-shared-result",
                              "race detector: two waiters that found a cycle write Fatal of the same pending result "
                              "(task.go waitUntilDone `output.Fatal = err`)", {"input": c, "observed": o})
                break
