"""C03 - Source code info matches protoc (comment attribution, comment text; paths and spans by the goldens)."""
import os
from vlib import *
import srcinfolib as S

ID = "C03"
COQ_FILES = ["Common/Bytes.v", "Common/Corr.v", "Model/Utf8.v", "Model/Lexer.v", "Model/Comments.v",
             "Model/ProtocComments.v", "Proofs/Comments.v", "Props/C03.v"]
PROPS = "Props/C03.v"
THEOREMS = ["C03_comments_eq_protoc", "C03_attribution_eq_protoc", "C03_combine_comments_text",
            "C03_roles_partition", "C03_comment_used_once",
            # the code before the repairs e67d3d01 / 574d1b31 / 1915eb6c (historical)
            "C03_comments_eq_protoc_pinned_refuted", "C03_comments_eq_protoc_pinned_partial",
            "C03_combine_comments_text_pinned_refuted", "C03_combine_comments_text_partial"]
AXIOMS_OK = []
TRUSTED = ["hand-written Gallina model of parser/lexer.go comment attribution and sourceinfo attributeComments/combineComments (Model/Comments.v)",
           "Coq transcription of protoc's Tokenizer::NextWithComments / CommentCollector / ConsumeBlockComment / AttachComments (Model/ProtocComments.v), validated on every run against internal/testdata/source_info.protoset",
           "harness srcinfo + checks/srcinfolib.py: cutting the source into gaps along the real lexer's item list, mapping location spans to tokens, deciding which tokens end a declaration"]
ASSUMPTIONS = ["protoc is not available: its behaviour is the Coq specification; agreement with the real binary is checked only on the three golden files (reported as spec_golden_agreement)",
               "paths and spans are compared with protoc on the golden files only (P-core); generated sources check comments only",
               "gaps next to an empty statement are compared for the trailing comment of the declaration before it only: protoc's parser carries detached comments across an empty statement, which is not specified here",
               "sources that protoc rejects but this compiler accepts (a block comment containing the opening delimiter of another one) are not generated"]

# which instance of the model the tree is expected to match (default: the repaired code; see srcinfolib.CFG)
CFG = S.CFG
COQ_CFG = "(mkcfg %s %s %s)" % tuple(coq_bool(f in CFG) for f in ("fix_ws", "fix_empty", "fix_sep"))

KNOWN_KEYS = ("block-comment-line-starts-with-cr-vt-ff", "empty-comment-sets-field",
              "comment-before-separator-donated-to-previous-token")

CORPUS = [
    # smallest inputs of the three classes in which the code differs from protoc
    b"syntax = \"proto2\";\n/* a\r\n\r\n b */\r\nmessage M {}\r\n",
    b"syntax = \"proto2\";\n/**/\nmessage M {}\n",
    b"syntax = \"proto2\";\nmessage M {\n  optional int32 x = 1;\n  // c\n  ;\n}\n",
    # an editions enum with reserved identifiers: every statement has a location
    b"edition = \"2023\";\nenum E { reserved A, B; E_ZERO = 0; reserved 5; }\nmessage M { reserved a, b; reserved 5; }\n",
    # the arrangements protoc's collector distinguishes
    b"syntax = \"proto2\";\nmessage M {\n  optional int32 a = 1; /* t */ /* d */ /* l */ optional int32 b = 2;\n"
    b"  optional int32 c = 3; /* multi\n line */ optional int32 d = 4;\n  optional int32 e = 5; /* amb */ optional int32 f = 6;\n"
    b"  optional int32 g = 7; // t\n  // l1\n  // l2\n  optional int32 h = 8;\n\n  // d1\n\n  /* d2 */\n  // l\n  optional int32 i = 9;\n"
    b"  optional int32 j = 10;\n  // trailing on next line\n\n  optional int32 k = 11; /* t */ }\n// trailing at eof",
    b"// only a comment",
    b"",
    b"\xef\xbb\xbf// after bom\nsyntax = \"proto3\";",
]


def fix_golden(locs):
    """protocFixers of sourceinfo/source_code_info_test.go applied to protoc's locations"""
    import re
    out = []
    pats_default = [re.compile(r"^4,\d+,(?:3,\d+,)*2,\d+,7$"), re.compile(r"^7,\d+,7$"), re.compile(r"^4,\d+,(?:3,\d+,)*7,\d+,7$")]
    pat_json = re.compile(r"^4,\d+,(?:3,\d+,)*2,\d+,10$")
    for loc in locs:
        ps = ",".join(str(x) for x in loc["p"])
        loc = dict(loc)
        if any(p.match(ps) for p in pats_default):
            s = list(loc["s"])
            s[1] -= 10
            loc["s"] = s
        elif pat_json.match(ps):
            if out and out[-1]["p"] == loc["p"]:
                continue
        out.append(loc)
    return out


def correction_code(path):
    import re
    ps = ",".join(str(x) for x in path)
    if re.match(r"^4,\d+,(?:3,\d+,)*2,\d+,7$", ps) or re.match(r"^7,\d+,7$", ps) or re.match(r"^4,\d+,(?:3,\d+,)*7,\d+,7$", ps):
        return 1
    if re.match(r"^4,\d+,(?:3,\d+,)*2,\d+,10$", ps):
        return 2
    return 0


HEADER = ("From Coq Require Import List NArith ZArith Bool.\nImport ListNotations.\n"
          "From PV Require Import Common.Corr Model.Comments Model.ProtocComments.\nOpen Scope N_scope.\n")


def gcase_term(has_prev, raw, nxt, extra, texp, dexp, lex):
    t = "TSkip" if texp is None else "(TIs %s)" % S.coq_otext(texp[0])
    d = "DSkip" if dexp is None else "(DIs %s %s)" % (coq_list(dexp[0], S.coq_text), S.coq_otext(dexp[1]))
    lx = "None" if lex is None else "(Some (%d, %d)%%nat)" % lex
    return "(mkgcase %s %s %s %s %s %s %s %s)" % (COQ_CFG, coq_bool(has_prev), coq_N_list(raw), S.coq_nextk(nxt), coq_bool(extra), t, d, lx)


def statements_without_location(src, locs):
    """declaration-level statements (first token, last token = its ';') at whose ';' no location ends"""
    ends = set()
    for loc in locs:
        s, e = src.span_tokens(loc["s"])
        if e is not None:
            ends.add(e)
    out = []
    start = 0
    for k in range(len(src.toks)):
        if src.decl[k]:
            if src.ttext[k] == b";" and k > start and k not in ends:
                out.append((start, k))
            start = k + 1
    return out


def gap_expectations(src, locs):
    """per gap k (before token k): (texp, dexp) drawn from the standard-mode locations; None = nothing observable"""
    lead, trail, unmapped = S.locs_by_anchor(src, locs)
    hb = lambda x: None if x is None else bytes.fromhex(x)
    res = []
    bare = statements_without_location(src, locs)
    bare_first = {a for a, b in bare}
    bare_last = {b for a, b in bare}
    for k in range(len(src.toks)):
        if k in bare_first or (k - 1) in bare_last:
            # reported on its own (statement-without-location); its comments have nowhere to go
            res.append((None, None, []))
            continue
        texp = dexp = None
        problems = []
        if src.nwc_gap(k):
            empty_prev = k > 0 and src.ttext[k - 1] == b";" and (k == 1 or src.decl[k - 2])
            empty_next = src.ttext[k] == b";" and src.decl[k] and (k == 0 or src.decl[k - 1])
            if k > 0 and src.ttext[k - 1] != b"}" and not empty_prev:
                ts = trail.get(k - 1, [])
                if len(ts) > 1:
                    problems.append("several locations take the trailing comment after token %d" % (k - 1))
                texp = (hb(ts[0][0]) if ts else None,)
            if src.gaps[k]["nxt"] in ("other", "sep") and not empty_prev and not empty_next:
                ls = lead.get(k, [])
                if len(ls) > 1:
                    problems.append("several locations take the leading comments before token %d" % k)
                dexp = ([hb(x) for x in ls[0][0]], hb(ls[0][1])) if ls else ([], None)
        res.append((texp, dexp, problems))
    return res, unmapped


def gap_bytes(src, k):
    lo = src.toks[k - 1] if k > 0 else -1
    a = src.items[lo][0] + src.items[lo][1] if lo >= 0 else 0
    b = src.items[src.toks[k]][0]
    return bytes(src.data[a:b])


def run(ctx):
    rng = ctx.rng
    td = os.path.join(REPO, "internal", "testdata")
    gold_names = ["desc_test_comments.proto", "desc_test_complex.proto", "desc_test_options.proto"]

    # ---------------- golden files: protoc's own output
    ins = [{"mode": "golden", "protoset": os.path.join(td, "source_info.protoset")}] + \
          [{"mode": "compile", "file": f, "dir": td} for f in gold_names]
    outs = ctx.impl("srcinfo", ins, shards=1)
    for o in outs:
        if "err" in o or "crash" in o or "panic" in o:
            raise RuntimeError("golden files: " + str(o)[:500])
    gold = {f["name"]: f["locs"] for f in outs[0]["files"]}
    spec_terms, spec_meta = [], []
    path_terms = []
    loc_total = loc_agree = 0
    for name, o in zip(gold_names, outs[1:]):
        src = S.Src(bytes.fromhex(o["data"]), o["items"])
        if src.bad:
            raise RuntimeError("gap extraction failed on %s: %s" % (name, src.bad))
        fixed = fix_golden(gold[name])
        impl = o["locs"]["1"]
        strip = lambda l: (l["p"], l["s"], l["l"], l["t"], l["d"])
        loc_total += max(len(fixed), len(impl))
        same = sum(1 for a, b in zip(fixed, impl) if strip(a) == strip(b))
        loc_agree += same
        if len(fixed) != len(impl) or same != len(impl):
            k = next((i for i, (a, b) in enumerate(zip(fixed, impl)) if strip(a) != strip(b)), min(len(fixed), len(impl)))
            ctx.violation("golden-location-differs", "standard source info differs from protoc's golden output (after the test file's corrections)",
                          {"file": name, "index": k, "protoc": fixed[k] if k < len(fixed) else None, "impl": impl[k] if k < len(impl) else None})
        for loc in gold[name]:
            path_terms.append("(%s, %d%%nat)" % (coq_list(loc["p"], coq_Z), correction_code(loc["p"])))
        exps, unmapped = gap_expectations(src, gold[name])
        for k, (texp, dexp, problems) in enumerate(exps):
            if texp is None and dexp is None:
                continue
            spec_terms.append(gcase_term(k > 0, gap_bytes(src, k), src.gaps[k]["nxt"], False, texp, dexp, None))
            spec_meta.append((name, k, bool(src.gaps[k]["cidx"]), (texp is not None) + (dexp is not None)))
            ctx.count(("golden", name, k), bool(src.gaps[k]["cidx"]), "golden-gap")
    allterms = []      # (tag, term, meta), evaluated together at the end
    for t, m in zip(spec_terms, spec_meta):
        allterms.append(("gold", "(CSpec %s)" % t, m))
    for t in path_terms:
        allterms.append(("path", "(CPath %s)" % t, t))
    obs_total = sum(m[3] for m in spec_meta)
    # ---------------- generated sources
    base_ins = [{"mode": "compile", "text": h.hex()} for h in S.HAND]
    base_ins += [{"mode": "compile", "text": t.hex(), "dir": td} for _, t in S.testdata_sources(REPO)]
    base_ins += [{"mode": "compile", "text": open(os.path.join(td, f), "rb").read().hex(), "dir": td} for f in gold_names[:2]]
    bouts = ctx.impl("srcinfo", base_ins, shards=min(NCPU, len(base_ins)))
    bases = []
    for b, o in zip(base_ins, bouts):
        if "locs" not in o:
            raise RuntimeError("base source does not compile: " + str(o)[:400])
        bases.append((b, S.Src(bytes.fromhex(o["data"]), o["items"])))
    cases = [{"mode": "compile", "text": c.hex()} for c in CORPUS]
    exh = S.exhaustive_sources(ctx.budget(3, 4))
    cases += [{"mode": "compile", "text": c.hex()} for c in exh]
    ctx.extra["exhaustive_part"] = ("every gap of at most %d items over {newline, line comment, one-line block comment, two-line block comment} "
                                    "between two fields, before a closing brace, before an empty statement (%d files), a sample of them at the end of the file"
                                    % (ctx.budget(3, 4), len(exh)))
    edge = S.edge_sources(ctx.budget(3, 4))
    cases += [{"mode": "compile", "text": c.hex()} for c in edge]
    ctx.extra["file_ends_part"] = ("the same gap shapes at the two ends of a file: between the last top-level statement ending with a semicolon "
                                   "(syntax, edition, package, import, option) and the end of the file, ended in every way (final newline, none - a line "
                                   "comment ended by the end of the file -, blanks or a lone carriage return only, CRLF, blank lines), before the first "
                                   "declaration of each kind (no previous token; LF, CRLF, byte order mark), as the whole file, and the in-body "
                                   "arrangements of at most two items in a CRLF file (%d files)" % len(edge))
    nsystematic = len(cases)
    nfiles = ctx.budget(64, 1000)
    for i in range(nfiles):
        b, src = bases[i % len(bases)]
        c = {"mode": "compile", "text": S.retrivia(rng, src).hex()}
        if "dir" in b:
            c["dir"] = b["dir"]
        cases.append(c)
    couts = ctx.impl("srcinfo", cases)
    ctx.rule = ("golden part: every gap of the three protoc golden files that protoc reads with NextWithComments; generated part: the token "
                "sequences of %d accepted sources (hand-written files covering every declaration kind, repository testdata) re-rendered with "
                "random whitespace and comments between the tokens (line and block comments, multi-line blocks with and without asterisks, blank "
                "lines, tabs, multi-byte characters, CRLF files, comments before closers and at the end of the file, byte order mark; some of the "
                "sources end with the semicolon of a top-level statement, so that the comments before the end of the file are observable), plus "
                "the exhaustive small gap shapes in the body and at the two ends of the file, plus a corpus of edge cases; one case = one gap with its observed comments; distinct = distinct (gap bytes, neighbours, observation); "
                "non-trivial = the gap holds a comment" % len(bases))
    go_terms, go_meta, sp_terms, sp_meta = [], [], [], []
    seen = set()
    nfail = 0
    keep_go = keep_sp = None
    for ci, (c, o) in enumerate(zip(cases, couts)):
        if ci == nsystematic:
            keep_go, keep_sp = len(go_terms), len(sp_terms)
        text = bytes.fromhex(c["text"])
        if "locs" not in o:
            nfail += 1
            if o.get("panicked") or "crash" in o or "panic" in o:
                ctx.violation("compile-panics", "the compiler panicked on an accepted token sequence with comments",
                              {"source_hex": c["text"], "source": text.decode("utf8", "replace"), "observed": str(o)[:1500]})
            continue
        src = S.Src(bytes.fromhex(o["data"]), o["items"])
        if src.bad:
            ctx.corr_break("gap-extraction", {"source_hex": c["text"]}, {"why": src.bad})
            continue
        exps, unmapped = gap_expectations(src, o["locs"]["1"])
        for i in unmapped:
            ctx.corr_break("span-not-on-token-boundaries", {"source_hex": c["text"]}, {"loc": o["locs"]["1"][i]})
        for a, b in statements_without_location(src, o["locs"]["1"]):
            stmt = b" ".join(src.ttext[a:b + 1]).decode("utf8", "replace")
            in_enum = False
            depth = 0
            for j in range(a - 1, -1, -1):        # the block the statement is in
                if src.decl[j] and src.ttext[j] == b"}":
                    depth += 1
                elif src.decl[j] and src.ttext[j] == b"{":
                    if depth == 0:
                        m = j
                        while m > 0 and not src.decl[m - 1]:
                            m -= 1
                        in_enum = src.ttext[m] == b"enum"
                        break
                    depth -= 1
            key = "enum-reserved-identifiers-without-location" if (src.ttext[a] == b"reserved" and in_enum) else "statement-without-location"
            ctx.violation(key, "protoc records a location (with comments) for every declaration; no location ends at the end of this statement",
                          {"source_hex": c["text"], "source": text.decode("utf8", "replace"), "statement": stmt})
        for k, (texp, dexp, problems) in enumerate(exps):
            g = src.gaps[k]
            raw = gap_bytes(src, k)
            lex = (src.items[src.toks[k - 1]][8] if k > 0 else 0, src.items[src.toks[k]][7])
            key = (k > 0, raw, g["nxt"], texp, None if dexp is None else (tuple(dexp[0]), dexp[1]), lex)
            nontrivial = bool(g["cidx"])
            if key in seen and not problems:
                continue
            seen.add(key)
            ctx.count(key, nontrivial, "gap-with-comments" if nontrivial else "gap-without-comments")
            for pr in problems:
                ctx.corr_break("location-to-gap-mapping", {"source_hex": c["text"]}, {"why": pr})
            go_terms.append(gcase_term(k > 0, raw, g["nxt"], False, texp, dexp, lex))
            go_meta.append((c, k))
            if texp is not None or dexp is not None:
                sp_terms.append(gcase_term(k > 0, raw, g["nxt"], False, texp, dexp, None))
                sp_meta.append((c, k, src, texp, dexp))
        ctx.traces += 1
    if nfail > len(cases) // 10:
        ctx.notes.append("%d of %d generated sources were rejected" % (nfail, len(cases)))
    ctx.extra["generated_sources"] = len(cases)
    ctx.extra["generated_sources_rejected"] = nfail
    ctx.sample({"source": bytes.fromhex(cases[len(CORPUS)]["text"])[:400].decode("utf8", "replace")})
    ctx.sample({"source": CORPUS[3].decode()})
    def cap(terms, meta, keep, n):
        # the systematic part (corpus, exhaustive small shapes in the body and at the two ends of the file) comes
        # first and is always kept whole; the randomly generated rest is sampled down to n
        keep = len(terms) if keep is None else keep
        if len(terms) - keep <= n:
            return terms, meta
        idx = list(range(keep)) + sorted(rng.shuffle(list(range(keep, len(terms))))[:n])
        return [terms[i] for i in idx], [meta[i] for i in idx]
    ctx.extra["systematic_cases (model vs implementation, direct oracle)"] = [keep_go, keep_sp]
    go_terms, go_meta = cap(go_terms, go_meta, keep_go, ctx.budget(4100, 10 ** 9))
    sp_terms, sp_meta = cap(sp_terms, sp_meta, keep_sp, ctx.budget(2100, 10 ** 9))
    ctx.extra["model_vs_implementation_cases"] = len(go_terms)
    for t, m in zip(go_terms, go_meta):
        allterms.append(("go", "(CGo %s)" % t, m))
    for t, m in zip(sp_terms, sp_meta):
        allterms.append(("spec", "(CSpec %s)" % t, m))
    mism_all, err = coq_eval_mismatches("cases_C03", HEADER, [t for _, t, _ in allterms], "c03_chk", shard_size=700)
    if err:
        raise RuntimeError(err)
    bad = {"gold": [], "path": [], "go": [], "spec": []}
    for i in mism_all:
        bad[allterms[i][0]].append(allterms[i])
    # golden validation of the specification
    obs_bad = sum(m[3] for _, _, m in bad["gold"])
    mism = bad["gold"]
    with_comments = sum(1 for m in spec_meta if m[2])
    ctx.extra["spec_golden_agreement"] = {
        "gaps_compared": len(spec_meta), "gaps_agreeing": len(spec_meta) - len(mism), "gaps_with_comments": with_comments,
        "observations (trailing / detached+leading per gap)": obs_total, "observations_agreeing": obs_total - obs_bad,
        "locations_compared_with_protoc (path, span, comments; after known corrections)": loc_total, "locations_agreeing": loc_agree,
        "files": gold_names}
    for _, t, m in mism:
        ctx.corr_break("spec-vs-protoc-golden", {"file": m[0], "gap_before_token": m[1]}, {"term": t[:400]})
    for _, t, _ in bad["path"]:
        ctx.corr_break("known-protoc-corrections-vs-test-file-patterns", {"term": t}, {})
    for _, t, (c, k) in bad["go"]:
        ctx.corr_break("model-vs-implementation", {"source_hex": c["text"], "gap_before_token": k}, {"term": t[:600]})
    ctx.extra["direct_oracle_observations"] = len(sp_terms)
    for _, _, (c, k, src, texp, dexp) in bad["spec"]:
        g = src.gaps[k]
        keys = sorted(S.classify(k > 0, g["items"], g["nxt"]))
        st, sd, sl = S.spec_out(k > 0, g["items"], g["nxt"])
        key = keys[0] if keys and keys[0] in KNOWN_KEYS else "comment-attribution-differs-from-protoc"
        if key not in KNOWN_KEYS:
            # name the case in which the comments are given to the right fields and only the newline that ends a
            # line comment is present / absent (protoc keeps it exactly when it is in the source)
            cut = lambda x: None if x is None else x.rstrip(b"\n")
            same_t = texp is None or cut(texp[0]) == cut(st)
            same_d = dexp is None or ([cut(x) for x in dexp[0]] == [cut(x) for x in sd] and cut(dexp[1]) == cut(sl))
            if same_t and same_d:
                key = "line-comment-final-newline-differs-from-protoc"
        text = bytes.fromhex(c["text"])
        ctx.violation(key, "the comments of a location differ from what protoc attaches at this gap",
                      {"source_hex": c["text"], "source": text.decode("utf8", "replace"),
                       "gap_between_tokens": [src.ttext[k - 1].decode("utf8", "replace") if k else None, src.ttext[k].decode("utf8", "replace")],
                       "gap_text": gap_bytes(src, k).decode("utf8", "replace"),
                       "implementation": {"trailing": None if texp is None else repr(texp[0]),
                                          "detached_leading": None if dexp is None else repr(dexp)},
                       "protoc_spec": {"trailing": repr(st), "detached": repr(sd), "leading": repr(sl)},
                       "classes": keys})
