"""C27 - Experimental compiler agrees with the stable compiler (differential, with a small proved core)."""
import os, re, shutil
from vlib import *
import pgenlib
import c27gen

ID = "C27"
COQ_FILES = ["Common/Corr.v", "Model/DualCore.v", "Proofs/DualCore.v", "Props/C27.v"]
PROPS = "Props/C27.v"
THEOREMS = ["C27_desc_eq_refl", "C27_desc_eq_sym", "C27_desc_eq_trans", "C27_desc_eq_iff_projection_eq",
            "C27_projection_changes_nothing_else", "C27_desc_eq_is_equality_on_plain_trees",
            "C27_projection_is_plain_representative"]
AXIOMS_OK = []
TRUSTED = ["the differential oracle itself: harness/cmd/dualcompile drives protocompile.Compiler and incremental.Run(queries.IR) + "
           "fdp.DescriptorProtoBytes (as internal/testing/dualcompiler/new_adapter.go does) on the same sources",
           "protobuf-go: re-decoding both descriptors with the stable compiler's extension resolver (so that known-vs-unknown option "
           "storage depends on the schema only), reflection Range, protowire",
           "Model/DualCore.v as a description of the comparison: tied to the harness on every run by evaluating desc_eq in coqc on the "
           "field trees of real descriptor pairs and of perturbed descriptors and comparing with the harness's verdict",
           "the program generators (checks/pgenlib.py, the focus generator and the near-valid mutator in checks/C27.py, the features "
           "stratum of checks/c27gen.py)"]
ASSUMPTIONS = ["the Coq theorems are about the comparison function only; neither compiler is modelled here. The agreement of the two "
               "compilers is established by the differential oracle on the generated programs, nothing more",
               "a NaN equals another NaN (as proto.Equal); -0 and 0 differ; repeated elements are compared in order; fields unknown to "
               "the schema are compared as raw bytes in wire order"]

# ---- the project's own lists of known limitations of the experimental compiler, transcribed with their reasons ----
EXCLUSIONS = [
    {"source": "compiler_dualcompiler_test.go TestDualCompiler_ParseCustomOptions (SkipConfig{SkipNew: true})",
     "reason": "extension descriptors from protodesc don't support self-referential extensions",
     "applies_to": "building a protoreflect.FileDescriptor (protodesc.NewFile) from the experimental compiler's FileDescriptorProto of a file "
                   "that uses custom options it declares itself; this check compares FileDescriptorProtos and never calls protodesc on "
                   "them, so nothing is excluded on this ground"},
    {"source": "internal/testing/dualcompiler/helpers.go compareCompilationResults(stripSourceInfo=true), SkipReason example",
     "reason": "source code info not yet implemented in experimental compiler: source code info is stripped before comparison",
     "applies_to": "source_code_info is not compared (the first of the three things the comparison ignores)"},
    {"source": "internal/testing/dualcompiler/adapters.go ResolverToOpener",
     "reason": "only SearchResult.Source is supported; AST, Proto, Desc and ParseResult results are not",
     "applies_to": "the harness feeds both compilers source text only; well-known types come from protocompile.WithStandardImports on one "
                   "side and source.WKTs() on the other, as in the repository's adapters"},
]


def excluded(key, case, out):
    """no generated difference falls under the lists above (they are about inputs this check does not produce)"""
    return None


# ---------------------------------------------------------------- focus generator: edge values per feature
SCALARS = pgenlib.SCALARS
MAPKEYS = pgenlib.MAPKEYS
FLOAT_DEFAULTS = ["0", "-0", "0.0", "-0.0", "1", "1.5", "-0.25", "inf", "-inf", "nan", "1e10", "1e-5", "1E+3", ".5", "5.", "3.4028235e38",
                  "1.17549435e-38", "1e39", "1e-46", "123456789", "16777217", "0.1", "1e308", "1.7976931348623157e308", "4.9e-324", "1e400",
                  "-1e400", "0x10", "017", "100000000000000000000", "2.5e-1", "1e23", "8.5e22", "9007199254740993"]
INT32_DEFAULTS = ["0", "1", "-1", "42", "2147483647", "-2147483648", "0x7fffffff", "-0x80000000", "017", "0X1F", "-017", "00", "2147483648"]
INT64_DEFAULTS = INT32_DEFAULTS + ["9223372036854775807", "-9223372036854775808", "0x7fffffffffffffff", "9223372036854775808"]
UINT32_DEFAULTS = ["0", "1", "42", "4294967295", "0xffffffff", "037777777777", "-1", "4294967296"]
UINT64_DEFAULTS = UINT32_DEFAULTS + ["18446744073709551615", "0xffffffffffffffff"]
STRING_DEFAULTS = ['""', '"abc"', '"x y"', '"\\n\\t\\r"', '"\\303\\251"', '"q\\"q"', "'single'", "'it\\'s'", '"\\a\\b\\f\\v\\\\"', '"\\?"',
                   '"\\x41\\x7f"', '"\\u00e9"', '"\\U0001F600"', '"\\101\\7"', '"a" "b"', '"a"\n    \'b\'', '"\\0"', '"café"', '"\\1234"']
BYTES_DEFAULTS = ['""', '"\\x00\\xff"', '"abc"', '"\\001\\002"', '"\\377"', '"\\\\"', '"\\""', "'\\''", '"\\n"', '"\\xe9"', '"\\303\\251"',
                  '"a" "b"', '"\\x7f\\x80"', '"?\\?"', '"\\000a"']
FIELD_NAMES = ["foo", "foo_bar", "_foo", "foo__bar", "fooBar", "foo_1", "FOO_BAR", "foo_", "f_o_o", "foo1bar", "Foo", "foo_Bar", "x_y_z", "a1_b2",
               "json_name", "default", "message", "optional", "group", "syntax", "import", "package", "map", "stream", "returns", "to", "max",
               "reserved", "extensions", "inf", "nan", "true", "false", "option", "enum", "oneof", "service", "rpc", "public", "weak", "extend",
               "required", "repeated", "int32", "string"]
FILE_OPTS = ['java_package = "com.x"', "java_multiple_files = true", 'go_package = "x/y;z"', "optimize_for = CODE_SIZE",
             "optimize_for = LITE_RUNTIME", "cc_enable_arenas = true", "deprecated = true", 'objc_class_prefix = "ABC"',
             "java_generic_services = true", 'csharp_namespace = "A.B"', "java_string_check_utf8 = true", "cc_generic_services = false",
             'php_namespace = "A\\\\B"', 'ruby_package = "A::B"', 'swift_prefix = "S"']


def default_for(rng, t):
    if t in ("double", "float"):
        return rng.choice(FLOAT_DEFAULTS)
    if t == "bool":
        return rng.choice(["true", "false"])
    if t == "string":
        return rng.choice(STRING_DEFAULTS)
    if t == "bytes":
        return rng.choice(BYTES_DEFAULTS)
    if t in ("int32", "sint32", "sfixed32"):
        return rng.choice(INT32_DEFAULTS)
    if t in ("int64", "sint64", "sfixed64"):
        return rng.choice(INT64_DEFAULTS)
    if t in ("uint32", "fixed32"):
        return rng.choice(UINT32_DEFAULTS)
    return rng.choice(UINT64_DEFAULTS)


def gen_focus(rng):
    syn = rng.choice(["proto2", "proto2", "proto3", "editions", "none"])
    L = []
    if syn == "editions":
        L.append('edition = "2023";')
    elif syn != "none":
        L.append('syntax = "%s";' % syn)
    p2 = syn in ("proto2", "none")
    pkg = rng.choice(["", "p", "p.q.r", "foo_bar.Baz"])
    if pkg:
        L.append("package %s;" % pkg)
    files = {}
    imps = []
    if rng.chance(1, 3):
        lsyn = rng.choice(["proto2", "proto3"])
        lab = "optional " if lsyn == "proto2" else ""
        files["lib.proto"] = ('syntax = "%s";\npackage lib;\nmessage L { %sint32 a = 1;%s }\nenum LE { LE0 = 0; LE1 = 1; }\n'
                              % (lsyn, lab, " extensions 100 to max;" if lsyn == "proto2" else ""))
        L.append('import %s"lib.proto";' % rng.choice(["", "", "public ", "weak "]))
        imps.append("lib2" if lsyn == "proto2" else "lib3")
    if rng.chance(1, 4):
        L.append('import "google/protobuf/descriptor.proto";')
        imps.append("desc")
    if rng.chance(1, 6):
        L.append('import "google/protobuf/any.proto";')
        imps.append("any")
    for o in FILE_OPTS:
        if rng.chance(1, 14):
            L.append("option %s;" % o)
    lab = "optional " if p2 else ""
    used = set()

    def fname():
        for _ in range(20):
            n = rng.choice(FIELD_NAMES) if rng.chance(1, 2) else "f%d" % rng.below(1000)
            if n.lower().replace("_", "") not in used:
                used.add(n.lower().replace("_", ""))
                return n
        n = "g%d" % len(used)
        used.add(n)
        return n

    if "desc" in imps:
        L.append("extend google.protobuf.FieldOptions { %sint32 fopt = 50001; %sstring sopt = 50002; repeated int64 ropt = 50003; "
                 "%sOM mopt = 50004; %sKE eopt = 50005; %sdouble dopt = 50006; %sbytes bopt = 50007; }" % ((lab,) * 6))
        L.append("message OM { %sint32 a = 1; %sOM next = 2; repeated string r = 3; }" % (lab, lab))
        L.append("enum KE { KE0 = 0; KE1 = 1; }")
        L.append("extend google.protobuf.MessageOptions { %sOM mmopt = 50001; }" % lab)
        L.append("extend google.protobuf.EnumValueOptions { %sint32 evopt = 50001; }" % lab)
        L.append("extend google.protobuf.FileOptions { %sstring fileopt = 50001; }" % lab)
        if rng.chance(1, 2):
            L.append('option (fileopt) = "v";')
    L.append("enum E { %sE0 = 0; E1 = 1; E_NEG = -1; E2 = 2 [deprecated = true]; %s}"
             % ("option allow_alias = true; E0B = 0; " if rng.chance(1, 4) else "",
                rng.choice(["", "", "reserved 10 to 20; ", "reserved 10 to max; "])))
    L.append("message Other { %sint32 x = 1; }" % lab)
    for mi in range(rng.range(1, 3)):
        used.clear()
        L.append("message M%d {" % mi)
        if "desc" in imps and rng.chance(1, 3):
            L.append(rng.choice(["  option (mmopt) = { a: 1 next { a: 2 } r: 'x' r: 'y' };", "  option (mmopt).a = 5;",
                                 "  option (mmopt) = { a: 1, r: ['p', 'q'] };", "  option (mmopt).next.next.a = 3;"]))
        if rng.chance(1, 8):
            L.append("  option deprecated = true;")
        if p2 and rng.chance(1, 14):
            L.append("  option message_set_wire_format = true;")
        if rng.chance(1, 14):
            L.append("  option no_standard_descriptor_accessor = true;")
        num = 0
        for _ in range(rng.range(0, 7)):
            num += rng.range(1, 3)
            if rng.chance(1, 30):
                num = rng.choice([18999, 20000, 536870911, 100000])
            kind = rng.below(12)
            n = fname()
            opts = []
            if kind < 6:
                t = rng.choice(SCALARS)
                card = rng.choice(["single", "single", "repeated"])
                if card == "repeated":
                    l = "repeated "
                    if syn != "editions" and t not in ("string", "bytes") and rng.chance(1, 2):
                        opts.append("packed = %s" % rng.choice(["true", "false"]))
                elif syn == "proto3":
                    l = "optional " if rng.chance(1, 3) else ""
                elif syn == "editions":
                    l = ""
                else:
                    l = rng.choice(["optional ", "optional ", "required "])
                if card == "single" and syn != "proto3" and rng.chance(1, 2):
                    opts.append("default = %s" % default_for(rng, t))
                if rng.chance(1, 5):
                    opts.append('json_name = "%s"' % rng.choice(["x", "fooBar", "foo_bar", "", "a b", "1x", n]))
                if t == "string" and rng.chance(1, 6):
                    opts.append("ctype = %s" % rng.choice(["CORD", "STRING_PIECE", "STRING"]))
                if "64" in t and rng.chance(1, 4):
                    opts.append("jstype = %s" % rng.choice(["JS_STRING", "JS_NUMBER", "JS_NORMAL"]))
                if rng.chance(1, 10):
                    opts.append("deprecated = true")
                if rng.chance(1, 14):
                    opts.append("retention = RETENTION_SOURCE")
                if rng.chance(1, 14):
                    opts.append("targets = TARGET_TYPE_FIELD")
                if rng.chance(1, 14):
                    opts.append("debug_redact = true")
                if "desc" in imps and rng.chance(1, 3):
                    opts.append(rng.choice(["(fopt) = -5", '(sopt) = "s\\n"', "(ropt) = 1, (ropt) = 2", "(mopt) = { a: 1 }", "(eopt) = KE1",
                                            "(dopt) = 1e10", "(dopt) = inf", '(bopt) = "\\xff"', "(mopt).a = 2", "(dopt) = -nan",
                                            "(fopt) = 0x10", "(ropt) = -0", "(dopt) = -0.0", "(dopt) = nan"]))
                L.append("  %s%s %s = %d%s;" % (l, t, n, num, " [%s]" % ", ".join(opts) if opts else ""))
            elif kind == 6:
                L.append("  map<%s, %s> %s = %d;" % (rng.choice(MAPKEYS), rng.choice(SCALARS + ["E", "Other"]), n, num))
            elif kind == 7:
                ts = ["E", "Other", ".%sE" % (pkg + "." if pkg else ""), "M%d" % mi]
                if "lib2" in imps or "lib3" in imps:
                    ts += ["lib.L", "lib.LE"]
                if "any" in imps:
                    ts.append("google.protobuf.Any")
                t = rng.choice(ts)
                l = rng.choice([lab, "repeated "])
                if t.endswith("E") and t != "lib.LE" and l != "repeated " and syn != "proto3" and rng.chance(1, 2):
                    opts.append("default = %s" % rng.choice(["E1", "E0", "E_NEG"]))
                if not t.endswith("E") and rng.chance(1, 8):
                    opts.append("lazy = true")
                L.append("  %s%s %s = %d%s;" % (l, t, n, num, " [%s]" % ", ".join(opts) if opts else ""))
            elif kind == 8 and p2:
                L.append("  %sgroup G%d_%d = %d { optional int32 gx = 1; }" % (rng.choice(["optional ", "repeated ", "required "]), mi, num, num))
            elif kind == 9:
                L.append("  oneof %s {" % n)
                for _ in range(rng.range(1, 3)):
                    num += 1
                    L.append("    %s %s = %d;" % (rng.choice(SCALARS + ["E", "Other"]), fname(), num))
                if p2 and rng.chance(1, 4):
                    num += 1
                    L.append("    group OG%d_%d = %d { optional int32 gy = 1; }" % (mi, num, num))
                L.append("  }")
            elif kind == 10:
                L.append("  message N%d { %sint32 z = 1; enum NE { NE0 = 0; } }" % (num, lab))
            else:
                L.append("  %s%s %s = %d;" % (lab, rng.choice(SCALARS), n, num))
        if rng.chance(1, 3):
            L.append(rng.choice(["  reserved 1000;", "  reserved 1000 to 1005, 2000;", "  reserved 5000 to max;",
                                 '  reserved "old", "older";' if syn != "editions" else "  reserved old, older;",
                                 "  reserved 536870911;", "  reserved 1000 to 1000;"]))
        if syn != "proto3" and rng.chance(1, 3):
            L.append(rng.choice(["  extensions 600 to 699;", "  extensions 600 to max;", "  extensions 600, 700 to 800;",
                                 "  extensions 600 to 699 [verification = UNVERIFIED];", "  extensions 536870911;"]))
            if rng.chance(1, 2):
                L.append("  extend M%d { %s%s xx%d = 600%s; }" % (mi, rng.choice([lab, "repeated "]), rng.choice(SCALARS + ["Other", "E"]), mi,
                                                                   rng.choice(["", " [deprecated = true]"])))
        L.append("}")
    if "lib2" in imps and syn != "proto3" and rng.chance(1, 2):
        L.append("extend lib.L { %sint32 libext = 100; %sOther libext2 = 101; }" % (lab, lab))
    if rng.chance(1, 3):
        L.append("service Svc {")
        if rng.chance(1, 4):
            L.append("  option deprecated = true;")
        for k in range(rng.range(0, 3)):
            body = rng.choice([";", " {}", " { option deprecated = true; }", " { option idempotency_level = IDEMPOTENT; }",
                               " { option idempotency_level = NO_SIDE_EFFECTS; };"])
            L.append("  rpc R%d(%sM0) returns (%sOther)%s" % (k, rng.choice(["", "stream "]), rng.choice(["", "stream "]), body))
        L.append("}")
    files["t.proto"] = "\n".join(L) + "\n"
    return files, ["t.proto"]


# ---------------------------------------------------------------- near-valid programs: one rule broken
FIELD_RE = re.compile(r"^(\s*)((?:optional |required |repeated )?)([\w.]+) (\w+) = (\d+)((?: \[.*\])?);$")


def mutate(rng, files, request):
    """breaks one validity rule in one file; returns (files, request, what) or None"""
    path = rng.choice(request)
    lines = files[path].split("\n")
    flds = [(i, FIELD_RE.match(l)) for i, l in enumerate(lines)]
    flds = [(i, m) for i, m in flds if m]
    if not flds:
        return None
    i, m = rng.choice(flds)
    ind, lab, typ, name, num, opts = m.groups()
    j, m2 = rng.choice(flds)
    kind = rng.choice(["number-zero", "number-reserved-range", "number-too-big", "number-of-other-field", "name-of-other-field",
                       "unknown-type", "label-required", "label-optional", "default-wrong-type", "default-on-repeated", "packed-on-string",
                       "map-float-key", "json-name-conflict", "negative-number", "type-is-field-name", "default-overflow",
                       "group-anywhere", "empty-oneof", "dup-option", "lowercase-group", "missing-import", "reserved-conflict",
                       "enum-no-zero", "dup-enum-number", "ext-out-of-range", "stream-typo", "number-hex"])
    new = None
    if kind == "number-zero":
        new = "%s%s%s %s = 0%s;" % (ind, lab, typ, name, opts)
    elif kind == "number-reserved-range":
        new = "%s%s%s %s = 19500%s;" % (ind, lab, typ, name, opts)
    elif kind == "number-too-big":
        new = "%s%s%s %s = 536870912%s;" % (ind, lab, typ, name, opts)
    elif kind == "negative-number":
        new = "%s%s%s %s = -1%s;" % (ind, lab, typ, name, opts)
    elif kind == "number-hex":
        new = "%s%s%s %s = 0x%x%s;" % (ind, lab, typ, name, int(num), opts)
    elif kind == "number-of-other-field":
        new = "%s%s%s %s = %s%s;" % (ind, lab, typ, name, m2.group(5), opts)
    elif kind == "name-of-other-field":
        new = "%s%s%s %s = %s%s;" % (ind, lab, typ, m2.group(4), num, opts)
    elif kind == "unknown-type":
        new = "%s%sNoSuchType %s = %s%s;" % (ind, lab, name, num, opts)
    elif kind == "type-is-field-name":
        new = "%s%s%s %s = %s%s;" % (ind, lab, m2.group(4), name, num, opts)
    elif kind == "label-required":
        new = "%srequired %s %s = %s%s;" % (ind, typ, name, num, opts)
    elif kind == "label-optional":
        new = "%soptional %s %s = %s%s;" % (ind, typ, name, num, opts)
    elif kind == "default-wrong-type":
        new = "%s%s%s %s = %s [default = %s];" % (ind, lab, typ, name, num, rng.choice(['"s"', "1.5", "true", "E1", "-1", "{}"]))
    elif kind == "default-overflow":
        new = "%s%s%s %s = %s [default = %s];" % (ind, lab, typ, name, num, rng.choice(["4294967296", "-2147483649", "1e400", "18446744073709551616"]))
    elif kind == "default-on-repeated":
        new = "%srepeated %s %s = %s [default = 1];" % (ind, typ, name, num)
    elif kind == "packed-on-string":
        new = "%srepeated string %s = %s [packed = true];" % (ind, name, num)
    elif kind == "map-float-key":
        new = "%smap<%s, int32> %s = %s;" % (ind, rng.choice(["float", "double", "bytes", "E", "Other"]), name, num)
    elif kind == "json-name-conflict":
        new = '%s%s%s %s = %s [json_name = "%s"];' % (ind, lab, typ, name, num, m2.group(4))
    elif kind == "group-anywhere":
        new = "%s%sgroup Grp%s = %s { }" % (ind, lab or "optional ", num, num)
    elif kind == "lowercase-group":
        new = "%soptional group grp%s = %s { }" % (ind, num, num)
    elif kind == "empty-oneof":
        new = lines[i] + "\n%soneof empty_one { }" % ind
    elif kind == "dup-option":
        new = "%s%s%s %s = %s [deprecated = true, deprecated = false];" % (ind, lab, typ, name, num)
    elif kind == "missing-import":
        lines.insert(1 if len(lines) > 1 else 0, 'import "missing.proto";')
        files = dict(files)
        files[path] = "\n".join(lines)
        return files, request, kind
    elif kind == "reserved-conflict":
        new = lines[i] + "\n%sreserved %s;" % (ind, rng.choice([num, '"%s"' % name]))
    elif kind == "enum-no-zero":
        new = lines[i] + "\n%senum NoZero%s { NZ%s = 1; }" % (ind, num, num)
    elif kind == "dup-enum-number":
        new = lines[i] + "\n%senum Dup%s { DA%s = 0; DB%s = 0; }" % (ind, num, num, num)
    elif kind == "ext-out-of-range":
        new = lines[i] + "\n%sextend Other { optional int32 bad_ext%s = 5; }" % (ind, num)
    elif kind == "stream-typo":
        new = lines[i] + "\n%sstream int32 strm%s = %d;" % (ind, num, int(num) + 5000)
    if new is None:
        return None
    lines[i] = new
    files = dict(files)
    files[path] = "\n".join(lines)
    return files, request, kind


# ---------------------------------------------------------------- hand-picked corpus
def corpus():
    out = []
    for t in pgenlib.CORPUS_C04 + pgenlib.CORPUS_SHADOW:
        out.append(({"t.proto": t}, ["t.proto"], "corpus"))
    P2 = 'syntax = "proto2";\n'
    hand = [
        # every scalar kind with a default
        P2 + "message M {\n" + "\n".join("  optional %s f%d = %d [default = %s];" % (t, k + 1, k + 1, d) for k, (t, d) in enumerate([
            ("double", "1.5"), ("float", "-0.25"), ("int32", "-1"), ("int64", "-9223372036854775808"), ("uint32", "4294967295"),
            ("uint64", "18446744073709551615"), ("sint32", "1"), ("sint64", "2"), ("fixed32", "3"), ("fixed64", "4"), ("sfixed32", "-5"),
            ("sfixed64", "-6"), ("bool", "true"), ("string", '"s\\n"'), ("bytes", '"\\x00\\xff"')])) + "\n}\n",
        # float defaults
        P2 + "message M {\n" + "\n".join("  optional %s f%d = %d [default = %s];" % (t, k + 1, k + 1, d) for k, (t, d) in enumerate(
            [(t, d) for t in ("float", "double") for d in ("inf", "-inf", "nan", "1e10", "1e-5", ".5", "5.", "3.4028235e38", "1e39", "16777217", "0.1", "-0.0")])) + "\n}\n",
        # json names
        P2 + "message M {\n" + "\n".join("  optional int32 %s = %d;" % (n, k + 1) for k, n in enumerate(
            ["foo_bar", "_foo", "foo__bar", "fooBar2", "foo_1", "FOO_BAZ", "foo_", "f_o_o", "Foo3", "foo_Bar4", "x_y_z", "a1_b2"])) + "\n}\n",
        # enum default naming an alias that is not the first name of its number
        P2 + "enum E { option allow_alias = true; A = 0; B = 0; C = 1; }\nmessage M { optional E e = 1 [default = B]; }\n",
        # two unrelated files declaring the same symbol, requested together
        None,
        # editions: delimited custom message option
        'edition = "2023";\nimport "google/protobuf/descriptor.proto";\noption features.message_encoding = DELIMITED;\nmessage O { int32 a = 1; }\n'
        "extend google.protobuf.MessageOptions { O mo = 50001; }\nmessage M { option (mo) = { a: 1 }; }\n",
        # proto3 file using a proto2 enum
        None,
        # hex integer as a float default
        P2 + "message M { optional double d = 1 [default = 0x10]; }\n",
        # lite runtime file extending descriptor.proto
        P2 + 'import "google/protobuf/descriptor.proto";\noption optimize_for = LITE_RUNTIME;\nextend google.protobuf.FieldOptions { optional int32 fo = 50001; }\n',
        # proto3 optional, maps with every key kind, oneofs
        'syntax = "proto3";\nmessage M {\n  optional int32 a = 1;\n  optional M b = 2;\n  oneof o { int32 c = 3; string d = 4; }\n  optional string e = 5;\n'
        + "\n".join("  map<%s, M> m%d = %d;" % (k, i + 10, i + 10) for i, k in enumerate(MAPKEYS)) + "\n  map<string, bytes> foo_bar_1 = 40;\n}\n",
        # services
        P2 + "message A {}\nmessage B {}\nservice S { rpc U(A) returns (B); rpc CS(stream A) returns (B); rpc SS(A) returns (stream B); "
        "rpc BD(stream A) returns (stream B) { option deprecated = true; option idempotency_level = IDEMPOTENT; } }\n",
        # reserved and extension ranges
        P2 + 'message M { reserved 1, 5 to 9, 1000 to max; reserved "a", "b"; optional int32 c = 2; extensions 100 to 199, 300; }\n'
        "enum E { E0 = 0; reserved -5 to -1, 100 to max; reserved \"OLD\"; }\n",
    ]
    hand += [
        # a required extension, an enum default given as a number, two extensions with the same tag
        P2 + "message M { extensions 100 to 200; }\nextend M { required int32 x = 100; }\n",
        P2 + "enum E { A = 0; B = -1; }\nmessage M { optional E e = 1 [default = -1]; }\n",
        P2 + "message M { extensions 100 to 200; }\nextend M { optional int32 x = 100; optional int32 y = 100; }\n",
        # negative zero written as an integer, a float default that is not a short double
        P2 + "message M { optional double d = 1 [default = -0]; }\n",
        P2 + "message M { optional float f = 1 [default = 0.1]; }\n",
    ]
    for t in hand:
        if t is not None:
            out.append(({"t.proto": t}, ["t.proto"], "corpus"))
    out.append(({"a.proto": P2 + "package p; message Same { }\n", "b.proto": P2 + "package p; message Same { }\n"}, ["a.proto", "b.proto"], "corpus"))
    out.append(({"lib.proto": P2 + "package lib; enum LE { LE0 = 0; }\n",
                 "t.proto": 'syntax = "proto3";\nimport "lib.proto";\nmessage M { lib.LE e = 1; }\n'}, ["t.proto"], "corpus"))
    # public import chain
    out.append(({"x.proto": P2 + "package x; message X { }\n", "a.proto": P2 + 'import public "x.proto";\n',
                 "t.proto": P2 + 'import "a.proto";\nmessage M { optional x.X f = 1; }\n'}, ["t.proto"], "corpus"))
    # corpus/C27/*.proto: the smallest input of every disagreement found by the generated strata (one class each; a file whose name is
    # in c27gen.GATED is read only when that name is switched on, see there)
    on = c27gen.gated_on()
    d = os.path.join(VERIF, "corpus", ID)
    for fn in sorted(os.listdir(d)) if os.path.isdir(d) else []:
        stem = fn[:-len(".proto")]
        if fn.endswith(".proto") and (stem not in c27gen.GATED or stem in on):
            out.append(({"t.proto": open(os.path.join(d, fn)).read()}, ["t.proto"], "corpus"))
    if "range-endpoint-in-19000-19999" in on:
        for body in ("extensions 19000;", "extensions 19000 to 19999;", "reserved 18999 to 19000;", "reserved 19999 to 20000;", "reserved 19500 to 19600;",
                     "extensions 100 to 20000;", "reserved 100 to 20000;"):
            out.append(({"t.proto": P2 + "message M { %s }\n" % body}, ["t.proto"], "corpus"))
    if "json-name-bracketed" in on:
        for v in ("'[]'", "'[a.b]'", "'[x'", "'x]'", "'[[x]]'"):
            out.append(({"t.proto": P2 + "message M { optional int32 f = 1 [json_name = %s]; }\n" % v}, ["t.proto"], "corpus"))
            out.append(({"t.proto": 'edition = "2023";\nmessage M { int32 f = 1 [json_name = %s]; }\n' % v}, ["t.proto"], "corpus"))
    return out


# ---------------------------------------------------------------- keys
def norm_err(e):
    e = re.sub(r"^(error|ICE): ", "", e)
    e = re.sub(r"^[^ ]*:\d+:\d+: ", "", e)
    e = re.sub(r"[`\"'][^`\"']*[`\"']", "_", e)
    e = re.sub(r"\b\w+(\.\w+)+\b", "_", e)          # qualified names and file names
    e = re.sub(r"^(message|field|enum|extension|method|service|oneof|file) [\w.]+: ", "", e)
    e = re.sub(r"\bfor message \w+", "for message _", e)
    e = re.sub(r"\bclosed enum \w+", "closed enum _", e)     # the same rule whether the enum's name is qualified or not
    e = re.sub(r"\bis allowed on \[[\w, ]*\]", "is allowed on _", e)      # option targets: the key says where it was written
    e = re.sub(r"-?\d+", "N", e)
    e = re.sub(r"[^A-Za-z_N]+", "-", e).strip("-")
    return e[:72].rstrip("-")


def norm_path(d):
    d = d.replace(".nested_type", "")
    d = re.sub(r"\([\w.]+\)", "(ext)", d)              # whichever custom option it is
    if not d.endswith(".default_value"):
        d = re.sub(r"<TYPE_\w+>", "", d)                # the field type matters for default values only
    return d


def strip_noise(text):
    """comments out, string literals emptied (a comment may stand between any two tokens)"""
    return re.sub(r'"(?:\\.|[^"\\\n])*"|\'(?:\\.|[^\'\\\n])*\'|//[^\n]*|/\*.*?\*/', lambda m: '""' if m.group(0)[0] in "\"'" else " ", text, flags=re.S)


def int_lit(tok):
    tok = re.sub(r"\s", "", tok)
    return int(tok, 8) if re.fullmatch(r"-?0[0-7]+", tok) else int(tok, 0)


def range_endpoint_in_reserved_block(files):
    """how many end points in 19000..19999 the `reserved` / `extensions` statements of the file set name"""
    n = 0
    for text in files.values():
        for stmt in re.findall(r"\b(?:reserved|extensions)\b([^;{}\[]*)", strip_noise(text)):
            for tok in re.findall(r"-?\s*(?:0[xX][0-9a-fA-F]+|\d+)\b", stmt):
                try:
                    if 19000 <= int_lit(tok) <= 19999:
                        n += 1
                except ValueError:
                    pass
    return n


ENUM_ALIAS_KEY = "descriptor-differs:message_type.field<TYPE_ENUM>.default_value"      # as listed in KNOWN_FINDINGS.txt


def alias_names(files, detail):
    """detail = '<path>: stable="A" experimental="B"': are A and B two names some enum of the file set gives to one number?"""
    m = re.search(r'stable="(\w+)" experimental="(\w+)"$', detail)
    if not m or m.group(1) == m.group(2):
        return False
    a, b = m.groups()
    for text in files.values():
        text = strip_noise(text)
        for body in re.findall(r"\benum\s+\w+\s*\{([^{}]*)\}", text):
            nums = {}
            for name, num in re.findall(r"\b(\w+)\s*=\s*(-?\s*(?:0[xX][0-9a-fA-F]+|\d+))", body):
                try:
                    nums[name] = int_lit(num)
                except ValueError:
                    pass
            if a in nums and b in nums and nums[a] == nums[b]:
                return True
    return False


PERTURB = [("identity", True), ("source-info", True), ("known-to-unknown", True), ("json-name", False), ("label", False), ("default", False),
           ("number", False), ("option-flip", False), ("drop-dependency", False), ("rename-message", False), ("swap-fields", False),
           ("drop-syntax", False), ("extra-unknown", False)]


def tree_term(t):
    """the field tree of the harness as a Coq ptree"""
    out = []
    for num, st, kind, p in t:
        if kind == "m":
            v = tree_term(p)
        elif kind == "i":
            v = "PLeaf 0 (%s) 0" % p
        elif kind == "f":
            v = "PLeaf 1 (%d) 0" % int(p)          # the IEEE-754 bits, unsigned
        elif kind == "b":
            bs = bytes.fromhex(p)
            v = "PLeaf 2 (%d) %d" % (int.from_bytes(bs, "little"), len(bs))
        else:
            wt, hx = p.split(":", 1)
            bs = bytes.fromhex(hx)
            v = "PLeaf %d (%d) %d" % (3 + int(wt), int.from_bytes(bs, "little"), len(bs))
        out.append("(%d%%N, %s, %s)" % (num, coq_bool(bool(st)), v))
    return "PNode [%s]" % "; ".join(out)


HEADER = ("From Coq Require Import List NArith ZArith Bool.\nImport ListNotations.\n"
          "From PV Require Import Common.Corr Model.DualCore.\nOpen Scope Z_scope.\n")


def judge(ctx, files, request, klass, o, terms, meta):
    """the differential oracle on one file set: o is the harness's answer (mode compile); returns the set of keys it reported"""
    reported = set()
    key = (tuple(sorted(files.items())), tuple(request))
    replay = {"files": files, "request": request, "generated_as": klass}
    if "crash" in o or "panic" in o:
        ctx.count(key, True, "crash")
        ctx.violation("panic", "one of the compilers panicked (or the harness crashed) on a generated file set", dict(replay, observed=o))
        return {"panic"}
    so, sn = o["old"], o["new"]
    verdict = ("accept" if so["ok"] else "reject") + "/" + ("accept" if sn["ok"] else "reject")
    ctx.count(key, so["ok"] or sn["ok"], klass.split(":")[0] + " " + verdict)
    replay["stable"] = so
    replay["experimental"] = sn
    if so["ok"] != sn["ok"]:
        if so["ok"]:
            k2 = "stable-accepts-experimental-rejects:" + norm_err((sn["errs"] or ["?"])[0])
            what = "the stable compiler accepts the file set, the experimental compiler rejects it"
            nend = range_endpoint_in_reserved_block(files)
            if k2.endswith(":field-number-out-of-range") and nend and all(norm_err(e) == "field-number-out-of-range" for e in sn["errs"]) \
                    and len(sn["errs"]) == min(nend, 6):
                # one key per cause (the message is also the one for a field number that really is out of range): exactly one
                # error per such end point and no other error (the harness hands over at most six errors)
                k2 += ":range-endpoint-in-19000-19999"
        else:
            k2 = "stable-rejects-experimental-accepts:" + norm_err((so["errs"] or ["?"])[0])
            what = "the stable compiler rejects the file set, the experimental compiler accepts it"
        if not excluded(k2, replay, o):
            ctx.violation(k2, what, replay)
        return {k2}
    if not so["ok"]:
        return reported
    if "cmp_error" in o:
        ctx.violation("comparison-failed", "the two descriptors could not be compared: " + o["cmp_error"], replay)
        return {"comparison-failed"}
    for f in o["cmp"]:
        for d in f["diffs"]:
            keys = set()
            if d.endswith(".default_value"):
                # one key per cause: -0 written as an integer literal is its own, whatever the field type
                for det in f.get("details", []):
                    if det.startswith(d + ": "):
                        if det.endswith('stable="0" experimental="-0"'):
                            keys.add("descriptor-differs:message_type.field.default_value:negative-zero-integer-literal")
                        elif "<TYPE_ENUM>" in d:
                            # one key per cause here too: the two names are aliases (the same number of one enum) - the known class,
                            # on a message field or on an extension alike - or they are not
                            if alias_names(files, det):
                                keys.add(ENUM_ALIAS_KEY)
                            else:
                                keys.add("descriptor-differs:" + norm_path(d) + ":names-of-different-numbers")
                        else:
                            keys.add("descriptor-differs:" + norm_path(d))
            if not keys:
                keys.add("descriptor-differs:" + norm_path(d))
            reported |= keys
            for k2 in sorted(keys):
                if not excluded(k2, replay, o):
                    ctx.violation(k2, "both compilers accept the file set but the descriptors of %s differ at %s" % (f["path"], d),
                                  dict(replay, file=f["path"], differences=f["diffs"], details=f.get("details", [])))
    for f, tr in zip(o["cmp"], o.get("trees") or []):
        terms.append("DC (%s) (%s) %s" % (tree_term(tr["old"]), tree_term(tr["new"]), coq_bool(f["equal"])))
        meta.append(("compile", replay, f))
    return reported


def three_way(ctx, terms, meta):
    """Programs of the MiniProto fragment (generator, renderer, model and specification of C01 / C02, by their builder:
    checks/miniproto_gen.py, Model/Validate.v, Model/SpecOracle.v): the verdict and the descriptor projection of BOTH compilers
    are evaluated against the specification inside coqc.  A stable-vs-experimental difference is reported by the differential
    oracle; this stage adds which side the specification is on and counts the three-way agreements."""
    import miniproto_gen as G
    rng = ctx.rng
    progs = G.gen_cases(rng, ctx.budget(15, 1500), 1, small=True)
    texts = G.render_sets(rng, progs)
    orders = [[f["name"] for f in files] for _, files in progs]
    so = ctx.impl("miniproto", G.compile_inputs(texts, orders))
    tmp = os.path.join(CACHE, "c27sets-%d" % os.getpid())
    os.makedirs(tmp, exist_ok=True)
    try:
        eo = ctx.impl("dualcompile", [{"mode": "fdset", "files": t, "request": o, "out": os.path.join(tmp, "%d.binpb" % k)}
                                      for k, (t, o) in enumerate(zip(texts, orders))])
        okk = [k for k, o in enumerate(eo) if o.get("ok")]
        po = ctx.impl("miniproto", [{"mode": "protoset", "path": os.path.join(tmp, "%d.binpb" % k)} for k in okk])
    finally:
        shutil.rmtree(tmp, ignore_errors=True)
    proj_e = dict(zip(okk, po))
    # the differential oracle on these programs as on all others
    dkeys = []          # per program: the keys the differential oracle reported for it
    for (label, _), t, od, o in zip(progs, texts, orders, ctx.impl("dualcompile", [{"mode": "compile", "files": t, "request": od}
                                                                                   for t, od in zip(texts, orders)])):
        dkeys.append(judge(ctx, t, od, "miniproto:" + label, o, terms, meta) or set())
    verdict_terms, vmeta, desc_terms, dmeta = [], [], [], []
    for k, ((label, files), t) in enumerate(zip(progs, texts)):
        if "ok" not in so[k] or "ok" not in eo[k]:
            continue
        verdict_terms.append(G.spec_term(files, bool(so[k]["ok"])))
        vmeta.append((k, "stable"))
        verdict_terms.append(G.spec_term(files, bool(eo[k]["ok"])))
        vmeta.append((k, "experimental"))
        if so[k]["ok"] and eo[k]["ok"] and "fds" in proj_e.get(k, {}):
            ts, te = G.c02_terms(files, so[k]), G.c02_terms(files, proj_e[k])
            if ts is not None and te is not None:
                desc_terms.append(ts[1])
                dmeta.append((k, "stable"))
                desc_terms.append(te[1])
                dmeta.append((k, "experimental"))
    vbad, err = coq_eval_mismatches("cases_C27_tv", G.HEADER, verdict_terms, "spec_chk", shard_size=max(8, len(verdict_terms) // NCPU + 1))
    if err:
        raise RuntimeError(err)
    dbad, err = coq_eval_mismatches("cases_C27_td", G.HEADER, desc_terms, "spec_desc_chk", shard_size=max(4, len(desc_terms) // NCPU + 1))
    if err:
        raise RuntimeError(err)
    off = {}            # program index -> set of sides that differ from the specification
    for i in vbad:
        off.setdefault(vmeta[i][0], set()).add(vmeta[i][1] + "-verdict")
    for i in dbad:
        off.setdefault(dmeta[i][0], set()).add(dmeta[i][1] + "-descriptor")
    agree = 0
    sides = {"only-experimental-differs-from-spec": 0, "only-stable-differs-from-spec": 0, "both-differ-from-spec": 0}
    for k, (label, files) in enumerate(progs):
        if "ok" not in so[k] or "ok" not in eo[k]:
            continue
        o = off.get(k, set())
        s_off = any(x.startswith("stable") for x in o)
        e_off = any(x.startswith("experimental") for x in o)
        if not o:
            agree += 1
        elif s_off and e_off:
            sides["both-differ-from-spec"] += 1
        elif e_off:
            sides["only-experimental-differs-from-spec"] += 1
            rp = {"files": texts[k], "request": orders[k], "generated_as": "miniproto:" + label, "differs": sorted(o),
                  "stable": {"ok": so[k]["ok"]}, "experimental": {"ok": eo[k]["ok"], "errs": eo[k].get("errs", [])}}
            if so[k]["ok"] != eo[k]["ok"]:
                continue        # an accept/reject difference: reported by the differential oracle below with its own key
            # The stable projection equals the specification's, so whatever separates the experimental projection from the
            # specification is among the stable-vs-experimental differences, and the differential oracle (which compares the whole
            # descriptors) has keyed those by cause.  If the enum-alias default is the ONLY cause it found, this is that defect seen
            # through the specification; any other cause (or none found) keeps the key of its own.
            k3 = ENUM_ALIAS_KEY if dkeys[k] == {ENUM_ALIAS_KEY} else "descriptor-differs:experimental-differs-from-specification"
            ctx.violation(k3, "both compilers accept the file set; the stable compiler's descriptor projection equals the C02 specification's, "
                              "the experimental compiler's does not" + (" (differential causes: %s)" % ", ".join(sorted(dkeys[k])) if dkeys[k] else ""),
                          dict(rp, differential_keys=sorted(dkeys[k])))
        else:
            sides["only-stable-differs-from-spec"] += 1
    ctx.extra["three_way"] = dict(sides, programs=len(progs), all_three_agree=agree,
                                  note="specification = Model/SpecOracle.v (C01 verdict, C02 descriptor projection); a row counts a program once")


def run(ctx):
    rng = ctx.rng
    cases = []          # (files, request, klass)
    for c in corpus():
        cases.append(c)
    n = ctx.budget(700, 30000)
    for k in range(n):
        r = rng.below(10)
        if r < 4:
            prog = pgenlib.gen_program(rng)
            base = (prog.files, list(prog.order), "program")
        else:
            f, rq = gen_focus(rng)
            base = (f, rq, "focus")
        if rng.chance(1, 4):
            mu = mutate(rng, base[0], base[1])
            if mu is not None:
                base = (mu[0], mu[1], "near-valid:" + mu[2])
        cases.append(base)
    # the field trees of a sample of (small) file sets go to coqc for the comparison-function correspondence
    nsample = ctx.budget(30, 600)
    small = [k for k, c in enumerate(cases) if sum(len(t) for t in c[0].values()) < ctx.budget(1500, 4000)]
    want = set(small[::max(1, len(small) // nsample)][:nsample])
    # ---- the features stratum (checks/c27gen.py): one edition-2023 feature setting per file, every kind of element, valid or not.
    # Its own random stream, so that the strata above are the same file sets as before it existed.
    nbase = len(cases)
    gated = c27gen.gated_on()
    fcases, withheld = c27gen.feature_cases(Rng(ctx.seed * 7919 + 27027), ctx.budget(1700, None), gated)
    cases += fcases
    fstep = max(1, len(fcases) // ctx.budget(10, 200))
    want |= set(range(nbase, len(cases), fstep))
    # ---- the numbers stratum (checks/c27gen.py number_cases): one number-conflict situation per file - field / enum value numbers
    # against reserved numbers and ranges, extension ranges, each other (duplicates, aliases), extension numbers against the extendee's
    # ranges, ranges against each other - for enums without / with allow_alias (true with a pair, true without, false) and messages, in
    # proto2 / proto3 / edition 2023.  Its own random stream as well.
    nbase2 = len(cases)
    ncases = c27gen.number_cases(Rng(ctx.seed * 7919 + 27028), ctx.budget(600, None))
    cases += ncases
    want |= set(range(nbase2, len(cases), max(1, len(ncases) // ctx.budget(6, 100))))
    ins = []
    for k, (files, request, klass) in enumerate(cases):
        ins.append({"mode": "compile", "files": files, "request": request, "trees": k in want})
    outs = ctx.impl("dualcompile", ins)
    terms, meta = [], []
    for (files, request, klass), i, o in zip(cases, ins, outs):
        judge(ctx, files, request, klass, o, terms, meta)
    # ---- third leg: the MiniProto specification of C01 / C02, where it is available
    try:
        three_way(ctx, terms, meta)
    except BuildFailed:
        raise
    except Exception as e:
        ctx.notes.append("three-way stage (stable vs experimental vs the C01/C02 specification) not run: %s: %s" % (type(e).__name__, str(e)[:300]))
    # ---- the comparison against perturbed descriptors: what it ignores and what it must see
    pins = []
    pbase = [c for c in cases if c[2] in ("focus", "corpus") and sum(len(t) for t in c[0].values()) < 2500]
    for k in range(ctx.budget(3, 40)):
        files, request, _ = pbase[rng.below(len(pbase))]
        for kind, want_equal in PERTURB:
            pins.append({"mode": "perturb", "files": files, "request": request, "index": 0, "kind": kind, "_want": want_equal})
    pouts = ctx.impl("dualcompile", [{k: v for k, v in p.items() if not k.startswith("_")} for p in pins])
    for p, o in zip(pins, pouts):
        if not o.get("applicable"):
            continue
        ctx.count(("perturb", tuple(sorted(p["files"].items())), p["kind"]), True, "perturb:" + p["kind"])
        rp = {"files": p["files"], "request": p["request"], "perturbation": p["kind"], "harness_says_equal": o["equal"], "diffs": o["diffs"]}
        if o["equal"] != p["_want"]:
            # the oracle's own comparison is wrong: it would hide (or invent) differences
            ctx.corr_break("dualcompile:comparison-self-test", rp, {"expected_equal": p["_want"]})
        terms.append("DC (%s) (%s) %s" % (tree_term(o["old"]), tree_term(o["new"]), coq_bool(o["equal"])))
        meta.append(("perturb", rp, None))
    mism, err = coq_eval_mismatches("cases_C27", HEADER, terms, "dc_chk", shard_size=ctx.budget(8, 20))
    if err:
        raise RuntimeError(err)
    for k in mism:
        kind, rp, f = meta[k]
        ctx.corr_break("dualcompile:desc_eq", {k2: v for k2, v in rp.items() if k2 != "stable" and k2 != "experimental"},
                       {"harness_equal": f["equal"] if f else rp.get("harness_says_equal")})
    ctx.extra["exclusion_list"] = EXCLUSIONS
    ctx.extra["features_stratum"] = {
        "file_sets": len(fcases), "exhaustive_products": ctx.tier == "thorough",
        "disagreeing_sub_strata_run_by_default": {k: {"what": v, "smallest_input": "corpus/C27/%s.proto" % k} for k, v in c27gen.DISAGREEING.items()},
        "gated": {k: {"what": v[0], "keys": v[1], "enabled": k in gated, "withheld_file_sets": withheld.get(k, 0),
                      "smallest_input": "corpus/C27/%s.proto" % k} for k, v in c27gen.GATED.items()},
        "switch": "none: every class runs by default; what is explored never depends on what KNOWN_FINDINGS.txt lists"}
    ctx.extra["numbers_stratum"] = {"file_sets": len(ncases), "exhaustive_products": ctx.tier == "thorough",
                                    "disagreements_on_the_unchanged_tree_when_built": "none (all 11597 file sets of the complete products, 2026-09-22)",
                                    "switch": "none: every sub-stratum runs by default"}
    ctx.extra["comparison_checked_in_coq"] = len(terms)
    for c in cases[len(corpus()):len(corpus()) + 3]:
        ctx.sample({"request": c[1], "files": c[0], "generated_as": c[2]})
    ctx.rule = ("file sets: %d hand-picked (the repository-derived corpora of C04/C10, every scalar kind with a default, float defaults, json "
                "names, enum alias default, same symbol in two unrelated files, delimited custom option, proto3 using a proto2 enum, hex "
                "float default, lite runtime, proto3 optional + maps + oneofs, streaming services, reserved / extension ranges, public import "
                "chain) + random: 40%% multi-file programs of checks/pgenlib.py (proto2 / proto3 / edition 2023 with feature overrides, "
                "custom options, groups, extensions, services, public imports, relative names), 60%% focus files (edge values: defaults of "
                "every scalar kind incl. bytes / float / hex / overflow, json_name shapes, keyword-like names, file / field / message / "
                "method options, custom options of every value kind, reserved and extension ranges up to max, maps, oneofs, groups, "
                "message sets, weak / public imports); a quarter of them with one validity rule broken (27 kinds); both compilers run on "
                "each; distinct = distinct file set; non-trivial = accepted by at least one compiler; plus the comparison self-test: "
                "13 perturbations of real descriptors (3 that must be ignored, 10 that must be seen) evaluated by the harness and by "
                "desc_eq in coqc; plus the features stratum (checks/c27gen.py), %d file sets each holding ONE edition-2023 feature "
                "setting: every field shape (singular / repeated of the 15 scalar types, open / closed / closed-non-zero enums, messages, "
                "maps of 12 key kinds x 19 value kinds, oneof members, extensions top-level and nested, delimited group-like fields, "
                "fields of nested messages; 303 shapes) x every value of the 6 features (19, the *_UNKNOWN ones included) written on the "
                "field, inherited from the file, inherited from the message; the 19 values on every other element (file, message, nested "
                "message, enum, enum with non-zero first value, enum value, oneof, extension range, service, method); 16 spellings "
                "(aggregate, twice, number / string / unknown value, unknown feature ...) on field, file and message; features in proto2 / "
                "proto3 files; enum and message types of another file (5 kinds of library) under each file-level presence / encoding / "
                "enum type; random pairs of features with default / lazy / packed.  Thorough tier: the products completely; quick tier: one "
                "member of every (shape with the number types collapsed to int / float) x value combination, then random members.  "
                "The smallest input of every disagreement class these strata found is a file of corpus/C27/ and part of this corpus (see "
                "features_stratum in the evidence for what is still gated); plus the numbers stratum (checks/c27gen.py number_cases), %d file sets "
                "each holding ONE number-conflict situation: an enum value number against the reserved numbers / ranges of its enum (10 range "
                "statements incl. negative, to max, int32 limits, lists, two statements; the number below / at the start / inside / at the end / "
                "above; carried by a value without alias, by the first / second / both names of an alias pair, or by a plain value and a pair; "
                "reserved statement before or after the values) x allow_alias absent / true with an alias pair / true without one / false; "
                "duplicate value numbers under each allow_alias mode (decimal / hex / octal spellings, the zero value, int32 limits); enum ranges "
                "against each other and reserved names against value names; a message field number (plain, repeated, oneof member, map, message, "
                "group, field of a nested message) against reserved and extension ranges at each position; duplicate field numbers across member "
                "kinds; reserved / extension ranges against each other and the limits 0, 2^29-1, 2^29; extension numbers (top-level and nested "
                "extend) against the extendee's extension and reserved ranges; all in proto2 / proto3 / edition 2023.  Thorough tier: the "
                "products completely (11597 file sets); quick tier: one member of every (allow_alias mode x range position x carrier) class, "
                "then random members" % (len(corpus()), len(fcases), len(ncases)))
