"""C01 - Accept/reject agrees with protoc."""
import os
from vlib import *
import miniproto_gen as G

ID = "C01"
COQ_FILES = G.COQ_MODEL_FILES + ["Proofs/ValidateRanges.v", "Proofs/LowerNames.v", "Proofs/Validate.v", "Proofs/ValidateJson.v", "Proofs/ValidateBasic.v", "Proofs/ExtDecl.v", "Props/C01.v"]
PROPS = "Props/C01.v"
THEOREMS = ["C01_ranges_overlap_sorted_iff", "C01_enum_ranges_overlap_sorted_iff", "C01_cross_overlap_iff",
            "C01_tag_in_range_iff", "C01_enum_number_in_range_iff", "C01_check_tag_iff", "C01_range_bounds_iff",
            "C01_validate_message_iff", "C01_validate_enum_iff", "C01_validate_field_iff", "C01_validate_basic_iff", "C01_extension_range_lookup_iff", "C01_json_compliant_iff",
            "C01_protoc_json_compliant_iff", "C01_json_go_eq_protoc_compliant", "C01_json_go_stricter_proto2", "C01_reserved_names_iff"]
AXIOMS_OK = []
TRUSTED = [
    "protoc is not available: the oracle is the Coq specification Model/ValiditySpec.v + Model/SpecOracle.v, transcribed from the language "
    "specification and protoc's documented algorithms; it is validated on every run against the protoc-made descriptors in "
    "internal/testdata/*.protoset and the protoc-confirmed case tables of TestLinkerValidation / TestBasicValidation (spec_golden_agreement)",
    "hand-written Gallina mirror of parser/result.go, parser/validate.go, linker/symbols.go (flat view), linker/resolve.go, the json_name / default "
    "pseudo-options of options/options.go and linker/validate.go for the MiniProto fragment (Model/Lower.v, Model/Validate.v); Model/Resolve.v and "
    "Model/ProtocLookup.v are reused from C15",
    "harness/cmd/miniproto (compile with an accept-all reporter, error texts mapped to classes; source text read back through the repository's "
    "parser for goldens and tables), the generator / renderer / mutators in checks/miniproto_gen.py",
    "the yacc grammar is not modelled: inputs that the grammar rejects are counted and left out",
]
ASSUMPTIONS = [
    "theorems cover rule families F1 (numeric ranges, tags), F2 (reserved names, duplicate numbers, JSON names), F4 (labels / keywords) at the level of one "
    "message / enum / field, for all inputs; their composition over nested declarations, the link-time rules (symbol uniqueness, reference kinds, "
    "extension numbers, pseudo-options) and the lowering of the source tree are tied in only by the differential oracle",
    "for the link-time rule families the oracle reuses the functions of the mirror with protoc's lookup (C15) and protoc's JSON / alias / synthetic-oneof rules",
    "MiniProto fragment: options other than json_name, default (no float defaults), allow_alias, message_set_wire_format are outside; editions features are outside",
]

# The mirror follows the code as it is: linker/validate.go validateExtension looks up the position of the verification
# option in the file of the EXTENSION, so an undeclared extension whose extendee is in another file makes the compile of
# the file panic (recovered by the compiler, nothing reported; the verdict is still "reject" as with protoc).
# Proposed repair: fixes/C01-extdecl-missing-span-file.diff.  Set to True (or VERIF_C01_EXTDECL_REPAIRED=1) once applied.
EXTDECL_REPAIRED = os.environ.get("VERIF_C01_EXTDECL_REPAIRED", "0") == "1"
SUF = "_repaired" if EXTDECL_REPAIRED else ""

# documented divergences are excused by Model/SpecOracle.v excused; they are counted, never reported


def key_for(label, out):
    if out["ok"]:
        return "accepts-what-spec-rejects:" + label
    cls = out["errs"][0]["cls"] if out["errs"] else "no-error-reported"
    return "rejects-what-spec-accepts:" + cls


def evaluate(ctx, cases, tag):
    """cases: [(label, asts, texts, out)] -> runs mirror + oracle in Coq, records outcomes"""
    terms = [G.c01_term(files, out) for _, files, _, out in cases]
    bad, err = coq_eval_mismatches("cases_C01_" + tag, G.HEADER, terms, "c01_full_chk" + SUF, shard_size=ctx.budget(max(8, len(terms) // (2 * NCPU) + 1), 60))
    if err:
        raise RuntimeError(err)
    if not bad:
        return 0
    sub = [terms[i] for i in bad]
    n = len(sub)
    probes = ["P1Model (%s)" % t for t in sub] + ["P1Spec (%s)" % t for t in sub] + ["P1Exc (%s)" % t for t in sub]
    pm, e1 = coq_eval_mismatches("cases_C01_" + tag + "_p", G.HEADER, probes, "c01_probe_chk" + SUF, shard_size=max(4, (3 * n) // NCPU + 1))
    if e1:
        raise RuntimeError(e1)
    m_mis = set(i for i in pm if i < n)
    s_mis = set(i - n for i in pm if n <= i < 2 * n)
    x_mis = set(i - 2 * n for i in pm if i >= 2 * n)
    nexc = 0
    for k, i in enumerate(bad):
        label, files, texts, out = cases[i]
        replay = {"label": label, "files": texts, "roots": [f["name"] for f in files], "impl_ok": out["ok"],
                  "impl_errors": [(e["file"], e["cls"], e["msg"]) for e in out["errs"]][:5]}
        if k in s_mis:
            if k in x_mis:          # spec_chk_excused is false exactly for excused cases
                nexc += 1
                ctx.hist["documented-divergence"] = ctx.hist.get("documented-divergence", 0) + 1
            else:
                ctx.violation(key_for(label, out), "the compiler and the protoc specification disagree on this file set "
                              "(impl %s, specification %s)" % ("accepts" if out["ok"] else "rejects", "rejects" if out["ok"] else "accepts"), replay)
        if k in m_mis:
            ctx.corr_break("miniproto:verdict+first-error", replay, {"note": "mirror model and implementation disagree on verdict or first error class"})
    return nexc


def run(ctx):
    rng = ctx.rng
    cases = []
    panics = []
    stats = {"syntax-error": 0, "outside-fragment": 0}

    # 1. corpus of boundary cases (text) -> read back through the repository's parser
    #    + enumerated rule strata: every duplicate / overlap rule of a message or enum in all three syntaxes (reserved names in
    #    both spellings, within one statement and across statements, names and numbers in use against reserved ones), and what
    #    `max` / the largest number means in every kind of range (ordinary message, message set, enum)
    rules = G.dup_sets() + G.max_sets()
    corpus = list(G.CORPUS) + rules
    corpus_sets = [fs for _, fs in corpus]
    parsed = G.parse_sets(ctx, corpus_sets)
    cc = []
    rules_unfit = []
    for (label, fs), (asts, why) in zip(corpus, parsed):
        if asts is None or why:
            stats["outside-fragment"] += 1
            if label.startswith(("dup-", "max-")):
                rules_unfit.append([label, why[:2]])
            continue
        cc.append(("corpus:" + label, asts, fs))
    # 2. generated programs and single-rule mutants
    progs = G.gen_cases(rng, ctx.budget(32, 1500), ctx.budget(5, 6), small=(ctx.tier != "thorough"), extended=True,
                        focus=("reserved_dup", "max_range"))
    texts = G.render_sets(rng, progs)
    gc = [(label, files, t) for (label, files), t in zip(progs, texts)]
    allc = cc + gc
    outs = ctx.impl("miniproto", G.compile_inputs([t for _, _, t in allc], [[f["name"] for f in files] for _, files, _ in allc]))
    for (label, files, t), o in zip(allc, outs):
        if "panic" in o or "crash" in o:
            ctx.violation("panic", "the compiler panicked or crashed", {"label": label, "files": t, "observed": o})
            continue
        if any(e["cls"] == "syntax" for e in o["errs"]):
            stats["syntax-error"] += 1
            ctx.count(("syn", label, repr(sorted(t.items()))), False, "grammar-rejects")
            continue
        if str(o.get("err", "")).startswith("panic handling"):
            panics.append({"label": label, "files": t, "error": o["err"]})
        if o["ok"] != o.get("ok_default", o["ok"]):
            ctx.corr_break("miniproto:reporter", {"label": label, "files": t}, {"note": "verdict depends on the reporter"})
        cls = "accept" if o["ok"] else (o["errs"][0]["cls"] if o["errs"] else "reject-without-report")
        ctx.count((label, repr(sorted(G.plain_text(files).items()))), True, ("valid:" if label == "valid" else "near-valid:") + cls)
        cases.append((label, files, t, o))
    for c in cases[:2] + cases[len(cc):len(cc) + 2]:
        ctx.sample({"label": c[0], "files": G.plain_text(c[1]), "impl_ok": c[3]["ok"], "first_error": (c[3]["errs"] or [{}])[0].get("cls")})
    nexc = evaluate(ctx, cases, "g")
    ctx.rule = ("file sets of 1-4 files: hand-written boundary corpus (%d) and enumerated rule strata (%d: duplicate / overlap rules of messages and enums "
                "in proto2 / proto3 / editions with reserved names in both spellings, within and across statements; the meaning of max and of the largest "
                "number in extension / reserved / enum reserved ranges of ordinary and message-set messages), generated valid programs and single-rule "
                "near-valid mutants (%d mutators); "
                "distinct = distinct canonical source text; every evaluated case is non-trivial (compiled by the real compiler, verdict and first error "
                "class per file compared with the mirror, verdict compared with the protoc specification)"
                % (len(cc) - len(rules) + len(rules_unfit), len(rules) - len(rules_unfit), len(G.Mutator(rng).names())))
    # the rule strata must not be vacuous: both verdicts occur, and every file set is inside the model
    rc = [c for c in cases if c[0].startswith(("corpus:dup-", "corpus:max-"))]
    ctx.extra["rule_strata"] = {"file_sets": len(rules), "evaluated": len(rc), "accepted": sum(1 for c in rc if c[3]["ok"]),
                                "rejected": sum(1 for c in rc if not c[3]["ok"]), "outside_model_fragment": rules_unfit[:10]}
    if len(rc) < (9 * len(rules)) // 10:
        ctx.corr_break("miniproto:rule-strata-vacuous", {"file_sets": len(rules), "evaluated": len(rc)},
                       {"note": "more than a tenth of the enumerated rule file sets do not reach the comparison (grammar or fragment)"})
    ctx.extra["outside_model"] = stats
    ctx.extra["compiler_panics"] = {"count": len(panics), "first": panics[:1],
                                    "note": "recovered panics of the compiler (verdict reject, no diagnostic); modelled as they are (ECompilerPanic)"}
    if panics:
        ctx.notes.append("the compiler panicked on %d file sets (extension without declaration, extendee in another file); see fixes/C01-extdecl-missing-span-file.diff" % len(panics))
    ctx.extra["documented_divergences_seen"] = nexc

    ctx.extra["rule_families"] = {
        "F1 numeric ranges (field numbers, reserved / extension / enum reserved ranges, max, message-set limit)": "theorem + oracle",
        "F2 names per message / enum (duplicate numbers, reserved names, JSON names)": "theorem + oracle",
        "F4 labels and keywords per syntax, enum first value, allow_alias": "theorem + oracle",
        "composition of F1/F2/F4 over nested descriptors (validateBasic)": "theorem (C01_validate_basic_iff) + oracle",
        "construction of the descriptor from the source tree (collection of tag / range errors, oneof / extend non-empty, group names, reserved-name form, message sets)": "oracle only",
        "symbol uniqueness incl. enum-value scoping and packages": "oracle only (flat model of linker/symbols.go)",
        "reference resolution": "C15 theorem (reused) + oracle for the kind checks",
        "extension numbers vs extendee ranges, duplicates, proto3 extendee whitelist, map-entry references": "oracle only",
        "extension declarations (which range is consulted; reserved / name / type / cardinality / missing)": "theorem (C01_extension_range_lookup_iff) + oracle",
        "well-formedness of the declarations themselves (validateExtensionDeclarations: numbers in range and unique, names and types valid, "
        "reserved consistent, one owner per declared name)": "oracle only",
        "json_name / default pseudo-options, closed enum in implicit-presence field, enum value JSON conflicts": "oracle only",
        "F3 / F5 descriptor contents": "see C02",
    }
    # 3. validation of the specification against protoc's own verdicts
    ctx.extra["spec_golden_agreement"] = golden_agreement(ctx)
    # 4. the compiler itself on the protoc-confirmed table entries (whole language, not only the fragment)
    ctx.extra["table_oracle"] = table_oracle(ctx)


def table_oracle(ctx):
    """TestLinkerValidation / TestBasicValidation cannot run offline (they shell out to protoc), but each entry
    records the verdict upstream CI confirmed against protoc.  Entries not flagged expectedDiffWithProtoc are a
    direct oracle for the property on hand-written inputs of the whole language (options, features, editions)."""
    t = ctx.impl("miniproto", [{"mode": "tables", "repo": REPO}], shards=1)[0]
    entries = [c for c in t.get("cases", []) if c["readable"] and not c["diff"]]
    outs = ctx.impl("miniproto", [{"mode": "compile", "files": c["files"], "roots": c["order"] or sorted(c["files"])} for c in entries])
    bad = []
    for c, o in zip(entries, outs):
        exp_ok = c["err"] == ""
        if "panic" in o or "crash" in o:
            ctx.violation("panic", "the compiler panicked or crashed on a table entry", {"table": c["table"], "name": c["name"], "files": c["files"], "observed": o})
            continue
        ctx.count(("table", c["table"], c["name"]), True, "table:" + ("accept" if exp_ok else "reject"))
        if o["ok"] != exp_ok:
            bad.append(c["name"])
            ctx.violation("table-entry:" + c["name"],
                          "protoc %s this input (verdict recorded in %s and confirmed by upstream CI), the compiler %s it"
                          % ("accepts" if exp_ok else "rejects", "linker/linker_test.go" if c["table"] == "linker" else "parser/validate_test.go",
                             "accepts" if o["ok"] else "rejects"),
                          {"table": c["table"], "name": c["name"], "files": c["files"], "roots": c["order"],
                           "protoc": "accept" if exp_ok else "reject: " + c["err"],
                           "impl_errors": [(e["file"], e["msg"]) for e in o["errs"]][:4] or o.get("err")})
    return {"entries_evaluated": len(entries), "verdict_agrees": len(entries) - len(bad), "disagree": bad}


def golden_agreement(ctx):
    res = {}
    # (a) every file of the protoc-made descriptor sets is valid per protoc: the specification must accept the sources
    goldens, skipped = G.load_goldens(ctx, REPO)
    terms = [G.spec_term(asts, True) for _, asts, _ in goldens]
    names = [label for label, _, _ in goldens]
    bad, err = G.cached_eval("cases_C01_gold", terms, "spec_valid_chk", 1)
    if err:
        raise RuntimeError(err)
    res["protoset_file_sets"] = len(terms)
    res["protoset_files"] = sum(len(a) for _, a, _ in goldens)
    res["protoset_outside_fragment"] = skipped
    res["protoset_spec_accepts"] = len(terms) - len(bad)
    res["protoset_disagree"] = [names[i] for i in bad]
    # (b) the case tables of the repository's tests: protoc's verdict confirmed by upstream CI
    t = ctx.impl("miniproto", [{"mode": "tables", "repo": REPO}], shards=1)[0]
    entries = [c for c in t.get("cases", []) if c["readable"]]
    parsed = G.parse_sets(ctx, [c["files"] for c in entries])
    terms, meta, unfit, diff = [], [], 0, 0
    for c, (asts, why) in zip(entries, parsed):
        if c["diff"]:
            diff += 1
            continue
        if asts is None or why:
            unfit += 1
            continue
        terms.append(G.spec_term(asts, c["err"] == ""))
        meta.append(c)
    bad, err = G.cached_eval("cases_C01_tab", terms, "spec_valid_chk", 30)
    if err:
        raise RuntimeError(err)
    res["table_entries"] = len(t.get("cases", []))
    res["table_expected_diff_with_protoc"] = diff
    res["table_outside_fragment"] = unfit
    res["table_evaluated"] = len(terms)
    res["table_spec_agrees"] = len(terms) - len(bad)
    res["table_disagree"] = [(meta[i]["table"], meta[i]["name"], meta[i]["err"][:80]) for i in bad]
    for i in bad:
        if (meta[i]["table"], meta[i]["name"]) not in KNOWN_SPEC_GAPS:
            ctx.corr_break("spec-vs-protoc-table", {"table": meta[i]["table"], "name": meta[i]["name"], "files": meta[i]["files"]},
                           {"protoc_verdict": "accept" if meta[i]["err"] == "" else "reject: " + meta[i]["err"]})
    for n in res["protoset_disagree"]:
        ctx.corr_break("spec-vs-protoc-golden", {"protoset": n}, {"note": "the specification rejects sources that protoc compiled"})
    return res


# table entries inside the syntactic fragment whose verdict depends on a rule the specification does
# not contain (listed so that the agreement numbers stay honest; nothing is suppressed in the oracle)
KNOWN_SPEC_GAPS = set()
