"""C08 - Error reporter contract (reporter.Handler, and how Compiler.Compile uses it)."""
import itertools, sys
from vlib import *
import c08mix

ID = "C08"
COQ_FILES = ["Common/Corr.v", "Model/Reporter.v", "Proofs/Reporter.v", "Proofs/ReporterErase.v", "Props/C08.v"]
PROPS = "Props/C08.v"
THEOREMS = ["C08_reporter_mutex", "C08_abort_latches", "C08_later_calls_return_latched",
            "C08_accept_all_invalid_source", "C08_never_abort_invalid_source", "C08_warnings_inert", "C08_warnings_erasable",
            "C08_success_iff_no_error", "C08_sub_handler_sound", "C08_no_deadlock", "C08_chain_fuel_enough",
            "C08_run_order_reachable", "C08_compile_final"]
AXIOMS_OK = []
TRUSTED = ["hand-written small-step Gallina model of reporter.Handler (Model/Reporter.v): root mutex with explicit lock / "
           "unlock steps, one atomic step per sub-handler update and per Error()/ReporterError() read; sync.Mutex is "
           "modelled by its contract (a lock bit with an owner)",
           "correspondence harness harness/cmd/reporter (real reporter.Handler driven by operation sequences from one or "
           "several goroutines; real protocompile.Compiler with an instrumented reporter)",
           "the plugin's Python copy of the model step function is used only to FIND a step-level schedule for a "
           "concurrent run; the schedule is then checked by running the Coq model in coqc (not trusted)"]
ASSUMPTIONS = ["the pipeline stages (parser, linker, options) are not modelled: that every stage reports its errors through "
               "the handler and that Compile fails whenever the root handler has an error is tied in by the end-to-end runs "
               "only (P-core for the clause a compilation succeeds only if no error was reported)",
               "HandleError(nil) is outside the model (no caller passes nil)",
               "the user's reporter is a total function of the call index and of the reported error (a reporter that panics or "
               "never returns is outside the model)"]

# ----------------------------------------------------------------------------------------------
# operations: (h, kind, tag, via)   kind 0 positional 1 plain 2 warning 3 Error() 4 ReporterError()
KIND_NAMES = {0: "HandleError(pos)", 1: "HandleError(plain)", 2: "HandleWarning", 3: "Error()", 4: "ReporterError()"}


def coq_err(code, abort):
    if code == "nil":
        return "None"
    if code == "invalid":
        return "(Some EInvalidSource)"
    if code == "abort":
        return "(Some (ERep %d))" % abort
    if code.startswith("pos:") and int(code[4:]) >= 0:
        return "(Some (EPos %s))" % code[4:]
    if code.startswith("plain:"):
        return "(Some (EPlain %s))" % code[6:]
    return None


def coq_op(o):
    h, kind, tag, _ = o
    if kind == 0:
        return "OErr %d true %d" % (h, tag)
    if kind == 1:
        return "OErr %d false %d" % (h, tag)
    if kind == 2:
        return "OWarn %d %d" % (h, tag)
    if kind == 3:
        return "OError %d" % h
    return "ORepError %d" % h


def coq_ops_case(parents, abort, threads, seq, sched, out):
    """Coq term of one observation; None if an observed value has no counterpart in the model."""
    deflt = abort < 0
    ab = max(abort, 0)
    res = []
    for tr in out["res"]:
        l = []
        for r in tr:
            if r == "w":
                l.append("None")
            else:
                e = coq_err(r, ab)
                if e is None:
                    return None
                l.append("(Some %s)" % e)
        res.append("[" + ";".join(l) + "]")
    if deflt:
        calls = "None"
    else:
        cl = []
        for kind, tag, r in out["calls"]:
            if tag < 0:
                return None
            if kind == 1:
                cl.append("CWarn %d" % tag)
            else:
                e = coq_err(r, ab)
                if e is None:
                    return None
                cl.append("CErr %d %s" % (tag, e))
        calls = "(Some [" + ";".join(cl) + "])"
    hf = []
    for a, b in out["hfinal"]:
        ea, eb = coq_err(a, ab), coq_err(b, ab)
        if ea is None or eb is None:
            return None
        hf.append("(%s,%s)" % (ea, eb))
    return "COps [%s] %d %s [%s] %s [%s] [%s] %s [%s]" % (
        ";".join(map(str, parents)), ab, coq_bool(deflt),
        ";".join("[" + ";".join(coq_op(o) for o in t) + "]" for t in threads),
        coq_bool(seq), ";".join(map(str, sched)), ";".join(res), calls, ";".join(hf))


# ----------------------------------------------------------------------------------------------
# Python copy of Model/Reporter.v `step`, used to search a step-level schedule that explains a
# concurrent observation (the schedule found is then validated inside coqc).
def chain_of(parents, h):
    out = []
    while h > 0:
        out.append(h)
        h = min(parents[h - 1], h - 1)
    return out


class Sim:
    def __init__(self, parents, abort, threads):
        self.parents, self.abort, self.threads = parents, abort, threads
        self.nh = len(parents) + 1

    def policy(self, idx, tag):
        if self.abort < 0:
            return "pos:%d" % tag
        if idx + 1 == self.abort:
            return "abort"
        return "nil"

    def init(self):
        # (hs, mu, ncalls, nrlog, threads) ; thread = (pc, done_count) ; everything hashable
        return (tuple(("nil", False) for _ in range(self.nh)), -1, 0, 0,
                tuple((("idle",), 0) for _ in self.threads))

    @staticmethod
    def error_result(h):
        return "invalid" if h[1] and h[0] == "nil" else h[0]

    def step(self, s, t):
        """returns (s', event) or None; event = ('op', result) when t completed an operation,
        ('call', (kind, tag, r)) when a reporter call completed, else None"""
        hs, mu, ncalls, nrl, ths = s
        pc, done = ths[t]
        prog = self.threads[t]

        def mk(hs=hs, mu=mu, ncalls=ncalls, nrl=nrl, pc=pc, done=done):
            nt = ths[:t] + ((pc, done),) + ths[t + 1:]
            return (hs, mu, ncalls, nrl, nt)

        def seth(h, v):
            return hs[:h] + (v,) + hs[h + 1:]

        k = pc[0]
        if k == "idle":
            if done >= len(prog):
                return None
            h, kind, tag, _ = prog[done]
            if kind in (0, 1):
                return mk(pc=("lock", (h, kind == 0, tag))), None
            if kind == 2:
                if mu != -1:
                    return None
                return mk(mu=t, pc=("inwarn", tag)), None
            if h == 0 and mu != -1:
                return None
            r = self.error_result(hs[h]) if kind == 3 else hs[h][0]
            return mk(done=done + 1), ("op", r)
        if k == "lock":
            if mu != -1:
                return None
            return mk(mu=t, pc=("check", pc[1])), None
        if k == "check":
            c = pc[1]
            if hs[0][0] != "nil":
                return mk(pc=("unlock", c, hs[0][0])), None
            if c[1]:
                return mk(hs=seth(0, ("nil", True)), ncalls=ncalls + 1, pc=("inrep", c, ncalls)), None
            e = "plain:%d" % c[2]
            return mk(hs=seth(0, (e, hs[0][1])), pc=("unlock", c, e)), None
        if k == "inrep":
            c, idx = pc[1], pc[2]
            r = self.policy(idx, c[2])
            return mk(hs=seth(0, (r, hs[0][1])), nrl=nrl + 1, pc=("unlock", c, r)), ("call", [0, c[2], r])
        if k == "unlock":
            c, ret = pc[1], pc[2]
            path = tuple(reversed(chain_of(self.parents, c[0])))
            return mk(mu=-1, pc=("unwind", c, path, ret)), None
        if k == "unwind":
            c, path, ret = pc[1], pc[2], pc[3]
            if not path:
                return mk(pc=("idle",), done=done + 1), ("op", ret)
            h = path[0]
            return mk(hs=seth(h, (ret, hs[h][1] or c[1])), pc=("unwind", c, path[1:], ret)), None
        if k == "inwarn":
            return mk(nrl=nrl + 1, pc=("wunlock",)), ("call", [1, pc[1], "w"])
        if k == "wunlock":
            return mk(mu=-1, pc=("idle",), done=done + 1), ("op", "w")
        raise AssertionError(k)

    def run_order(self, order):
        """sequential execution; returns (step-level schedule, per-thread results, calls, hfinal)"""
        s = self.init()
        res = [[] for _ in self.threads]
        calls, sched = [], []
        for t in order:
            if s[4][t][1] >= len(self.threads[t]):
                continue
            while True:
                nx = self.step(s, t)
                assert nx is not None
                s, ev = nx
                sched.append(t)
                if ev and ev[0] == "call":
                    calls.append(ev[1])
                if ev and ev[0] == "op":
                    res[t].append(ev[1])
                    break
        return sched, res, calls, [[self.error_result(h), h[0]] for h in s[0]]

    def find_schedule(self, obs_res, obs_calls, obs_hfinal, check_calls, limit=300000):
        """depth-first search (memoised on the model state) for a step-level schedule that reproduces the
        observation; returns (schedule or None, search_was_complete)"""
        sys.setrecursionlimit(100000)
        seen = set()
        n = len(self.threads)
        budget = [limit]
        target_done = tuple(len(p) for p in self.threads)

        def rec(s, sched):
            if budget[0] <= 0:
                return None
            budget[0] -= 1
            if s in seen:
                return None
            seen.add(s)
            ths = s[4]
            if all(ths[t][0] == ("idle",) and ths[t][1] == target_done[t] for t in range(n)):
                hf = [[self.error_result(h), h[0]] for h in s[0]]
                return list(sched) if hf == obs_hfinal else None
            for t in range(n):
                nx = self.step(s, t)
                if nx is None:
                    continue
                s2, ev = nx
                if ev:
                    if ev[0] == "op":
                        d = ths[t][1]
                        if d >= len(obs_res[t]) or obs_res[t][d] != ev[1]:
                            continue
                    elif check_calls:
                        i = s[3]
                        if i >= len(obs_calls) or list(obs_calls[i]) != ev[1]:
                            continue
                sched.append(t)
                r = rec(s2, sched)
                if r is not None:
                    return r
                sched.pop()
            return None

        r = rec(self.init(), [])
        return r, (r is not None or budget[0] > 0)


# ----------------------------------------------------------------------------------------------
# generators
def gen_ops_case(rng, nthreads, maxops, nh_max):
    nh = rng.range(1, nh_max)
    parents = [rng.below(i + 1) if rng.chance(1, 3) else 0 for i in range(nh - 1)]
    tagc = [0]

    def one():
        h = rng.below(nh)
        r = rng.below(100)
        tagc[0] += 1
        tag = tagc[0]
        via = rng.below(3)
        if r < 42:
            return (h, 0, tag, via)
        if r < 50:
            return (h, 1, tag, 0)
        if r < 65:
            return (h, 2, tag, via)
        if r < 85:
            return (h, 3, 0, 0)
        return (h, 4, 0, 0)

    threads = [[one() for _ in range(rng.range(1, maxops))] for _ in range(nthreads)]
    npos = sum(1 for t in threads for o in t if o[1] == 0)
    r = rng.below(10)
    if r < 3:
        abort = 0
    elif r < 9:
        abort = rng.range(1, max(1, npos + 1))
    else:
        abort = -1
    return parents, abort, threads


def ops_input(parents, abort, threads, order=None, yield_seed=0):
    c = {"mode": "ops", "parents": parents, "abort": abort, "threads": [[list(o) for o in t] for t in threads]}
    if order is not None:
        c["order"] = order
    else:
        c["yield"] = yield_seed
    return c


def ops_oracle(ctx, inp, out, concurrent):
    """The property itself, evaluated on what the real Handler did.  Only what the statement forbids."""
    threads = inp["threads"]
    abort = inp["abort"]
    rp = {"input": inp, "observed": out}
    if out.get("concurrent"):
        ctx.violation("reporter-entered-concurrently", "two calls of the user's reporter overlapped", rp)
    if out.get("after_abort", 0) > 0:
        ctx.violation("reporter-called-after-abort", "the reporter's Error was called again after it had returned an error", rp)
    if abort < 0:
        return
    calls = out["calls"]
    ecalls = [c for c in calls if c[0] == 0]
    aborted = [c for c in ecalls if c[2] != "nil"]
    for k, c in enumerate(ecalls):
        if c[2] != "nil" and k != len(ecalls) - 1:
            ctx.violation("reporter-called-after-abort", "the reporter's Error was called again after it had returned an error", rp)
    nplain = sum(1 for t in threads for o in t if o[1] == 1)
    nerr = sum(1 for t in threads for o in t if o[1] in (0, 1))
    final = out["hfinal"][0][0]
    if aborted and final != aborted[0][2]:
        ctx.violation("abort-error-not-latched", "the reporter returned an error but the root handler's Error() is %s" % final, rp)
    if not aborted and ecalls and nplain == 0 and final != "invalid":
        ctx.violation("invalid-source-not-returned",
                      "every reporter call returned nil and errors were reported, yet Error() is %s" % final, rp)
    if nerr == 0 and final != "nil":
        ctx.violation("fails-without-error", "no error was handled (warnings / reads only) but Error() is %s" % final, rp)
    if nerr > 0 and final == "nil":
        ctx.violation("succeeds-despite-error", "errors were handled but the root handler's Error() is nil", rp)
    # per thread, in program order: once a HandleError returned e, every later HandleError returns e and
    # a later root Error() returns e
    for t, (ops, res) in enumerate(zip(threads, out["res"])):
        latched = None
        for o, r in zip(ops, res):
            if o[1] in (0, 1):
                if latched is not None and r != latched:
                    ctx.violation("later-handle-error-differs", "thread %d: HandleError returned %s after %s" % (t, r, latched), rp)
                if r != "nil" and latched is None:
                    latched = r
                if o[1] == 1 and r == "nil":
                    ctx.violation("plain-error-swallowed", "HandleError of an error without position returned nil", rp)
            elif o[1] == 3 and o[0] == 0 and latched is not None and r != latched:
                ctx.violation("error-differs-after-abort", "thread %d: root Error() returned %s after HandleError returned %s" % (t, r, latched), rp)
        # sub-handler view: after a HandleError completed on handler h in this thread, h.Error() is not nil
        touched = set()
        for o, r in zip(ops, res):
            if o[1] in (0, 1):
                touched.add(o[0])
            elif o[1] == 3 and o[0] in touched and r == "nil":
                ctx.violation("sub-handler-succeeds-despite-error", "thread %d: handler %d Error() is nil after it handled an error" % (t, o[0]), rp)


# ---- end to end -----------------------------------------------------------------------------
ERR_ITEMS = ["syntax", "syntax", "validate", "validate", "link", "link", "dup", "option", "jsonconf"]


def render_file(spec, i, dewarn=False):
    f = spec["files"][i]
    p3 = f["syntax"] == "proto3"
    lbl = "" if p3 else "optional "
    out = []
    if f["syntax"] != "none":
        out.append('syntax = "%s";' % f["syntax"])
    elif dewarn:
        out.append('syntax = "proto2";')
    out.append("package p%d;" % i)
    for d, used in f["imports"]:
        # used: True = referenced, False = unused (a warning cause, dropped in the twin), None = structural
        # (cycle back edge / missing file: kept in the twin)
        if used is not False or not dewarn:
            out.append('import "f%d.proto";' % d)
    k = 0
    for d, used in f["imports"]:
        if used is True:
            out.append("message U%d_%d { %sp%d.M%d a = 1; }" % (i, d, lbl, d, d))
    out.append("message M%d { %sint32 a = 1; %sstring b = 2; }" % (i, lbl, lbl))
    out.append("enum E%d { E%d_ZERO = 0; E%d_ONE = 1; }" % (i, i, i))
    for it in f["items"]:
        k += 1
        n = "X%d_%d" % (i, k)
        if it == "syntax":
            out.append("message %s { %sint32 a = ; }" % (n, lbl))
        elif it == "validate":
            out.append("message %s { %sint32 a = 0; }" % (n, lbl))
        elif it == "link":
            out.append("message %s { %sUndefined%d u = 1; }" % (n, lbl, k))
        elif it == "dup":
            out.append("message %s { }\nmessage %s { }" % (n, n))
        elif it == "option":
            out.append("message %s { option (no_such_option_%d) = 1; }" % (n, k))
        elif it == "jsonconf":
            out.append('message %s { %sint32 a = 1 [json_name="q"]; %sint32 b = 2 [json_name="q"]; }' % (n, lbl, lbl))
        elif it == "jsonwarn":   # a warning in proto2 files only (JSON name conflict of default names)
            if dewarn or p3:
                out.append("message %s { %sint32 foo_bar = 1; %sint32 foo_baz = 2; }" % (n, lbl, lbl))
            else:
                out.append("message %s { %sint32 foo_bar = 1; %sint32 fooBar = 2; }" % (n, lbl, lbl))
        else:
            out.append("message %s { %sbool ok = 1; }" % (n, lbl))
    return "\n".join(out) + "\n"


def gen_spec(rng, kind):
    """kind: valid | warn | invalid | cycle | missing"""
    n = rng.range(2, 6)
    files = []
    for i in range(n):
        imports = []
        for d in range(i + 1, n):
            if rng.chance(2, 5):
                imports.append((d, True if kind == "valid" else rng.chance(3, 4)))
        syn = "proto3" if rng.chance(2, 3) else "proto2"
        if kind in ("warn", "invalid") and rng.chance(1, 4):
            syn = "none"
        items = ["ok"] * rng.range(0, 2)
        if kind in ("warn", "invalid") and rng.chance(1, 3):
            items.append("jsonwarn")
        files.append({"syntax": syn, "imports": imports, "items": items})
    if kind == "warn":
        # make sure there is at least one warning cause
        f = files[0]
        if not any(u is False for _, u in f["imports"]) and f["syntax"] != "none":
            f["syntax"] = "none"
    if kind in ("invalid", "cycle") or (kind == "missing" and rng.chance(1, 2)):
        for _ in range(rng.range(1, 7)):
            files[rng.below(n)]["items"].append(rng.choice(ERR_ITEMS))
    spec = {"files": files, "kind": kind, "extra": {}}
    if kind == "cycle":
        a = rng.range(1, n - 1)
        files[a]["imports"].append((rng.below(a + 1), None))        # back edge (or self import)
    if kind == "missing":
        files[rng.below(n)]["imports"].append((n + 3, None))        # f<n+3>.proto does not exist
    req = [i for i in range(n) if rng.chance(1, 2)] or [0]
    if 0 not in req and rng.chance(2, 3):
        req.append(0)
    spec["req"] = rng.shuffle(req)
    return spec


def e2e_input(spec, abort, par, yield_seed, dewarn=False):
    files = {"f%d.proto" % i: render_file(spec, i, dewarn) for i in range(len(spec["files"]))}
    return {"mode": "e2e", "files": files, "req": ["f%d.proto" % i for i in spec["req"]], "par": par,
            "abort": abort, "yield": yield_seed}


def final_class(o):
    if o["ok"]:
        return 0
    if o["is_abort"]:
        return 1
    if o["is_invalid"]:
        return 2
    return 3


def e2e_oracle(ctx, inp, o, twin_ok):
    rp = {"input": inp, "observed": o}
    if o.get("concurrent"):
        ctx.violation("e2e-reporter-entered-concurrently", "two calls of the user's reporter overlapped during Compile", rp)
    if o.get("after_abort", 0) > 0:
        ctx.violation("e2e-reporter-called-after-abort", "the reporter's Error was called again after it had returned an error", rp)
    if o.get("hang"):
        return
    if o["aborted"] and not o["is_abort"]:
        ctx.violation("e2e-abort-error-not-returned",
                      "the reporter aborted with an error but Compile returned %s" % (o.get("err_text") or o["err"]), rp)
    if o["err_calls"] > 0 and o["ok"]:
        ctx.violation("e2e-succeeds-despite-reported-error", "errors reached the reporter but Compile succeeded", rp)
    elif o["err_calls"] > 0 and not o["aborted"] and not o["is_invalid"]:
        ctx.violation("e2e-invalid-source-not-returned",
                      "every reported error was accepted but Compile returned %s instead of ErrInvalidSource" % (o.get("err_text") or o["err"]), rp)
    if o["err_calls"] == 0 and o["warn_calls"] > 0 and not o["ok"] and twin_ok:
        ctx.violation("e2e-warning-failed-compilation",
                      "only warnings were reported, the same input without the warning causes compiles, yet Compile failed with %s"
                      % (o.get("err_text") or o["err"]), rp)


def run_mixed(ctx, terms, meta):
    """Mixed requests (c08mix): files with reported errors, files that fail without anything being reported
    (missing import, resolver error / panic, unknown requested name), clean and warning files, in every order,
    with and without an overridden descriptor.proto (valid / broken; implicit dependency only, explicitly
    imported, requested) x reporters {accept all, abort at k, default-like}."""
    rng = ctx.rng
    quick = ctx.tier == "quick"
    specs = c08mix.pair_specs(rng, quick)
    specs += [c08mix.random_spec(rng) for _ in range(ctx.budget(30, 600))]
    pars = [1, 2, 4, 8]
    runs, rmeta = [], []
    for k, m in enumerate(specs):
        aborts = [0, (1, 2, -1)[k % 3]] if quick else [0, 1, 2, 3, -1]
        for j, a in enumerate(aborts):
            for par in ([pars[(k + j) % 4]] if quick else [pars[(k + j) % 4], pars[(k + j + 2) % 4]]):
                runs.append(c08mix.e2e_input(m, a, par, rng.range(1, 1 << 30)))
                rmeta.append(m)
    outs = ctx.impl("reporter", runs, shards=min(NCPU, max(1, len(runs) // 10)))
    suspects = []
    for inp, o, m in zip(runs, outs, rmeta):
        ctx.count(("e2e-mix", inp["files"], inp["req"], inp["rfail"], inp["std"], inp["abort"], inp["par"], inp["yield"]),
                  True, "e2e-mix-" + c08mix.klass(m))
        if "crash" in o or "panic" in o or o.get("escaped_panic"):
            ctx.violation("e2e-panic", "Compile panicked or the harness crashed", {"input": inp, "observed": o})
            continue
        if o.get("hang"):
            ctx.corr_break("e2e: Compile did not return within the watchdog", inp, {"observed": o})
            continue
        # the oracle is run on a recorder first: an outcome that breaks a rule is confirmed by two more runs of
        # the same input (a task nobody waits for may report in the instant between Compile's last look at the
        # handler and the harness's snapshot of the call counters; a wrong rule in Compile fails every time)
        probe = _Probe()
        e2e_oracle(probe, inp, o, False)
        fc = final_class(o)
        hk = "e2e-mix-final-%s" % ["nil", "abort", "invalid", "unreported"][fc]
        ctx.hist[hk] = ctx.hist.get(hk, 0) + 1
        term = "CE2E %d %s %d %d %d" % (max(inp["abort"], 0), coq_bool(inp["abort"] < 0), o["err_calls"], o["warn_calls"], fc)
        if probe.keys:
            # judged (oracle and model) only if the outcome is confirmed below
            suspects.append((inp, o, sorted(probe.keys), term))
        else:
            terms.append(term)
            meta.append((inp, o))
    if suspects:
        again = ctx.impl("reporter", [inp for inp, _, _, _ in suspects for _ in range(2)], shards=1)
        for k, (inp, o, keys, term) in enumerate(suspects):
            confirmed = set(keys)
            for o2 in again[2 * k:2 * k + 2]:
                probe = _Probe()
                if not ("crash" in o2 or "panic" in o2 or o2.get("hang")):
                    e2e_oracle(probe, inp, o2, False)
                    confirmed &= probe.keys
            if confirmed:
                e2e_oracle(ctx, inp, o, False)
                terms.append(term)
                meta.append((inp, o))
            else:
                # a one-off outcome: a task that nobody waits for (an implicit dependency, a sibling of a failed import) reported
                # in the instant between Compile's last look at the handler and the harness's snapshot of the reporter's call
                # counters, so the snapshot does not describe what Compile saw; neither the oracle nor the model judges it
                ctx.extra["e2e_mix_unconfirmed_outcomes"] = ctx.extra.get("e2e_mix_unconfirmed_outcomes", 0) + 1
    ctx.sample(runs[0]); ctx.sample(runs[len(runs) // 2])
    ctx.extra["e2e_mix_requests"] = len(specs)
    ctx.extra["e2e_mix_runs"] = len(runs)


class _Probe:
    """stand-in for ctx that only records which rules an outcome breaks"""
    def __init__(self):
        self.keys = set()

    def violation(self, key, what, rp):
        self.keys.add(key)


# ----------------------------------------------------------------------------------------------
HEADER = ("From Coq Require Import List Arith Bool.\nImport ListNotations.\n"
          "From PV Require Import Common.Corr Model.Reporter.\n")

ALPHA = [(0, 0), (1, 0), (1, 1), (0, 1), (1, 2), (0, 3), (1, 3), (0, 4), (1, 4)]   # (handler, kind)


def run(ctx):
    rng = ctx.rng
    seq_cases = []   # (parents, abort, threads, order)
    # corpus: hand-picked
    T = lambda *ops: [tuple(o) for o in ops]
    corpus = [
        ([0], 1, [T((1, 0, 1, 0), (1, 0, 2, 0), (1, 3, 0, 0), (0, 3, 0, 0), (0, 4, 0, 0))], [0] * 5),
        ([0], 0, [T((1, 0, 1, 1), (1, 3, 0, 0), (0, 3, 0, 0), (0, 4, 0, 0), (1, 4, 0, 0))], [0] * 5),
        ([0], 0, [T((1, 2, 1, 0), (0, 2, 2, 1), (1, 2, 3, 2), (1, 3, 0, 0), (0, 3, 0, 0))], [0] * 5),
        ([0, 0], 2, [T((1, 0, 1, 0), (1, 3, 0, 0)), T((2, 0, 2, 0), (2, 0, 3, 0), (2, 3, 0, 0), (1, 3, 0, 0))], [0, 1, 1, 0, 1, 1]),
        ([0, 1, 2], 2, [T((3, 0, 1, 2), (3, 3, 0, 0), (2, 3, 0, 0), (1, 3, 0, 0), (3, 0, 2, 0), (1, 4, 0, 0), (0, 2, 5, 0), (2, 1, 7, 0))], [0] * 8),
        ([0], 0, [T((1, 1, 4, 0), (1, 0, 5, 0), (0, 3, 0, 0), (1, 3, 0, 0))], [0] * 4),
        ([0], -1, [T((1, 0, 4, 0), (1, 0, 5, 0), (0, 3, 0, 0), (1, 3, 0, 0), (0, 4, 0, 0))], [0] * 5),
        ([], 3, [T((0, 0, 1, 0), (0, 0, 2, 1), (0, 0, 3, 2), (0, 0, 4, 0), (0, 3, 0, 0))], [0] * 5),
    ]
    seq_cases += corpus
    # exhaustive: one goroutine, root + one sub-handler, every operation sequence up to the bound
    maxlen = ctx.budget(3, 4)
    for n in range(1, maxlen + 1):
        for combo in itertools.product(ALPHA, repeat=n):
            for abort in ((0, 1, 2) if n >= 2 else (0, 1, 2, -1)):
                if abort > sum(1 for c in combo if c[1] == 0):
                    continue
                ops = [(h, k, j + 1, (j + h) % 3) for j, (h, k) in enumerate(combo)]
                seq_cases.append(([0], abort, [ops], [0] * n))
    # random structured: several threads, handler trees, random global order
    for _ in range(ctx.budget(400, 20000)):
        nt = rng.range(1, 4)
        parents, abort, threads = gen_ops_case(rng, nt, 7, 5)
        order = rng.shuffle([t for t, p in enumerate(threads) for _ in p])
        seq_cases.append((parents, abort, threads, order))
    conc_cases = []
    for k in range(ctx.budget(250, 6000)):
        nt = rng.range(2, 4)
        parents, abort, threads = gen_ops_case(rng, nt, 5, 4)
        conc_cases.append((parents, abort, threads, k + 1))
    ctx.rule = ("(a) operation sequences on the real reporter.Handler: hand-picked corpus; every sequence of <= %d operations of one "
                "goroutine over {HandleError positional/plain, HandleWarning, Error(), ReporterError()} x {root, sub-handler} x reporter "
                "policies {never, abort at 1, abort at 2, default reporter}; random programs of 1-4 threads on handler trees of 1-5 "
                "handlers run sequentially in a random global order (compared exactly with the model run in that order); random "
                "programs of 2-4 goroutines run concurrently (instrumented reporter; the observed results must be produced by some "
                "schedule of the model, the schedule is checked in coqc). (b) end to end: generated multi-file inputs (valid, warnings "
                "only, invalid in several stages, import cycle, missing import) x reporter aborting at every k up to the number of "
                "errors + 1 or never x parallelism {1,2,4,8}. distinct = distinct (program, policy, order / seed) resp. (input, policy, "
                "parallelism); (c) mixed requests: every ordered pair of file kinds {clean, warning, error reported by the parser, "
                "error reported by a later stage, import of a missing file, import the resolver refuses, import the resolver panics "
                "on, requested name missing / refused / panicking} without and with an import edge, and random requests of 3-6 such "
                "files in random order, x overridden google/protobuf/descriptor.proto {none, valid, broken in 4 ways} as implicit "
                "dependency only / explicitly imported / requested, incl. requests whose ONLY errors are in the implicit "
                "descriptor.proto, x reporters {accept all, abort at k, default-like (returns the reported error itself)}. "
                "distinct = distinct (program, policy, order / seed) resp. (input, policy, "
                "parallelism); non-trivial = at least one error or warning is handled" % maxlen)
    ins = [ops_input(p, a, t, order=o) for (p, a, t, o) in seq_cases] + \
          [ops_input(p, a, t, yield_seed=ys) for (p, a, t, ys) in conc_cases]
    outs = ctx.impl("reporter", ins)
    terms, meta = [], []
    nseq = len(seq_cases)
    nowit = 0
    inconclusive = 0
    for idx, (inp, out) in enumerate(zip(ins, outs)):
        conc = idx >= nseq
        parents, abort, threads = inp["parents"], inp["abort"], [[tuple(o) for o in t] for t in inp["threads"]]
        nontriv = any(o[1] in (0, 1, 2) for t in threads for o in t)
        ctx.count(("ops", parents, abort, threads, inp.get("order"), inp.get("yield")), nontriv,
                  "ops-concurrent" if conc else "ops-sequential")
        if "crash" in out or "panic" in out:
            ctx.violation("handler-panic", "an operation on the handler panicked or the harness crashed", {"input": inp, "observed": out})
            continue
        ops_oracle(ctx, inp, out, conc)
        sim = Sim(parents, abort, threads)
        if not conc:
            term = coq_ops_case(parents, abort, threads, True, inp["order"], out)
        else:
            sched, complete = sim.find_schedule(out["res"], out["calls"], out["hfinal"], abort >= 0)
            if sched is None:
                if complete:
                    nowit += 1
                    ctx.corr_break("handler: no schedule of the model produces the observed concurrent outcome", inp, {"observed": out})
                else:   # search budget exhausted: says nothing, is recorded
                    inconclusive += 1
                continue
            ctx.traces += 1
            term = coq_ops_case(parents, abort, threads, False, sched, out)
        if term is None:
            ctx.corr_break("handler: observed value outside the model", inp, {"observed": out})
            continue
        terms.append(term)
        meta.append((inp, out))
    ctx.sample(ins[3]); ctx.sample(ins[nseq - 1]); ctx.sample(ins[-1])

    # ---- end to end
    e2e = []   # (spec, abort, par, seed)
    kinds = ["valid", "warn", "invalid", "invalid", "invalid", "cycle", "missing"]
    nspec = ctx.budget(36, 400)
    pars = [1, 2, 4, 8]
    e_ins, e_meta = [], []
    for k in range(nspec):
        spec = gen_spec(rng, kinds[k % len(kinds)])
        # first learn how many errors a never-aborting reporter sees (sequentially), then abort at every k
        e_meta.append(spec)
        e_ins.append(e2e_input(spec, 0, 1, 0))
        e_ins.append(e2e_input(spec, 0, 1, 0, dewarn=True))
    base = ctx.impl("reporter", e_ins, shards=min(NCPU, max(1, len(e_ins) // 8)))
    runs, run_meta = [], []
    for k, spec in enumerate(e_meta):
        b, tw = base[2 * k], base[2 * k + 1]
        if "crash" in b or "panic" in b or "crash" in tw or "panic" in tw:
            ctx.violation("e2e-panic", "Compile panicked or the harness crashed", {"input": e_ins[2 * k], "observed": b})
            continue
        twin_ok = bool(tw.get("ok")) and tw.get("err_calls") == 0
        nerr = b.get("err_calls", 0)
        aborts = list(range(0, nerr + 2))
        if ctx.tier == "quick" and len(aborts) > 6:
            aborts = aborts[:4] + aborts[-2:]
        for a in aborts:
            for par in (pars if ctx.tier != "quick" else [pars[(k + a) % 4], pars[(k + a + 2) % 4]]):
                runs.append(e2e_input(spec, a, par, rng.range(1, 1 << 30)))
                run_meta.append((spec, twin_ok))
        runs.append(e2e_input(spec, 0, 1, 0))
        run_meta.append((spec, twin_ok))
    eouts = ctx.impl("reporter", runs, shards=min(NCPU, max(1, len(runs) // 10)))
    for inp, o, (spec, twin_ok) in zip(runs, eouts, run_meta):
        ctx.count(("e2e", inp["files"], inp["req"], inp["abort"], inp["par"], inp["yield"]), True, "e2e-" + spec["kind"])
        if "crash" in o or "panic" in o or o.get("escaped_panic"):
            ctx.violation("e2e-panic", "Compile panicked or the harness crashed", {"input": inp, "observed": o})
            continue
        e2e_oracle(ctx, inp, o, twin_ok)
        if o.get("hang"):
            ctx.corr_break("e2e: Compile did not return within the watchdog", inp, {"observed": o})
            continue
        fc = final_class(o)
        ctx.hist["e2e-final-%s" % ["nil", "abort", "invalid", "unreported"][fc]] = \
            ctx.hist.get("e2e-final-%s" % ["nil", "abort", "invalid", "unreported"][fc], 0) + 1
        terms.append("CE2E %d false %d %d %d" % (inp["abort"], o["err_calls"], o["warn_calls"], fc))
        meta.append((inp, o))
    if runs:
        ctx.sample({k: v for k, v in runs[len(runs) // 2].items()})
    run_mixed(ctx, terms, meta)
    mism, err = coq_eval_mismatches("cases_C08", HEADER, terms, "rep_chk", shard_size=250)
    if err:
        raise RuntimeError(err)
    for k in mism:
        inp, o = meta[k]
        ctx.corr_break("handler model vs implementation (%s)" % inp["mode"], inp, {"observed": o})
    ctx.exhaustive = True
    ctx.extra["exhaustive_part"] = ("every sequence of <= %d handler operations of one goroutine over 9 operation kinds (HandleError "
                                    "positional on root/sub, plain on root/sub, HandleWarning on sub, Error() and ReporterError() on "
                                    "root/sub) x reporter policies never / abort at call k for every k <= min(2, number of positional "
                                    "errors in the sequence) / default reporter (sequences of length 1)" % maxlen)
    ctx.extra["concurrent_runs_without_model_schedule"] = nowit
    ctx.extra["concurrent_runs_schedule_search_inconclusive"] = inconclusive
