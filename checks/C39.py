"""C39 - Decimal to float conversion is correctly rounded (internal/decimal float.go, parse.go)."""
import os, re
from fractions import Fraction
from vlib import *

ID = "C39"

# ---------------------------------------------------------------------------------------------
# Which model the check ties to the working tree:
#   "pinned" : Model/DecFloat.v mirrors Decimal.Float64 as it is in the pinned tree (defects included);
#              Archive/C39Pinned.v carries the refutations + the partial theorem (not part of the default build: it
#              compiles only against the tables of the pinned tree, see coq/Archive/README.md).
#   "fixed"  : Model/DecFloatFixed.v mirrors the repaired code (see the repair diff in the report);
#              Props/C39Fixed.v carries the full theorems.
VARIANT = "fixed"
VARIANT = os.environ.get("C39_VARIANT", VARIANT)   # override for trying the other model against a scratch repo
# ---------------------------------------------------------------------------------------------

if VARIANT == "pinned":
    COQ_FILES = ["Common/Corr.v", "Model/DecFloatTables.v", "Model/DecFloat.v", "Proofs/DecFloat.v",
                 "Archive/DecFloatRefuted.v", "Archive/C39Pinned.v"]
    PROPS = "Archive/C39Pinned.v"
    THEOREMS = ["C39_float64_correctly_rounded_refuted", "C39_float64_correctly_rounded_refuted_table_entry",
                "C39_exact_flag_refuted", "C39_float64_correctly_rounded_partial", "C39_exact_flag_sound_partial",
                "C39_parse_float_assumption_realisable"]
    CHK = "dec_chk"
    MODEL_IMPORT = "Model.DecFloat"
else:
    COQ_FILES = ["Common/Corr.v", "Model/DecFloatTables.v", "Model/DecFloat.v", "Proofs/DecFloat.v",
                 "Model/DecFloatFixed.v", "Proofs/DecFloatFixed.v", "Props/C39Fixed.v"]
    PROPS = "Props/C39Fixed.v"
    THEOREMS = ["C39_float64_correctly_rounded", "C39_exact_flag_sound", "C39_parse_float_assumption_realisable"]
    CHK = "decfix_chk"
    MODEL_IMPORT = "Model.DecFloat Model.DecFloatFixed"

# Real-number axioms of the Coq standard library that Flocq's Reals-based proofs stand on
# (exactly as Print Assumptions names them); nothing is declared by this development
AXIOMS_OK = ["ClassicalDedekindReals.sig_not_dec", "ClassicalDedekindReals.sig_forall_dec",
             "FunctionalExtensionality.functional_extensionality_dep", "Classical_Prop.classic"]

COQ_CASES_QUICK, COQ_CASES_THOROUGH, COQ_SHARD = 2400, 120000, 200
COQ_HEAVY_QUICK, COQ_HEAVY_THOROUGH = 32, 3000

TRUSTED = ["hand-written Gallina model of Decimal.Float64 / pow5 over Flocq 4 (BinarySingleNaN, binary_float 53 1024, mode_NE)",
           "Flocq's formalisation of IEEE-754 binary64 and the Coq Reals axioms it stands on",
           "transcription script (checks/C39.py pregen) from float.go's table literals to Model/DecFloatTables.v, cross-checked against the compiled tables on every run",
           "correspondence harness (harness/cmd/decfloat) + verif hook internal/decimal/verif_hooks.go",
           "Go: float64(uint64), float64 * and /, math.Ldexp are IEEE-754 round-to-nearest-even single operations (modelled by Flocq's binary_normalize, Bmult, Bdiv, Bldexp; exercised by the correspondence, proved nowhere)"]
ASSUMPTIONS = ["strconv.ParseFloat returns the round-to-nearest-even binary64 of the numeral it is given, with overflow to infinity (Section hypothesis parse_float_spec; shown realisable by ref_parse_float; validated differentially against big.Rat and Python fractions on every generated numeral)",
               "Decimal.Parse (text -> mantissa/exponent/flags) is not modelled in Coq: value(fields) = value(text) is checked by the direct oracle in exact rational arithmetic on every generated numeral",
               "NaN and infinity Decimals are outside the theorem (finite numerals only)"]


# ---------------------------------------------------------------------------------------------
# pregen: transcribe the constant tables of float.go into Coq on every run
# ---------------------------------------------------------------------------------------------
TABLES = ("pow5s", "pow5s32", "pow5s32neg")
_ENTRY = re.compile(r"^1e([+-]?\d+)\s*/\s*0x1p([+-]?\d+)$")


def read_tables(repo=None):
    """Returns {name: [(a, b), ...]} where an entry (a, b) stands for the Go constant expression
    `1e<a> / 0x1p<b>` (exact value 10^a / 2^b, rounded once to float64 by the Go compiler)."""
    src = open(os.path.join(repo or REPO, "internal", "decimal", "float.go")).read()
    src = re.sub(r"//[^\n]*", "", src)
    out = {}
    for name in TABLES:
        m = re.search(r"\b%s\s*=\s*\[\.\.\.\]float64\s*\{(.*?)\}" % name, src, re.S)
        if not m:
            raise RuntimeError("table %s not found in float.go (the model no longer mirrors the source)" % name)
        ents = []
        for tok in m.group(1).split(","):
            tok = tok.strip()
            if not tok:
                continue
            e = _ENTRY.match(tok)
            if not e:
                raise RuntimeError("table %s: entry %r is not of the form 1e<a> / 0x1p<b>" % (name, tok))
            ents.append((int(e.group(1)), int(e.group(2))))
        out[name] = ents
    return out


def tables_v(tabs):
    def z(n):
        return "%d" % n
    lines = ["(* GENERATED on every run of bin/check C39 by checks/C39.py pregen from internal/decimal/float.go.",
             "   An entry (a, b) is the Go constant expression 1e<a> / 0x1p<b>, that is 10^a / 2^b. Do not edit. *)",
             "From Coq Require Import ZArith List.", "Import ListNotations.", "Open Scope Z_scope.", ""]
    for name in TABLES:
        ents = tabs[name]
        lines.append("Definition %s_src : list (Z * Z) :=" % name)
        rows = []
        for k in range(0, len(ents), 4):
            rows.append("  " + "; ".join("(%s, %s)" % (z(a), z(b)) for a, b in ents[k:k + 4]))
        lines.append(" [\n" + ";\n".join(rows) + "\n ].")
        lines.append("")
    return "\n".join(lines)


def pregen():
    """Called by lib/vlib.py before the Coq build. Rewrites Model/DecFloatTables.v only when the
    transcription differs, so an unchanged float.go costs no rebuild."""
    txt = tables_v(read_tables())
    p = os.path.join(COQ, "Model", "DecFloatTables.v")
    old = open(p).read() if os.path.exists(p) else None
    if old != txt:
        with Lock("coq"):
            open(p, "w").write(txt)
        return "Model/DecFloatTables.v rewritten from %s" % REPO
    return "Model/DecFloatTables.v up to date"


# ---------------------------------------------------------------------------------------------
# exact arithmetic helpers (plugin side; python ints / Fractions only, floats never as text)
# ---------------------------------------------------------------------------------------------
P52, P53, P63, P64 = 1 << 52, 1 << 53, 1 << 63, 1 << 64
INF_BITS = 2047 << 52


def _rne_div(n, d):
    q, r = divmod(n, d)
    if 2 * r > d or (2 * r == d and (q & 1)):
        q += 1
    return q


def f64_bits_of_fraction(q):
    """bits of the binary64 nearest to the non-negative Fraction q (ties to even, overflow to +Inf)."""
    if q == 0:
        return 0
    n, d = q.numerator, q.denominator
    e = n.bit_length() - d.bit_length() - 53
    while True:
        a, b = (n << -e, d) if e < 0 else (n, d << e)
        if a >= (b << 53):
            e += 1
        elif a < (b << 52):
            e -= 1
        else:
            break
    if e < -1074:
        e = -1074
    a, b = (n << -e, d) if e < 0 else (n, d << e)
    m = _rne_div(a, b)
    if m == P53:
        m >>= 1
        e += 1
    if m < P52:
        return m                       # subnormal or zero (e = -1074)
    be = e + 1075
    if be >= 2047:
        return INF_BITS
    return (be << 52) + (m - P52)


def fraction_of_bits(b):
    """(sign, Fraction or None for Inf/NaN)"""
    sgn = b >> 63
    be = (b >> 52) & 2047
    m = b & (P52 - 1)
    if be == 2047:
        return sgn, None
    if be == 0:
        return sgn, Fraction(m, 1 << 1074)
    e = be - 1075
    m += P52
    return sgn, (Fraction(m << e) if e >= 0 else Fraction(m, 1 << -e))


def pyfloat_of_bits(b):
    import struct
    return struct.unpack(">d", struct.pack(">Q", b))[0]


def bits_of_pyfloat(f):
    import struct
    return struct.unpack(">Q", struct.pack(">d", f))[0]


def pow_frac(base, n):
    return Fraction(base ** n) if n >= 0 else Fraction(1, base ** (-n))


def text_value(s):
    """Own reader of the numeral grammar (third implementation, shares nothing with the Go ones).
    Returns (neg, Fraction | 'inf' | 'zero', kind) with kind in dec, dec-p, hex; None if malformed.
    Exponents far outside the binary64 range are answered symbolically."""
    t = s.replace("_", "")
    neg = False
    if t[:1] in "+-":
        neg = t[0] == "-"
        t = t[1:]
    base = 10
    if t[:2] in ("0x", "0X"):
        base = 16
        t = t[2:]
    m = re.match(r"^([0-9a-fA-F]*)(?:\.([0-9a-fA-F]*))?(?:([eEpP])([+-]?[0-9]+))?$" if base == 16
                 else r"^([0-9]*)(?:\.([0-9]*))?(?:([eEpP])([+-]?[0-9]+))?$", t)
    if not m:
        return None
    ip, fp, ec, ex = m.group(1) or "", m.group(2) or "", m.group(3), m.group(4)
    if base == 16 and ec in ("e", "E"):
        return None
    if not ip and not fp:
        return None
    mant = int(ip + fp, base)
    frac = len(fp)
    exp = int(ex) if ex else 0
    binexp = base == 16 or ec in ("p", "P")
    kind = "hex" if base == 16 else ("dec-p" if binexp else "dec")
    if mant == 0:
        return neg, Fraction(0), kind
    if not binexp:
        top = exp - frac + len(str(mant))
        if top > 400:
            return neg, "inf", kind
        if top < -400:
            return neg, "zero", kind
        return neg, Fraction(mant) * pow_frac(10, exp - frac), kind
    hi = exp + mant.bit_length()
    lo = hi - 1
    if base == 16:
        hi -= 4 * frac
        lo = hi - 1
    else:
        lo -= 4 * frac
    if lo > 1100:
        return neg, "inf", kind
    if hi < -1200:
        return neg, "zero", kind
    return neg, Fraction(mant) * pow_frac(base, -frac) * pow_frac(2, exp), kind


def text_shape(s):
    """facts about the spelling that decide which Parse branch a numeral takes:
    (hex?, has exponent part?, integer part is zero?, number of leading zero digits of the fraction,
     first non-zero digit of the fraction or None)"""
    t = s.replace("_", "").lstrip("+-")
    hx = t[:2] in ("0x", "0X")
    if hx:
        t = t[2:]
    m = re.match(r"^([0-9a-fA-F]*)(?:\.([0-9a-fA-F]*))?(?:[pP].*)?$" if hx else r"^([0-9]*)(?:\.([0-9]*))?(?:[eEpP].*)?$", t)
    ip, fp = m.group(1) or "", m.group(2) or ""
    has_exp = bool(re.search(r"[pP]" if hx else r"[eEpP]", t))
    int_zero = ip.strip("0") == ""
    lead = len(fp) - len(fp.lstrip("0"))
    first = int(fp[lead], 16) if lead < len(fp) else None
    return hx, has_exp, int_zero, lead, first


def correct_bits(neg, val):
    b = INF_BITS if val == "inf" else (0 if val == "zero" else f64_bits_of_fraction(val))
    return b | (P63 if neg else 0)


def ndigits10(m):
    return len(str(m))


def fields_value(mant, exp, binary):
    """value of a Decimal representation; symbolic for far-away exponents"""
    if mant == 0:
        return Fraction(0)
    if binary:
        e = exp - mant.bit_length()
        if e > 1100:
            return "inf"
        if e + mant.bit_length() < -1200:
            return "zero"
        return Fraction(mant) * pow_frac(2, e)
    e = exp - ndigits10(mant)
    if exp > 400:
        return "inf"
    if exp < -400:
        return "zero"
    return Fraction(mant) * pow_frac(10, e)


def _sym(v):
    """far outside the binary64 range a value is only known symbolically; bring both forms together"""
    if isinstance(v, Fraction) and v != 0:
        if v >= 1 << 1030:
            return "inf"
        if v < Fraction(1, 1 << 1130):
            return "zero"
    return v


def same_value(a, b):
    return _sym(a) == _sym(b)


# ---------------------------------------------------------------------------------------------
# emulation of the pinned algorithm with python floats (IEEE doubles), used ONLY to classify an
# oracle failure (is it exactly the known defect, or something else?)
# ---------------------------------------------------------------------------------------------
def _const(a, b):
    return pyfloat_of_bits(f64_bits_of_fraction(pow_frac(10, a) / pow_frac(2, b)))


IDEAL = {"pow5s": [(k, k) for k in range(32)],
         "pow5s32": [(32 * k, 32 * k) for k in range(10)],
         "pow5s32neg": [(-32 * k, -32 * k) for k in range(11)]}
PINNED_23 = {k: list(v) for k, v in IDEAL.items()}
PINNED_23["pow5s"][23] = (7, 7)


def emul_fast10(w, e, tabs):
    """the IsUint64 / exact branch for a base-10 Decimal: pow5 then Ldexp, as in float.go"""
    import math
    T = _tabs_cached("ideal" if tabs is IDEAL else "pinned23", tabs)
    v = float(w)
    if 0 <= e <= 309:
        v = v * T["pow5s32"][e // 32] * T["pow5s"][e % 32]
    elif -324 <= e <= 0:
        v = v * T["pow5s32neg"][(-e) // 32] / T["pow5s"][(-e) % 32]
    elif e > 0:
        v = math.inf
    else:
        v = 0.0
    try:
        v = math.ldexp(v, e)
    except OverflowError:
        v = math.inf
    return bits_of_pyfloat(v)


def emul_base2_slow(mant, exp):
    import math
    w = mant >> max(0, mant.bit_length() - 53)       # bits := mantBits64 + 1 = 53: plain truncation
    try:
        return bits_of_pyfloat(math.ldexp(float(w), exp - 53))
    except OverflowError:
        return INF_BITS


_TAB_CACHE = {}


def _tabs_cached(name, tabs):
    if name not in _TAB_CACHE:
        _TAB_CACHE[name] = {k: [_const(a, b) for a, b in v] for k, v in tabs.items()}
    return _TAB_CACHE[name]


def branch_of(mant, exp, binary):
    """which branch of Float64 (pinned code) a representation takes"""
    if mant == 0:
        return "zero", 0
    e = exp - (mant.bit_length() if binary else ndigits10(mant))
    if mant < P64:
        if e == 0:
            return "uint64-no-exponent", e
        if mant <= P53:
            return ("base2-ldexp" if binary else "fast10"), e
    return ("base2-slow" if binary else "strconv"), e


# ---------------------------------------------------------------------------------------------
# numeral generators (all randomness from ctx.rng)
# ---------------------------------------------------------------------------------------------
CORPUS = [
    "0", "-0", "0.0", "0e0", "0x0", "-0x0p5", "1", "-1", "+1", "1e0", "1e-0", "1.", ".5", "0.1", "0.5", "0.3", "1.5",
    "1e22", "1e23", "1e-22", "1e-23", "3134.5e-22", "77e-169", "13e-16", "9007199254740992", "9007199254740993",
    "9007199254740992e22", "9007199254740992e-22", "9007199254740992e23", "9007199254740993e1", "9007199254740992e-325",
    "18446744073709551615", "18446744073709551616", "18446744073709551615e1", "1e308", "1e309", "1e310", "1e-323", "1e-324",
    "4.9e-324", "2.4703282292062327e-324", "2.4703282292062328e-324", "2.2250738585072014e-308", "2.2250738585072011e-308",
    "1.7976931348623157e308", "1.7976931348623158e308", "1.797693134862315807e308", "1.797693134862315808e308",
    "179769313486231580793728971405303415079934132710037826936173778980444968292764750946649017977587207096330286416692887910946555547851940402630657488671505820681908902000708383676273854845817711531764475730270069855571366959622842914819860834936475292719074168444365510704342711559699508093042880177904174497791",
    "179769313486231580793728971405303415079934132710037826936173778980444968292764750946649017977587207096330286416692887910946555547851940402630657488671505820681908902000708383676273854845817711531764475730270069855571366959622842914819860834936475292719074168444365510704342711559699508093042880177904174497792",
    "1e400", "1e-400", "1e2147483000", "1e-2147483000", "123456789012345678901234567890e2147483000",
    "123456789012345678901234567890e-2147483000", "1_000.5", "1_0.5e1_0", "00012.500e+03", "0.000001e6", "100e-2",
    "0x1", "0x1p0", "0x1.8", "0x1.8p1", "0x.8", "0x10", "0xffffffffffffffffffffffffffffffff", "0x1p-1074", "0x1p-1075",
    "0x3p-1075", "0x3p-1076", "0x1.8p-1074", "0x1.fffffffffffffp1023", "0x1.fffffffffffff8p1023", "0x1.fffffffffffff7ffp1023",
    "0x1p1023", "0x1p1024", "0x1.00000000000008p0", "0x1.00000000000008000000000001p0", "0x1.00000000000018p0",
    "0x1.000000000000080p0", "0x20000000000001", "0x20000000000001p1", "0x20000000000002", "0x40000000000003",
    "0x1.0000000000001p-1022", "0x0.0000000000001p-1022", "0x0.00000000000018p-1022", "0X1P+4", "0x1_0p0_1",
    "1p4", "15p0", "1.5p3", "1.5P-1", "0.1p0", "10p-1",
    "2.5e3", "-2.5e-3", ".953e20", "1.7976931348623157E+308", "2.2250738585072014E-308", "123.456", "0.00000001",
    "12345678901234567890123456789012345678901234567890123456789012345678901234567890",
    "0.12345678901234567890123456789012345678901234567890123456789012345678901234567890",
    "5e-324", "3e-324", "2e-324", "7e-324", "8.5e-324", "1e-320", "4.94065645841246544e-324",
]


def dyadic_decimal(n, k):
    """exact decimal text of n / 2^k  (n > 0, k >= 0)"""
    if k == 0:
        return str(n)
    digs = str(n * 5 ** k)
    if len(digs) <= k:
        digs = "0" * (k - len(digs) + 1) + digs
    ip, fp = digs[:-k], digs[-k:].rstrip("0")
    return ip + ("." + fp if fp else "")


def sci(digs, e10, rng):
    """writes the value 0.<digs> * 10^e10 ... in one of several spellings (same value)"""
    # digs: digit string without dot, value = int(digs) * 10^e10
    style = [0, 0, 0, 0, 0, 1, 1, 1, 1, 1, 2, 2, 2, 2, 2, 3, 3, 3, 3, 3, 4, 5, 5, 5][rng.below(24)]
    if style == 0 or len(digs) == 1:
        return "%se%d" % (digs, e10)
    if style == 1:
        return "%s.%se%d" % (digs[0], digs[1:], e10 + len(digs) - 1)
    if style == 2:
        k = rng.range(1, len(digs) - 1)
        return "%s.%sE%+d" % (digs[:k], digs[k:], e10 + len(digs) - k)
    if style == 3:
        return "0.%se%d" % (digs, e10 + len(digs))
    if style == 4:
        z = rng.range(1, 4)
        return ".%s%se%d" % ("0" * z, digs, e10 + len(digs) + z)
    return "%s%s.e%d" % (digs, "0" * 2, e10 - 2)


def rand_digits(rng, n):
    d = str(rng.range(1, 9))
    for _ in range(n - 1):
        d += str(rng.below(10))
    return d


def decorate(s, rng):
    """sign / underscore / case / leading zero variants that do not change the value"""
    if rng.chance(1, 6):
        s = ("-" if rng.chance(1, 2) else "+") + s
    if rng.chance(1, 12) and len(s) > 3:
        # an underscore between two digits
        idx = [i for i in range(1, len(s)) if s[i - 1].isdigit() and s[i].isdigit()]
        if idx:
            i = rng.choice(idx)
            s = s[:i] + "_" + s[i:]
    return s


def gen_numerals(ctx):
    """returns list of (stratum, text)"""
    rng = ctx.rng
    out = [("corpus", s) for s in CORPUS]
    B = ctx.budget
    # 1. exhaustive small domain: every mantissa 1..99 with every exponent -40..40 (Clinger range and just outside)
    for w in range(1, B(60, 100)):
        for e in range(-40, 41):
            out.append(("small-exhaustive", "%de%d" % (w, e)))
    # 2. short mantissas (1..16 digits), moderate exponents, mixed spellings
    for _ in range(B(2000, 60000)):
        digs = rand_digits(rng, rng.range(1, 16))
        out.append(("short", decorate(sci(digs, rng.range(-45, 45), rng), rng)))
    # 3. around the 2^53 and 2^64 guards
    for _ in range(B(600, 8000)):
        base = rng.choice([P53, P64, 10 ** 15, 10 ** 16, 10 ** 19])
        w = max(1, base + rng.range(-3, 3)) if rng.chance(1, 2) else rng.range(P53 - 50, P64 + 50)
        e = rng.choice([0, 0, 1, -1, 22, -22, 23, -23, rng.range(-330, 310)])
        out.append(("guards", "%de%d" % (w, e)))
    # 4. 17..40 digit mantissas
    for _ in range(B(1500, 50000)):
        digs = rand_digits(rng, rng.range(17, 40))
        out.append(("long", decorate(sci(digs, rng.range(-360, 330), rng), rng)))
    # 5. any exponent, short mantissa (the multi-table fast path)
    for _ in range(B(2000, 80000)):
        digs = rand_digits(rng, rng.range(1, 16))
        out.append(("wide-exponent", sci(digs, rng.range(-345, 312), rng)))
    # 6. extreme exponents
    for _ in range(B(400, 5000)):
        digs = rand_digits(rng, rng.range(1, 30))
        e = rng.choice([rng.range(300, 320), rng.range(-345, -300), rng.range(320, 6000), rng.range(-6000, -345),
                        rng.range(10 ** 6, 2 * 10 ** 9), -rng.range(10 ** 6, 2 * 10 ** 9)])
        out.append(("extreme-exponent", "%se%d" % (digs, e - (len(digs) if rng.chance(1, 2) else 0))))
    # 7. halfway cases m*2^e +- ulp/2 and their neighbours, normal and subnormal, decimal and hex
    for _ in range(B(900, 15000)):
        sub = rng.chance(1, 4)
        if sub:
            m = rng.range(1, P52 - 1)
            e = -1074
        else:
            m = rng.range(P52, P53 - 1)
            e = rng.choice([rng.range(-1074, 970), rng.range(-80, 80), rng.range(-1074, -1000), rng.range(900, 970)])
        h = 2 * m + 1                       # halfway between m and m+1, in units of 2^(e-1)
        k = -(e - 1)
        if k >= 0:
            txt = dyadic_decimal(h, k)
        else:
            txt = str(h << (-k))
        which = rng.below(4)
        if which == 1:                      # just above the tie
            txt = (txt if "." in txt else txt + ".") + "0" * rng.below(3) + "1"
        elif which == 2:                    # just below the tie: decrement the last digit, append 9s
            body = txt.rstrip("0") if "." in txt else txt
            i = len(body) - 1
            while body[i] in ".0":
                i -= 1
            body = body[:i] + str(int(body[i]) - 1) + body[i + 1:]
            txt = (body if "." in body else body + ".") + "9" * rng.range(1, 4)
        elif which == 3:                    # a representable neighbour exactly
            txt = dyadic_decimal(m, -e) if e < 0 else str(m << e)
        out.append(("halfway-dec" + ("-subnormal" if sub else ""), txt))
        hx = "%x" % h
        tail = ["", "0", "00000001", "8", "7fffffffffff"][rng.below(5)]
        pe = e - 1 - 4 * len(tail)
        hv = "0x%s%sp%d" % (hx, tail, pe)
        if rng.chance(1, 3) and len(hx) > 1:
            hv = "0x%s.%s%sp%d" % (hx[0], hx[1:], tail, e - 1 + 4 * (len(hx) - 1))
        out.append(("halfway-hex" + ("-subnormal" if sub else ""), hv))
    # 8. subnormal range, random digits
    for _ in range(B(600, 10000)):
        digs = rand_digits(rng, rng.range(1, 25))
        out.append(("subnormal", sci(digs, rng.range(-345, -306) - len(digs) + 1, rng)))
    # 9. overflow boundary
    for _ in range(B(300, 5000)):
        digs = "179769313486231" + rand_digits(rng, rng.range(1, 12))
        if rng.chance(1, 2):
            digs = "1797693134862315" + rng.choice(["7", "8", "807", "808", "80793", "80794"]) + rand_digits(rng, rng.range(1, 6))
        out.append(("overflow", sci(digs, 308 - len(digs) + 1, rng)))
    # 10. hex floats
    for _ in range(B(1500, 30000)):
        n = rng.range(1, 30)
        hx = "".join("0123456789abcdefABCDEF"[rng.below(22)] for _ in range(n))
        if rng.chance(1, 2):
            k = rng.range(0, n)
            hx = hx[:k] + "." + hx[k:]
        if hx == ".":
            hx = "1."
        if rng.chance(1, 8):
            s = "0x" + hx
        else:
            s = "0x%sp%d" % (hx, rng.choice([rng.range(-1200, 1100), rng.range(-60, 60), rng.range(-1140, -1000)]))
        out.append(("hex", decorate(s, rng) if s[0] != "0" else (("-" if rng.chance(1, 8) else "") + s)))
    # 11. decimal mantissa with a binary exponent (accepted by the lexer regexp)
    for _ in range(B(150, 2000)):
        digs = rand_digits(rng, rng.range(1, 6))
        if rng.chance(1, 2) and len(digs) > 1:
            k = rng.range(1, len(digs) - 1)
            digs = digs[:k] + "." + digs[k:]
        out.append(("dec-mantissa-bin-exponent", "%sp%d" % (digs, rng.range(-20, 20))))
    # 12. boundary strata for every multi-word arithmetic step of the repaired fast path
    out += gen_arith_boundaries(ctx)
    return out


def gen_arith_boundaries(ctx):
    """Deterministic witnesses around each integer step of exactPow10 / the base-2 exactness test:
       * wrap witnesses: odd w <= 2^53, k in 5..22 with w * 5^k >= 2^64 but (w * 5^k mod 2^64) <= 2^53
         (a 64-bit product would call them exact), built as w = r * (5^k)^-1 mod 2^64 for odd r <= 2^53,
         also with trailing zero bits added to w, and the near misses r just above 2^53;
       * products w * 5^k at 2^53 and 2^64 (largest below, smallest above), with trailing zero bits;
       * negative exponents: w = q * 5^k exactly and off by one, q up to 2^53 / 5^k;
       * base 2: exp + trailing zeros at -1074 / -1075, and 2^1024 overflow."""
    rng = ctx.rng
    out = []
    tries = ctx.budget(24000, 400000)
    keep = ctx.budget(6, 60)
    for k in range(1, 23):
        p = 5 ** k
        pinv = pow(p, -1, P64)
        # -- wrap witnesses (exist only when 2^53 * 5^k >= 2^64, i.e. k >= 5)
        if P53 * p >= P64:
            got = 0
            r = rng.range(0, (P53 - 2 * tries) // 2) * 2 + 1
            for _ in range(tries):
                w = (r * pinv) & (P64 - 1)
                if w <= P53 and w * p >= P64:
                    out.append(("wrap-witness", "%de%d" % (w, k)))
                    t = 53 - w.bit_length()
                    if t > 0:
                        out.append(("wrap-witness", "%de%d" % (w << rng.range(1, t), k)))
                    if got % 3 == 0:
                        d = str(w)
                        out.append(("wrap-witness", "%s%s.%se%d" % ("-" if got % 2 else "", d[0], d[1:], k + len(d) - 1)))
                    got += 1
                    if got >= keep:
                        break
                r += 2
            # near misses: the low 64 bits are just above 2^53 (not exact in any arithmetic)
            got = 0
            r = P53 + 1 + 2 * rng.range(0, 1 << 30)
            for _ in range(tries):
                w = (r * pinv) & (P64 - 1)
                if w <= P53 and w * p >= P64:
                    out.append(("wrap-near-miss", "%de%d" % (w, k)))
                    got += 1
                    if got >= max(2, keep // 3):
                        break
                r += 2
        # -- products at the 2^53 and 2^64 boundaries
        for lim in (P53, P64):
            q = lim // p
            for w in (q - 2, q - 1, q, q + 1, q + 2):
                if 1 <= w <= P53:
                    out.append(("product-boundary", "%de%d" % (w, k)))
                    odd = w >> ((w & -w).bit_length() - 1)
                    t = 53 - odd.bit_length()
                    if t > 0:
                        out.append(("product-boundary", "%de%d" % (odd << rng.range(1, t), k)))
        # -- divisibility by 5^k, exactly and off by one
        qmax = P53 // p
        for q in {1, 2, 3, qmax, qmax - 1, max(1, qmax // 2), rng.range(1, qmax), rng.range(1, qmax)}:
            if q < 1:
                continue
            for w in (q * p - 1, q * p, q * p + 1):
                if 1 <= w <= P53:
                    out.append(("divisibility-boundary", "%de-%d" % (w, k)))
        out.append(("divisibility-boundary", "%de-%d" % (P53, k)))
        out.append(("divisibility-boundary", "%de-%d" % ((qmax + 1) * p, k)))       # just above 2^53: strconv branch
    # -- base 2: exponent plus trailing zeros at the subnormal limit; overflow limit
    for _ in range(ctx.budget(60, 1000)):
        m = rng.range(1, P53) | 1
        if rng.chance(1, 3):
            m = rng.range(1, 255) | 1
        t = rng.range(0, 53 - m.bit_length())
        for e in (-1073, -1074, -1075, -1076):
            out.append(("base2-boundary", "0x%xp%d" % (m << t, e - t)))
        out.append(("base2-boundary", "0x%xp%d" % (m << t, 1024 - (m.bit_length() + t))))
        out.append(("base2-boundary", "0x%xp%d" % (m << t, 1023 - (m.bit_length() + t))))
    return out


def coq_num(n):
    """big literals in hex: coqc reads a decimal literal in quadratic time"""
    return str(n) if n < 10 ** 30 else hex(n)


def classify_misrounding(mant, exp, binary, got_abs):
    """key for a wrong result, by the branch the representation takes and by whether the known
    mechanism reproduces the implementation's bits exactly"""
    br, e = branch_of(mant, exp, binary)
    if br == "fast10":
        if -22 <= e <= 22:
            return "fast-path-clinger-range-misrounded"
        if e < -324:
            return "fast-path-pow5-underflow-cutoff" if got_abs == 0 else "fast-path-unexplained"
        if got_abs == emul_fast10(mant, e, IDEAL):
            return "fast-path-double-rounding"
        if abs(e) % 32 == 23 and got_abs == emul_fast10(mant, e, PINNED_23):
            return "pow5-table-entry-23"
        return "fast-path-unexplained"
    if br == "base2-slow":
        return "base2-slow-path-misrounded" if got_abs == emul_base2_slow(mant, exp) else "base2-slow-path-unexplained"
    return "misrounded-in-branch-" + br


def run(ctx):
    rng = ctx.rng
    nums = gen_numerals(ctx)
    ctx.rule = ("numeral texts in strata: corpus; every mantissa 1..59 x exponent -40..40; short (1-16 digit) mantissas in 6 spellings; "
                "values around the 2^53 / 2^64 guards; 17-40 digit mantissas; exponents -345..312; extreme exponents up to 2e9; "
                "halfway points m*2^e + ulp/2 (exact, just above, just below, representable neighbour) in decimal and hex, normal and subnormal; "
                "subnormal range; overflow boundary; hex floats (1-30 hex digits, with/without dot and p exponent); decimal mantissa with p exponent; "
                "arithmetic boundaries of the repaired fast path: 64-bit wrap witnesses w*5^k >= 2^64 with low word <= 2^53 (k = 5..22, built by modular inverse) and near misses, "
                "products at 2^53 / 2^64, w = q*5^k exactly and off by one, base-2 exponent + trailing zeros at -1074/-1075 and at the overflow limit. "
                "distinct = distinct numeral text; non-trivial = non-zero mantissa")
    import time as _t
    t0 = _t.time()
    timing = {"generate_s": round(t0 - ctx.t0, 1)}
    ins = [{"mode": "num", "s": s} for _, s in nums]
    outs = ctx.impl("decfloat", ins)
    timing["impl_s"] = round(_t.time() - t0, 1)
    t0 = _t.time()
    terms, meta = [], []
    coq_budget = ctx.budget(COQ_CASES_QUICK, COQ_CASES_THOROUGH)
    per_stratum = {}
    for (stratum, s), o in zip(nums, outs):
        if "crash" in o or "panic" in o:
            ctx.corr_break("decfloat:num", {"s": s}, o)
            ctx.violation("panic", "Parse/Float64 panicked or crashed", {"s": s, "observed": o})
            continue
        tv = text_value(s)
        if tv is None:
            raise RuntimeError("generator produced a malformed numeral: %r" % s)
        neg, val, kind = tv
        if o["err"] != "":
            # Parse refuses: only exponents beyond int32 may be refused
            ctx.count(("n", s), True, stratum + ":parse-" + o["err"])
            if not (o["err"] == "range" and isinstance(val, str)):
                hx, has_exp, int_zero, lead, first = text_shape(s)
                # bitsx.AddOverflow(x, y) reports overflow for every y < 0: the exponent part is added to a
                # negative mantissa exponent (0.0ddd) and Parse answers ErrRange
                key = ("parse-range-error-negative-mantissa-exponent"
                       if o["err"] == "range" and has_exp and int_zero and lead > 0 and first is not None
                       else "parse-rejects-valid-numeral")
                ctx.violation(key, "Decimal.Parse rejects a numeral of the lexer's grammar",
                              {"numeral": s, "err": o["err"], "correct_bits": correct_bits(neg, val), "strconv_bits": o["pf"]})
            continue
        mant, exp, flags = int(o["mant"]), int(o["exp"]), int(o["flags"])
        binary = bool(flags & 2)
        got = int(o["bits"])
        want = correct_bits(neg, val)
        ctx.count(("n", s), mant != 0, stratum)
        # references must agree with each other (strconv where it accepts the spelling, big.Rat, this plugin)
        for name in ("pf", "rat"):
            if o[name] != "" and int(o[name]) != want:
                ctx.corr_break("oracle-references-disagree", {"s": s}, {"plugin": want, name: o[name]})
        if o["rat"] == "":
            ctx.corr_break("oracle-references-disagree", {"s": s}, {"rat": "reader rejected the numeral"})
        # direct oracle 0: the representation Parse built has the value of the text
        fv = fields_value(mant, exp, binary)
        parse_ok = same_value(fv, val if not (isinstance(val, Fraction) and val == 0) else Fraction(0)) and bool(flags & 1) == neg and (flags & ~3) == 0
        replay = {"numeral": s, "parsed": {"mant": o["mant"], "exp": exp, "flags": flags}, "float64_bits": got,
                  "exact_flag": o["exact"], "correct_bits": want, "strconv_bits": o["pf"], "bigrat_bits": o["rat"]}
        if not parse_ok:
            key = "parse-value-wrong"
            if kind == "dec-p":
                key = "dec-mantissa-bin-exponent-misparsed"
            elif kind == "hex" and isinstance(val, Fraction) and isinstance(fv, Fraction):
                hx, has_exp, int_zero, lead, first = text_shape(s)
                # the first non-zero hex digit sits after the dot: its leading zero bits are not accounted for
                if int_zero and first is not None and first < 8 and fv == val * 2 ** (4 - first.bit_length()) and bool(flags & 1) == neg:
                    key = "hex-fraction-leading-digit-misparsed"
            ctx.violation(key, "Decimal.Parse builds a representation whose value differs from the numeral's", replay)
        else:
            # direct oracle 1: correctly rounded
            if got != want:
                key = classify_misrounding(mant, exp, binary, got & (P63 - 1))
                ctx.violation(key, "Float64 is not the nearest binary64 (ties to even) of the numeral", replay)
            # direct oracle 2: exact flag sound
            if o["exact"]:
                sg, fr = fraction_of_bits(got)
                if fr is None or isinstance(_sym(val), str) or fr != val:
                    br, e = branch_of(mant, exp, binary)
                    key = {"fast10": "exact-flag-unsound", "base2-ldexp": "exact-flag-unsound-base2"}.get(br, "exact-flag-unsound-in-branch-" + br)
                    ctx.violation(key, "Float64 reports exact although the result differs from the numeral's value", replay)
        # correspondence term (model evaluated on the representation the implementation built)
        br, e = branch_of(mant, exp, binary)
        heavy = (br == "strconv" and (abs(e) > 1200 or len(o["mant"]) > 900)) or abs(exp) > 10 ** 6
        n_here = per_stratum.get(stratum, 0)
        if not heavy:
            per_stratum[stratum] = n_here + 1
            terms.append((stratum, "CNum %s %s %s %s %d %s" % (coq_bool(bool(flags & 1)), coq_bool(binary), coq_num(mant),
                                                                  coq_Z(exp), got, coq_bool(o["exact"])),
                          len(o["mant"]) if br == "strconv" else len(o["mant"]) // 8))
            meta.append(({"s": s}, o))
    for st in ("corpus", "small-exhaustive", "halfway-dec", "hex"):
        for (x, s) in nums:
            if x == st:
                ctx.sample({"stratum": st, "numeral": s})
                break

    timing["oracle_s"] = round(_t.time() - t0, 1)
    t0 = _t.time()
    # representations built directly (not necessarily reachable by Parse): model correspondence only
    frs = []
    for _ in range(ctx.budget(300, 5000)):
        binary = rng.chance(1, 2)
        mant = rng.choice([rng.range(0, 20), rng.range(1, P53), rng.range(P53 - 5, P53 + 5), rng.range(P53, P64), rng.range(P64 - 5, P64 + 5),
                           rng.range(1, 1 << 200), rng.range(1, 1000) * 10 ** rng.range(0, 20), rng.range(1, 1000) << rng.range(0, 80)])
        exp = rng.choice([rng.range(-1200, 1200), rng.range(-30, 30), rng.range(-400, 400)])
        frs.append({"mode": "fields", "mant": str(mant), "exp": exp, "neg": rng.chance(1, 4), "bin": binary})
    fouts = ctx.impl("decfloat", frs)
    for i, o in zip(frs, fouts):
        if "crash" in o or "panic" in o:
            ctx.corr_break("decfloat:fields", i, o)
            continue
        ctx.count(("f", i["mant"], i["exp"], i["neg"], i["bin"]), True, "fields")
        terms.append(("fields", "CNum %s %s %s %s %s %s" % (coq_bool(i["neg"]), coq_bool(i["bin"]), coq_num(int(i["mant"])), coq_Z(i["exp"]), o["bits"], coq_bool(o["exact"])), 0))
        meta.append((i, o))

    # pow5 alone, and the compiled tables against the transcription
    pws = []
    for _ in range(ctx.budget(400, 6000)):
        f = rng.choice([bits_of_pyfloat(float(rng.range(0, P53))), rng.range(0, INF_BITS - 1), bits_of_pyfloat(float(rng.range(0, 1000)))])
        n = rng.choice([rng.range(-330, 315), rng.range(-40, 40), rng.choice([0, 22, 23, -23, 309, 310, -324, -325, 31, 32, -32, 55, -55])])
        pws.append({"mode": "pow5", "f": str(f), "n": n})
    for i, o in zip(pws, ctx.impl("decfloat", pws)):
        if "crash" in o or "panic" in o:
            ctx.corr_break("decfloat:pow5", i, o)
            continue
        ctx.count(("p", i["f"], i["n"]), True, "pow5")
        terms.append(("pow5", "CPow5 %s %s %s" % (i["f"], coq_Z(i["n"]), o["bits"]), 0))
        meta.append((i, o))
    to = ctx.impl("decfloat", [{"mode": "tables"}], shards=1)[0]
    if "crash" in to or "panic" in to:
        ctx.corr_break("decfloat:tables", {}, to)
    else:
        for wi, name in enumerate(TABLES):
            terms.append(("tables", "CLen %d %d" % (wi, len(to[name])), 0))
            meta.append(({"table": name, "len": True}, {"len": len(to[name])}))
            for k, b in enumerate(to[name]):
                ctx.count(("t", name, k), True, "tables")
                terms.append(("tables", "CTab %d %d %s" % (wi, k, b), 0))
                meta.append(({"table": name, "index": k}, {"bits": b}))

    # in-Coq evaluation: everything from the small strata, a budgeted sample of the large ones
    small = {"corpus", "tables", "pow5", "fields", "guards", "overflow", "dec-mantissa-bin-exponent",
             "wrap-witness", "wrap-near-miss", "product-boundary", "divisibility-boundary", "base2-boundary"}
    # (a case with a mantissa of several hundred digits costs about a second in coqc: those are capped)
    heavy = [k for k, t in enumerate(terms) if t[2] > 100]
    heavy = rng.shuffle(heavy)[:ctx.budget(COQ_HEAVY_QUICK, COQ_HEAVY_THOROUGH)]
    idx_small = [k for k, t in enumerate(terms) if t[0] in small and t[2] <= 100]
    idx_big = [k for k, t in enumerate(terms) if t[0] not in small and t[2] <= 100]
    room = max(0, coq_budget - len(idx_small) - len(heavy))
    if len(idx_big) > room:
        idx_big = rng.shuffle(idx_big)[:room]
    # heavy cases are spread over the shards
    light = sorted(idx_small + idx_big)
    chosen = []
    step = max(1, len(light) // max(1, len(heavy)))
    hq = list(heavy)
    for j, k in enumerate(light):
        if j % step == 0 and hq:
            chosen.append(hq.pop())
        chosen.append(k)
    chosen += hq
    timing["impl2_s"] = round(_t.time() - t0, 1)
    t0 = _t.time()
    if os.environ.get("C39_DUMP_TERMS"):
        with open(os.environ["C39_DUMP_TERMS"], "w") as f:
            for k in chosen:
                f.write("%s\t%d\t%s\n" % (terms[k][0], terms[k][2], terms[k][1]))
    header = ("From Coq Require Import List ZArith NArith Bool.\nImport ListNotations.\n"
              "From PV Require Import Common.Corr %s.\nOpen Scope N_scope.\n" % MODEL_IMPORT)
    mism, err = coq_eval_mismatches("cases_C39", header, [terms[k][1] for k in chosen], CHK, shard_size=COQ_SHARD)
    if err:
        raise RuntimeError(err)
    timing["coq_eval_s"] = round(_t.time() - t0, 1)
    ctx.extra["timing"] = timing
    ctx.extra["in_coq_cases"] = len(chosen)
    ctx.extra["model_variant"] = VARIANT
    ctx.traces = len(chosen)
    for j in mism:
        i, o = meta[chosen[j]]
        ctx.corr_break("decfloat:" + terms[chosen[j]][0], i, {"observed": o, "coq_case": terms[chosen[j]][1]})
